"""C01/C11: a zero-length vmap (or scan) of a static function produces an empty trace with score 0, but assess on
the trace's own (empty) choices raises MissingAddress, because the static language treats a statically empty
submap as a missing address even though no element is ever evaluated.
exit 0 = property holds, exit 1 = defect shows."""
import sys, os
os.environ.setdefault("JAX_PLATFORMS", "cpu")
import jax, jax.numpy as jnp, genjax

@genjax.gen
def f(x):
    return genjax.normal(x, 1.0) @ "x"

g = f.vmap(in_axes=(0,))
tr = g.simulate(jax.random.key(0), (jnp.zeros((0,)),))
try:
    s, r = g.assess(tr.get_choices(), tr.get_args())
    ok = float(s) == float(tr.get_score())
    print("assess ->", s, "OK" if ok else "WRONG"); sys.exit(0 if ok else 1)
except Exception as e:
    print("assess raised", type(e).__name__, e); sys.exit(1)
