(* JAX's threefry2x32 PRNG over N, bit-exact with jax.random.fold_in / split on this
   tree (jax_threefry_partitionable=True, so split(k,n)[i] = fold_in(k,i)); and the
   free key algebra (derivation paths) used by the distinctness theorems. *)
From Coq Require Import NArith List.
Import ListNotations.
Open Scope N_scope.

Definition m32 : N := 4294967296.
Definition add32 (a b : N) : N := (a + b) mod m32.
Definition rotl32 (x : N) (r : N) : N := ((N.shiftl x r) mod m32) + N.shiftr x (32 - r).

Definition rnd (r : N) (v : N * N) : N * N :=
  let '(a, b) := v in
  let a' := add32 a b in
  (a', N.lxor a' (rotl32 b r)).
Definition rounds (rs : list N) (v : N * N) : N * N := fold_left (fun v r => rnd r v) rs v.
Definition rot0 : list N := [13; 15; 26; 6].
Definition rot1 : list N := [17; 29; 16; 24].

Definition threefry2x32 (k : N * N) (x : N * N) : N * N :=
  let '(k0, k1) := k in
  let k2 := N.lxor (N.lxor k0 k1) 466688986 in   (* 0x1BD11BDA *)
  let inj (v : N * N) (a b i : N) := (add32 (fst v) a, add32 (snd v) (add32 b i)) in
  let v := (add32 (fst x) k0, add32 (snd x) k1) in
  let v := inj (rounds rot0 v) k1 k2 1 in
  let v := inj (rounds rot1 v) k2 k0 2 in
  let v := inj (rounds rot0 v) k0 k1 3 in
  let v := inj (rounds rot1 v) k1 k2 4 in
  inj (rounds rot0 v) k2 k0 5.

Definition key := (N * N)%type.
Definition fold_in (k : key) (d : N) : key := threefry2x32 k (0, d mod m32).
Definition split_i (k : key) (i : N) : key := fold_in k i.   (* split(k, n)[i] *)
Definition key_of_seed (s : N) : key := (0, s).

Example fold_in_matches_jax : fold_in (0, 7) 5 = (3583082021, 1947592014).
Proof. vm_compute. reflexivity. Qed.
Example split_matches_jax : (split_i (0, 7) 0, split_i (0, 7) 2) = ((3625411723, 1954958720), (966301609, 1948237315)).
Proof. vm_compute. reflexivity. Qed.

(* ---- free key algebra: a key is the path of fold_in data from the root ---- *)
Definition fkey := list N.
Definition ffold_in (k : fkey) (d : N) : fkey := k ++ [d].
Definition eval_fkey (root : key) (p : fkey) : key := fold_left fold_in p root.
Lemma eval_ffold root p d : eval_fkey root (ffold_in p d) = fold_in (eval_fkey root p) d.
Proof. unfold eval_fkey, ffold_in. now rewrite fold_left_app. Qed.
