"""C22: tracing the same address twice raises AddressReuse in simulate / importance / update, but assess never
records the visited addresses: a static function that traces "x" twice is assessed without complaint (both sites
read the same value and both log-densities are added).   exit 0 = property holds, exit 1 = defect shows."""
import sys, os
os.environ.setdefault("JAX_PLATFORMS", "cpu")
import jax, jax.numpy as jnp, genjax
from genjax import ChoiceMapBuilder as C

@genjax.gen
def f():
    a = genjax.normal(0.0, 1.0) @ "x"
    b = genjax.normal(0.0, 2.0) @ "x"
    return a + b

try:
    f.simulate(jax.random.key(0), ())
    print("simulate did not raise"); sys.exit(1)
except Exception as e:
    assert type(e).__name__ == "AddressReuse", e
try:
    s, r = f.assess(C["x"].set(0.5), ())
    print("assess returned", float(s), "for a function that traces 'x' twice"); sys.exit(1)
except Exception as e:
    print("assess raised", type(e).__name__); sys.exit(0 if type(e).__name__ == "AddressReuse" else 1)
