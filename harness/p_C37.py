"""C37 — DiscreteHMM posterior density and sampler are exact.  Engine C-hmm.

Tie: for each configuration x sequence length (a "bundle") the implementation's own float32
softmax tables are read as exact rationals and shipped to Coq together with what the three
public entry points (and forward_filtering_backward_sampling) returned; coq/model/HMM.v is
evaluated on them by vm_compute and the comparison is a Coq boolean:
  * exp(estimate_logpdf), exp(data_logpdf), exp(forward_filters): a rational enclosure of
    exp(float32 value) must lie within model * (1 +- 1e-4)   (HPost / HData / HFilt);
  * random_weighted's sample: the sub keys must be the model's key chain (Key.v threefry) and the
    sample must be the Gumbel-max winner of the model's backward distributions under the noise of
    those sub keys, ties closer than 1e-3 not judged (HSamp);
  * the config's logits = the model's scaled_circulant, exactly (HLogits).
Direct oracle (no model): numpy float64 brute-force enumeration from the config's logits.
Every check is judged on every bundle, including asymmetric transition tables (wrapped bands): since
the repair F37 the forward pass contracts over the previous state and the sampler is exact there too.
"""
import itertools
import json
import math
import subprocess
from concurrent.futures import ThreadPoolExecutor

import numpy as np

from . import core
from . import hmm
from .hmm import c_cfg, c_enc, c_ints, c_key, c_expg, c_mat, c_float, c_int, clist

SIG = [0.25, 0.5, 0.75, 1.0, 1.25, 1.5, 2.0]
HEADER = "From Coq Require Import List NArith QArith Qcanon Uint63.\nFrom Model Require Import Key HMM.\nOpen Scope uint63_scope."

CORE = [  # (N, kt, ko, st, so, T)
    (3, 1, 1, 0.5, 0.75, 3),
    (3, 2, 1, 2.0, 0.5, 3),      # band wraps: asymmetric transition table
    (2, 1, 0, 1.5, 0.5, 3),
    (3, 0, 2, 0.75, 1.25, 2),    # asymmetric observation table (allowed)
    (1, 0, 0, 0.5, 0.5, 2),
    (3, 1, 1, 1.25, 0.25, 1),
]
CORE_THOROUGH = [(4, 1, 2, 0.5, 0.75, 4), (4, 2, 1, 1.5, 1.0, 3), (4, 3, 1, 2.0, 0.5, 2), (2, 2, 2, 0.5, 2.0, 4),
                 (3, 3, 3, 1.5, 0.75, 4), (4, 0, 0, 0.25, 0.25, 3)]


def gen_bundles(ctx):
    rng = ctx.rng
    maxN, maxT = ctx.n(3, 4), ctx.n(3, 4)
    specs = list(CORE) + ([] if ctx.quick else list(CORE_THOROUGH))
    want = ctx.n(9, 40)
    seen = set(specs)
    while len(specs) < want:
        N = rng.choice([2, 3, 3, 3] if ctx.quick else [2, 3, 3, 4, 4])
        kt = rng.choice([k for k in range(0, N + 1) if 2 * k <= N] * 3 + list(range(0, N + 1)))
        s = (N, kt, rng.randint(0, N), rng.choice(SIG), rng.choice(SIG), rng.randint(1, maxT))
        if s not in seen:
            seen.add(s)
            specs.append(s)
    bundles = []
    for (N, kt, ko, st, so, T) in specs:
        allobs = [list(o) for o in itertools.product(range(N), repeat=T)]
        if len(allobs) > 81:
            rng.shuffle(allobs)
            allobs = sorted(allobs[:48])
        nroots = ctx.n(4, 6)
        roots = [[rng.getrandbits(32), rng.getrandbits(32)] for _ in range(nroots)]
        freq = {"obs": rng.randrange(len(allobs)), "K": ctx.n(2000, 6000), "seed": rng.getrandbits(31)} if (N >= 2 and T >= 2) else None
        bundles.append({"N": N, "kt": kt, "ko": ko, "st": st, "so": so, "T": T, "obs": allobs, "roots": roots, "freq": freq,
                        "exhaustive_obs": len(allobs) == N ** T})
    return bundles


def run_workers(bundles, nproc=12, timeout=1500):
    nproc = max(1, min(nproc, len(bundles)))
    # longest first, round robin
    order = sorted(range(len(bundles)), key=lambda i: -(bundles[i]["N"] ** bundles[i]["T"]))
    shards = [order[i::nproc] for i in range(nproc)]

    env = dict(core.CHILD_ENV)
    # one thread per worker: the calls are Python-dispatch bound and the workers run side by side
    env["XLA_FLAGS"] = env.get("XLA_FLAGS", "") + " --xla_cpu_multi_thread_eigen=false intra_op_parallelism_threads=1"
    env.update({"OMP_NUM_THREADS": "1", "OPENBLAS_NUM_THREADS": "1", "MKL_NUM_THREADS": "1"})
    # XLA's persistent cache of COMPILED kernels (keyed by the HLO that tracing /repo's current code produces, the
    # jax version and the flags): the implementation still runs in full on every check, only the compilation of its
    # hundreds of tiny op-by-op kernels (80% of a cold worker's time) is reused by later runs.  Safe to delete.
    (core.OUT / "jaxcache").mkdir(parents=True, exist_ok=True)
    env.update({"JAX_COMPILATION_CACHE_DIR": str(core.OUT / "jaxcache"), "JAX_PERSISTENT_CACHE_MIN_COMPILE_TIME_SECS": "0",
                "JAX_PERSISTENT_CACHE_MIN_ENTRY_SIZE_BYTES": "0"})

    def run(ix):
        jobs = [bundles[i] for i in ix]
        try:
            p = subprocess.run([core.PY, "-W", "ignore", "-m", "harness.hmm"], input=json.dumps(jobs), cwd=str(core.VERIF),
                               env=env, timeout=timeout, stdout=subprocess.PIPE, stderr=subprocess.PIPE, text=True)
        except subprocess.TimeoutExpired:
            return ix, None, "timeout"
        if p.returncode != 0:
            return ix, None, p.stderr[-1500:]
        try:
            return ix, json.loads(p.stdout[p.stdout.index("["):]), ""
        except ValueError:
            return ix, None, "unparsable worker output: " + p.stdout[-300:] + p.stderr[-500:]

    results = [None] * len(bundles)
    errors = []
    with ThreadPoolExecutor(max_workers=nproc) as ex:
        for ix, res, err in ex.map(run, shards):
            if res is None:
                errors.append(err)
                continue
            for i, r in zip(ix, res):
                results[i] = r
    return results, errors


def cfgd(b):
    return {k: b[k] for k in ("N", "kt", "ko", "st", "so")}


# ---- oracles on one bundle's outputs (model-free) -----------------------------------
def oracle_bundle(b, r, ctx, stats):
    tab = r["tables"]
    ref = hmm.Ref(tab["tt"], tab["ot"])
    N, T = b["N"], b["T"]
    lats = list(itertools.product(range(N), repeat=T))
    sym = hmm.symmetric_tables(tab)
    fails = []   # (what, case, signature)
    for which, k_, eps, md, got in (("transition", b["kt"], tab["eps_t"], tab["md_t"], tab["tt"]), ("observation", b["ko"], tab["eps_o"], tab["md_o"], tab["ot"])):
        why = hmm.oracle_logits(N, k_, eps, md, got)
        if why:
            fails.append((f"{which}_tensor() of {cfgd(b)}: {why}", {"kind": "logits", "cfg": cfgd(b), "obs": b["obs"][0]}, None))
    for m, ys in enumerate(b["obs"]):
        j = ref.all_joint(ys)
        Z = sum(j.values())
        if not hmm.close(r["data"][m], Z):
            fails.append((f"data_logpdf({cfgd(b)}, obs={ys}) = {r['data'][m]!r}, exact log marginal is {math.log(Z)!r}",
                          {"kind": "data", "cfg": cfgd(b), "obs": ys}, None))
        for l, xs in enumerate(lats):
            stats["post_checked"] += 1
            if not hmm.close(r["post"][m][l], j[xs] / Z):
                fails.append((f"estimate_logpdf({list(xs)} | obs={ys}, {cfgd(b)}) = {r['post'][m][l]!r}, exact log posterior is {math.log(j[xs] / Z)!r}",
                              {"kind": "post", "cfg": cfgd(b), "obs": ys, "lat": list(xs)}, None))
        tot = sum(math.exp(v) for v in r["post"][m])
        if abs(tot - 1) > 1e-4:
            fails.append((f"estimate_logpdf not normalised over all {len(lats)} sequences: sum = {tot} ({cfgd(b)}, obs={ys})",
                          {"kind": "post", "cfg": cfgd(b), "obs": ys, "lat": list(lats[0]), "normalisation": True}, None))
        # sampler
        filt_ref = ref.filtering(ys)
        filt_bad = None
        for t in range(T):
            for i in range(N):
                if not hmm.close(r["filters"][m][t][i], filt_ref[t][i]):
                    filt_bad = filt_bad or (f"forward filter p(x_{t + 1}={i} | y_1..y_{t + 1}) = exp({r['filters'][m][t][i]!r}) = {math.exp(r['filters'][m][t][i]):.6f}, "
                                            f"exact {filt_ref[t][i]:.6f} ({cfgd(b)}, obs={ys}): the sampler does not draw from the posterior")
        for k, root in enumerate(b["roots"]):
            case = {"kind": "samp", "cfg": cfgd(b), "obs": ys, "root": root}
            v, w = r["rw_v"][m][k], r["rw_w"][m][k]
            stats["samp_checked"] += 1
            if v != r["ffbs_v"][m][k]:
                fails.append((f"random_weighted(key={root}) returned {v}, FFBS with its first sub key returns {r['ffbs_v'][m][k]} ({cfgd(b)}, obs={ys})", case, None))
                continue
            if not all(0 <= x < N for x in v):
                fails.append((f"random_weighted returned out-of-range states {v}", case, None))
                continue
            lp = r["post"][m][lats.index(tuple(v))]
            if not abs(w - lp) <= hmm.WTOL * max(1.0, abs(lp)):
                fails.append((f"random_weighted(key={root}) returned weight {w!r} for {v}, estimate_logpdf of that sequence is {lp!r} ({cfgd(b)}, obs={ys})", case, None))
            why = hmm.oracle_samp(ref, ys, r["gumbel"][k], v)
            if why:
                fails.append((f"random_weighted(key={root}) returned {v}: {why} ({cfgd(b)}, obs={ys})", case, None))
        if filt_bad:
            fails.append((filt_bad, {"kind": "filt", "cfg": cfgd(b), "obs": ys, "root": b["roots"][0]}, None))
    if r.get("freq") is not None:
        fq = b["freq"]
        ys = b["obs"][fq["obs"]]
        z, why = hmm.oracle_freq(ref, ys, r["freq"], fq["K"])
        stats["freq_worst_z"] = max(stats["freq_worst_z"], z)
        stats["freq_tests"] += 1
        if why:
            fails.append((f"random_weighted over {fq['K']} fixed keys: {why} ({cfgd(b)}, obs={ys})",
                          {"kind": "freq", "cfg": cfgd(b), "obs": ys, "seed": fq["seed"], "K": fq["K"]}, None))
    return fails, sym


# ---- Coq cases ------------------------------------------------------------------------
def coq_cases(b, r, cname):
    """(term, meta, number of implementation values in it); `cname` is the name under which the header
    defines this bundle's wcfg"""
    tab = r["tables"]
    N, T = b["N"], b["T"]
    lats = list(itertools.product(range(N), repeat=T))
    out = []
    out.append((f"WLogits {c_int(N)} {c_int(b['kt'])} {c_float(tab['eps_t'])} {c_float(tab['md_t'])} {c_mat(tab['tt'])}", ("logits", "transition", None), N * N))
    out.append((f"WLogits {c_int(N)} {c_int(b['ko'])} {c_float(tab['eps_o'])} {c_float(tab['md_o'])} {c_mat(tab['ot'])}", ("logits", "observation", None), N * N))
    for m, ys in enumerate(b["obs"]):
        posts = clist([f"({c_ints(xs)}, {c_enc(r['post'][m][l])})" for l, xs in enumerate(lats)])
        out.append((f"WPost {cname} {c_ints(ys)} {posts}", ("post", m, None), len(lats)))
        out.append((f"WData {cname} {c_ints(ys)} {c_enc(r['data'][m])}", ("data", m, None), 1))
        enc = clist([clist([c_enc(v) for v in row]) for row in r["filters"][m]])
        out.append((f"WFilt {cname} {c_ints(ys)} {enc}", ("filt", m, None), N * T))
        for k, root in enumerate(b["roots"]):
            subs = clist([c_key(w) for w in r["subs"][k]])
            es = clist([clist([c_expg(g) for g in row]) for row in r["gumbel"][k]])
            out.append((f"WSamp {cname} {c_ints(ys)} {c_key(root)} {subs} {es} {c_ints(r['rw_v'][m][k])}", ("samp", m, k), T))
    return out


def run(ctx):
    import time
    t0 = time.time()
    ctx.proofs()
    t1 = time.time()
    bundles = gen_bundles(ctx)
    results, werrs = run_workers(bundles + [{"malformed": True, "N": 0, "T": 0}])
    t2 = time.time()
    if len(results) > len(bundles):
        mal = results.pop()
        ctx.cov["malformed_stream"] = (mal or {}).get("malformed", mal)
    for e in werrs[:2]:
        ctx.fail("tie", "implementation worker failed: " + e[-600:])
    stats = {"post_checked": 0, "samp_checked": 0, "freq_worst_z": 0.0, "freq_tests": 0}
    terms, meta = [], []
    header = [HEADER, "Import ListNotations."]
    nval = 0
    files = set()
    nsym = nasym = 0
    noracle = 0
    for bi, (b, r) in enumerate(zip(bundles, results)):
        if r is None:
            continue
        if "error" in r:
            ctx.fail("oracle", f"DiscreteHMM raised on {cfgd(b)} T={b['T']}: {r['error']}",
                     case={"kind": "data", "cfg": cfgd(b), "obs": b["obs"][0]})
            continue
        files.add(r["genjax_file"])
        # canonical form of the forward filters: renormalised in float64 (a refactor that keeps them
        # unnormalised draws the same samples)
        r["filters"] = [[hmm.normalise_log(row) for row in f] for f in r["filters"]]
        if not r["filters_key_independent"]:
            ctx.fail("oracle", f"forward filters depend on the key ({cfgd(b)})", case={"kind": "filt", "cfg": cfgd(b), "obs": b["obs"][0], "root": b["roots"][0]})
        fails, sym = oracle_bundle(b, r, ctx, stats)
        nsym += sym
        nasym += (not sym)
        for what, case, sig in fails:
            noracle += 1
            if noracle <= 4:
                ctx.fail("oracle", what, case=case, signature=sig)
        header.append(f"Definition cfg{bi} : wcfg := {c_cfg(b['N'], r['tables'])}.")
        for term, mt, nv in coq_cases(b, r, f"cfg{bi}"):
            terms.append(term)
            meta.append((bi,) + mt + (nv,))
    mism, errs = core.coq_mismatches("C37", "\n".join(header), terms, "wcase", fn="wmismatches", shard=ctx.n(130, 400), timeout=900)
    t3 = time.time()
    ctx.cov["phase_seconds"] = {"proofs": round(t1 - t0, 1), "implementation": round(t2 - t1, 1), "oracle_and_coq": round(t3 - t2, 1)}
    for e in errs[:2]:
        ctx.fail("correspondence", "C-hmm case file did not evaluate: " + e)
    badvals = 0
    nshown = 0
    for n_, i in enumerate(mism):
        bi, kind, a, k, nv = meta[i]
        b, r = bundles[bi], results[bi]
        badvals += nv
        nshown += 1
        if nshown > 4:
            continue
        if kind == "logits":
            what = f"scaled_circulant model disagrees with the {a} logits of {cfgd(b)}: {r['tables']['tt' if a == 'transition' else 'ot']}"
            case = {"kind": "logits", "cfg": cfgd(b), "obs": b["obs"][0]}
        else:
            ys = b["obs"][a]
            case = {"kind": kind if kind != "samp" else "samp", "cfg": cfgd(b), "obs": ys}
            if kind == "post":
                case["lat"] = [0] * b["T"]
            if kind in ("filt", "samp"):
                case["root"] = b["roots"][k or 0]
            shown = {"post": "estimate_logpdf over all latent sequences", "data": f"data_logpdf = {r['data'][a]!r}",
                     "filt": f"forward_filters = {r['filters'][a]}",
                     "samp": f"random_weighted(key={b['roots'][k or 0]}) -> {r['rw_v'][a][k or 0]}"}[kind]
            what = f"model coq/model/HMM.v and implementation disagree ({kind}) on {cfgd(b)}, obs={ys}: {shown}"
        ctx.fail("correspondence", what, case=case)
    nval = sum(m[-1] for m in meta)
    ctx.cov["evaluations"] = nval
    ctx.cov["traces_validated_against_impl"] = nval - badvals
    ctx.cov["coq_cases"] = len(terms)
    by_kind = {}
    for m_ in meta:
        by_kind[m_[1]] = by_kind.get(m_[1], 0) + 1
    ctx.cov["by_kind"] = by_kind
    nontriv = set()
    for b, r in zip(bundles, results):
        if r is None or "error" in r or b["N"] < 2:
            continue
        key = (b["N"], b["kt"], b["ko"], b["st"], b["so"])
        for ys in b["obs"]:
            nontriv.add((key, tuple(ys)))
    ctx.cov["distinct_nontrivial"] = len(nontriv)
    ctx.cov["rule"] = ("a bundle = (N, adjacency_distance_trans, adjacency_distance_obs, sigma_trans, sigma_obs) x T; 6 fixed + seeded random bundles, "
                      f"N<={ctx.n(3, 4)}, T<={ctx.n(3, 4)}, adjacency 0..N, sigmas in {SIG}; every observation sequence (N^T<=81, else 48 sampled) x every latent sequence; "
                      "evaluations = implementation numbers compared inside Coq (densities, filter entries, sampler steps, logits); "
                      "distinct_nontrivial = distinct (configuration, observation sequence) pairs with N>=2 states")
    ctx.cov["bundles"] = [{**cfgd(b), "T": b["T"], "n_obs": len(b["obs"]), "exhaustive_obs": b["exhaustive_obs"]} for b in bundles]
    ctx.cov["exhaustive"] = all(b["exhaustive_obs"] for b in bundles)
    ctx.cov["symmetric_bundles"], ctx.cov["asymmetric_bundles"] = nsym, nasym
    ctx.cov["oracle"] = stats
    ctx.cov["genjax_file"] = sorted(files)
    ctx.cov["tolerances"] = {"relative_on_exp_logdensity": hmm.REL, "gumbel_replay_margin": hmm.MARGIN, "rw_weight_vs_estimate_logpdf": hmm.WTOL, "frequency_sigmas": 6.0}
    ctx.cov["trusted_base"] += ["float32 -> exact dyadic rationals (float.as_integer_ratio); exp() of the implementation's log values by IEEE float64 math.exp, enclosed +-2^-40 and compared inside Coq",
                                "jax.random.categorical = argmax(logits + gumbel(key)) (JAX 0.5.2 source); TFP HiddenMarkovModel.log_prob modelled as the forward algorithm (tfp_step)"]
    samples = []
    for b, r in list(zip(bundles, results))[:2]:
        if r is None or "error" in r:
            continue
        samples.append({"cfg": cfgd(b), "obs": b["obs"][-1], "data_logpdf": r["data"][-1], "estimate_logpdf_first": r["post"][-1][0],
                        "random_weighted": [r["rw_w"][-1][0], r["rw_v"][-1][0]], "key": b["roots"][0]})
    ctx.add_samples(samples)
    ctx.log(f"C-hmm: {len(bundles)} bundles ({nsym} symmetric / {nasym} asymmetric), {len(terms)} Coq cases, {nval} numbers compared, "
            f"{stats['post_checked']} densities and {stats['samp_checked']} samples checked by the numpy oracle, worst frequency z = {stats['freq_worst_z']:.2f} "
            f"over {stats['freq_tests']} tests; genjax from {sorted(files)}")


# ---- replay of one oracle case on the implementation ------------------------------------
def replay(case):
    r = hmm.run_single(case)
    tab = r["tables"]
    ref = hmm.Ref(tab["tt"], tab["ot"])
    ys = case["obs"]
    kind = case["kind"]
    j = ref.all_joint(ys)
    Z = sum(j.values())
    ok = True
    if kind == "logits":
        b = case["cfg"]
        for which, k_, eps, md, got in (("transition", b["kt"], tab["eps_t"], tab["md_t"], tab["tt"]), ("observation", b["ko"], tab["eps_o"], tab["md_o"], tab["ot"])):
            why = hmm.oracle_logits(b["N"], k_, eps, md, got)
            print(f"{which}_tensor(): {why or 'ok'}")
            ok = ok and why is None
    elif kind == "post":
        if case.get("normalisation"):
            import jax
            from genjax._src.generative_functions.distributions.custom import discrete_hmm as dh
            import jax.numpy as jnp
            cfg = hmm.make_cfg(**case["cfg"])
            tot = 0.0
            for xs in j:
                tot += math.exp(float(dh.DiscreteHMM.estimate_logpdf(jax.random.key(0), jnp.array(xs), cfg, jnp.array(ys))))
            print(f"sum over all sequences of exp(estimate_logpdf) = {tot}")
            ok = abs(tot - 1) <= 1e-4
        want = j[tuple(case["lat"])] / Z
        print(f"estimate_logpdf({case['lat']} | {ys}) = {r['post']!r}; exact log posterior {math.log(want)!r}")
        ok = ok and hmm.close(r["post"], want)
    elif kind == "data":
        print(f"data_logpdf({ys}) = {r['data']!r}; exact log marginal {math.log(Z)!r}")
        ok = hmm.close(r["data"], Z)
    elif kind in ("filt", "samp"):
        N, T = case["cfg"]["N"], len(ys)
        filt_ref = ref.filtering(ys)
        r["filters"] = [hmm.normalise_log(row) for row in r["filters"]]
        for t in range(T):
            for i in range(N):
                if not hmm.close(r["filters"][t][i], filt_ref[t][i]):
                    print(f"forward filter p(x_{t + 1}={i} | y_1..y_{t + 1}): implementation {math.exp(r['filters'][t][i]):.6f}, exact {filt_ref[t][i]:.6f}")
                    ok = False
        v = r["rw_v"]
        print(f"random_weighted(key={case['root']}) -> weight {r['rw_w']!r}, sample {v}; estimate_logpdf(sample) = {r['post_at_v']!r}; FFBS(k1) sample {r['ffbs_v']}")
        if v != r["ffbs_v"] or not abs(r["rw_w"] - r["post_at_v"]) <= hmm.WTOL * max(1.0, abs(r["post_at_v"])):
            ok = False
        if not hmm.close(r["rw_w"], j[tuple(v)] / Z):
            print(f"weight is not the log posterior {math.log(j[tuple(v)] / Z)!r}")
            ok = False
        why = hmm.oracle_samp(ref, ys, r["gumbel"], v)
        if why:
            print(why)
            ok = False
    elif kind == "freq":
        z, why = hmm.oracle_freq(ref, ys, r["freq"], case["K"])
        print(f"frequency test over {case['K']} keys: worst z = {z:.2f}; {why or 'ok'}")
        ok = why is None
    print("property holds on this case" if ok else "property VIOLATED on this case")
    return ok
