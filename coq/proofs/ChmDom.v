(* Structural presence (`dom`): get_selection, filter, _shape_selection, invalid_subset (C17, C33). *)
From Coq Require Import List Bool ZArith Arith Lia.
Import ListNotations.
From Gen Require Import SelGen.
From Model Require Import Sel Flag Chm ChmSpec.
From Proofs Require Import SelProofs ChmBasics ChmLaws ChmLookup.
Open Scope Z_scope.

Lemma dom_Static m q :
  dom (Static m) q = match q with [] => false | k :: r => match assoc k m with Some c => dom c r | None => false end end.
Proof.
  simpl. destruct q as [|k r]; [reflexivity|].
  induction m as [|[k' c] m IH]; simpl; [reflexivity|]. destruct (Nat.eqb k' k); [reflexivity|exact IH].
Qed.
Lemma dom_Switch i cs q : dom (Switch i cs) q = existsb (fun c => dom c q) cs.
Proof. simpl. induction cs as [|c cs IH]; simpl; [reflexivity|]. now rewrite IH. Qed.
Lemma dom_empty q : dom empty q = false.
Proof. unfold empty. rewrite dom_Static. destruct q; reflexivity. Qed.

Lemma tidy_Static m : tidy (Static m) <-> NoDup (map fst m) /\ Forall (fun kv => tidy (snd kv)) m.
Proof.
  simpl. split; intros [H1 H2]; split; auto.
  - clear H1. induction m as [|kv m IH]; [constructor|]. destruct H2 as [Ha Hb]. constructor; auto.
  - clear H1. induction m as [|kv m IH]; [exact I|]. inversion H2; subst. split; [assumption|]. apply IH. assumption.
Qed.
Lemma shape_ok_Static m : shape_ok (Static m) <-> NoDup (map fst m) /\ Forall (fun kv => shape_ok (snd kv)) m.
Proof.
  simpl. split; intros [H1 H2]; split; auto.
  - clear H1. induction m as [|kv m IH]; [constructor|]. destruct H2 as [Ha Hb]. constructor; auto.
  - clear H1. induction m as [|kv m IH]; [exact I|]. inversion H2; subst. split; [assumption|]. apply IH. assumption.
Qed.
Lemma shape_ok_Switch i cs : shape_ok (Switch i cs) <-> Forall shape_ok cs.
Proof. simpl. induction cs as [|c cs IH]; split; intros H; try constructor; try tauto; inversion H; subst; tauto. Qed.
Lemma index_free_Static m : index_free (Static m) <-> Forall (fun kv => index_free (snd kv)) m.
Proof. simpl. induction m as [|kv m IH]; split; intros H; try constructor; try tauto; inversion H; subst; tauto. Qed.
Lemma index_free_Switch i cs : index_free (Switch i cs) <-> Forall index_free cs.
Proof. simpl. induction cs as [|c cs IH]; split; intros H; try constructor; try tauto; inversion H; subst; tauto. Qed.

Lemma dom_static_build m q : NoDup (map fst m) -> dom (static_build m) q = dom (Static m) q.
Proof.
  intros ND. unfold static_build. rewrite !dom_Static. destruct q as [|k r]; [reflexivity|].
  rewrite (assoc_filter_nodup _ k m ND). destruct (assoc k m) as [c|]; [|reflexivity].
  simpl. destruct (static_is_empty c) eqn:E; simpl; [|reflexivity].
  apply static_is_empty_true in E. subst. now rewrite dom_empty.
Qed.
Lemma tidy_static_build m : NoDup (map fst m) -> Forall (fun kv => tidy (snd kv)) m -> tidy (static_build m).
Proof.
  intros ND F. unfold static_build. apply tidy_Static. split; [now apply filter_keys_nodup|].
  apply Forall_forall. intros kv Hin. apply filter_In in Hin. rewrite Forall_forall in F. apply F. tauto.
Qed.
Lemma dom_indexed_build c a q : a <> IVec [] -> dom (indexed_build c a) q = dom c q.
Proof.
  intros Ha. unfold indexed_build. destruct (static_is_empty c); [reflexivity|].
  destruct a as [| |[|z l]|]; try reflexivity. congruence.
Qed.
Lemma tidy_indexed_build c a : tidy c -> a <> IVec [] -> tidy (indexed_build c a).
Proof.
  intros T Ha. unfold indexed_build. destruct (static_is_empty c); [exact T|].
  destruct a as [| |[|z l]|]; simpl; auto. congruence.
Qed.

(* ---- Or.build, on presence ---- *)
Lemma or_dom : forall n x y z, or_build n x y = OK z -> tidy x -> tidy y ->
  tidy z /\ forall q, dom z q = dom x q || dom y q.
Proof.
  induction n as [|n IH]; intros x y z H Tx Ty; [discriminate|]. cbn [or_build] in H.
  destruct (static_is_empty y) eqn:Ey.
  { injection H as <-. apply static_is_empty_true in Ey. subst. split; auto. intros q. now rewrite dom_empty, orb_false_r. }
  destruct (static_is_empty x) eqn:Ex.
  { injection H as <-. apply static_is_empty_true in Ex. subst. split; auto. intros q. now rewrite dom_empty. }
  destruct x as [m1|a|cx ax|ix csx|x1 x2]; destruct y as [m2|b|cy ay|iy csy|y1 y2]; try discriminate;
    try (destruct Tx; fail); try (destruct Ty; fail);
    try (injection H as <-; split; [split; [exact Tx|exact Ty]|reflexivity]).
  - (* Static, Static *)
    inv_bind H. injection H as <-.
    apply tidy_Static in Tx, Ty. destruct Tx as [ND1 All1], Ty as [ND2 All2]. rewrite Forall_forall in All1, All2.
    set (l2 := filter (fun kv : nat * chm => match assoc (fst kv) m1 with Some _ => false | None => true end) m2).
    apply mapM_OK in Ha.
    assert (Hkeys : map fst a = map fst m1).
    { clear -Ha. induction Ha as [|kv kv' m a H _ IHa]; simpl; [reflexivity|]. f_equal; [|exact IHa].
      destruct (assoc (fst kv) m2); [inv_bind H; injection H as <-; reflexivity|injection H as <-; reflexivity]. }
    assert (Hl1 : forall k, match assoc k m1, assoc k a with
                          | Some c1, Some c' => match assoc k m2 with Some c2 => or_build n c1 c2 = OK c' | None => c' = c1 end
                          | None, None => True
                          | _, _ => False end).
    { clear -Ha. induction Ha as [|[k1 v1] kv' m a H _ IHa]; intros k; simpl; [exact I|].
      simpl in H. destruct (assoc k1 m2) as [c2|] eqn:E2.
      - inv_bind H. injection H as <-. simpl. destruct (Nat.eqb k1 k) eqn:E; [|apply IHa].
        apply Nat.eqb_eq in E. subst. now rewrite E2.
      - injection H as <-. simpl. destruct (Nat.eqb k1 k) eqn:E; [|apply IHa].
        apply Nat.eqb_eq in E. subst. now rewrite E2. }
    assert (ND : NoDup (map fst (a ++ l2))).
    { rewrite map_app, Hkeys. apply nodup_app; auto.
      - apply filter_keys_nodup; exact ND2.
      - intros k Hin1 Hin2. apply in_map_iff in Hin2. destruct Hin2 as [[k' v] [<- Hin2]].
        apply filter_In in Hin2. destruct Hin2 as [_ Hin2]. simpl in *.
        destruct (assoc k' m1) eqn:E; [discriminate|]. apply assoc_None in E. contradiction. }
    assert (NDa : NoDup (map fst a)) by now rewrite Hkeys.
    assert (Hassoc_in : forall k c', In (k, c') a -> assoc k a = Some c').
    { clear -NDa. induction a as [|[k0 v0] a IHa]; intros k c' Hin; [destruct Hin|]. simpl in *.
      inversion NDa; subst. destruct Hin as [Hin|Hin].
      - injection Hin as -> ->. now rewrite Nat.eqb_refl.
      - destruct (Nat.eqb k0 k) eqn:E; [|auto]. apply Nat.eqb_eq in E. subst.
        exfalso. apply H1. apply in_map_iff. exists (k, c'). auto. }
    split.
    + apply tidy_static_build; auto. apply Forall_app. split.
      * apply Forall_forall. intros [k c'] Hin. simpl. pose proof (Hassoc_in _ _ Hin) as E'.
        specialize (Hl1 k). rewrite E' in Hl1. destruct (assoc k m1) as [c1|] eqn:E1; [|tauto].
        pose proof (All1 _ (assoc_In _ _ _ E1)) as T1. simpl in T1.
        destruct (assoc k m2) as [c2|] eqn:E2.
        -- pose proof (All2 _ (assoc_In _ _ _ E2)) as T2. simpl in T2. apply (IH _ _ _ Hl1 T1 T2).
        -- now subst.
      * apply Forall_forall. intros kv Hin. apply filter_In in Hin. apply All2. tauto.
    + intros q. rewrite dom_static_build by exact ND. rewrite !dom_Static. destruct q as [|k r]; [reflexivity|].
      rewrite assoc_app. specialize (Hl1 k).
      destruct (assoc k m1) as [c1|] eqn:E1; destruct (assoc k a) as [c'|] eqn:E'; try tauto.
      * pose proof (All1 _ (assoc_In _ _ _ E1)) as T1. simpl in T1.
        destruct (assoc k m2) as [c2|] eqn:E2.
        -- pose proof (All2 _ (assoc_In _ _ _ E2)) as T2. simpl in T2. apply (IH _ _ _ Hl1 T1 T2).
        -- subst. now rewrite orb_false_r.
      * unfold l2. rewrite (assoc_filter_nodup _ k m2 ND2). simpl. rewrite E1. destruct (assoc k m2); reflexivity.
  - (* Choice, Choice *)
    inv_bind H. injection H as <-.
    assert (Hz : exists l, choice_build (leaf_of_mask a0) = Choice l).
    { unfold mor in Ha. destruct (mask_of a) as [xa f] eqn:Ea. destruct (mask_of b) as [xb g] eqn:Eb.
      destruct (arr_shape_eqb xa xb && opt_nat_eqb (flag_len f) (flag_len g)); simpl in Ha; [|discriminate].
      assert (Hf : f = FS Py true \/ (exists p, f = FS Ar p) \/ exists l, f = FV l).
      { destruct a as [?|? [? ?|?]]; simpl in Ea; injection Ea as <- <-; eauto. }
      destruct Hf as [->|[[p ->]|[l ->]]].
      - injection Ha as <-. simpl. eauto.
      - destruct g as [sg pg|lg]; [|discriminate].
        assert (a0 = (if p then xa else xb, FS Ar (p || pg))) as -> by (destruct sg; injection Ha as <-; reflexivity).
        simpl. eauto.
      - destruct g as [sg pg|lg]; [discriminate|]. destruct xa; [discriminate|]. destruct xb; [discriminate|].
        destruct (is_rank1 (AN l0)); [|discriminate]. injection Ha as <-. simpl. eauto. }
    destruct Hz as [l Hl].
    change (tidy (choice_build (leaf_of_mask a0)) /\ forall q, dom (choice_build (leaf_of_mask a0)) q = dom (Choice a) q || dom (Choice b) q).
    rewrite Hl. split; [exact I|]. intros [|? ?]; reflexivity.
Qed.

(* ---- filter, on presence ---- *)
Lemma sel_dom : forall n s c z, filter_sel n s c = OK z -> tidy c ->
  tidy z /\ forall q, dom z q = dom c q && mem s q.
Proof.
  induction n as [|n IH]; intros s c z H T; [discriminate|].
  destruct c as [m|v|c a|i cs|a b]; cbn [filter_sel] in H; try (destruct T; fail).
  - inv_bind H. injection H as <-.
    apply tidy_Static in T. destruct T as [ND Hall]. rewrite Forall_forall in Hall.
    apply mapM_OK in Ha.
    assert (Hrel : Forall2 (fun kv kv' => fst kv' = fst kv /\ filter_sel n (get_subselection s (fst kv)) (snd kv) = OK (snd kv')) m a).
    { clear -Ha. induction Ha as [|kv kv' m a H _ IHa]; constructor; auto. inv_bind H. injection H as <-. simpl. auto. }
    assert (Hkeys : map fst a = map fst m).
    { clear -Hrel. induction Hrel as [|kv kv' m a [H _] _ IHa]; simpl; congruence. }
    assert (Hassoc : forall k, match assoc k m, assoc k a with
                             | Some c, Some c' => filter_sel n (get_subselection s k) c = OK c'
                             | None, None => True | _, _ => False end).
    { clear -Hrel. induction Hrel as [|[k1 v1] [k2 v2] m a [H1 H2] _ IHa]; intros k; simpl; [exact I|].
      simpl in H1, H2. subst k2. destruct (Nat.eqb k1 k) eqn:E; [|apply IHa]. apply Nat.eqb_eq in E. now subst. }
    assert (Hsub : forall kv', In kv' a -> exists c, In (fst kv', c) m /\ filter_sel n (get_subselection s (fst kv')) c = OK (snd kv')).
    { clear -Hrel. induction Hrel as [|kv kv' m a [H1 H2] _ IHa]; intros x Hin; [destruct Hin|].
      destruct Hin as [<-|Hin].
      - exists (snd kv). rewrite H1. split; [left; now destruct kv|exact H2].
      - destruct (IHa x Hin) as [c [Hc1 Hc2]]. exists c. split; [now right|exact Hc2]. }
    assert (ND' : NoDup (map fst a)) by now rewrite Hkeys.
    split.
    + apply tidy_static_build; auto. apply Forall_forall. intros kv' Hin.
      destruct (Hsub kv' Hin) as [c [Hc1 Hc2]]. apply (IH _ _ _ Hc2 (Hall _ Hc1)).
    + intros q. rewrite dom_static_build by exact ND'. rewrite !dom_Static. destruct q as [|k r]; [reflexivity|].
      rewrite mem_cons. specialize (Hassoc k).
      destruct (assoc k m) as [c|] eqn:E1; destruct (assoc k a) as [c'|] eqn:E2; try tauto.
      apply (IH _ _ _ Hassoc (Hall _ (assoc_In _ _ _ E1))).
  - injection H as <-. split.
    + destruct (check s); [exact I|]. apply tidy_Static. split; constructor.
    + intros q. destruct q as [|k r].
      * rewrite mem_nil. destruct (check s); [reflexivity|apply dom_empty].
      * destruct (check s); [reflexivity|apply dom_empty].
  - inv_bind H. injection H as <-. simpl in T. destruct T as [Tc Ha'].
    destruct (IH _ _ _ Ha Tc) as [T' A]. split; [now apply tidy_indexed_build|].
    intros q. rewrite dom_indexed_build by exact Ha'. apply A.
  - inv_bind H. inv_bind H. simpl in T. destruct T as [Ta Tb].
    destruct (IH _ _ _ Ha Ta) as [T1 A1]. destruct (IH _ _ _ Ha0 Tb) as [T2 A2].
    destruct (or_dom _ _ _ _ H T1 T2) as [T' A]. split; [exact T'|].
    intros q. rewrite A, A1, A2. simpl. now destruct (mem s q), (dom a q), (dom b q).
Qed.

(* a filter that rejects every leaf of the map returns Static({}) itself *)
Lemma filter_sel_empty : forall n s c z, filter_sel n s c = OK z -> tidy c ->
  (forall q, dom c q = true -> mem s q = false) -> z = empty.
Proof.
  induction n as [|n IH]; intros s c z H T Hrej; [discriminate|].
  destruct c as [m|v|c a|i cs|a b]; cbn [filter_sel] in H; try (destruct T; fail).
  - inv_bind H. injection H as <-.
    apply tidy_Static in T. destruct T as [ND Hall]. rewrite Forall_forall in Hall.
    apply mapM_OK in Ha.
    unfold static_build. replace (filter _ a) with (@nil (nat * chm)); [reflexivity|]. symmetry.
    assert (Hch : forall kv, In kv m -> forall q, dom (snd kv) q = true -> mem (get_subselection s (fst kv)) q = false).
    { intros [k c] Hin q Hd. cbn [fst snd] in *. rewrite <- mem_cons. apply Hrej. rewrite dom_Static.
      assert (E : assoc k m = Some c).
      { clear -ND Hin. induction m as [|[k0 v0] m IHm]; [destruct Hin|]. simpl in *. inversion ND; subst.
        destruct Hin as [Hin|Hin].
        - injection Hin as -> ->. now rewrite Nat.eqb_refl.
        - destruct (Nat.eqb k0 k) eqn:E; [|auto]. apply Nat.eqb_eq in E. subst.
          exfalso. apply H1. apply in_map_iff. exists (k, c). auto. }
      now rewrite E. }
    clear ND Hrej. induction Ha as [|kv kv' m a Hkv _ IHa]; [reflexivity|].
    apply bind_OK in Hkv. destruct Hkv as [x [Hx Hkv]]. injection Hkv as <-. simpl.
    rewrite (IH _ _ _ Hx (Hall kv (or_introl eq_refl)) (Hch kv (or_introl eq_refl))). simpl.
    apply IHa; intros y Hy; [apply Hall|apply Hch]; now right.
  - injection H as <-. specialize (Hrej [] eq_refl). rewrite mem_nil in Hrej. now rewrite Hrej.
  - inv_bind H. injection H as <-. simpl in T. destruct T as [Tc _].
    rewrite (IH _ _ _ Ha Tc Hrej). reflexivity.
  - inv_bind H. inv_bind H. simpl in T. destruct T as [Ta Tb].
    rewrite (IH _ _ _ Ha Ta), (IH _ _ _ Ha0 Tb) in H.
    + destruct n; [discriminate|]. now injection H as <-.
    + intros q Hd. apply Hrej. simpl. rewrite Hd. apply orb_true_r.
    + intros q Hd. apply Hrej. simpl. now rewrite Hd.
Qed.

(* ---- _shape_selection selects exactly the leaf addresses of the model's trace ---- *)
Lemma fold_res_err {A B} (f : res A -> B -> res A) (Hf : forall e b, f (Err e) b = Err e) l e : fold_left f l (Err e) = Err e.
Proof. induction l as [|b l IH]; simpl; [reflexivity|]. now rewrite Hf. Qed.

Lemma mem_extend1_name s k q : mem (Sel.extend s [CName k]) q = match q with [] => false | a :: r => Nat.eqb a k && mem s r end.
Proof. rewrite mem_extend. destruct q as [|a r]; reflexivity. Qed.

Lemma shape_selection_exact : forall n c s, shape_selection n c = OK s -> shape_ok c -> forall q, mem s q = dom c q.
Proof.
  induction n as [|n IH]; intros c s H Hok; [discriminate|].
  destruct c as [m|v|c a|i cs|a b]; cbn [shape_selection] in H; try (destruct Hok; fail).
  - (* Static *)
    apply shape_ok_Static in Hok. destruct Hok as [ND Hall].
    assert (G : forall m acc0 s, NoDup (map fst m) -> Forall (fun kv => shape_ok (snd kv)) m ->
              fold_left (fun acc kv => do a <- acc; do s <- shape_selection n (snd kv); OK (OrSel_build a (Sel.extend s [CName (fst kv)]))) m (OK acc0) = OK s ->
              forall q, mem s q = mem acc0 q || dom (Static m) q).
    { clear -IH. induction m as [|[k0 c0] m IHm]; intros acc0 s ND Hall H q; simpl in H.
      - injection H as <-. rewrite dom_Static. destruct q; now rewrite orb_false_r.
      - inversion ND as [|? ? Hnin ND']; subst. inversion Hall as [|? ? Hc0 Hall']; subst. simpl in Hc0.
        destruct (shape_selection n c0) as [s0|e] eqn:E0; simpl in H.
        2:{ rewrite fold_res_err in H; [discriminate|reflexivity]. }
        rewrite (IHm _ _ ND' Hall' H q).
        change (StaticSel_build s0 (CName k0)) with (Sel.extend s0 [CName k0]).
        rewrite mem_or_build, mem_extend1_name, !dom_Static.
        destruct q as [|k r]; [now rewrite !orb_false_r|]. simpl assoc.
        rewrite (IH _ _ E0 Hc0 r). rewrite (Nat.eqb_sym k k0).
        destruct (Nat.eqb k0 k) eqn:Ek; simpl.
        + apply Nat.eqb_eq in Ek. subst. apply assoc_None in Hnin. rewrite Hnin. now rewrite orb_false_r.
        + now rewrite orb_false_r. }
    intros q. rewrite (G m NoneSel s ND Hall H q). now rewrite mem_none.
  - injection H as <-. intros q. rewrite mem_leaf. destruct q; reflexivity.
  - (* Switch *)
    destruct cs as [|h t]; [discriminate|]. apply shape_ok_Switch in Hok. inversion Hok as [|? ? Hh Ht]; subst.
    assert (G : forall t acc0 s, Forall shape_ok t ->
              fold_left (fun acc c => do a <- acc; do s <- shape_selection n c; OK (OrSel_build a s)) t (OK acc0) = OK s ->
              forall q, mem s q = mem acc0 q || existsb (fun c => dom c q) t).
    { clear -IH. induction t as [|c0 t IHt]; intros acc0 s Hall H q; simpl in H.
      - injection H as <-. simpl. now rewrite orb_false_r.
      - inversion Hall as [|? ? Hc0 Hall']; subst. destruct (shape_selection n c0) as [s0|e] eqn:E0; simpl in H.
        2:{ rewrite fold_res_err in H; [discriminate|reflexivity]. }
        rewrite (IHt _ _ Hall' H q). rewrite mem_or_build, (IH _ _ E0 Hc0 q). simpl. now rewrite orb_assoc. }
    destruct (shape_selection n h) as [sh|e] eqn:Eh.
    2:{ rewrite fold_res_err in H; [discriminate|reflexivity]. }
    intros q. rewrite (G t sh s Ht H q), (IH _ _ Eh Hh q), dom_Switch. reflexivity.
  - (* Or *)
    inv_bind H. inv_bind H. injection H as <-. destruct Hok as [Oa Ob].
    intros q. rewrite mem_or_build, (IH _ _ Ha Oa q), (IH _ _ Ha0 Ob q). reflexivity.
Qed.

(* ---- invalid_subset (C33) ---- *)
Theorem invalid_none_iff : forall n shape c r,
  invalid_subset n shape c = OK r -> shape_ok shape -> tidy c ->
  (r = None <-> forall q, dom c q = true -> dom shape q = true).
Proof.
  intros n shape c r H Hs Tc. unfold invalid_subset in H. inv_bind H. inv_bind H. injection H as <-.
  pose proof (shape_selection_exact _ _ _ Ha Hs) as Hm.
  destruct (sel_dom _ _ _ _ Ha0 Tc) as [_ Hd].
  split.
  - intros Hr q Hq. destruct (static_is_empty a0) eqn:E; [|discriminate].
    apply static_is_empty_true in E. subst a0. specialize (Hd q). rewrite dom_empty, Hq, mem_compl_build, Hm in Hd.
    simpl in Hd. destruct (dom shape q); [reflexivity|discriminate].
  - intros Hall. assert (a0 = empty) as ->; [|reflexivity].
    apply (filter_sel_empty _ _ _ _ Ha0 Tc). intros q Hq. rewrite mem_compl_build, Hm, (Hall q Hq). reflexivity.
Qed.

Theorem invalid_exact : forall n shape c x,
  invalid_subset n shape c = OK (Some x) -> shape_ok shape -> tidy c ->
  (forall q, dom x q = dom c q && negb (dom shape q)) /\
  (wf c -> forall p, amap x p = if dom shape (statics p) then None else amap c p).
Proof.
  intros n shape c x H Hs Tc. unfold invalid_subset in H. inv_bind H. inv_bind H.
  destruct (static_is_empty a0); [discriminate|]. injection H as <-.
  pose proof (shape_selection_exact _ _ _ Ha Hs) as Hm.
  destruct (sel_dom _ _ _ _ Ha0 Tc) as [_ Hd].
  split.
  - intros q. now rewrite Hd, mem_compl_build, Hm.
  - intros W p. destruct (filter_static_projection _ _ _ _ Ha0 W) as [_ A].
    rewrite A, mem_compl_build, Hm. now destruct (dom shape (statics p)).
Qed.

(* ---- get_selection: exactly the addresses with a value (no index level involved) ---- *)
Lemma gim_static_dom : forall n c k z, gim n c (CS k) = OK z -> index_free c ->
  index_free z /\ forall r, dom z r = dom c (k :: r).
Proof.
  induction n as [|n IH]; intros c k z H Hi; [discriminate|].
  destruct c as [m|v|c a|ix cs|a b]; cbn [gim] in H; try (destruct Hi; fail).
  - injection H as <-. apply index_free_Static in Hi. rewrite Forall_forall in Hi. split.
    + destruct (assoc k m) as [c|] eqn:E; [apply (Hi _ (assoc_In _ _ _ E))|exact I].
    + intros r. rewrite dom_Static. destruct (assoc k m); [reflexivity|apply dom_empty].
  - injection H as <-. split; [exact I|]. intros r. apply dom_empty.
  - inv_bind H. injection H as <-. apply index_free_Switch in Hi. rewrite Forall_forall in Hi.
    apply mapM_OK in Ha. split.
    + apply index_free_Switch. apply Forall_forall. intros y Hin. apply In_nth_error in Hin. destruct Hin as [j Hj].
      destruct (Forall2_nth_r _ _ _ Ha j y Hj) as [c [Hc Hg]]. apply (IH _ _ _ Hg (Hi _ (nth_error_In _ _ Hc))).
    + intros r. rewrite !dom_Switch. clear -Ha Hi IH. induction Ha as [|c y cs a Hcy _ IHa]; [reflexivity|].
      simpl. rewrite (proj2 (IH _ _ _ Hcy (Hi c (or_introl eq_refl))) r). f_equal.
      apply IHa. intros x Hx. apply Hi. now right.
Qed.
Lemma get_value_dom : forall n c v, get_value n c = OK v -> index_free c ->
  (match v with Some _ => true | None => false end) = dom c [].
Proof.
  induction n as [|n IH]; intros c v H Hi; [discriminate|].
  destruct c as [m|l|c a|ix cs|a b]; cbn [get_value] in H; try (destruct Hi; fail).
  - injection H as <-. now rewrite dom_Static.
  - injection H as <-. reflexivity.
  - inv_bind H. apply index_free_Switch in Hi. rewrite Forall_forall in Hi. apply mapM_OK in Ha.
    rewrite dom_Switch.
    assert (E : existsb (fun c => dom c []) cs = negb (match flat_map (fun o : option leaf => match o with Some v => [mask_of v] | None => [] end) a with [] => true | _ => false end)).
    { clear -Ha Hi IH. induction Ha as [|c o cs a Hco _ IHa]; [reflexivity|].
      simpl. rewrite <- (IH _ _ Hco (Hi c (or_introl eq_refl))).
      destruct o; simpl; [reflexivity|]. apply IHa. intros x Hx. apply Hi. now right. }
    rewrite E. destruct (flat_map _ a) as [|e r]; [now injection H as <-|].
    inv_bind H. now injection H as <-.
Qed.
Theorem get_selection_exact : forall n q c b, chmsel_mem n c q = OK b -> index_free c -> b = dom c q.
Proof.
  induction q as [|k r IH]; intros c b H Hi; simpl in H.
  - destruct (static_is_empty c) eqn:E.
    + injection H as <-. apply static_is_empty_true in E. subst. now rewrite dom_empty.
    + inv_bind H. injection H as <-. apply (get_value_dom _ _ _ Ha Hi).
  - destruct (static_is_empty c) eqn:E.
    + injection H as <-. apply static_is_empty_true in E. subst. now rewrite dom_empty.
    + inv_bind H. destruct (gim_static_dom _ _ _ _ Ha Hi) as [Hi' Hd]. rewrite <- Hd. apply (IH _ _ H Hi').
Qed.
