(* C15 — dimap, map and contramap only transform arguments and return values.
   (Change tags of the new return value are the subject of C08/C09.) *)
From Coq Require Import List ZArith.
Import ListNotations.
From Gen Require Import SelGen.
From Model Require Import Key Sel GFI GFIEdit Derived.
From Proofs Require Import GFIBase GFIRef GFIWf GFIConsistent GFIProject GFISim GFIGen GFIEditProofs GFIEditChoices GFIDerived GFICombinators.
Open Scope Z_scope.

Theorem C15_dimap_is_the_inner_function : forall pre g post k a,
  simulate (GDimap pre g post) k a =
    (do ia <- eval_list a pre; do t' <- simulate g k ia; do r <- eval [VT a; VT ia; t_retval t'] post; Ok (TDimap t' a r)) /\
  (forall c, generate (GDimap pre g post) k c a =
    (do ia <- eval_list a pre; do x <- generate g k c ia; do r <- eval [VT a; VT ia; t_retval (fst x)] post; Ok (TDimap (fst x) a r, snd x))) /\
  (forall c, assess (GDimap pre g post) c a =
    (do ia <- eval_list a pre; do x <- assess g c ia; do r <- eval [VT a; VT ia; snd x] post; Ok (fst x, r))) /\
  (forall t' r, t_score (TDimap t' a r) = t_score t' /\ t_choices (TDimap t' a r) = t_choices t' /\ t_terms (TDimap t' a r) = t_terms t').
Proof. exact dimap_is_inner. Qed.
Print Assumptions C15_dimap_is_the_inner_function.

Theorem C15_edit_recomputes_pre_and_post : forall pre g post k t r a tg t' w b,
  wfg g -> plain r -> wft (GDimap pre g post) t -> edit (GDimap pre g post) k t r a tg = Ok (t', w, b) ->
  exists inner' ia, t' = TDimap inner' a (t_retval t') /\ eval_list a pre = Ok ia /\ t_args inner' = ia /\ wft g inner' /\
                    eval [VT a; VT ia; t_retval inner'] post = Ok (t_retval t') /\ w = t_score inner' - t_score t.
Proof. exact dimap_edit_recomputes. Qed.
Print Assumptions C15_edit_recomputes_pre_and_post.

Theorem C15_map_and_contramap_are_dimaps : forall post1 pre g arity,
  g_map post1 g arity = GDimap (map EVar (seq 0 arity)) g (shift_var post1 2) /\
  g_contramap pre g = GDimap pre g (EVar 2).
Proof. intros. split; reflexivity. Qed.
Print Assumptions C15_map_and_contramap_are_dimaps.

(* ---- non-vacuity: concrete non-trivial programs and traces meeting the hypotheses above (proofs/GFIWitness.v) ---- *)
From Proofs Require Import GFIWitness.
Example C15_hypotheses_met : wfg ex_g /\ wft ex_g ex_t /\
  exists t' w b, edit ex_g ex_k2 ex_t (RUpdate ex_c) ex_a' ex_tg = Ok (t', w, b) /\ t' <> ex_t /\ w <> 0.
Proof. exact (conj ex_wfg (conj ex_wft ex_update_succeeds)). Qed.
Print Assumptions C15_hypotheses_met.
