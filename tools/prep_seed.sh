#!/bin/bash
# tools/prep_seed.sh <name> <PID> : scratch worktree + prompt for a seeding sub-agent
name=$1; pid=$2
git -C /repo worktree add -q --detach /tmp/wt/$name HEAD
python3 - "$name" "$pid" <<'PY'
import json,sys
name,pid=sys.argv[1:3]
for l in open('/verif/properties.jsonl'):
    p=json.loads(l)
    if p['id']==pid:
        prop=f"{p['id']}: {p['title']}\n\nStatement: {p['statement']}\n\nQuantified over: {p['quantifier']['text']}\n\nAnchored in files: {', '.join(p['anchors']['files'])}\n"
t=open('/tmp/seed_out/PROMPT.md').read()
t=t.replace('{WT}',f'/tmp/wt/{name}').replace('{OUT}',f'/tmp/seed_out/{name}').replace('{PROP}',prop)
open(f'/tmp/seed_out/{name}.prompt.txt','w').write(t)
PY
echo prepared $name
