#!/bin/bash
# tools/merge_agent.sh <name> : copy the files an agent created in its private copy into /verif (never overwrites), list them,
# and append its known_findings entries whose ids are new.
name=$1; w=/tmp/agents/$name/verif
cd $w || exit 2
for f in coq/model/*.v coq/proofs/*.v coq/props/*.v harness/*.py witness/*.py notes/* corpus/* ; do
  [ -e "$f" ] || continue
  if [ ! -e /verif/$f ]; then mkdir -p /verif/$(dirname $f); cp $f /verif/$f; echo "new  $f"; 
  elif ! cmp -s $f /verif/$f; then echo "DIFF $f (kept /verif's)"; fi
done
python3 - "$w" <<'PY'
import json,sys
w=sys.argv[1]
a=json.load(open(w+'/known_findings.json'))['findings']; p='/verif/known_findings.json'; d=json.load(open(p))
ids={f['id'] for f in d['findings']}
for f in a:
    if f['id'] not in ids:
        d['findings'].append(f); print("finding", f['id'], f['status'], f.get('properties'))
json.dump(d,open(p,'w'),indent=1)
PY
