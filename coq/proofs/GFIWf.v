(* Well-formed traces: `wft g t` says that t records an execution of g — every stored
   argument, return value and score is the one the program text computes from the
   recorded random choices.  It is the invariant every GFI operation must establish
   (simulate, generate, edits: GFISim.v, GFIEdit*.v) and from which the agreement
   with assess / the reference semantics follows (wft_ref). *)
From Coq Require Import List Bool ZArith NArith Lia Arith.
Import ListNotations.
From Gen Require Import SelGen.
From Model Require Import Key Sel GFI.
From Proofs Require Import GFIBase GFIRef.
Open Scope Z_scope.

(* ---------- static well-formedness of programs: address heads are distinct ---------- *)
Fixpoint body_addrs (b : sbody) : list addr :=
  match b with SRet _ => [] | SSite a _ _ rest => a :: body_addrs rest end.
Definition ahead (a : addr) : nat := hd 0%nat a.
Definition heads_ok (l : list addr) : Prop := NoDup (map ahead l) /\ Forall (fun a => a <> []) l.

Fixpoint wfg (g : gf) : Prop :=
  match g with
  | GDist _ => True
  | GStatic b => heads_ok (body_addrs b) /\ wfg_body b
  | GVmap _ g' | GScan _ g' | GMask g' | GDimap _ g' _ => wfg g'
  | GSwitch bs => wfg_branches bs
  end
with wfg_body (b : sbody) : Prop :=
  match b with SRet _ => True | SSite _ g _ rest => wfg g /\ wfg_body rest end
with wfg_branches (bs : gfs) : Prop :=
  match bs with GNil => True | GCons g r => wfg g /\ wfg_branches r end.

(* ---------- the scan chain ---------- *)
Fixpoint scan_ok (P : trace -> Prop) (xs : val) (i : nat) (c : val) (ts : list trace) (cf : val) (ys : list val) : Prop :=
  match ts with
  | [] => cf = c /\ ys = []
  | t :: r => P t /\ t_args t = [c; slice0 xs i] /\
              exists c' y ys', split_ret (t_retval t) = Ok (c', y) /\ ys = y :: ys' /\ scan_ok P xs (S i) c' r cf ys'
  end.

Fixpoint wft (g : gf) (t : trace) {struct g} : Prop :=
  match g, t with
  | GDist d, TDist d' args v s => d' = d /\ exists p, args = [VZ p] /\ s = d_logpdf d v p
  | GStatic b, TStatic args ret subs => wfb b args subs ret
  | GVmap axes g', TVmap inner args =>
      exists n, vmap_len axes args = Some n /\ length inner = n /\
                forall i t', nth_error inner i = Some t' -> wft g' t' /\ t_args t' = slice_args axes args i
  | GScan n g', TScan inner args ret score =>
      exists carry xs len cf ys, args = [carry; xs] /\ scan_len n xs = Some len /\ length inner = len /\
        scan_ok (wft g') xs 0 carry inner cf ys /\ ret = VT [cf; stack_vals ys] /\ score = zsum (map t_score inner)
  | GSwitch bs, TSwitch args j sub ret score =>
      exists idx bargs a, args = VZ idx :: bargs /\ j = clampZ idx (gfs_len bs) /\ nth_error bargs j = Some (VT a) /\
        wf_branch bs j sub /\ t_args sub = a /\ ret = t_retval sub /\ score = t_score sub
  | GMask g', TMask inner check args => wft g' inner /\ args = VB check :: t_args inner
  | GDimap pre g' post, TDimap inner args ret =>
      eval_list args pre = Ok (t_args inner) /\ wft g' inner /\ eval [VT args; VT (t_args inner); t_retval inner] post = Ok ret
  | _, _ => False
  end
with wfb (b : sbody) (env : list val) (subs : list (addr * trace)) (ret : val) {struct b} : Prop :=
  match b with
  | SRet e => subs = [] /\ eval env e = Ok ret
  | SSite a g es rest =>
      match subs with
      | [] => False
      | (a', t) :: subs' => a' = a /\ eval_list env es = Ok (t_args t) /\ wft g t /\ wfb rest (env ++ [t_retval t]) subs' ret
      end
  end
with wf_branch (bs : gfs) (j : nat) (t : trace) {struct bs} : Prop :=
  match bs, j with
  | GNil, _ => False
  | GCons g _, O => wft g t
  | GCons _ r, S j' => wf_branch r j' t
  end.

(* every call made at a static address recorded at least one choice (an address with no
   choice under it is indistinguishable from a missing one: known finding K16) *)
Fixpoint sites_live (t : trace) : Prop :=
  match t with
  | TDist _ _ _ _ => True
  | TStatic _ _ subs =>
      (fix go (l : list (addr * trace)) : Prop :=
         match l with [] => True | (_, x) :: r => t_choices x <> [] /\ sites_live x /\ go r end) subs
  | TVmap inner _ | TScan inner _ _ _ =>
      (fix go (l : list trace) : Prop := match l with [] => True | x :: r => sites_live x /\ go r end) inner
  | TSwitch _ _ sub _ _ => sites_live sub
  | TMask inner _ _ => sites_live inner
  | TDimap inner _ _ => sites_live inner
  end.

Definition choices_of (subs : list (addr * trace)) : chm :=
  flat_map (fun p => cprefix (map KS (fst p)) (t_choices (snd p))) subs.
Definition terms_of (subs : list (addr * trace)) : list term :=
  flat_map (fun p => map (tm_prefix (map KS (fst p))) (t_terms (snd p))) subs.
Definition ichoices (s : nat) (inner : list trace) : chm := flat_mapi (fun i x => cprefix [KI i] (t_choices x)) s inner.
Definition iterms (s : nat) (inner : list trace) : list term := flat_mapi (fun i x => map (tm_prefix [KI i]) (t_terms x)) s inner.

Lemma choices_of_app a b : choices_of (a ++ b) = choices_of a ++ choices_of b.
Proof. unfold choices_of. apply flat_map_app. Qed.
Lemma terms_of_app a b : terms_of (a ++ b) = terms_of a ++ terms_of b.
Proof. unfold terms_of. apply flat_map_app. Qed.

(* sub-map of a static choice map at one of its own addresses *)
Lemma csub_addr_other (a a' : addr) c :
  a <> [] -> a' <> [] -> ahead a <> ahead a' -> csub_addr (cprefix (map KS a') c) a = [].
Proof.
  intros Ha Ha' Hne. destruct a as [|h r]; [contradiction|]. destruct a' as [|h' r']; [contradiction|].
  unfold csub_addr. simpl map. apply csub_path_cprefix_other_head. simpl in Hne. congruence.
Qed.
Lemma csub_addr_others a subs :
  a <> [] -> Forall (fun a' => a' <> []) (map fst subs) -> ~ In (ahead a) (map ahead (map fst subs)) ->
  csub_addr (choices_of subs) a = [].
Proof.
  intros Ha. induction subs as [|[a' t] r IH]; intros Hne Hnin; [apply csub_path_nil|].
  simpl in *. unfold csub_addr in *. rewrite csub_path_app. inversion Hne; subst.
  assert (E : csub_addr (cprefix (map KS a') (t_choices t)) a = []).
  { apply csub_addr_other; auto; intros E; apply Hnin; left; congruence. }
  unfold csub_addr in E. rewrite E. simpl. apply IH; auto.
Qed.
Lemma csub_addr_own pre a t post :
  heads_ok (map fst (pre ++ (a, t) :: post)) ->
  csub_addr (choices_of (pre ++ (a, t) :: post)) a = t_choices t.
Proof.
  intros [Hnd Hne]. rewrite map_app in *. simpl in *. rewrite map_app in Hnd. simpl in Hnd.
  apply Forall_app in Hne. destruct Hne as [Hpre Hpost]. inversion Hpost as [|? ? Ha Hpost']; subst.
  apply NoDup_remove in Hnd. destruct Hnd as [Hnd Hnin]. rewrite in_app_iff in Hnin.
  rewrite choices_of_app. unfold csub_addr. rewrite csub_path_app.
  fold (csub_addr (choices_of pre) a). rewrite csub_addr_others; auto.
  simpl. change (flat_map _ post) with (choices_of post). rewrite csub_path_app.
  rewrite csub_path_cprefix. fold (csub_addr (choices_of post) a). rewrite csub_addr_others; auto.
  apply app_nil_r.
Qed.

(* sub-map of an indexed choice map at one of its own indices *)
Lemma ichoices_cons s t r : ichoices s (t :: r) = cprefix [KI s] (t_choices t) ++ ichoices (S s) r.
Proof. reflexivity. Qed.
Lemma iterms_cons s t r : iterms s (t :: r) = map (tm_prefix [KI s]) (t_terms t) ++ iterms (S s) r.
Proof. reflexivity. Qed.
Lemma csub_ichoices_lt s inner i : (i < s)%nat -> csub (ichoices s inner) (KI i) = [].
Proof.
  revert s; induction inner as [|t r IH]; intros s Hlt; [reflexivity|].
  rewrite ichoices_cons, csub_app, csub_cprefix_other, IH; [reflexivity | lia | intros E; inversion E; lia].
Qed.
Lemma csub_ichoices s inner j t :
  nth_error inner j = Some t -> csub (ichoices s inner) (KI (s + j)) = t_choices t.
Proof.
  revert s j; induction inner as [|t0 r IH]; intros s j H; [destruct j; discriminate|].
  rewrite ichoices_cons, csub_app. destruct j as [|j'].
  - simpl in H. inversion H; subst. rewrite Nat.add_0_r, csub_cprefix_same, cprefix_nil, csub_ichoices_lt by lia.
    apply app_nil_r.
  - simpl in H. rewrite csub_cprefix_other by (intros E; inversion E; lia).
    replace (s + S j')%nat with (S s + j')%nat by lia. apply (IH (S s) j'). exact H.
Qed.
