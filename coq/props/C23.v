(* C23 — GFI results are invariant under jax.jit and consistent under jax.vmap.
   What a theorem can carry here: the GFI model (coq/model/GFI.v, GFIEdit.v) is a function of the *values* of
   keys, arguments and constraints only — it has no notion of staging — and the only places where the source
   branches on staging (Python bool vs array flags, Python int vs array indices) are modelled with staging tags in
   Flag.v / MaskAlg.v, where erasure is proved (C19, C20).  The tie runs the same calls eagerly and inside
   jax.jit and compares BOTH with this one model; jax.vmap over keys is compared slice by slice with the
   unbatched calls.  XLA compilation itself is modelled, not verified. *)
From Coq Require Import List Bool ZArith.
Import ListNotations.
From Model Require Import Key Sel GFI GFIEdit Flag MaskAlg.
From Proofs Require Import FlagProofs MaskProofs GFIBase.

(* staging erasure of the flag operations every combinator's masking goes through *)
Theorem C23_flag_operations_are_staging_invariant : forall op f f' g g',
  obs f = obs f' -> obs g = obs g' ->
  option_map obs (flag_bin op f g) = option_map obs (flag_bin op f' g').
Proof. exact stage_irrelevant_bin. Qed.
Print Assumptions C23_flag_operations_are_staging_invariant.

(* the static and the array index of a switch select the same branch *)
Theorem C23_static_and_array_index_agree : forall z vs, tree_choose (IPy z) vs = tree_choose (IArr z) vs.
Proof. exact tree_choose_stage. Qed.
Print Assumptions C23_static_and_array_index_agree.

(* a batch of independent calls is the list of the calls: the model of jax.vmap over keys *)
Definition vmap_keys (g : gf) (ks : list key) (a : list val) : res (list trace) := mapM (fun k => simulate g k a) ks.
Theorem C23_vmap_over_keys_is_slicewise : forall g ks a ts,
  vmap_keys g ks a = Ok ts -> Forall2 (fun k t => simulate g k a = Ok t) ks ts.
Proof. intros g ks a ts H. apply (GFIBase.mapM_ok_Forall2 _ _ _ H). Qed.
Print Assumptions C23_vmap_over_keys_is_slicewise.
