(* C06 — backward requests undo edits.
   Proved in full for Update on every program built from distributions, the static language, vmap, scan and dimap
   (and what is derived from them: repeat, iterate, accumulate, reduce, map, contramap ...): applying the
   returned backward request to the new trace with the original arguments returns EXACTLY the original trace
   (choices, score, return value, stored arguments) with the negated weight (C06_update_roundtrip).
   Proved in full for Regenerate on every program built from distributions, the static language and dimap
   (C06_regenerate_roundtrip; Vmap rejects Regenerate, and a Regenerate on a scan cannot be undone: K24).
   PARTIAL elsewhere: through mask and switch the implementation does not restore (known findings K25, K19);
   IndexRequest / StaticRequest given by the caller and the requests through mask and switch are
   decided on each run by the correspondence (the model's backward request is compared with the implementation's
   and applied) and by the direct oracle (apply the implementation's backward request, compare with the original). *)
From Coq Require Import List ZArith.
Import ListNotations.
From Model Require Import Key Sel GFI GFIEdit.
From Proofs Require Import GFIBase GFIWf GFIEditProofs GFIRoundtrip GFIRoundtripAll GFIRoundtripRegen.
Open Scope Z_scope.

Theorem C06_update_roundtrip : forall g k t c a tg t' w b,
  wfg g -> simple g -> wft g t -> edit g k t (RUpdate c) a tg = Ok (t', w, b) ->
  exists bc, b = RUpdate bc /\ forall k' tg', exists b', edit g k' t' b (t_args t) tg' = Ok (t, - w, b').
Proof. exact update_roundtrip. Qed.
Print Assumptions C06_update_roundtrip.

Theorem C06_site_roundtrip_partial : forall d k k' t r a tg tg' t' w b,
  plain r -> wft (GDist d) t -> edit (GDist d) k t r a tg = Ok (t', w, b) ->
  exists b', edit (GDist d) k' t' b (t_args t) tg' = Ok (t, - w, b').
Proof. exact dist_roundtrip. Qed.
Print Assumptions C06_site_roundtrip_partial.

Theorem C06_backward_weight_negates_partial : forall g k k' t r r' a tg tg' t' w b t'' w' b',
  wfg g -> plain r -> plain r' -> wft g t ->
  edit g k t r a tg = Ok (t', w, b) -> edit g k' t' r' (t_args t) tg' = Ok (t'', w', b') ->
  t_score t'' = t_score t -> w' = - w.
Proof. exact backward_weight_negates. Qed.
Print Assumptions C06_backward_weight_negates_partial.

Theorem C06_regenerate_roundtrip : forall g k t s a tg t' w b,
  wfg g -> rsimple g -> wft g t -> edit g k t (RRegen s) a tg = Ok (t', w, b) ->
  forall k' tg', exists b', edit g k' t' b (t_args t) tg' = Ok (t, - w, b').
Proof. exact regenerate_roundtrip. Qed.
Print Assumptions C06_regenerate_roundtrip.

(* ---- non-vacuity: concrete non-trivial programs and traces meeting the hypotheses above (proofs/GFIWitness.v) ---- *)
From Proofs Require Import GFIWitness.
Example C06_update_hypotheses_met : wfg ex_g /\ simple ex_g /\ wft ex_g ex_t /\
  exists t' w b, edit ex_g ex_k2 ex_t (RUpdate ex_c) ex_a' ex_tg = Ok (t', w, b) /\ t' <> ex_t /\ w <> 0.
Proof. exact (conj ex_wfg (conj ex_simple (conj ex_wft ex_update_succeeds))). Qed.
Print Assumptions C06_update_hypotheses_met.
Example C06_regenerate_hypotheses_met : wfg ex_r /\ rsimple ex_r /\ wft ex_r ex_rt /\
  exists t' w b, edit ex_r ex_k2 ex_rt (RRegen ex_s) [VZ 5] [tg_unknown] = Ok (t', w, b) /\ t' <> ex_rt /\ w <> 0.
Proof. exact (conj ex_r_wfg (conj ex_r_rsimple (conj ex_r_wft ex_regenerate_succeeds))). Qed.
Print Assumptions C06_regenerate_hypotheses_met.
