"""C22 — engine B-gfi (harness/bgfi.py); theorems in coq/props/C22.v."""
from . import bgfi


def run(ctx):
    bgfi.run_property(ctx, "C22", oracles=bgfi.PROP_ORACLES.get("C22"))


def replay(case):
    return bgfi.replay(case)
