(* C20: the staging helpers agree with Boolean logic / modular choice / clamped switch. *)
From Coq Require Import List Bool ZArith Lia Arith.
Import ListNotations.
From Model Require Import Flag.
Open Scope Z_scope.

(* ---- specification side: plain Boolean logic on observed flags ---- *)
Definition olift2 (op : bool -> bool -> bool) (a b : oflag) : option oflag :=
  match a, b with
  | OS x, OS y => Some (OS (op x y))
  | OS x, OV l => Some (OV (map (op x) l))
  | OV l, OS y => Some (OV (map (fun v => op v y) l))
  | OV l1, OV l2 => option_map OV (bcast2 op l1 l2)
  end.
Definition omap (f : bool -> bool) (a : oflag) : oflag :=
  match a with OS x => OS (f x) | OV l => OV (map f l) end.

Lemma flagop_bool op f g : option_map obs (flag_bin op f g) = olift2 op (obs f) (obs g).
Proof.
  destruct f as [[|] a|l1], g as [[|] b|l2]; simpl; try reflexivity.
  destruct (bcast2 op l1 l2); reflexivity.
Qed.

Lemma not_bool f : obs (not_ f) = omap negb (obs f).
Proof. destruct f as [[|] b|l]; reflexivity. Qed.

Lemma stage_irrelevant_bin op f f' g g' :
  obs f = obs f' -> obs g = obs g' ->
  option_map obs (flag_bin op f g) = option_map obs (flag_bin op f' g').
Proof. intros Hf Hg. now rewrite !flagop_bool, Hf, Hg. Qed.

Lemma stage_irrelevant_not f f' : obs f = obs f' -> obs (not_ f) = obs (not_ f').
Proof. intros H. now rewrite !not_bool, H. Qed.

Lemma concrete_true_iff f : concrete_true f = true <-> f = FS Py true.
Proof. destruct f as [[|] [|]|l]; simpl; split; intros H; try discriminate; auto. Qed.
Lemma concrete_false_iff f : concrete_false f = true <-> f = FS Py false.
Proof. destruct f as [[|] [|]|l]; simpl; split; intros H; try discriminate; auto. Qed.

(* where: scalar flag selects a whole operand; the Python shortcut agrees with lax.select
   whenever lax.select is defined *)
Lemma where_scalar s b t e r : where_ (FS s b) t e = Some r -> r = if b then t else e.
Proof.
  destruct s; simpl.
  - destruct b; intros H; now inversion H.
  - destruct t as [d x|d l], e as [d' y|d' m]; try discriminate.
    + destruct (dty_eqb d d') eqn:E; [|discriminate]. intros H; inversion H; subst.
      destruct d, d'; try discriminate; destruct b; reflexivity.
    + destruct (dty_eqb d d' && Nat.eqb (length l) (length m))%bool eqn:E; [|discriminate].
      intros H; inversion H; subst. apply andb_prop in E as [E1 _].
      destruct d, d'; try discriminate; destruct b; reflexivity.
Qed.
Lemma where_stage b t e r : where_ (FS Ar b) t e = Some r -> where_ (FS Py b) t e = Some r.
Proof. intros H. apply where_scalar in H. subst. destruct b; reflexivity. Qed.

Lemma zip2_nth {A B C} (f : A -> B -> C) l1 l2 i da db dc :
  (i < length l1)%nat -> (i < length l2)%nat ->
  nth i (zip2 f l1 l2) dc = f (nth i l1 da) (nth i l2 db).
Proof.
  revert l2 i; induction l1 as [|a l1 IH]; intros [|b l2] [|i] H1 H2; simpl in *; try lia; auto.
  apply IH; lia.
Qed.

Lemma where_vector bs d l d' m r :
  where_ (FV bs) (TVec d l) (TVec d' m) = Some r ->
  exists out, r = TVec d out /\ length out = length l /\
    forall i, (i < length l)%nat -> nth i out 0 = if nth i bs false then nth i l 0 else nth i m 0.
Proof.
  simpl. destruct (dty_eqb d d' && Nat.eqb (length l) (length m) && Nat.eqb (length bs) (length l))%bool eqn:E; [|discriminate].
  apply andb_prop in E as [E E3]. apply andb_prop in E as [E1 E2].
  apply Nat.eqb_eq in E2, E3. intros H; inversion H; subst; clear H.
  eexists; split; [reflexivity|]. split.
  - assert (L : forall (A B C : Type) (f : A -> B -> C) x y, length (zip2 f x y) = Nat.min (length x) (length y)).
    { intros A B C f x; induction x as [|a x IHx]; intros [|b y]; simpl; auto. }
    rewrite L, combine_length. lia.
  - intros i Hi.
    rewrite (zip2_nth _ bs (combine l m) i false (0, 0) 0) by (rewrite ?combine_length; lia).
    rewrite combine_nth by lia. reflexivity.
Qed.

Lemma cond_bool s b t e r : cond_ (FS s b) t e = Some r -> r = if b then t else e.
Proof. destruct s; simpl; [intros H; now inversion H|]. destruct (same_type t e); [|discriminate]. intros H; now inversion H. Qed.
Lemma cond_stage b t e r : cond_ (FS Ar b) t e = Some r -> cond_ (FS Py b) t e = Some r.
Proof. intros H. apply cond_bool in H. now subst. Qed.

(* ---- tree_choose: element at idx modulo the number of choices, dtype joined ---- *)
Lemma wrap_range z n : (0 < n)%nat -> 0 <= wrap z n < Z.of_nat n.
Proof. intros H. unfold wrap. apply Z.mod_pos_bound. lia. Qed.

Theorem tree_choose_mod z vs r :
  tree_choose (IArr z) vs = Some r ->
  exists v0, r = tv_cast (join_all vs) (nth (Z.to_nat (z mod Z.of_nat (length vs))) vs v0)
             /\ (Z.to_nat (z mod Z.of_nat (length vs)) < length vs)%nat.
Proof.
  unfold tree_choose. destruct vs as [|v0 vs']; [discriminate|].
  set (vs := v0 :: vs'). destruct (negb _); [discriminate|].
  intros H; inversion H; subst; clear H. exists v0. split; [reflexivity|].
  pose proof (wrap_range z (length vs)) as W. unfold wrap in W.
  assert (0 < length vs)%nat by (subst vs; simpl; lia). specialize (W H). lia.
Qed.

Theorem tree_choose_stage z vs : tree_choose (IPy z) vs = tree_choose (IArr z) vs.
Proof. unfold tree_choose. destruct vs; reflexivity. Qed.

Theorem tree_choose_in_range z vs r :
  0 <= z < Z.of_nat (length vs) -> tree_choose (IArr z) vs = Some r ->
  exists v0, r = tv_cast (join_all vs) (nth (Z.to_nat z) vs v0).
Proof.
  intros Hz H. destruct (tree_choose_mod _ _ _ H) as [v0 [E _]].
  exists v0. now rewrite Z.mod_small in E by lia.
Qed.

(* ---- multi_switch: the branch at the clamped index, zero placeholders elsewhere ---- *)
Lemma nth_map_combine_seq {A B} (f : nat * A -> B) (l : list A) k s da db :
  (k < length l)%nat -> nth k (map f (combine (seq s (length l)) l)) db = f ((s + k)%nat, nth k l da).
Proof.
  revert k s; induction l as [|a l IH]; intros k s H; simpl in *; [lia|].
  destruct k as [|k]; [now rewrite Nat.add_0_r|].
  rewrite (IH k (S s)) by lia. now rewrite Nat.add_succ_r.
Qed.

Lemma clamp_range z n : (0 < n)%nat -> 0 <= clamp z n < Z.of_nat n.
Proof. unfold clamp; lia. Qed.
Lemma clamp_id z n : 0 <= z < Z.of_nat n -> clamp z n = z.
Proof. unfold clamp; lia. Qed.

Theorem multi_switch_clamp z outs r d :
  multi_switch (IArr z) outs = Some r ->
  length r = length outs /\
  forall k, (k < length outs)%nat ->
    nth k r d = if Nat.eqb k (Z.to_nat (clamp z (length outs))) then nth k outs d else tv_zeros (nth k outs d).
Proof.
  unfold multi_switch. destruct outs as [|o outs']; [discriminate|].
  remember (o :: outs') as outs eqn:Eo. intros H; inversion H; subst r; clear H. split.
  - rewrite map_length, combine_length, seq_length. lia.
  - intros k Hk. rewrite (nth_map_combine_seq _ outs k 0%nat d d Hk). reflexivity.
Qed.
Theorem multi_switch_stage z outs : multi_switch (IPy z) outs = multi_switch (IArr z) outs.
Proof. reflexivity. Qed.

(* choosing from the switched list gives the executed branch when the index is in
   range: wrap and clamp agree there (outside, they agree only by coincidence: z a
   negative multiple of n, or z >= n with z mod n = n-1; see the refuted witness) *)
Theorem wrap_eq_clamp_in_range z n : 0 <= z < Z.of_nat n -> wrap z n = clamp z n.
Proof. intros H. unfold wrap, clamp. rewrite Z.mod_small by lia. lia. Qed.

Theorem choose_after_switch_refuted :
  exists z outs r c, multi_switch (IArr z) outs = Some r /\ tree_choose (IArr z) r = Some c /\
    c <> tv_cast (join_all outs) (nth (Z.to_nat (clamp z (length outs))) outs (TS DInt 0)).
Proof.
  exists 3, [TS DInt 5; TS DInt 6; TS DInt 7], [TS DInt 0; TS DInt 0; TS DInt 7], (TS DInt 0).
  repeat split; try reflexivity. discriminate.
Qed.

Example nonvacuous_choose : tree_choose (IArr (-1)) [TS DInt 1; TS DFloat 2; TS DBool 1] = Some (TS DFloat 1).
Proof. reflexivity. Qed.
Example nonvacuous_switch : multi_switch (IArr 5) [TS DInt 2; TVec DFloat [2; 4]] = Some [TS DInt 0; TVec DFloat [2; 4]].
Proof. reflexivity. Qed.
