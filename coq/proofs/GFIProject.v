(* C10: project returns the sum of the log-densities of the selected random choices. *)
From Coq Require Import List Bool ZArith NArith Lia Arith.
Import ListNotations.
From Gen Require Import SelGen.
From Model Require Import Key Sel GFI.
From Proofs Require Import SelProofs GFIBase GFIRef GFIWf GFIConsistent.
Open Scope Z_scope.

Definition selected (s : sel) (tm : term) : bool := mem s (static_part (tm_path tm)).

Lemma tsum_filter_prefix (P : term -> bool) p l :
  tsum (filter P (map (tm_prefix p) l)) = tsum (filter (fun tm => P (tm_prefix p tm)) l).
Proof.
  induction l as [|t r IH]; [reflexivity|]. simpl. destruct (P (tm_prefix p t)); [|exact IH].
  unfold tsum in *. simpl. rewrite IH. reflexivity.
Qed.
Lemma filter_ext_tsum (P Q : term -> bool) l : (forall t, P t = Q t) -> tsum (filter P l) = tsum (filter Q l).
Proof. intros H. f_equal. apply filter_ext. exact H. Qed.
Lemma tsum_filter_app P a b : tsum (filter P (a ++ b)) = tsum (filter P a) + tsum (filter P b).
Proof. rewrite filter_app. apply tsum_app. Qed.

Lemma static_part_app p q : static_part (p ++ q) = static_part p ++ static_part q.
Proof. induction p as [|[n|i] r IH]; simpl; [reflexivity | f_equal; exact IH | exact IH]. Qed.
Lemma static_part_KS a : static_part (map KS a) = a.
Proof. induction a; simpl; congruence. Qed.

Lemma selected_prefix_static s a tm : selected s (tm_prefix (map KS a) tm) = selected (sel_addr s a) tm.
Proof.
  unfold selected, sel_addr. simpl. rewrite static_part_app, static_part_KS. symmetry. apply mem_call.
Qed.
Lemma selected_prefix_index s i tm : selected s (tm_prefix [KI i] tm) = selected s tm.
Proof. reflexivity. Qed.

(* scores: a well-formed trace's score is the sum over its live random choices *)
Theorem wft_score_all :
  (forall g t, wft g t -> t_score t = tsum (t_terms t)) /\
  (forall b env subs ret, wfb b env subs ret -> zsum (map (fun p => t_score (snd p)) subs) = tsum (terms_of subs)) /\
  (forall bs j t, wf_branch bs j t -> t_score t = tsum (t_terms t)).
Proof.
  apply gf_sbody_gfs_ind.
  - intros d t Hw. destruct t; simpl in Hw; try contradiction. destruct Hw as [-> [p [-> ->]]].
    unfold tsum, tm_logpdf. simpl. lia.
  - intros b IH t Hw. destruct t; simpl in Hw; try contradiction. simpl. apply (IH _ _ _ Hw).
  - intros axes g IH t Hw. destruct t; simpl in Hw; try contradiction. destruct Hw as [n [_ [_ Hall]]].
    simpl. fold (iterms 0 inner). rewrite tsum_iterms. f_equal. apply map_ext_in. intros t' Hin.
    destruct (In_nth_error _ _ Hin) as [j Hj]. apply IH. apply (Hall j t' Hj).
  - intros n g IH t Hw. destruct t; simpl in Hw; try contradiction.
    destruct Hw as [carry [xs [len [cf [ys [_ [_ [_ [Hok [_ ->]]]]]]]]]].
    simpl. fold (iterms 0 inner). rewrite tsum_iterms. f_equal. apply map_ext_in. intros t' Hin. apply IH.
    revert Hok Hin. generalize 0%nat carry ys. induction inner as [|t0 r IHr]; intros s c ys0 Hok Hin; [contradiction|].
    simpl in Hok. destruct Hok as [Hw0 [_ [c' [y [ys' [_ [_ Hr]]]]]]]. destruct Hin as [<-|Hin]; [exact Hw0 | eapply IHr; eauto].
  - intros bs IH t Hw. destruct t; simpl in Hw; try contradiction.
    destruct Hw as [idx [bargs [a [_ [_ [_ [Hbr [_ [_ ->]]]]]]]]]. simpl. eapply IH; eauto.
  - intros g IH t Hw. destruct t; simpl in Hw; try contradiction. destruct Hw as [Hw _]. simpl.
    destruct check; [apply IH; exact Hw | reflexivity].
  - intros pre g IH post t Hw. destruct t; simpl in Hw; try contradiction. destruct Hw as [_ [Hw _]]. simpl. apply IH; exact Hw.
  - intros e env subs ret [-> _]. reflexivity.
  - intros a g IHg es rest IHr env subs ret Hw. simpl in Hw. destruct subs as [|[a' t] subs']; [contradiction|].
    destruct Hw as [-> [_ [Hwt Hw']]]. unfold terms_of in *. simpl. rewrite tsum_app, tsum_prefix, (IHg _ Hwt), (IHr _ _ _ Hw'). reflexivity.
  - intros j t Hw. destruct j; contradiction.
  - intros g IHg r IHr j t Hw. destruct j; simpl in Hw; [apply IHg | eapply IHr]; eauto.
Qed.
Corollary wft_score g t : wft g t -> t_score t = tsum (t_terms t).
Proof. apply wft_score_all. Qed.

Lemma mapM_project_inner s inner ws :
  (forall t', In t' inner -> forall w, project t' s = Ok w -> w = tsum (filter (selected s) (t_terms t'))) ->
  mapM (fun x => project x s) inner = Ok ws ->
  forall st, zsum ws = tsum (filter (selected s) (iterms st inner)).
Proof.
  revert ws; induction inner as [|t r IH]; intros ws H Hm st.
  - inversion Hm. reflexivity.
  - rewrite mapM_cons in Hm. inv_bind Hm. inv_bind Hm. inversion Hm; subst.
    rewrite iterms_cons, tsum_filter_app, tsum_filter_prefix. simpl.
    rewrite (H t (or_introl eq_refl) _ Hx). rewrite (IH _ (fun t' Hin => H t' (or_intror Hin)) Hx0 (S st)).
    f_equal.
Qed.

Theorem project_is_selected_sum_all :
  (forall g t, wft g t -> forall s w, project t s = Ok w -> w = tsum (filter (selected s) (t_terms t))) /\
  (forall b env subs ret, wfb b env subs ret -> forall s ws,
      mapM (fun p => project (snd p) (sel_addr s (fst p))) subs = Ok ws ->
      zsum ws = tsum (filter (selected s) (terms_of subs))) /\
  (forall bs j t, wf_branch bs j t -> forall s w, project t s = Ok w -> w = tsum (filter (selected s) (t_terms t))).
Proof.
  apply gf_sbody_gfs_ind.
  - intros d t Hw s w H. destruct t; simpl in Hw; try contradiction. destruct Hw as [-> [p [-> ->]]].
    simpl in H. inversion H; subst. unfold selected. simpl. rewrite mem_nil.
    destruct (check s); unfold tsum, tm_logpdf; simpl; lia.
  - intros b IH t Hw s w H. destruct t; simpl in Hw; try contradiction. simpl in H. inv_bind H. inversion H; subst.
    apply (IH _ _ _ Hw s x Hx).
  - intros axes g IH t Hw s w H. destruct t; simpl in Hw; try contradiction. destruct Hw as [n [_ [_ Hall]]].
    simpl in H. inv_bind H. inversion H; subst. simpl. fold (iterms 0 inner).
    eapply mapM_project_inner; [|exact Hx]. intros t' Hin w' Hp.
    destruct (In_nth_error _ _ Hin) as [j Hj]. eapply IH; [apply (Hall j t' Hj)|exact Hp].
  - intros n g IH t Hw s w H. destruct t; simpl in Hw; try contradiction.
    destruct Hw as [carry [xs [len [cf [ys [_ [_ [_ [Hok _]]]]]]]]].
    simpl in H. inv_bind H. inversion H; subst. simpl. fold (iterms 0 inner).
    eapply mapM_project_inner; [|exact Hx]. intros t' Hin w' Hp. eapply IH; [|exact Hp].
    revert Hok Hin. generalize 0%nat carry ys. clear. induction inner as [|t0 r IHr]; intros s0 c ys0 Hok Hin; [contradiction|].
    simpl in Hok. destruct Hok as [Hw0 [_ [c' [y [ys' [_ [_ Hr]]]]]]]. destruct Hin as [<-|Hin]; [exact Hw0 | eapply IHr; eauto].
  - intros bs IH t Hw s w H. destruct t; simpl in Hw; try contradiction.
    destruct Hw as [idx [bargs [a [_ [_ [_ [Hbr _]]]]]]]. simpl in *. eapply IH; eauto.
  - intros g IH t Hw s w H. destruct t; simpl in Hw; try contradiction. simpl in H. discriminate.
  - intros pre g IH post t Hw s w H. destruct t; simpl in Hw; try contradiction. destruct Hw as [_ [Hw _]]. simpl in *. eapply IH; eauto.
  - intros e env subs ret [-> _] s ws H. inversion H. reflexivity.
  - intros a g IHg es rest IHr env subs ret Hw s ws H. simpl in Hw. destruct subs as [|[a' t] subs']; [contradiction|].
    destruct Hw as [-> [_ [Hwt Hw']]]. rewrite mapM_cons in H. inv_bind H. inv_bind H. inversion H; subst. simpl in Hx.
    unfold terms_of in *. simpl. rewrite tsum_filter_app, tsum_filter_prefix.
    rewrite (filter_ext_tsum _ (selected (sel_addr s a))) by (intros tm; apply selected_prefix_static).
    rewrite <- (IHg _ Hwt _ _ Hx), <- (IHr _ _ _ Hw' _ _ Hx0). reflexivity.
  - intros j t Hw. destruct j; contradiction.
  - intros g IHg r IHr j t Hw. destruct j; simpl in Hw; [apply IHg | eapply IHr]; eauto.
Qed.

Theorem project_is_selected_sum g t s w :
  wft g t -> project t s = Ok w -> w = tsum (filter (selected s) (t_terms t)).
Proof. intros Hw. apply (proj1 project_is_selected_sum_all g t Hw). Qed.

Lemma filter_all {A} (P : A -> bool) l : (forall x, P x = true) -> filter P l = l.
Proof. intros H. induction l as [|x r IH]; simpl; [reflexivity|]. rewrite H, IH. reflexivity. Qed.
Lemma filter_none {A} (P : A -> bool) l : (forall x, P x = false) -> filter P l = [].
Proof. intros H. induction l as [|x r IH]; simpl; [reflexivity|]. rewrite H, IH. reflexivity. Qed.
Lemma tsum_filter_split P l : tsum (filter P l) + tsum (filter (fun t => negb (P t)) l) = tsum l.
Proof.
  induction l as [|t r IH]; [reflexivity|]. simpl. unfold tsum in *. destruct (P t); simpl; lia.
Qed.

Corollary project_all g t w : wft g t -> project t AllSel = Ok w -> w = t_score t.
Proof.
  intros Hw H. rewrite (project_is_selected_sum _ _ _ _ Hw H), (wft_score _ _ Hw), filter_all; [reflexivity|].
  intros tm. unfold selected. apply mem_all.
Qed.
Corollary project_none g t w : wft g t -> project t NoneSel = Ok w -> w = 0.
Proof.
  intros Hw H. rewrite (project_is_selected_sum _ _ _ _ Hw H), filter_none; [reflexivity|].
  intros tm. unfold selected. apply mem_none.
Qed.
Corollary project_split g t s w1 w2 :
  wft g t -> project t s = Ok w1 -> project t (ComplementSel_build s) = Ok w2 -> w1 + w2 = t_score t.
Proof.
  intros Hw H1 H2. rewrite (project_is_selected_sum _ _ _ _ Hw H1), (project_is_selected_sum _ _ _ _ Hw H2), (wft_score _ _ Hw).
  rewrite (filter_ext_tsum (selected (ComplementSel_build s)) (fun tm => negb (selected s tm))).
  - apply tsum_filter_split.
  - intros tm. unfold selected. apply mem_compl_build.
Qed.
