(* Executable model of GenJAX's edit interface (Update, Regenerate, IndexRequest,
   StaticRequest, EmptyRequest) over the programs of GFI.v, method by method:

     requests.py       EmptyRequest.edit, Regenerate
     concepts.py       PrimitiveEditRequest.edit (dispatch to gen_fn.edit), IndexRequest
     distribution.py   Distribution.edit_update_with_constraint / edit_regenerate
     static.py         UpdateHandler / StaticEditRequestHandler / RegenerateRequestHandler, make_bwd_request
     vmap.py           Vmap.edit_choice_map / edit_index
     scan.py           Scan.edit_update / edit_regenerate / edit_index
     mask.py           MaskCombinator.edit (the four flag transitions)
     dimap.py          Dimap.edit_change_target
     switch.py         Switch.edit with an unchanged (NoChange) index

   Change tags are modelled on arguments only (a tag tree per argument, propagated
   through the pure argument expressions as the incremental interpreter does); they
   decide EmptyRequest's shortcut and the assertions of the index edits.  Return-value
   tags are the subject of GFITags.v. *)
From Coq Require Import List Bool ZArith NArith Lia.
Import ListNotations.
From Gen Require Import SelGen.
From Model Require Import Key Sel GFI.
Open Scope Z_scope.

Inductive request :=
| RUpdate (c : chm)
| RRegen (s : sel)
| RIndex (i : Z) (r : request)
| RStatic (m : list (addr * request))
| REmpty
| RVector (rs : list request)     (* Scan.edit_regenerate's backward request *)
| RJunk.                          (* a backward request the model does not predict *)

(* ---------------- change tags on arguments ---------------- *)
Inductive tagt := TgLeaf (changed : bool) | TgNode (l : list tagt).
Fixpoint tg_any (t : tagt) : bool :=
  match t with TgLeaf b => b | TgNode l => existsb tg_any l end.
Definition tags_nochange (l : list tagt) : bool := negb (existsb tg_any l).
Definition tg_unknown : tagt := TgLeaf true.

Fixpoint tag_eval (env : list tagt) (e : expr) {struct e} : tagt :=
  match e with
  | EVar i => nth i env tg_unknown
  | EConst _ => TgLeaf false
  | EAdd a b | EMul a b => TgLeaf (tg_any (tag_eval env a) || tg_any (tag_eval env b))
  | ETup l => TgNode (map (tag_eval env) l)
  | EProj i e => match tag_eval env e with TgNode l => nth i l tg_unknown | TgLeaf b => TgLeaf b end
  | ENone => TgNode []
  | EZeros _ => TgLeaf false
  | ENotIdx e => TgLeaf (tg_any (tag_eval env e))
  | ECons a arr => TgLeaf (tg_any (tag_eval env a) || tg_any (tag_eval env arr))
  | EUnmask m d => TgLeaf (tg_any (tag_eval env m) || tg_any (tag_eval env d))
  | EMaskValue m => TgLeaf (tg_any (tag_eval env m))
  end.

Fixpoint replace_nth {A} (l : list A) (i : nat) (x : A) : list A :=
  match l, i with
  | [], _ => []
  | _ :: r, O => x :: r
  | y :: r, S j => y :: replace_nth r j x
  end.

(* `assert isinstance(bwd_request, Update)`; a backward request the model does not predict stays unpredicted *)
Definition req_chm (r : request) : res (option chm) :=
  match r with RUpdate c => Ok (Some c) | RJunk => Ok None | _ => Err EOther end.
Definition opt_prefix (p : path) (c : option chm) : option chm := option_map (cprefix p) c.
Fixpoint opt_concat (l : list (option chm)) : option chm :=
  match l with
  | [] => Some []
  | Some c :: r => option_map (app c) (opt_concat r)
  | None :: _ => None
  end.
Definition req_of (c : option chm) : request := match c with Some c => RUpdate c | None => RJunk end.

(* the scan loop of an edit: step i old_subtrace carry = (new subtrace, weight, bwd, carry', y) *)
Fixpoint scanE (step : nat -> trace -> val -> res (trace * Z * request * val * val))
         (i : nat) (olds : list trace) (c : val) : res (list (trace * Z * request) * val * list val) :=
  match olds with
  | [] => Ok ([], c, [])
  | t :: r =>
      do x <- step i t c;
      let '(t', w, b, c', y) := x in
      do rr <- scanE step (S i) r c';
      let '(xs, cf, ys) := rr in Ok ((t', w, b) :: xs, cf, y :: ys)
  end.

Definition mapiM {A B} (f : nat -> A -> res B) : nat -> list A -> res (list B) :=
  fix go (i : nat) (l : list A) : res (list B) :=
    match l with
    | [] => Ok []
    | x :: r => do y <- f i x; do ys <- go (S i) r; Ok (y :: ys)
    end.

Fixpoint edit (g : gf) (k : key) (t : trace) (r : request) (a : list val) (tg : list tagt) {struct g}
  : res (trace * Z * request) :=
  match g with
  | GDist d =>
      match t, a with
      | TDist _ _ vold sold, [VZ p] =>
          match r with
          | RUpdate c =>
              match cvalue c with
              | Some (VM f (VZ vn)) =>
                  let v := if f then vn else vold in
                  let s := d_logpdf d v p in
                  Ok (TDist d a v s, s - sold, RUpdate (cmask f [([], VZ vold)]))
              | None =>
                  let s := d_logpdf d vold p in Ok (TDist d a vold s, s - sold, RUpdate [])
              | Some (VZ vn) =>
                  let s := d_logpdf d vn p in Ok (TDist d a vn s, s - sold, RUpdate [([], VZ vold)])
              | _ => Err EType
              end
          | RRegen s =>
              if check s then
                let v := d_sample d k p in
                let sc := d_logpdf d v p in Ok (TDist d a v sc, sc - sold, RUpdate [([], VZ vold)])
              else
                let sc := d_logpdf d vold p in Ok (TDist d a vold sc, sc - sold, RUpdate [])
          | _ => Err ENotSupported
          end
      | _, _ => Err EType
      end
  | GStatic b =>
      match t with
      | TStatic _ _ olds =>
          match r with
          | RUpdate _ | RRegen _ | RStatic _ =>
              do x <- edit_body b k 1%N olds r a tg [] 0 [];
              let '(v, subs, w, bw) := x in
              Ok (TStatic a v subs, w,
                  match r with
                  | RUpdate _ => match mapM (fun ab => do c <- req_chm (snd ab); Ok (opt_prefix (map KS (fst ab)) c)) bw with
                                 | Ok cs => req_of (opt_concat cs)
                                 | Err _ => RJunk
                                 end
                  | _ => RStatic bw
                  end)
          | _ => Err ENotSupported
          end
      | _ => Err EType
      end
  | GVmap axes g' =>
      match t with
      | TVmap olds _ =>
          match r with
          | RUpdate c =>
              (* jax.vmap over (sub_keys, idx_array, trace.inner, argdiffs): the new arguments must have the trace's length *)
              if negb (match vmap_len axes a with Some n => Nat.eqb n (length olds) | None => false end) then Err EType else
              do xs <- mapiM (fun i told => edit g' (fold_in k (N.of_nat i)) told (RUpdate (csub c (KI i))) (slice_args axes a i) tg) 0%nat olds;
              do cs <- mapiM (fun i x => do c' <- req_chm (snd x); Ok (opt_prefix [KI i] c')) 0%nat xs;
              Ok (TVmap (map (fun x => fst (fst x)) xs) a, zsum (map (fun x => snd (fst x)) xs), req_of (opt_concat cs))
          | RIndex idx r' =>
              if tags_nochange tg then
                if (0 <=? idx) && (idx <? Z.of_nat (length olds)) then
                  let i := Z.to_nat idx in
                  match nth_error olds i with
                  | Some told =>
                      do x <- edit g' k told r' (slice_args axes a i) tg;
                      let '(t', w, b) := x in
                      Ok (TVmap (replace_nth olds i t') a, w, RIndex idx b)
                  | None => Err EOther
                  end
                else Err EOther
              else Err EOther
          | _ => Err ENotSupported
          end
      | _ => Err EType
      end
  | GScan n g' =>
      match t, a with
      | TScan olds _ _ _, [carry; xs] =>
          match r with
          | RUpdate _ | RRegen _ =>
              (* lax.scan over (trace.inner, scanned_in): same length *)
              if negb (match scan_len n xs with Some m => Nat.eqb m (length olds) | None => false end) then Err EType else
              do rr <- scanE (fun i told c =>
                                do x <- edit g' (fold_in k (N.of_nat i)) told
                                             (match r with RUpdate c0 => RUpdate (csub c0 (KI i)) | _ => r end)
                                             [c; slice0 xs i] [tg_unknown; tg_unknown];
                                let '(t', w, b) := x in
                                do cy <- split_ret (t_retval t');
                                Ok (t', w, b, fst cy, snd cy)) 0%nat olds carry;
              let '(xs', cf, ys) := rr in
              let ts := map (fun x => fst (fst x)) xs' in
              do bw <- match r with
                       | RUpdate _ => do cs <- mapiM (fun i x => do c' <- req_chm (snd x); Ok (opt_prefix [KI i] c')) 0%nat xs';
                                      Ok (req_of (opt_concat cs))
                       | _ => Ok (RVector (map snd xs'))
                       end;
              Ok (TScan ts a (VT [cf; stack_vals ys]) (zsum (map t_score ts)), zsum (map (fun x => snd (fst x)) xs'), bw)
          | _ => Err ENotSupported
          end
      | _, _ => Err EType
      end
  | GSwitch bs =>
      (* only the case the existing tests live in: an unchanged (NoChange) index *)
      match t, a, tg with
      | TSwitch _ j sub _ _, VZ idx :: bargs, tgi :: btags =>
          match r with
          | RUpdate _ =>
              if tg_any tgi then Err ENotSupported
              else
                let j' := clampZ idx (gfs_len bs) in
                if negb (Nat.eqb j j') then Err EOther
                else match nth_error bargs j', nth_error btags j' with
                     | Some (VT ba), Some (TgNode bt) =>
                         do x <- edit_branch bs j' k sub r ba bt;
                         let '(t', w, b) := x in
                         Ok (TSwitch a j' t' (t_retval t') (t_score t'), w, if Nat.eqb j' 0 then b else RJunk)
                     | _, _ => Err EType
                     end
          | _ => Err EOther
          end
      | _, _, _ => Err EType
      end
  | GMask g' =>
      match t, a, tg with
      | TMask inner pre _, VB post :: ia, _ :: itags =>
          match r with
          | RUpdate c =>
              do x <- edit g' k inner (RUpdate c) ia itags;
              let '(t', w, b) := x in
              do bc <- req_chm b;
              let fw := match pre, post with
                        | false, true => t_score t'
                        | true, false => - t_score inner
                        | false, false => 0
                        | true, true => w
                        end in
              Ok (TMask t' post a, fw, req_of (option_map (cmask post) bc))
          | _ => Err EOther
          end
      | _, _, _ => Err EType
      end
  | GDimap pre g' post =>
      match t with
      | TDimap inner _ _ =>
          do ia <- eval_list a pre;
          do x <- edit g' k inner r ia (map (tag_eval tg) pre);
          let '(t', w, b) := x in
          do rv <- eval [VT a; VT ia; t_retval t'] post;
          Ok (TDimap t' a rv, w, b)
      | _ => Err EType
      end
  end
with edit_body (b : sbody) (k : key) (cnt : N) (olds : list (addr * trace)) (r : request)
               (env : list val) (envt : list tagt) (acc : list (addr * trace)) (w : Z) (bw : list (addr * request)) {struct b}
  : res (val * list (addr * trace) * Z * list (addr * request)) :=
  match b with
  | SRet e => do v <- eval env e; Ok (v, acc, w, bw)
  | SSite ad g' aexprs rest =>
      do av <- eval_list env aexprs;
      let atags := map (tag_eval envt) aexprs in
      match subs_get olds ad with
      | None => Err EOther
      | Some told =>
          let sub := match r with
                     | RUpdate c => RUpdate (csub_addr c ad)
                     | RRegen s => RRegen (sel_addr s ad)
                     | RStatic m => match find (fun p => addr_eqb (fst p) ad) m with Some p => snd p | None => REmpty end
                     | _ => REmpty
                     end in
          do x <- (match sub with
                   | REmpty => if tags_nochange atags then Ok (told, 0, REmpty)
                               else edit g' (fold_in k cnt) told (RUpdate []) av atags
                   | _ => edit g' (fold_in k cnt) told sub av atags
                   end);
          let '(t', w', b') := x in
          if existsb (fun p => addr_eqb (fst p) ad) acc then Err EAddressReuse
          else edit_body rest k (cnt + 1)%N olds r (env ++ [t_retval t']) (envt ++ [tg_unknown])
                         (acc ++ [(ad, t')]) (w + w') (bw ++ [(ad, b')])
      end
  end
with edit_branch (bs : gfs) (j : nat) (k : key) (t : trace) (r : request) (a : list val) (tg : list tagt) {struct bs}
  : res (trace * Z * request) :=
  match bs, j with
  | GNil, _ => Err EType
  | GCons g' _, O => edit g' k t r a tg
  | GCons _ rest, S j' => edit_branch rest j' k t r a tg
  end.

(* request.edit(key, trace, argdiffs): EmptyRequest is resolved here, primitive requests go to the generative function *)
Definition req_edit (g : gf) (k : key) (t : trace) (r : request) (a : list val) (tg : list tagt) : res (trace * Z * request) :=
  match r with
  | REmpty => if tags_nochange tg then Ok (t, 0, REmpty) else edit g k t (RUpdate []) a tg
  | _ => edit g k t r a tg
  end.

(* does the request contain a part the model does not predict (at any depth: under an index, a static address ...) *)
Fixpoint has_junk (r : request) {struct r} : bool :=
  match r with
  | RJunk => true
  | RIndex _ x => has_junk x
  | RStatic m => (fix go (l : list (addr * request)) : bool :=
                    match l with [] => false | (_, x) :: rest => has_junk x || go rest end) m
  | RVector rs => (fix go (l : list request) : bool :=
                     match l with [] => false | x :: rest => has_junk x || go rest end) rs
  | RUpdate _ | RRegen _ | REmpty => false
  end.

(* what a (backward) request would restore: its constraints as one finite map *)
Fixpoint req_flat (r : request) {struct r} : option chm :=
  match r with
  | RUpdate c => Some c
  | REmpty => Some []
  | RStatic m =>
      (fix go (l : list (addr * request)) : option chm :=
         match l with
         | [] => Some []
         | (ad, x) :: rest => match req_flat x, go rest with
                              | Some c, Some cs => Some (cprefix (map KS ad) c ++ cs)
                              | _, _ => None
                              end
         end) m
  | RIndex i x => match req_flat x with Some c => Some (cprefix [KI (Z.to_nat i)] c) | None => None end
  | RRegen _ | RVector _ | RJunk => None
  end.
