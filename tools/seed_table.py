"""tools/seed_table.py : the table of DESIGN.md section 7 from seeded/*/meta.json and seeded/RESULTS.json"""
import json, os, re, sys
R = json.load(open('/verif/seeded/RESULTS.json'))
rows = ["| seed | property | the change (one scratch worktree, nothing from /verif) | needs | quick check of the property | strengthening it led to |",
        "|---|---|---|---|---|---|"]
def cut(s, n):
    s = re.sub(r"\s+", " ", s).replace("|", "/")
    return s if len(s) <= n else s[:n - 3] + "..."
for n in sorted(os.listdir('/verif/seeded')):
    d = f'/verif/seeded/{n}'
    if not os.path.isdir(d):
        continue
    m = json.load(open(d + '/meta.json'))
    r = R.get(n, {})
    rows.append(f"| {n} | {m['property']} | {cut(m.get('summary', ''), 230)} | {cut(m.get('needs', ''), 170)} | {r.get('result', '?')} | {r.get('note', '')} |")
print("\n".join(rows))
