(* Edits (Update, Regenerate) record executions and weigh by the score change:
   for every program, trace, request, new arguments and key,
     edit g k t r a tg = Ok (t', w, b)  ->  wft g t'  /\  t_args t' = a  /\  w = t_score t' - t_score t.
   With GFIConsistent.wft_ref this is C01 for edited traces, C05's weight, C07's weight,
   C14's flag transitions and C12's "still the loop after an edit". *)
From Coq Require Import List Bool ZArith NArith Lia Arith.
Import ListNotations.
From Gen Require Import SelGen.
From Model Require Import Key Sel GFI GFIEdit.
From Proofs Require Import GFIBase GFIRef GFIWf GFIConsistent GFIProject GFISim.
Open Scope Z_scope.

Definition plain (r : request) : Prop := match r with RUpdate _ | RRegen _ => True | _ => False end.

Lemma addr_eqb_eq a b : addr_eqb a b = true <-> a = b.
Proof.
  revert b; induction a as [|x r IH]; destruct b as [|y s]; simpl; try (split; [discriminate|congruence]); [tauto|].
  rewrite andb_true_iff, Nat.eqb_eq, IH. split; [intros [-> ->]; reflexivity | intros H; inversion H; auto].
Qed.
Lemma addr_eqb_refl a : addr_eqb a a = true.
Proof. apply addr_eqb_eq. reflexivity. Qed.

(* the old sub-traces found by address are the ones the old execution recorded at those sites *)
Fixpoint olds_ok (b : sbody) (olds : list (addr * trace)) : Prop :=
  match b with
  | SRet _ => True
  | SSite a g _ rest => (forall told, subs_get olds a = Some told -> wft g told) /\ olds_ok rest olds
  end.
Definition old_score (olds : list (addr * trace)) (a : addr) : Z :=
  match subs_get olds a with Some t => t_score t | None => 0 end.

Lemma subs_get_notin olds a : ~ In a (map fst olds) -> subs_get olds a = None.
Proof.
  induction olds as [|[a' t] r IH]; intros H; [reflexivity|]. simpl in *.
  destruct (addr_eqb a a') eqn:E; [apply addr_eqb_eq in E; subst; exfalso; apply H; now left | apply IH; tauto].
Qed.

Lemma wfb_olds : forall b env olds ret pre,
  wfb b env olds ret -> NoDup (map fst pre ++ body_addrs b) ->
  olds_ok b (pre ++ olds) /\
  zsum (map (old_score (pre ++ olds)) (body_addrs b)) = zsum (map (fun p => t_score (snd p)) olds).
Proof.
  induction b as [e|a g es rest IH]; intros env olds ret pre Hw Hnd; simpl in *.
  - destruct Hw as [-> _]. auto.
  - destruct olds as [|[a' t] olds']; [contradiction|]. destruct Hw as [-> [_ [Hwt Hw']]].
    assert (Hget : subs_get (pre ++ (a, t) :: olds') a = Some t).
    { apply NoDup_remove_2 in Hnd. clear - Hnd. induction pre as [|[a0 t0] pr IHp]; simpl in *.
      - rewrite addr_eqb_refl. reflexivity.
      - destruct (addr_eqb a a0) eqn:E; [apply addr_eqb_eq in E; subst; exfalso; apply Hnd; now left | apply IHp; tauto]. }
    destruct (IH _ _ _ (pre ++ [(a, t)]) Hw') as [H1 H2].
    { rewrite map_app. simpl. rewrite <- app_assoc. simpl.
      apply NoDup_remove_1 in Hnd as Hnd1. apply NoDup_remove_2 in Hnd as Hnd2.
      clear - Hnd Hnd1 Hnd2. revert Hnd. generalize (map fst pre) (body_addrs rest). intros l1 l2 H.
      (* NoDup (l1 ++ a :: l2) is the same list *) exact H. }
    rewrite <- app_assoc in H1, H2. simpl in H1, H2.
    split; [split; [intros told Ht; rewrite Hget in Ht; inversion Ht; subst; exact Hwt | exact H1]|].
    unfold old_score at 1. rewrite Hget. simpl. rewrite H2. reflexivity.
Qed.

Lemma NoDup_heads l : NoDup (map ahead l) -> NoDup l.
Proof.
  induction l as [|a r IH]; intros H; [constructor|]. simpl in H. inversion H; subst. constructor; [|apply IH; assumption].
  intros Hin. apply H2. apply in_map. exact Hin.
Qed.

(* --- vector combinators --- *)
Lemma mapiM_ok {A B} (f : nat -> A -> res B) : forall l s ys,
  mapiM f s l = Ok ys -> length ys = length l /\
  forall j x, nth_error l j = Some x -> exists y, nth_error ys j = Some y /\ f (s + j)%nat x = Ok y.
Proof.
  induction l as [|x r IH]; intros s ys H; simpl in H.
  - inversion H; subst. split; [reflexivity|]. intros j x Hj. destruct j; discriminate.
  - bind_inv H as y Hy. bind_inv H as ys' Hys. inversion H; subst. destruct (IH _ _ Hys) as [Hl Hn].
    split; [simpl; congruence|]. intros j x0 Hj. destruct j as [|j']; simpl in Hj.
    + inversion Hj; subst. exists y. rewrite Nat.add_0_r. auto.
    + destruct (Hn _ _ Hj) as [y0 [H1 H2]]. exists y0. split; [exact H1|]. replace (s + S j')%nat with (S s + j')%nat by lia. exact H2.
Qed.

Lemma zsum_map_sub {A} (f g : A -> Z) l : zsum (map (fun x => f x - g x) l) = zsum (map f l) - zsum (map g l).
Proof. induction l; simpl; lia. Qed.

Definition EditOk (g : gf) (t : trace) (a : list val) (x : trace * Z * request) : Prop :=
  wft g (fst (fst x)) /\ t_args (fst (fst x)) = a /\ snd (fst x) = t_score (fst (fst x)) - t_score t.

Lemma scanE_chain g' xs (step : nat -> trace -> val -> res (trace * Z * request * val * val)) :
  forall olds s c rs cf ys,
  (forall i told c t' w b c' y, In told olds -> step i told c = Ok (t', w, b, c', y) ->
      wft g' t' /\ t_args t' = [c; slice0 xs i] /\ w = t_score t' - t_score told /\ split_ret (t_retval t') = Ok (c', y)) ->
  scanE step s olds c = Ok (rs, cf, ys) ->
  scan_ok (wft g') xs s c (map (fun x => fst (fst x)) rs) cf ys /\ length rs = length olds /\
  zsum (map (fun x => snd (fst x)) rs) = zsum (map t_score (map (fun x => fst (fst x)) rs)) - zsum (map t_score olds).
Proof.
  induction olds as [|told r IH]; intros s c rs cf ys Hstep H; simpl in H.
  - inversion H; subst. simpl. auto.
  - bind_inv H as x Hx. destruct x as [[[[t' w] b] c'] y]. bind_inv H as rr Hrr. destruct rr as [[rs' cf'] ys']. inversion H; subst.
    destruct (Hstep _ _ _ _ _ _ _ _ (or_introl eq_refl) Hx) as [Hw [Ha [Hwt Hs]]].
    destruct (IH _ _ _ _ _ (fun i t0 c0 t1 w1 b1 c1 y1 Hin => Hstep i t0 c0 t1 w1 b1 c1 y1 (or_intror Hin)) Hrr) as [Hok [Hl Hz]].
    simpl. split; [|split; [congruence | lia]].
    split; [exact Hw|]. split; [exact Ha|]. exists c', y, ys'. auto.
Qed.

Theorem edit_ok_all :
  (forall g, wfg g -> forall k t r a tg x, plain r -> wft g t -> edit g k t r a tg = Ok x -> EditOk g t a x) /\
  (forall b, wfg_body b -> forall k cnt olds r env envt acc w bw x,
      plain r -> olds_ok b olds -> edit_body b k cnt olds r env envt acc w bw = Ok x ->
      let '(v, subs, w', _) := x in
      exists subs', subs = acc ++ subs' /\ wfb b env subs' v /\
        w' = w + zsum (map (fun p => t_score (snd p)) subs') - zsum (map (old_score olds) (body_addrs b))) /\
  (forall bs, wfg_branches bs -> forall j k t r a tg x, plain r -> wf_branch bs j t -> edit_branch bs j k t r a tg = Ok x ->
      wf_branch bs j (fst (fst x)) /\ t_args (fst (fst x)) = a /\ snd (fst x) = t_score (fst (fst x)) - t_score t).
Proof.
  apply gf_sbody_gfs_ind.
  - (* GDist *) intros d _ k t r a tg x Hp Hw H. destruct t; simpl in Hw; try contradiction.
    destruct Hw as [-> [p0 [-> ->]]]. simpl in H.
    destruct a as [|[p| | | | |] [|? ?]]; try discriminate.
    destruct r; simpl in Hp; try contradiction.
    + unfold cvalue in H. destruct (cget c []) as [[z|b|l|l|f [z| | | | |]|]|]; try discriminate; inversion H; subst;
        unfold EditOk; simpl; (split; [split; [reflexivity | eexists; split; reflexivity] | split; [reflexivity | lia]]).
    + destruct (check s); inversion H; subst; unfold EditOk; simpl;
        (split; [split; [reflexivity | eexists; split; reflexivity] | split; [reflexivity | lia]]).
  - (* GStatic *) intros b IH [Hheads Hwb] k t r a tg x Hp Hw H. destruct t; simpl in Hw; try contradiction.
    simpl in H.
    assert (Hnd : NoDup (body_addrs b)) by (apply NoDup_heads; apply Hheads).
    destruct (wfb_olds _ _ _ _ [] Hw Hnd) as [Hok Hsc]. simpl in Hok, Hsc.
    destruct r; try (simpl in Hp; contradiction).
    + bind_inv H as y Hy. destruct y as [[[v subs'] w'] bw']. inversion H; subst.
      pose proof (IH Hwb _ _ _ _ _ _ _ _ _ _ Hp Hok Hy) as IH'. clear IH. rename IH' into IH. simpl in IH. destruct IH as [subs'' [-> [Hwf Hweq]]].
      unfold EditOk. simpl. split; [exact Hwf|]. split; [reflexivity|]. lia.
    + bind_inv H as y Hy. destruct y as [[[v subs'] w'] bw']. inversion H; subst.
      pose proof (IH Hwb _ _ _ _ _ _ _ _ _ _ Hp Hok Hy) as IH'. clear IH. rename IH' into IH. simpl in IH. destruct IH as [subs'' [-> [Hwf Hweq]]].
      unfold EditOk. simpl. split; [exact Hwf|]. split; [reflexivity|]. lia.
  - (* GVmap *) intros axes g IH Hg k t r a tg x Hp Hw H. destruct t; simpl in Hw; try contradiction.
    destruct Hw as [n [Hlen [Hn Hall]]]. simpl in H.
    destruct r; simpl in Hp; try contradiction; [|discriminate].
    destruct (vmap_len axes a) as [n'|] eqn:Hn'; simpl in H; [|discriminate].
    destruct (Nat.eqb n' (length inner)) eqn:En; simpl in H; [|discriminate]. apply Nat.eqb_eq in En.
    bind_inv H as xs Hxs. bind_inv H as cs Hcs. inversion H; subst.
    destruct (mapiM_ok _ _ _ _ Hxs) as [Hl Hnth].
    assert (Hel : forall j told, nth_error inner j = Some told -> exists y, nth_error xs j = Some y /\ EditOk g told (slice_args axes a j) y).
    { intros j told Hj. destruct (Hnth _ _ Hj) as [y [Hy He]]. exists y. split; [exact Hy|]. simpl in He.
      eapply IH; eauto. exact I. apply (Hall j told Hj). }
    unfold EditOk. simpl. split; [|split; [reflexivity|]].
    + exists (length inner). split; [congruence|]. split; [rewrite map_length; exact Hl|].
      intros i t' Hi. apply nth_error_map_inv in Hi. destruct Hi as [y [Hy ->]].
      assert (Hlt : (i < length inner)%nat) by (rewrite <- Hl; apply nth_error_Some; congruence).
      destruct (nth_error inner i) as [told|] eqn:Ht; [|apply nth_error_None in Ht; lia].
      destruct (Hel _ _ Ht) as [y' [Hy' [H1 [H2 _]]]]. rewrite Hy in Hy'. inversion Hy'; subst. auto.
    + (* weights *)
      assert (Hel' : forall j told, nth_error inner j = Some told ->
                 exists y, nth_error xs j = Some y /\ snd (fst y) = t_score (fst (fst y)) - t_score told).
      { intros j told Hj. destruct (Hel j told Hj) as [y [Hy [_ [_ Hw]]]]. eauto. }
      clear - Hel' Hl. revert xs Hel' Hl. induction inner as [|t0 r IHr]; intros xs Hel Hl.
      * destruct xs; [reflexivity | discriminate].
      * destruct xs as [|y ys]; [discriminate|]. simpl.
        destruct (Hel 0%nat t0 eq_refl) as [y' [Hy' Hw]]. simpl in Hy'. inversion Hy'; subst.
        rewrite (IHr ys); [lia | | simpl in Hl; lia].
        intros j told Hj. apply (Hel (S j) told Hj).
  - (* GScan *) intros n g IH Hg k t r a tg x Hp Hw H. destruct t; simpl in Hw; try contradiction.
    destruct Hw as [carry0 [xs0 [len [cf0 [ys0 [-> [Hlen [Hn [Hok [-> ->]]]]]]]]]]. simpl in H.
    destruct a as [|carry [|xs [|? ?]]]; try discriminate.
    assert (Hin : forall told, In told inner -> wft g told).
    { clear - Hok. revert Hok. generalize 0%nat carry0 ys0. induction inner as [|t0 r IHr]; intros s c ys Hok told Hi; [contradiction|].
      simpl in Hok. destruct Hok as [Hw0 [_ [c' [y [ys' [_ [_ Hr]]]]]]]. destruct Hi as [<-|Hi]; [exact Hw0 | eapply IHr; eauto]. }
    assert (Hcore : forall r0, plain r0 ->
       forall rr, scanE (fun i told c => do x0 <- edit g (fold_in k (N.of_nat i)) told
                                             (match r0 with RUpdate c0 => RUpdate (csub c0 (KI i)) | _ => r0 end)
                                             [c; slice0 xs i] [tg_unknown; tg_unknown];
                                let '(t', w, b) := x0 in do cy <- split_ret (t_retval t'); Ok (t', w, b, fst cy, snd cy)) 0%nat inner carry = Ok rr ->
       let '(xs', cf, ys) := rr in
       scan_ok (wft g) xs 0 carry (map (fun x => fst (fst x)) xs') cf ys /\ length xs' = length inner /\
       zsum (map (fun x => snd (fst x)) xs') = zsum (map t_score (map (fun x => fst (fst x)) xs')) - zsum (map t_score inner)).
    { intros r0 Hp0 rr Hrr. destruct rr as [[xs' cf] ys]. eapply scanE_chain; [|exact Hrr].
      intros i told c t' w b c' y Hi Hs. bind_inv Hs as x0 Hx0. destruct x0 as [[t1 w1] b1]. bind_inv Hs as cy Hcy. inversion Hs; subst.
      assert (Hp1 : plain (match r0 with RUpdate c0 => RUpdate (csub c0 (KI i)) | _ => r0 end)) by (destruct r0; simpl in *; auto).
      destruct (IH Hg _ _ _ _ _ _ Hp1 (Hin _ Hi) Hx0) as [H1 [H2 H3]]. simpl in *. destruct cy. auto. }
    destruct r; simpl in Hp; try contradiction.
    + destruct (scan_len n xs) as [m|] eqn:Hm; simpl in H; [|discriminate].
      destruct (Nat.eqb m (length inner)) eqn:Em; simpl in H; [|discriminate]. apply Nat.eqb_eq in Em.
      bind_inv H as rr Hrr. pose proof (Hcore (RUpdate c) I rr Hrr) as Hc. destruct rr as [[xs' cf] ys].
      bind_inv H as bw Hbw. inversion H; subst. destruct Hc as [Hc1 [Hc2 Hc3]].
      unfold EditOk. simpl. split; [|split; [reflexivity | lia]].
      exists carry, xs, (length inner), cf, ys. rewrite map_length. repeat split; auto.
    + destruct (scan_len n xs) as [m|] eqn:Hm; simpl in H; [|discriminate].
      destruct (Nat.eqb m (length inner)) eqn:Em; simpl in H; [|discriminate]. apply Nat.eqb_eq in Em.
      bind_inv H as rr Hrr. pose proof (Hcore (RRegen s) I rr Hrr) as Hc. destruct rr as [[xs' cf] ys].
      simpl in H. inversion H; subst. destruct Hc as [Hc1 [Hc2 Hc3]].
      unfold EditOk. simpl. split; [|split; [reflexivity | lia]].
      exists carry, xs, (length inner), cf, ys. rewrite map_length. repeat split; auto.
  - (* GSwitch *) intros bs IH Hg k t r a tg x Hp Hw H. destruct t; simpl in Hw; try contradiction.
    destruct Hw as [idx0 [bargs0 [a0 [-> [-> [Hnth0 [Hbr [Ha0 [-> ->]]]]]]]]]. simpl in H.
    destruct a as [|[idx| | | | |] bargs]; try discriminate. destruct tg as [|tgi btags]; try discriminate.
    destruct r; simpl in Hp; try contradiction; [|discriminate].
    destruct (tg_any tgi); [discriminate|].
    destruct (Nat.eqb (clampZ idx0 (gfs_len bs)) (clampZ idx (gfs_len bs))) eqn:Ej; simpl in H; [|discriminate].
    apply Nat.eqb_eq in Ej.
    destruct (nth_error bargs (clampZ idx (gfs_len bs))) as [[| |ba| | |]|] eqn:Hnb; try discriminate.
    destruct (nth_error btags (clampZ idx (gfs_len bs))) as [[|bt]|]; try discriminate.
    bind_inv H as y Hy. destruct y as [[t' w] b]. inversion H; subst. rewrite Ej in Hbr.
    destruct (IH Hg _ _ _ (RUpdate c) _ _ _ I Hbr Hy) as [H1 [H2 H3]]. simpl in *.
    unfold EditOk. simpl. split; [|split; [reflexivity | exact H3]].
    exists idx, bargs, ba. repeat split; auto.
  - (* GMask *) intros g IH Hg k t r a tg x Hp Hw H. destruct t; simpl in Hw; try contradiction.
    destruct Hw as [Hw ->]. simpl in H.
    destruct a as [|[|post| | | |] ia]; try discriminate. destruct tg as [|tg0 itags]; try discriminate.
    destruct r; simpl in Hp; try contradiction; [|discriminate].
    bind_inv H as y Hy. destruct y as [[t' w] b]. bind_inv H as bc Hbc. inversion H; subst.
    destruct (IH Hg _ _ (RUpdate c) _ _ _ I Hw Hy) as [H1 [H2 H3]]. simpl in *.
    unfold EditOk. simpl. split; [split; [exact H1 | congruence]|]. split; [reflexivity|].
    destruct check, post; lia.
  - (* GDimap *) intros pre g IH post Hg k t r a tg x Hp Hw H. destruct t; simpl in Hw; try contradiction.
    destruct Hw as [_ [Hw _]]. simpl in H. bind_inv H as ia Hia. bind_inv H as y Hy. destruct y as [[t' w] b].
    bind_inv H as rv Hrv. inversion H; subst. destruct (IH Hg _ _ _ _ _ _ Hp Hw Hy) as [H1 [H2 H3]]. simpl in *.
    unfold EditOk. simpl. subst. auto.
  - (* SRet *) intros e _ k cnt olds r env envt acc w bw x Hp Hok H. simpl in H. bind_inv H as v Hv. inversion H; subst.
    exists []. rewrite app_nil_r. simpl. repeat split; auto. lia.
  - (* SSite *) intros ad g IHg es rest IHr [Hg Hrest] k cnt olds r env envt acc w bw x Hp [Hold Hok] H.
    simpl in H. bind_inv H as av Hav. destruct (subs_get olds ad) as [told|] eqn:Hget; [|discriminate].
    assert (Hsub : exists sub, plain sub /\
       (do x0 <- edit g (fold_in k cnt) told sub av (map (tag_eval envt) es);
        let '(t', w', b') := x0 in
        if existsb (fun p => addr_eqb (fst p) ad) acc then Err EAddressReuse
        else edit_body rest k (cnt + 1)%N olds r (env ++ [t_retval t']) (envt ++ [tg_unknown]) (acc ++ [(ad, t')]) (w + w') (bw ++ [(ad, b')])) = Ok x).
    { destruct r; simpl in Hp; try contradiction; eexists; (split; [|exact H]); exact I. }
    destruct Hsub as [sub [Hps H']]. clear H. bind_inv H' as y Hy. destruct y as [[t' w'] b'].
    destruct (existsb _ acc); [discriminate|].
    destruct (IHg Hg _ _ _ _ _ _ Hps (Hold _ eq_refl) Hy) as [H1 [H2 H3]]. simpl in H1, H2, H3.
    specialize (IHr Hrest _ _ _ _ _ _ _ _ _ _ Hp Hok H'). destruct x as [[[v subs] wf] bwf].
    destruct IHr as [subs' [-> [Hwf Hweq]]]. exists ((ad, t') :: subs').
    split; [rewrite <- app_assoc; reflexivity|]. split; [simpl; subst; auto|].
    assert (Eo : old_score olds ad = t_score told) by (unfold old_score; rewrite Hget; reflexivity).
    simpl. rewrite Eo. lia.
  - (* GNil *) intros _ j k t r a tg x Hp Hw. destruct j; contradiction.
  - (* GCons *) intros g IHg rest IHr [Hg Hr] j k t r a tg x Hp Hw H. destruct j; simpl in *.
    + destruct (IHg Hg _ _ _ _ _ _ Hp Hw H) as [H1 [H2 H3]]. auto.
    + eapply IHr; eauto.
Qed.

Theorem edit_ok g k t r a tg t' w b :
  wfg g -> plain r -> wft g t -> edit g k t r a tg = Ok (t', w, b) ->
  wft g t' /\ t_args t' = a /\ w = t_score t' - t_score t.
Proof. intros Hg Hp Hw H. exact (proj1 edit_ok_all g Hg k t r a tg (t', w, b) Hp Hw H). Qed.

(* C01 for edited traces *)
Theorem edit_agrees_with_assess g k t r a tg t' w b :
  wfg g -> plain r -> wft g t -> edit g k t r a tg = Ok (t', w, b) -> sites_live t' ->
  assess g (t_choices t') (t_args t') = Ok (t_score t', t_retval t').
Proof.
  intros Hg Hp Hw H Hl. destruct (edit_ok _ _ _ _ _ _ _ _ _ Hg Hp Hw H) as [Hw' _].
  destruct (proj1 wft_ref_all g Hg t' Hw' Hl) as [Hr Hs].
  rewrite assess_is_ref_sum, Hr. simpl. rewrite Hs. reflexivity.
Qed.
