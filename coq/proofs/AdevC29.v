(* AdevC29.v — the C29 statements about the model's own functions (interp, run_jvp, run_grad,
   run_estimate), obtained from the lemmas about the total interpreter; refuted witnesses. *)
From Coq Require Import List ZArith QArith Qabs Bool Lia Setoid Morphisms.
Import ListNotations.
From Model Require Import Adev.
From Proofs Require Import AdevPoly AdevGrid AdevProofs AdevMaster AdevSpec AdevLinear.
Open Scope Q_scope.

Lemma wf_mono (sel sel' : prim -> bool) : (forall pr, sel pr = true -> sel' pr = true) ->
  forall p, wf sel p = true -> wf sel' p = true.
Proof.
  intros H. induction p; simpl; intros Hw; try assumption.
  - rewrite !andb_true_iff in *. destruct Hw as [[[[A B] C] D] E]. repeat split; auto.
  - rewrite !andb_true_iff in *. destruct Hw as [[[[A B] C] D] E]. repeat split; auto.
  - rewrite !andb_true_iff in *. destruct Hw as [A B]. split; auto.
  - rewrite !andb_true_iff in *. destruct Hw as [[[A B] C] D]. repeat split; auto.
Qed.

Lemma prim_enum_det pr : prim_enum pr = true -> prim_det pr = true.
Proof. induction pr; simpl; intros; try discriminate; auto. Qed.
Lemma prim_det_exact pr : prim_det pr = true -> prim_exact pr = true.
Proof. induction pr; simpl; intros; try discriminate; auto. Qed.
Lemma prim_det_depth pr : prim_det pr = true -> prim_depth pr = 0%nat.
Proof. induction pr; simpl; intros; try discriminate; auto. Qed.

Lemma det_udepth p : wf prim_det p = true -> udepth p = 0%nat.
Proof.
  induction p; intros Hw.
  - reflexivity.
  - destruct (wf_sample _ _ _ _ Hw) as [A [B [C [D E]]]]. simpl. rewrite (prim_det_depth _ A), (IHp D). reflexivity.
  - destruct (wf_mvdiag _ _ _ _ Hw) as [A [B [C [D E]]]]. simpl. auto.
  - simpl in Hw. apply andb_true_iff in Hw. destruct Hw. simpl. auto.
  - destruct (wf_cond _ _ _ _ _ Hw) as [A [B [C D]]]. simpl. rewrite (IHp1 A), (IHp2 B), (IHp3 C). reflexivity.
Qed.

Lemma pstrip_det pr : forall args, prim_det pr = true -> fst (pstrip pr args) <> PFlipReinforce.
Proof.
  induction pr; intros args Hd; simpl in Hd; try discriminate; simpl; try (destruct args; simpl; discriminate).
  destruct args as [|b args]; simpl. { discriminate. } apply IHpr. assumption.
Qed.

Section C.
Variables lg dlg : Q -> Q.
Notation deval := (deval lg dlg).
Notation interp := (interp lg dlg).
Notation interpT := (interpT lg dlg).
Notation probs_ok := (probs_ok lg dlg).

Lemma det_probs_ok N p : wf prim_det p = true -> forall env benv, probs_ok N p env benv.
Proof.
  induction p; intros Hw env benv.
  - exact I.
  - destruct (wf_sample _ _ _ _ Hw) as [A [B [C [D E]]]]. simpl.
    pose proof (pstrip_det p (map (fun e => deval e env benv) args) A) as Hne.
    destruct (pstrip p (map (fun e => deval e env benv) args)) as [q l]. simpl in Hne.
    destruct q; try exact I; try congruence.
    destruct l as [|? [|? ?]]; try exact I. split; apply IHp; assumption.
  - exact I.
  - simpl in Hw. apply andb_true_iff in Hw. destruct Hw. simpl. apply IHp. assumption.
  - destruct (wf_cond _ _ _ _ _ Hw) as [A [B [C D]]]. simpl.
    split; [apply IHp1; assumption|]. split; [apply IHp2; assumption|].
    destruct (if nth c benv false then p1 else p2); try exact I. apply IHp3. assumption.
Qed.

Lemma RelP_line env : RelP env (map line env).
Proof. induction env; simpl; constructor; [split; reflexivity|assumption]. Qed.
Lemma RelE_line t env : RelE t (map line env) (map (fun x => fst x + t * snd x) env).
Proof. induction env; simpl; constructor; [apply peval_line|assumption]. Qed.
Lemma RelQ_fst env : RelQ env (map fst env).
Proof. induction env; simpl; constructor; [reflexivity|assumption]. Qed.

(* the specification polynomial of a program at a dual environment: parameters move along
   x_i + theta * x_i' *)
Definition Pspec (p : prog) (env : list dual) (benv : list bool) (rs : rnd) (d : nat) : poly :=
  specP p (map line env) benv rs d PKid.

Theorem primal_is_value_model sel p : wf sel p = true ->
  forall env benv rs d, exists r, interp p env benv rs d = Some r /\
    fst r == valueQ lg false p (map fst env) benv rs d Kid.
Proof.
  intros Hw env benv rs d. exists (interpT p env benv rs d). split.
  - apply (interp_total lg dlg sel). assumption.
  - apply (primal_is_value lg dlg sel); [assumption|apply RelQ_fst].
Qed.

Theorem det_exact_model p : wf prim_det p = true ->
  forall env benv rs d, exists r, interp p env benv rs d = Some r /\
    fst r == peval (Pspec p env benv rs d) 0 /\
    snd r == peval (pderiv (Pspec p env benv rs d)) 0 /\
    forall t, peval (Pspec p env benv rs d) t == valueQ lg true p (map (fun x => fst x + t * snd x) env) benv rs d Kid.
Proof.
  intros Hw env benv rs d. exists (interpT p env benv rs d).
  assert (Hex : wf prim_exact p = true) by (apply (wf_mono prim_det); [apply prim_det_exact|assumption]).
  split. { apply (interp_total lg dlg prim_det). assumption. }
  destruct (master lg dlg p Hex 1 0 env (map line env) benv rs d) with (rs1 := rs) as [A B].
  - lia.
  - apply RelP_line.
  - rewrite det_udepth by assumption. lia.
  - apply det_probs_ok. assumption.
  - apply same_eps_refl.
  - simpl in A, B. unfold Pspec. rewrite <- c0_peval0, <- c1_pderiv0. repeat split; try assumption.
    intros t. apply (spec_is_function lg); [assumption|apply RelE_line].
Qed.

Theorem enum_exact_model p : wf prim_enum p = true ->
  forall env benv rs d, exists r, interp p env benv rs d = Some r /\
    fst r == peval (Pspec p env benv rs d) 0 /\
    snd r == peval (pderiv (Pspec p env benv rs d)) 0 /\
    forall t, peval (Pspec p env benv rs d) t == valueQ lg true p (map (fun x => fst x + t * snd x) env) benv rs d Kid.
Proof.
  intros Hw. apply det_exact_model. apply (wf_mono prim_enum); [apply prim_enum_det|assumption].
Qed.

Theorem reinforce_unbiased_model p : wf prim_exact p = true ->
  forall N n env benv rs d, (0 < N)%nat -> (udepth p <= n)%nat -> probs_ok N p env benv ->
    Eu N n d (fun rs' => ofst (interp p env benv rs' d)) rs == peval (Pspec p env benv rs d) 0 /\
    Eu N n d (fun rs' => osnd (interp p env benv rs' d)) rs == peval (pderiv (Pspec p env benv rs d)) 0 /\
    forall t, peval (Pspec p env benv rs d) t == valueQ lg true p (map (fun x => fst x + t * snd x) env) benv rs d Kid.
Proof.
  intros Hw N n env benv rs d HN Hn Hp.
  destruct (master lg dlg p Hw N n env (map line env) benv rs d HN (RelP_line env) Hn Hp rs (same_eps_refl rs)) as [A B].
  unfold Pspec. rewrite <- c0_peval0, <- c1_pderiv0.
  split; [|split].
  - rewrite <- A. apply Eu_ext. intros rs'. rewrite (interp_total lg dlg prim_exact p Hw). reflexivity.
  - rewrite <- B. apply Eu_ext. intros rs'. rewrite (interp_total lg dlg prim_exact p Hw). reflexivity.
  - intros t. apply (spec_is_function lg); [assumption|apply RelE_line].
Qed.

Theorem baseline_unbiased_model pr b args k :
  wf prim_exact (Sample (PBaseline pr) (b :: args) k) = true ->
  forall N n env benv rs d, (0 < N)%nat -> (udepth (Sample pr args k) <= n)%nat ->
    probs_ok N (Sample (PBaseline pr) (b :: args) k) env benv ->
    wf prim_exact (Sample pr args k) = true /\
    Eu N n d (fun rs' => ofst (interp (Sample (PBaseline pr) (b :: args) k) env benv rs' d)) rs
      == Eu N n d (fun rs' => ofst (interp (Sample pr args k) env benv rs' d)) rs /\
    Eu N n d (fun rs' => osnd (interp (Sample (PBaseline pr) (b :: args) k) env benv rs' d)) rs
      == Eu N n d (fun rs' => osnd (interp (Sample pr args k) env benv rs' d)) rs.
Proof.
  intros Hw N n env benv rs d HN Hn Hp.
  assert (Hw' : wf prim_exact (Sample pr args k) = true).
  { destruct (wf_sample _ _ _ _ Hw) as [A [B [C [D E]]]]. simpl in A, B, C, E.
    apply andb_true_iff in C. destruct C as [C1 C2].
    simpl. rewrite A, B, C2, D. simpl. destruct (prim_tail pr); simpl; [rewrite (E eq_refl)|]; reflexivity. }
  split; [assumption|].
  destruct (reinforce_unbiased_model _ Hw N n env benv rs d HN Hn Hp) as [A [B _]].
  destruct (reinforce_unbiased_model _ Hw' N n env benv rs d HN Hn Hp) as [A' [B' _]].
  split; [rewrite A, A'|rewrite B, B']; reflexivity.
Qed.

Lemma sequence_some {A} (f : nat -> A) l : sequence (map (fun i => Some (f i)) l) = Some (map f l).
Proof. induction l; simpl; [reflexivity|]. rewrite IHl. reflexivity. Qed.

Theorem grad_is_jvp_model sel p : wf sel p = true ->
  forall xs t rs, exists g r,
    run_grad lg dlg p xs rs = Some g /\ run_jvp lg dlg p (envOf xs t 0) rs = Some r /\
    length g = length xs /\
    snd r == gsum (length xs) (fun i => t i * nth i g 0).
Proof.
  intros Hw xs t rs.
  exists (map (fun i => snd (interpT p (rev (unit_from xs i 0)) [] rs 0)) (seq 0 (length xs))).
  exists (interpT p (rev (envOf xs t 0)) [] rs 0).
  split; [|split; [|split]].
  - unfold run_grad, run_jvp.
    rewrite (map_ext _ (fun i => Some (snd (interpT p (rev (unit_from xs i 0)) [] rs 0)))).
    2:{ intros i. rewrite (interp_total lg dlg sel p Hw). reflexivity. }
    apply sequence_some.
  - unfold run_jvp. apply (interp_total lg dlg sel). assumption.
  - rewrite map_length, seq_length. reflexivity.
  - rewrite (tangent_is_grad_sum lg dlg). apply gsum_ext. intros i Hi.
    rewrite (nth_indep _ 0 (snd (interpT p (rev (unit_from xs 0 0)) [] rs 0))) by (rewrite map_length, seq_length; assumption).
    rewrite (map_nth (fun i => snd (interpT p (rev (unit_from xs i 0)) [] rs 0)) (seq 0 (length xs)) 0%nat i).
    rewrite seq_nth by assumption. reflexivity.
Qed.

Lemma envOf_fst xs t : forall j, map fst (envOf xs t j) = xs.
Proof. induction xs; intros j; simpl; [reflexivity|]. rewrite IHxs. reflexivity. Qed.
Lemma map_dC_fst xs : map fst (map dC xs) = xs.
Proof. induction xs; simpl; [reflexivity|]. rewrite IHxs. reflexivity. Qed.

Theorem estimate_is_value_model sel p : wf sel p = true ->
  forall xs rs, exists v, run_estimate lg dlg p xs rs = Some v /\
    v == valueQ lg false p (rev xs) [] rs 0 Kid /\
    forall t, exists r, run_jvp lg dlg p (envOf xs t 0) rs = Some r /\ fst r == v.
Proof.
  intros Hw xs rs.
  destruct (primal_is_value_model sel p Hw (rev (map dC xs)) [] rs 0) as [r [E V]].
  exists (fst r). unfold run_estimate, run_jvp. rewrite E. split; [reflexivity|].
  rewrite map_rev, map_dC_fst in V. split; [assumption|].
  intros t. destruct (primal_is_value_model sel p Hw (rev (envOf xs t 0)) [] rs 0) as [r' [E' V']].
  exists r'. split; [assumption|]. rewrite map_rev, envOf_fst in V'. rewrite V', V. reflexivity.
Qed.

(* primitives that raise on the unchanged tree *)
Theorem broken_prims_raise pr args k env benv rs d :
  pr = PFlipMVD \/ pr = PFlipEnumPar \/ pr = PCatEnumPar \/ pr = PUniform ->
  interp (Sample pr args k) env benv rs d = None.
Proof. intros [H|[H|[H|H]]]; subst; simpl; destruct (map (fun e => deval e env benv) args); reflexivity. Qed.
End C.
