"""C06 — engine B-gfi (harness/bgfi.py); theorems in coq/props/C06.v."""
from . import bgfi


def run(ctx):
    bgfi.run_property(ctx, "C06", oracles=bgfi.PROP_ORACLES.get("C06"))


def replay(case):
    return bgfi.replay(case)
