(* C22 / C34 / C35 / C38: the static language's addresses, sub-traces, masked constraints, derived methods. *)
From Coq Require Import List Bool ZArith NArith Lia Arith.
Import ListNotations.
From Gen Require Import SelGen.
From Model Require Import Key Sel GFI GFIEdit GFIOps.
From Proofs Require Import GFIBase GFIRef GFIWf GFIConsistent GFIProject GFISim GFIGen GFIEditProofs.
Open Scope Z_scope.

(* ---------- the choice map holds exactly the visited addresses ---------- *)
Definition valid (v : val) : bool := match v with VM false _ => false | _ => true end.
Definition live_paths (c : chm) : list path := map fst (filter (fun e => valid (snd e)) c).

Lemma live_paths_app a b : live_paths (a ++ b) = live_paths a ++ live_paths b.
Proof. unfold live_paths. rewrite filter_app, map_app. reflexivity. Qed.
Lemma live_paths_prefix p c : live_paths (cprefix p c) = map (app p) (live_paths c).
Proof.
  unfold live_paths, cprefix. induction c as [|[q v] r IH]; [reflexivity|]. simpl.
  destruct (valid v); simpl; rewrite IH; reflexivity.
Qed.
Lemma live_paths_cmask_false c : live_paths (cmask false c) = [].
Proof.
  unfold live_paths, cmask. induction c as [|[q v] r IH]; [reflexivity|].
  cbn [map filter fst snd]. replace (valid (vmask false v)) with false by (unfold vmask; destruct v; reflexivity). exact IH.
Qed.
Lemma term_paths_prefix p l : map tm_path (map (tm_prefix p) l) = map (app p) (map tm_path l).
Proof. rewrite !map_map. reflexivity. Qed.

Theorem choices_are_visited_all :
  (forall g t, wft g t -> live_paths (t_choices t) = map tm_path (t_terms t)) /\
  (forall b env subs ret, wfb b env subs ret -> live_paths (choices_of subs) = map tm_path (terms_of subs)) /\
  (forall bs j t, wf_branch bs j t -> live_paths (t_choices t) = map tm_path (t_terms t)).
Proof.
  apply gf_sbody_gfs_ind.
  - intros d t Hw. destruct t; simpl in Hw; try contradiction. destruct Hw as [-> [p [-> ->]]]. reflexivity.
  - intros b IH t Hw. destruct t; simpl in Hw; try contradiction. simpl. apply (IH _ _ _ Hw).
  - intros axes g IH t Hw. destruct t; simpl in Hw; try contradiction. destruct Hw as [n [_ [_ Hall]]]. simpl.
    fold (ichoices 0 inner). fold (iterms 0 inner).
    assert (G : forall s, (forall j t', nth_error inner j = Some t' -> live_paths (t_choices t') = map tm_path (t_terms t')) ->
                live_paths (ichoices s inner) = map tm_path (iterms s inner)).
    { clear. induction inner as [|t0 r IHr]; intros s H; [reflexivity|].
      rewrite ichoices_cons, iterms_cons, live_paths_app, map_app, live_paths_prefix, term_paths_prefix, (H 0%nat t0 eq_refl).
      rewrite (IHr (S s)); [reflexivity|]. intros j t' Hj. apply (H (S j) t' Hj). }
    apply G. intros j t' Hj. apply IH. apply (Hall j t' Hj).
  - intros n g IH t Hw. destruct t; simpl in Hw; try contradiction.
    destruct Hw as [carry [xs [len [cf [ys [_ [_ [_ [Hok _]]]]]]]]]. simpl. fold (ichoices 0 inner). fold (iterms 0 inner).
    assert (Hin : forall t', In t' inner -> wft g t').
    { clear - Hok. revert Hok. generalize 0%nat carry ys. induction inner as [|t0 r IHr]; intros s c ys0 Hok t' Hi; [contradiction|].
      simpl in Hok. destruct Hok as [Hw0 [_ [c' [y [ys' [_ [_ Hr]]]]]]]. destruct Hi as [<-|Hi]; [exact Hw0 | eapply IHr; eauto]. }
    clear Hok. generalize 0%nat. induction inner as [|t0 r IHr]; intros s; [reflexivity|].
    rewrite ichoices_cons, iterms_cons, live_paths_app, map_app, live_paths_prefix, term_paths_prefix.
    rewrite (IH t0 (Hin t0 (or_introl eq_refl))), (IHr (fun t' Hi => Hin t' (or_intror Hi))). reflexivity.
  - intros bs IH t Hw. destruct t; simpl in Hw; try contradiction.
    destruct Hw as [idx [bargs [a [_ [_ [_ [Hbr _]]]]]]]. simpl. eapply IH; eauto.
  - intros g IH t Hw. destruct t; simpl in Hw; try contradiction. destruct Hw as [Hw _]. simpl.
    destruct check; [rewrite cmask_true; apply IH; exact Hw | apply live_paths_cmask_false].
  - intros pre g IH post t Hw. destruct t; simpl in Hw; try contradiction. destruct Hw as [_ [Hw _]]. simpl. apply IH; exact Hw.
  - intros e env subs ret [-> _]. reflexivity.
  - intros a g IHg es rest IHr env subs ret Hw. simpl in Hw. destruct subs as [|[a' t] subs']; [contradiction|].
    destruct Hw as [-> [_ [Hwt Hw']]]. unfold choices_of, terms_of in *. simpl.
    rewrite live_paths_app, map_app, live_paths_prefix, term_paths_prefix, (IHg _ Hwt), (IHr _ _ _ Hw'). reflexivity.
  - intros j t Hw. destruct j; contradiction.
  - intros g IHg r IHr j t Hw. destruct j; simpl in Hw; [apply IHg | eapply IHr]; eauto.
Qed.
Corollary choices_are_visited g t : wft g t -> live_paths (t_choices t) = map tm_path (t_terms t).
Proof. apply choices_are_visited_all. Qed.

(* ---------- a re-used address is reported ---------- *)
Lemma existsb_addr acc a : In a (map fst acc) -> existsb (fun p : addr * trace => addr_eqb (fst p) a) acc = true.
Proof.
  intros H. apply existsb_exists. apply in_map_iff in H. destruct H as [[a' t] [<- Hin]]. exists (a', t). split; [exact Hin | apply addr_eqb_refl].
Qed.
Lemma existsb_addr_false acc a : existsb (fun p : addr * trace => addr_eqb (fst p) a) acc = false -> ~ In a (map fst acc).
Proof. intros H Hin. rewrite (existsb_addr _ _ Hin) in H. discriminate. Qed.

Lemma NoDup_snoc {A} (l : list A) a : NoDup l -> ~ In a l -> NoDup (l ++ [a]).
Proof.
  induction l as [|x r IH]; intros Hnd Hn; simpl; [constructor; [intros []|constructor]|].
  inversion Hnd; subst. constructor.
  - rewrite in_app_iff. intros [Hi|[<-|[]]]; [contradiction | apply Hn; now left].
  - apply IH; [assumption | intros Hi; apply Hn; now right].
Qed.

Theorem sim_body_nodup : forall b k cnt env acc r,
  NoDup (map fst acc) -> sim_body b k cnt env acc = Ok r -> NoDup (map fst acc ++ body_addrs b).
Proof.
  induction b as [e|a g es rest IH]; intros k cnt env acc r Hnd H; simpl in *.
  - rewrite app_nil_r. exact Hnd.
  - bind_inv H as av Hav. bind_inv H as t Ht. destruct (existsb _ acc) eqn:E; [discriminate|].
    apply existsb_addr_false in E.
    pose proof (IH k (cnt + 1)%N (env ++ [t_retval t]) (acc ++ [(a, t)]) r) as IH'.
    rewrite map_app in IH'. simpl in IH'. rewrite <- app_assoc in IH'. simpl in IH'.
    apply IH'; [apply NoDup_snoc; assumption | exact H].
Qed.
Theorem simulate_static_addresses_distinct b k a t : simulate (GStatic b) k a = Ok t -> NoDup (body_addrs b).
Proof.
  intros H. simpl in H. bind_inv H as r Hr. apply (sim_body_nodup b k 1%N a [] r (NoDup_nil _) Hr).
Qed.
Theorem gen_body_nodup : forall b k cnt c env acc w r,
  NoDup (map fst acc) -> gen_body b k cnt c env acc w = Ok r -> NoDup (map fst acc ++ body_addrs b).
Proof.
  induction b as [e|a g es rest IH]; intros k cnt c env acc w r Hnd H; simpl in *.
  - rewrite app_nil_r. exact Hnd.
  - bind_inv H as av Hav. bind_inv H as x Hx. destruct (existsb _ acc) eqn:E; [discriminate|].
    apply existsb_addr_false in E.
    pose proof (IH k (cnt + 1)%N c (env ++ [t_retval (fst x)]) (acc ++ [(a, fst x)]) (w + snd x) r) as IH'.
    rewrite map_app in IH'. simpl in IH'. rewrite <- app_assoc in IH'. simpl in IH'.
    apply IH'; [apply NoDup_snoc; assumption | exact H].
Qed.
Theorem generate_static_addresses_distinct b k c a x : generate (GStatic b) k c a = Ok x -> NoDup (body_addrs b).
Proof.
  intros H. simpl in H. bind_inv H as r Hr. apply (gen_body_nodup b k 1%N c a [] 0 r (NoDup_nil _) Hr).
Qed.

(* ---------- MissingAddress ---------- *)
Theorem assess_missing_address a g es rest c env s av :
  eval_list env es = Ok av -> csub_addr c a = [] -> assess_body (SSite a g es rest) c env s = Err EMissingAddress.
Proof. intros Hav He. simpl. rewrite Hav. simpl. rewrite He. reflexivity. Qed.
Theorem assess_present_address a g es rest c env s av :
  eval_list env es = Ok av -> csub_addr c a <> [] ->
  assess_body (SSite a g es rest) c env s =
  (do x <- assess g (csub_addr c a) av; assess_body rest c (env ++ [snd x]) (s + fst x)).
Proof. intros Hav He. simpl. rewrite Hav. simpl. destruct (csub_addr c a); [contradiction | reflexivity]. Qed.

(* ---------- get_subtrace ---------- *)
Lemma subs_get_In subs a t' : subs_get subs a = Some t' -> In (a, t') subs.
Proof.
  induction subs as [|[a0 t0] r IH]; [discriminate|]. simpl. destruct (addr_eqb a a0) eqn:E.
  - apply addr_eqb_eq in E. subst. intros H. inversion H; subst. now left.
  - intros H. right. apply IH. exact H.
Qed.
Lemma wfb_sub : forall b env subs ret a t', wfb b env subs ret -> In (a, t') subs -> exists g', wft g' t'.
Proof.
  induction b as [e|a0 g0 es rest IH]; intros env subs ret a t' Hw Hin; simpl in Hw.
  - destruct Hw as [-> _]. contradiction.
  - destruct subs as [|[a1 t1] subs']; [contradiction|]. destruct Hw as [-> [_ [Hwt Hw']]].
    destruct Hin as [E|Hin]; [inversion E; subst; exists g0; exact Hwt | eapply IH; eauto].
Qed.

Theorem subtrace_of_static b args ret subs a t' :
  wft (GStatic b) (TStatic args ret subs) -> heads_ok (body_addrs b) -> subs_get subs a = Some t' ->
  get_inner_trace (TStatic args ret subs) a = Ok t' /\
  csub_addr (t_choices (TStatic args ret subs)) a = t_choices t' /\
  t_score t' = tsum (t_terms t') /\
  incl (map (tm_prefix (map KS a)) (t_terms t')) (t_terms (TStatic args ret subs)).
Proof.
  intros Hw Hh Hg. simpl in Hw. split; [simpl; rewrite Hg; reflexivity|].
  assert (Hh' : heads_ok (map fst subs)) by (rewrite (wfb_addrs _ _ _ _ Hw); exact Hh).
  pose proof (subs_get_In _ _ _ Hg) as Hin.
  split.
  - assert (exists pre post, subs = pre ++ (a, t') :: post) as [pre [post ->]].
    { clear - Hg. induction subs as [|[a0 t0] r IH]; [discriminate|]. simpl in Hg. destruct (addr_eqb a a0) eqn:E.
      - apply addr_eqb_eq in E. subst. inversion Hg; subst. exists [], r. reflexivity.
      - destruct (IH Hg) as [pre [post ->]]. exists ((a0, t0) :: pre), post. reflexivity. }
    apply csub_addr_own. exact Hh'.
  - split.
    + destruct (wfb_sub _ _ _ _ _ _ Hw Hin) as [g' Hg']. apply (wft_score g' t' Hg').
    + intros x Hx. simpl. apply in_flat_map. exists (a, t'). split; [exact Hin | exact Hx].
Qed.
(* sub-traces are reached through dimap / mask / switch wrappers *)
Theorem subtrace_through_wrappers inner a args ret check j score :
  get_inner_trace (TDimap inner args ret) a = get_inner_trace inner a /\
  get_inner_trace (TMask inner check args) a = get_inner_trace inner a /\
  get_inner_trace (TSwitch args j inner ret score) a = get_inner_trace inner a.
Proof. repeat split; reflexivity. Qed.

(* ---------- masked constraints (C35) ---------- *)
Theorem masked_true_is_constraint_site d k v p :
  generate (GDist d) k [([], VM true (VZ v))] [VZ p] = generate (GDist d) k [([], VZ v)] [VZ p].
Proof. reflexivity. Qed.
Theorem masked_false_is_absent_site d k x p :
  generate (GDist d) k [([], VM false x)] [VZ p] = generate (GDist d) k [] [VZ p].
Proof. reflexivity. Qed.
Theorem masked_update_site d k vold sold v p tg :
  (exists b, edit (GDist d) k (TDist d [VZ p] vold sold) (RUpdate [([], VM true (VZ v))]) [VZ p] tg
             = Ok (TDist d [VZ p] v (d_logpdf d v p), d_logpdf d v p - sold, b) /\
             edit (GDist d) k (TDist d [VZ p] vold sold) (RUpdate [([], VZ v)]) [VZ p] tg
             = Ok (TDist d [VZ p] v (d_logpdf d v p), d_logpdf d v p - sold, b)) /\
  (exists b b', edit (GDist d) k (TDist d [VZ p] vold sold) (RUpdate [([], VM false (VZ v))]) [VZ p] tg
             = Ok (TDist d [VZ p] vold (d_logpdf d vold p), d_logpdf d vold p - sold, b) /\
             edit (GDist d) k (TDist d [VZ p] vold sold) (RUpdate []) [VZ p] tg
             = Ok (TDist d [VZ p] vold (d_logpdf d vold p), d_logpdf d vold p - sold, b') /\
             req_flat b = Some [([], VM false (VZ vold))] /\ req_flat b' = Some []).
Proof.
  split.
  - eexists. split; reflexivity.
  - eexists. eexists. repeat split; reflexivity.
Qed.
Lemma con_masked c p d v par f :
  cget c p = Some (VM f (VZ v)) ->
  GFIGen.con c {| tm_path := p; tm_dist := d; tm_val := v; tm_par := par |} = f.
Proof. intros H. unfold GFIGen.con, constrained. simpl. rewrite H. destruct f; reflexivity. Qed.

(* ---------- derived methods and request combinators (C38) ---------- *)
Theorem propose_is_simulate g k a :
  propose g k a = match simulate g k a with Ok t => Ok (t_choices t, t_score t, t_retval t) | Err e => Err e end.
Proof. unfold propose. destruct (simulate g k a); reflexivity. Qed.
Theorem importance_is_generate g k c a : importance g k c a = generate g k c a.
Proof. reflexivity. Qed.
Theorem empty_request g k t a tg :
  req_edit g k t REmpty a tg = if tags_nochange tg then Ok (t, 0, REmpty) else edit g k t (RUpdate []) a tg.
Proof. reflexivity. Qed.
Theorem primitive_requests_go_to_the_generative_function g k t r a tg :
  r <> REmpty -> req_edit g k t r a tg = edit g k t r a tg.
Proof. intros H. destruct r; try reflexivity. contradiction. Qed.
(* StaticRequest: the site at address ad gets the addressed sub-request, every other site EmptyRequest *)
Definition static_subrequest (m : list (addr * request)) (ad : addr) : request :=
  match find (fun p => addr_eqb (fst p) ad) m with Some p => snd p | None => REmpty end.
Theorem static_request_site ad g es rest k cnt olds m env envt acc w bw av told :
  eval_list env es = Ok av -> subs_get olds ad = Some told ->
  edit_body (SSite ad g es rest) k cnt olds (RStatic m) env envt acc w bw =
  (do x <- (match static_subrequest m ad with
            | REmpty => if tags_nochange (map (tag_eval envt) es) then Ok (told, 0, REmpty)
                        else edit g (fold_in k cnt) told (RUpdate []) av (map (tag_eval envt) es)
            | sub => edit g (fold_in k cnt) told sub av (map (tag_eval envt) es)
            end);
   let '(t', w', b') := x in
   if existsb (fun p => addr_eqb (fst p) ad) acc then Err EAddressReuse
   else edit_body rest k (cnt + 1)%N olds (RStatic m) (env ++ [t_retval t']) (envt ++ [tg_unknown])
                  (acc ++ [(ad, t')]) (w + w') (bw ++ [(ad, b')])).
Proof.
  intros Hav Hg. simpl. rewrite Hav. simpl. rewrite Hg. unfold static_subrequest.
  destruct (find (fun p => addr_eqb (fst p) ad) m) as [[a0 r0]|]; [destruct r0|]; reflexivity.
Qed.
