(* C11 — vmap behaves as independent elementwise calls. *)
From Coq Require Import List ZArith.
Import ListNotations.
From Gen Require Import SelGen.
From Model Require Import Key Sel GFI GFIEdit Derived.
From Proofs Require Import GFIBase GFIRef GFIWf GFIConsistent GFIProject GFISim GFIGen GFIEditProofs GFIEditChoices GFIDerived GFIDerived2 GFICombinators GFIIndexEdit.
Open Scope Z_scope.

Theorem C11_vmap_trace_is_elementwise : forall axes g t,
  wft (GVmap axes g) t ->
  exists inner n, t = TVmap inner (t_args t) /\ vmap_len axes (t_args t) = Some n /\ length inner = n /\
    (forall i t', nth_error inner i = Some t' ->
        wft g t' /\ t_args t' = slice_args axes (t_args t) i /\ csub (t_choices t) (KI i) = t_choices t') /\
    t_score t = zsum (map t_score inner) /\ t_retval t = VA (map t_retval inner).
Proof. exact vmap_trace_shape. Qed.
Print Assumptions C11_vmap_trace_is_elementwise.

Theorem C11_vmap_importance_is_elementwise : forall axes g k c a t w,
  generate (GVmap axes g) k c a = Ok (t, w) ->
  exists n rs, vmap_len axes a = Some n /\ length rs = n /\
    (forall i x, nth_error rs i = Some x ->
        generate g (fold_in k (N.of_nat i)) (csub c (KI i)) (slice_args axes a i) = Ok x) /\
    t = TVmap (map fst rs) a /\ w = zsum (map snd rs).
Proof. exact vmap_generate_elementwise. Qed.
Print Assumptions C11_vmap_importance_is_elementwise.

Theorem C11_vmap_simulate_is_elementwise : forall axes g k a t,
  simulate (GVmap axes g) k a = Ok t ->
  exists n inner, vmap_len axes a = Some n /\ length inner = n /\
    (forall i t', nth_error inner i = Some t' -> simulate g (fold_in k (N.of_nat i)) (slice_args axes a i) = Ok t') /\
    t = TVmap inner a.
Proof. exact vmap_simulate_elementwise. Qed.
Print Assumptions C11_vmap_simulate_is_elementwise.

Theorem C11_zero_length_is_empty : forall axes g k a,
  vmap_len axes a = Some 0%nat ->
  simulate (GVmap axes g) k a = Ok (TVmap [] a) /\ t_score (TVmap [] a) = 0 /\ t_choices (TVmap [] a) = [] /\
  generate (GVmap axes g) k [] a = Ok (TVmap [] a, 0).
Proof. exact vmap_zero_length. Qed.
Print Assumptions C11_zero_length_is_empty.

Theorem C11_every_operation_yields_such_traces : forall g t, produced g t -> wft g t.
Proof. exact produced_wft. Qed.
Print Assumptions C11_every_operation_yields_such_traces.

(* repeat(n): n independent element traces of g, all run on the same arguments *)
Theorem C11_repeat_is_n_copies : forall n g t,
  wft (g_repeat n g (length (t_args t))) t ->
  exists us, length us = n /\
    (forall j u, nth_error us j = Some u -> wft g u /\ t_args u = t_args t /\ csub (t_choices t) (KI j) = t_choices u) /\
    t_retval t = VA (map t_retval us) /\ t_score t = zsum (map t_score us).
Proof. exact repeat_is_n_copies. Qed.
Print Assumptions C11_repeat_is_n_copies.

(* an IndexRequest (arguments unchanged) edits element i alone: the result is again an elementwise trace, the other
   elements are the old ones, the weight is the score change, the backward request addresses the same index *)
Theorem C11_index_edit_touches_one_element : forall axes g k t idx r tg t' w b,
  wfg g -> plain r -> wft (GVmap axes g) t ->
  edit (GVmap axes g) k t (RIndex idx r) (t_args t) tg = Ok (t', w, b) ->
  exists inner i told tnew wi bi,
    t = TVmap inner (t_args t) /\ (0 <= idx < Z.of_nat (length inner)) /\ i = Z.to_nat idx /\
    nth_error inner i = Some told /\
    edit g k told r (slice_args axes (t_args t) i) tg = Ok (tnew, wi, bi) /\
    t' = TVmap (replace_nth inner i tnew) (t_args t) /\ b = RIndex idx bi /\
    wft (GVmap axes g) t' /\ w = t_score t' - t_score t /\
    (forall j, j <> i -> nth_error (replace_nth inner i tnew) j = nth_error inner j).
Proof. exact vmap_index_edit. Qed.
Print Assumptions C11_index_edit_touches_one_element.

(* ---- non-vacuity: concrete non-trivial programs and traces meeting the hypotheses above (proofs/GFIWitness.v) ---- *)
From Proofs Require Import GFIWitness.
Example C11_hypotheses_met :
  (wft ex_vmap (tr_of ex_vmap ex_vmap_a) /\ length (t_choices (tr_of ex_vmap ex_vmap_a)) = 3%nat) /\
  (let t := tr_of (g_repeat 3 ex_step 1) [VZ 2] in wft (g_repeat 3 ex_step (length (t_args t))) t /\ length (t_choices t) = 3%nat).
Proof. exact (conj ex_vmap_wft ex_repeat_wft). Qed.
Print Assumptions C11_hypotheses_met.

Example C11_index_edit_hypotheses_met :
  wft ex_vmap (tr_of ex_vmap ex_vmap_a) /\
  exists t' w b, edit ex_vmap ex_k2 (tr_of ex_vmap ex_vmap_a) (RIndex 1 (RUpdate [([KS 0%nat], VZ 9)])) (t_args (tr_of ex_vmap ex_vmap_a)) [TgLeaf false; TgLeaf false]
                 = Ok (t', w, b) /\ t' <> tr_of ex_vmap ex_vmap_a /\ w <> 0.
Proof. exact (conj (proj1 ex_vmap_wft) ex_vmap_index_edit_succeeds). Qed.
Print Assumptions C11_index_edit_hypotheses_met.
