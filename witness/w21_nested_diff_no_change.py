"""candidate finding (C21, outside Diff's documented contract): a nested Diff is neither
rejected nor flattened; Diff.no_change of it is not all-NoChange and does not keep the
primal values.  exit 1 if present."""
import sys
from genjax._src.core.compiler.interpreters.incremental import Diff, NoChange, UnknownChange

t = Diff(Diff(1, UnknownChange), NoChange)          # accepted by the type-checked constructor
r = Diff.no_change(t)                               # Diff(Diff(1, NoChange), UnknownChange)
bad = []
if not Diff.static_check_no_change(r):
    bad.append(("no_change(t) is not all NoChange", repr(r)))
if Diff.tree_primal(r) != Diff.tree_primal(t):
    bad.append(("tree_primal(no_change(t)) != tree_primal(t)", repr(Diff.tree_primal(r)), repr(Diff.tree_primal(t))))
print("FAIL" if bad else "OK", bad[:2])
sys.exit(1 if bad else 0)
