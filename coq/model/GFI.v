(* Executable model of GenJAX's generative function interface (Layer B).
   Deep syntax `gf` for programs built from probe distributions, the static
   language and the combinators; interpreters simulate / assess / generate /
   project that mirror the implementation method by method (key derivation,
   which score terms are summed, where return values and scores are stored).

   Choice maps are *observational*: the finite map from full addresses to leaf
   values that public-API lookups see.  A leaf masked by an array flag keeps its
   value under `VM false` (as `ChoiceMap.mask` does), so that `assess` of a trace's
   own choices can read it back exactly like the implementation.  Unselected
   switch branches (zero placeholders masked off) are not represented.

     distribution.py  Distribution.simulate / generate_choice_map / project, ExactDensity.assess
     static.py        SimulateHandler / AssessHandler / GenerateHandler, StaticTrace, project
     vmap.py          Vmap.simulate / generate / assess / project, VmapTrace.build
     scan.py          Scan.simulate / generate / assess / project, ScanTrace
     switch.py        Switch.simulate / generate / assess / project, SwitchTrace
     mask.py          MaskCombinator.*, MaskTrace.build
     dimap.py         Dimap.*                                                           *)
From Coq Require Import List Bool ZArith NArith Lia.
Import ListNotations.
From Gen Require Import SelGen.
From Model Require Import Key Sel.
Open Scope Z_scope.

(* ---------------- values ---------------- *)
Inductive val :=
| VZ (z : Z)                 (* float32 / int32 scalar holding a small integer *)
| VB (b : bool)              (* array flag *)
| VT (l : list val)          (* python tuple *)
| VA (l : list val)          (* array, leading axis *)
| VM (f : bool) (v : val)    (* Mask(value, flag) *)
| VNone.

Fixpoint val_eqb (a b : val) {struct a} : bool :=
  let fix all2 (l1 l2 : list val) : bool :=
      match l1, l2 with
      | [], [] => true
      | x :: r1, y :: r2 => val_eqb x y && all2 r1 r2
      | _, _ => false
      end in
  match a, b with
  | VZ x, VZ y => Z.eqb x y
  | VB x, VB y => Bool.eqb x y
  | VT l1, VT l2 => all2 l1 l2
  | VA l1, VA l2 => all2 l1 l2
  | VM f v, VM g w => if f then (if g then val_eqb v w else false) else negb g   (* an invalid mask has no value *)
  | VNone, VNone => true
  | _, _ => false
  end.

(* ---------------- errors ---------------- *)
Inductive err := EAddressReuse | EMissingAddress | ENotSupported | EType | EOther.
Inductive res (A : Type) := Ok (a : A) | Err (e : err).
Arguments Ok {A}. Arguments Err {A}.
Definition bind {A B} (r : res A) (f : A -> res B) : res B := match r with Ok a => f a | Err e => Err e end.
Notation "'do' x <- r ; k" := (bind r (fun x => k)) (at level 200, x pattern, r at level 100, k at level 200).
Definition err_eqb (a b : err) : bool :=
  match a, b with
  | EAddressReuse, EAddressReuse | EMissingAddress, EMissingAddress | ENotSupported, ENotSupported
  | EType, EType | EOther, EOther => true
  | _, _ => false
  end.

Definition mapM {A B} (f : A -> res B) : list A -> res (list B) :=
  fix go (l : list A) : res (list B) :=
    match l with
    | [] => Ok []
    | x :: r => do y <- f x; do ys <- go r; Ok (y :: ys)
    end.

(* the documented scan loop: step i carry = (payload, carry', y) *)
Fixpoint scanM {T} (step : nat -> val -> res (T * val * val)) (is : list nat) (c : val)
  : res (list T * val * list val) :=
  match is with
  | [] => Ok ([], c, [])
  | i :: r =>
      do x <- step i c;
      let '(t, c', y) := x in
      do rr <- scanM step r c';
      let '(ts, cf, ys) := rr in Ok (t :: ts, cf, y :: ys)
  end.

(* ---------------- pure expressions (argument / return computations) ---------------- *)
Inductive expr :=
| EVar (i : nat) | EConst (z : Z)
| EAdd (a b : expr) | EMul (a b : expr)
| ETup (l : list expr) | EProj (i : nat) (e : expr) | ENone
| EZeros (n : nat)                 (* jnp.zeros(n) *)
| ENotIdx (e : expr)               (* jnp.array(jnp.logical_not(b), dtype=int) *)
| ECons (a : expr) (arr : expr)    (* concatenate([a[None]], arr) *)
| EUnmask (m : expr) (d : expr)    (* m.unmask(default=d) *)
| EMaskValue (m : expr).           (* m.value *)

Fixpoint eval (env : list val) (e : expr) {struct e} : res val :=
  match e with
  | EVar i => match nth_error env i with Some v => Ok v | None => Err EType end
  | EConst z => Ok (VZ z)
  | EAdd a b => do x <- eval env a; do y <- eval env b;
                match x, y with VZ p, VZ q => Ok (VZ (p + q)) | _, _ => Err EType end
  | EMul a b => do x <- eval env a; do y <- eval env b;
                match x, y with VZ p, VZ q => Ok (VZ (p * q)) | _, _ => Err EType end
  | ETup l =>
      do vs <- (fix go (l : list expr) : res (list val) :=
                  match l with
                  | [] => Ok []
                  | x :: r => do v <- eval env x; do vs <- go r; Ok (v :: vs)
                  end) l;
      Ok (VT vs)
  | EProj i e => do v <- eval env e;
                 match v with VT l => match nth_error l i with Some x => Ok x | None => Err EType end | _ => Err EType end
  | ENone => Ok VNone
  | EZeros n => Ok (VA (repeat (VZ 0) n))
  | ENotIdx e => do v <- eval env e; match v with VB b => Ok (VZ (if b then 0 else 1)) | _ => Err EType end
  | ECons a arr => do x <- eval env a; do l <- eval env arr;
                   match l with VA xs => Ok (VA (x :: xs)) | _ => Err EType end
  | EUnmask m d => do x <- eval env m; do y <- eval env d;
                   match x with VM f v => Ok (if f then v else y) | _ => Err EType end
  | EMaskValue m => do x <- eval env m; match x with VM _ v => Ok v | _ => Err EType end
  end.

Definition eval_list (env : list val) (l : list expr) : res (list val) := mapM (eval env) l.

(* ---------------- probe distributions ---------------- *)
(* probe d takes one scalar parameter p; sample = p + (((k0 xor k1) >> s) land 3);
   logpdf(v; p) = a*v + b*p + c.  The harness defines the same through exact_density. *)
Record dspec := { da : Z; db : Z; dc : Z; dshift : N }.
Definition probes : list dspec :=
  [ {| da := 2; db := 3; dc := 5; dshift := 0 |};
    {| da := 7; db := 11; dc := 13; dshift := 3 |};
    {| da := 17; db := 19; dc := 23; dshift := 7 |};
    {| da := 29; db := 31; dc := 37; dshift := 11 |} ].
Definition probe (d : nat) : dspec := nth d probes {| da := 1; db := 1; dc := 1; dshift := 0 |}.
Definition d_sample (d : nat) (k : key) (p : Z) : Z :=
  p + Z.of_N (N.land (N.shiftr (N.lxor (fst k) (snd k)) (dshift (probe d))) 3).
Definition d_logpdf (d : nat) (v p : Z) : Z := da (probe d) * v + db (probe d) * p + dc (probe d).

(* ---------------- programs ---------------- *)
Definition addr := list nat.       (* static address, tuple components interned as nat *)
Fixpoint addr_eqb (a b : addr) : bool :=
  match a, b with [], [] => true | x :: r, y :: s => Nat.eqb x y && addr_eqb r s | _, _ => false end.
Inductive gf :=
| GDist (d : nat)
| GStatic (b : sbody)
| GVmap (axes : list (option nat)) (g : gf)
| GScan (n : option nat) (g : gf)
| GSwitch (bs : gfs)
| GMask (g : gf)
| GDimap (pre : list expr) (g : gf) (post : expr)
with sbody :=
| SRet (e : expr)
| SSite (a : addr) (g : gf) (args : list expr) (rest : sbody)
with gfs := GNil | GCons (g : gf) (r : gfs).

Fixpoint gfs_len (bs : gfs) : nat := match bs with GNil => 0 | GCons _ r => S (gfs_len r) end.
Fixpoint gfs_nth (bs : gfs) (i : nat) : option gf :=
  match bs, i with
  | GNil, _ => None
  | GCons g _, O => Some g
  | GCons _ r, S j => gfs_nth r j
  end.

(* ---------------- choice maps: finite maps from full addresses to leaf values ---------------- *)
Inductive ckey := KS (n : nat) | KI (i : nat).
Definition ckey_eqb (a b : ckey) : bool :=
  match a, b with KS x, KS y | KI x, KI y => Nat.eqb x y | _, _ => false end.
Definition path := list ckey.
Fixpoint path_eqb (a b : path) : bool :=
  match a, b with [] , [] => true | x :: r, y :: s => ckey_eqb x y && path_eqb r s | _, _ => false end.
Definition chm := list (path * val).       (* left-biased: the first entry for an address wins *)

Fixpoint cget (c : chm) (p : path) : option val :=
  match c with
  | [] => None
  | (q, v) :: r => if path_eqb q p then Some v else cget r p
  end.
(* get_submap at one component *)
Fixpoint csub (c : chm) (k : ckey) : chm :=
  match c with
  | [] => []
  | (k' :: q, v) :: r => if ckey_eqb k k' then (q, v) :: csub r k else csub r k
  | ([], _) :: r => csub r k
  end.
Definition csub_path (c : chm) (p : path) : chm := fold_left csub p c.
Definition csub_addr (c : chm) (a : addr) : chm := csub_path c (map KS a).
Definition cvalue (c : chm) : option val := cget c [].
Definition cis_empty (c : chm) : bool := match c with [] => true | _ => false end.
Definition cprefix (p : path) (c : chm) : chm := map (fun e => (p ++ fst e, snd e)) c.
Definition cmerge (a b : chm) : chm := a ++ b.
(* ChoiceMap.mask with an array flag: leaves keep their value under the conjunction of the flags *)
Definition vmask (f : bool) (v : val) : val :=
  if f then v else match v with VM _ w => VM false w | _ => VM false v end.
Definition cmask (f : bool) (c : chm) : chm := map (fun e => (fst e, vmask f (snd e))) c.
(* Mask.build(v, f) with an array flag: a Mask inside is flattened, the flags conjoined *)
Definition mbuild (f : bool) (v : val) : val := match v with VM g w => VM (f && g) w | _ => VM f v end.

(* ---------------- traces ---------------- *)
Inductive trace :=
| TDist (d : nat) (args : list val) (v : Z) (score : Z)
| TStatic (args : list val) (ret : val) (subs : list (addr * trace))
| TVmap (inner : list trace) (args : list val)
| TScan (inner : list trace) (args : list val) (ret : val) (score : Z)
| TSwitch (args : list val) (k : nat) (sub : trace) (ret : val) (score : Z)
| TMask (inner : trace) (check : bool) (args : list val)
| TDimap (inner : trace) (args : list val) (ret : val).

Definition zsum (l : list Z) : Z := fold_right Z.add 0 l.

Fixpoint t_score (t : trace) {struct t} : Z :=
  match t with
  | TDist _ _ _ s => s
  | TStatic _ _ subs => zsum (map (fun p => t_score (snd p)) subs)
  | TVmap inner _ => zsum (map t_score inner)
  | TScan _ _ _ s => s
  | TSwitch _ _ _ _ s => s
  | TMask inner check _ => if check then t_score inner else 0
  | TDimap inner _ _ => t_score inner
  end.

Fixpoint t_retval (t : trace) {struct t} : val :=
  match t with
  | TDist _ _ v _ => VZ v
  | TStatic _ r _ => r
  | TVmap inner _ => VA (map t_retval inner)
  | TScan _ _ r _ => r
  | TSwitch _ _ _ r _ => r
  | TMask inner check _ => mbuild check (t_retval inner)
  | TDimap _ _ r => r
  end.

Definition t_args (t : trace) : list val :=
  match t with
  | TDist _ a _ _ => a
  | TStatic a _ _ => a
  | TVmap _ a => a
  | TScan _ a _ _ => a
  | TSwitch a _ _ _ _ => a
  | TMask _ _ a => a
  | TDimap _ a _ => a
  end.

Definition flat_mapi {A B} (f : nat -> A -> list B) : nat -> list A -> list B :=
  fix go (i : nat) (l : list A) : list B :=
    match l with [] => [] | x :: r => f i x ++ go (S i) r end.

Fixpoint t_choices (t : trace) {struct t} : chm :=
  match t with
  | TDist _ _ v _ => [([], VZ v)]
  | TStatic _ _ subs => flat_map (fun p => cprefix (map KS (fst p)) (t_choices (snd p))) subs
  | TVmap inner _ | TScan inner _ _ _ =>
      flat_mapi (fun i x => cprefix [KI i] (t_choices x)) 0%nat inner
  | TSwitch _ _ sub _ _ => t_choices sub
  | TMask inner check _ => cmask check (t_choices inner)
  | TDimap inner _ _ => t_choices inner
  end.

(* ---------------- argument slicing for vmap ---------------- *)
Fixpoint slice0 (v : val) (i : nat) {struct v} : val :=
  match v with
  | VA l => nth i l VNone
  | VT l => VT (map (fun x => slice0 x i) l)
  | _ => v
  end.
Definition slice1 (v : val) (i : nat) : val :=
  match v with
  | VA rows => VA (map (fun r => slice0 r i) rows)
  | _ => v
  end.
Definition slice_ax (ax : option nat) (v : val) (i : nat) : val :=
  match ax with None => v | Some O => slice0 v i | Some _ => slice1 v i end.
Fixpoint leading_len (v : val) : option nat :=
  match v with
  | VA l => Some (length l)
  | VT l => (fix go (l : list val) := match l with [] => None | x :: r => match leading_len x with Some n => Some n | None => go r end end) l
  | _ => None
  end.
Definition axis_len (ax : option nat) (v : val) : option nat :=
  match ax with
  | None => None
  | Some O => leading_len v
  | Some _ => match v with VA (r :: _) => leading_len r | _ => None end
  end.
Fixpoint vmap_len (axes : list (option nat)) (args : list val) : option nat :=
  match axes, args with
  | ax :: ra, v :: rv => match axis_len ax v with Some n => Some n | None => vmap_len ra rv end
  | _, _ => None
  end.
Fixpoint slice_args (axes : list (option nat)) (args : list val) (i : nat) : list val :=
  match axes, args with
  | ax :: ra, v :: rv => slice_ax ax v i :: slice_args ra rv i
  | _, _ => []
  end.

Definition clampZ (z : Z) (n : nat) : nat := Z.to_nat (Z.max 0 (Z.min z (Z.of_nat n - 1))).
Definition stack_vals (l : list val) : val :=
  if forallb (fun v => match v with VNone => true | _ => false end) l
  then (match l with [] => VA [] | _ => VNone end) else VA l.
Definition scan_len (n : option nat) (xs : val) : option nat :=
  match n with Some m => Some m | None => leading_len xs end.
(* the kernel's return value must be a (carry, y) pair *)
Definition split_ret (v : val) : res (val * val) :=
  match v with VT [c; y] => Ok (c, y) | _ => Err EType end.

(* ---------------- simulate ---------------- *)
Fixpoint simulate (g : gf) (k : key) (args : list val) {struct g} : res trace :=
  match g with
  | GDist d =>
      match args with
      | [VZ p] => let v := d_sample d k p in Ok (TDist d args v (d_logpdf d v p))
      | _ => Err EType
      end
  | GStatic b =>
      do r <- sim_body b k 1%N args [];
      Ok (TStatic args (fst r) (snd r))
  | GVmap axes g' =>
      match vmap_len axes args with
      | None => Err EType
      | Some n =>
          do inner <- mapM (fun i => simulate g' (fold_in k (N.of_nat i)) (slice_args axes args i)) (seq 0 n);
          Ok (TVmap inner args)
      end
  | GScan n g' =>
      match args with
      | [carry; xs] =>
          match scan_len n xs with
          | None => Err EType
          | Some len =>
              do r <- scanM (fun i c => do t <- simulate g' (fold_in k (N.of_nat i)) [c; slice0 xs i];
                                        do cy <- split_ret (t_retval t); Ok (t, fst cy, snd cy))
                            (seq 0 len) carry;
              let '(ts, cf, ys) := r in
              Ok (TScan ts args (VT [cf; stack_vals ys]) (zsum (map t_score ts)))
          end
      | _ => Err EType
      end
  | GSwitch bs =>
      match args with
      | VZ idx :: bargs =>
          let j := clampZ idx (gfs_len bs) in
          match nth_error bargs j with
          | Some (VT a) =>
              do t <- sim_branch bs j k a;
              Ok (TSwitch args j t (t_retval t) (t_score t))
          | _ => Err EType
          end
      | _ => Err EType
      end
  | GMask g' =>
      match args with
      | VB check :: a => do t <- simulate g' k a; Ok (TMask t check args)
      | _ => Err EType
      end
  | GDimap pre g' post =>
      do ia <- eval_list args pre;
      do t <- simulate g' k ia;
      do r <- eval [VT args; VT ia; t_retval t] post;
      Ok (TDimap t args r)
  end
with sim_body (b : sbody) (k : key) (cnt : N) (env : list val) (acc : list (addr * trace)) {struct b}
  : res (val * list (addr * trace)) :=
  match b with
  | SRet e => do v <- eval env e; Ok (v, acc)
  | SSite a g' aexprs rest =>
      do av <- eval_list env aexprs;
      do t <- simulate g' (fold_in k cnt) av;
      if existsb (fun p => addr_eqb (fst p) a) acc then Err EAddressReuse
      else sim_body rest k (cnt + 1)%N (env ++ [t_retval t]) (acc ++ [(a, t)])
  end
with sim_branch (bs : gfs) (j : nat) (k : key) (a : list val) {struct bs} : res trace :=
  match bs, j with
  | GNil, _ => Err EType
  | GCons g' _, O => simulate g' k a
  | GCons _ r, S j' => sim_branch r j' k a
  end.

(* ---------------- assess ---------------- *)
Fixpoint assess (g : gf) (c : chm) (args : list val) {struct g} : res (Z * val) :=
  match g with
  | GDist d =>
      match args, cvalue c with
      | [VZ p], Some (VZ v) => Ok (d_logpdf d v p, VZ v)
      | [VZ p], Some (VM _ (VZ v)) => Ok (d_logpdf d v p, VZ v)   (* Mask(value, flag): the value is used whatever the flag *)
      | [VZ p], _ => Err EOther
      | _, _ => Err EType
      end
  | GStatic b => assess_body b c args 0
  | GVmap axes g' =>
      match vmap_len axes args with
      | None => Err EType
      | Some n =>
          do rs <- mapM (fun i => assess g' (csub c (KI i)) (slice_args axes args i)) (seq 0 n);
          Ok (zsum (map fst rs), VA (map snd rs))
      end
  | GScan n g' =>
      match args with
      | [carry; xs] =>
          match scan_len n xs with
          | None => Err EType
          | Some len =>
              do r <- scanM (fun i cr => do x <- assess g' (csub c (KI i)) [cr; slice0 xs i];
                                         do cy <- split_ret (snd x); Ok (fst x, fst cy, snd cy))
                            (seq 0 len) carry;
              let '(ss, cf, ys) := r in Ok (zsum ss, VT [cf; stack_vals ys])
          end
      | _ => Err EType
      end
  | GSwitch bs =>
      match args with
      | VZ idx :: bargs =>
          let j := clampZ idx (gfs_len bs) in
          match nth_error bargs j with
          | Some (VT a) => assess_branch bs j c a
          | _ => Err EType
          end
      | _ => Err EType
      end
  | GMask g' =>
      match args with
      | VB check :: a =>
          do x <- assess g' c a; Ok (if check then fst x else 0, mbuild check (snd x))   (* check * score, Mask.build(retval, check) *)
      | _ => Err EType
      end
  | GDimap pre g' post =>
      do ia <- eval_list args pre;
      do x <- assess g' c ia;
      do r <- eval [VT args; VT ia; snd x] post;
      Ok (fst x, r)
  end
with assess_body (b : sbody) (c : chm) (env : list val) (score : Z) {struct b} : res (Z * val) :=
  match b with
  | SRet e => do v <- eval env e; Ok (score, v)
  | SSite a g' aexprs rest =>
      do av <- eval_list env aexprs;
      let sub := csub_addr c a in
      if cis_empty sub then Err EMissingAddress
      else do x <- assess g' sub av;
           assess_body rest c (env ++ [snd x]) (score + fst x)
  end
with assess_branch (bs : gfs) (j : nat) (c : chm) (a : list val) {struct bs} : res (Z * val) :=
  match bs, j with
  | GNil, _ => Err EType
  | GCons g' _, O => assess g' c a
  | GCons _ r, S j' => assess_branch r j' c a
  end.

(* ---------------- generate ---------------- *)
Fixpoint generate (g : gf) (k : key) (c : chm) (args : list val) {struct g} : res (trace * Z) :=
  match g with
  | GDist d =>
      match args with
      | [VZ p] =>
          match cvalue c with
          | Some (VZ v) => Ok (TDist d args v (d_logpdf d v p), d_logpdf d v p)
          | Some (VM true (VZ v)) => Ok (TDist d args v (d_logpdf d v p), d_logpdf d v p)
          | Some (VM false _) | None =>
              let v := d_sample d k p in Ok (TDist d args v (d_logpdf d v p), 0)
          | _ => Err EType
          end
      | _ => Err EType
      end
  | GStatic b =>
      do r <- gen_body b k 1%N c args [] 0;
      let '(v, subs, w) := r in Ok (TStatic args v subs, w)
  | GVmap axes g' =>
      match vmap_len axes args with
      | None => Err EType
      | Some n =>
          do rs <- mapM (fun i => generate g' (fold_in k (N.of_nat i)) (csub c (KI i)) (slice_args axes args i)) (seq 0 n);
          Ok (TVmap (map fst rs) args, zsum (map snd rs))
      end
  | GScan n g' =>
      match args with
      | [carry; xs] =>
          match scan_len n xs with
          | None => Err EType
          | Some len =>
              do r <- scanM (fun i cr => do x <- generate g' (fold_in k (N.of_nat i)) (csub c (KI i)) [cr; slice0 xs i];
                                         do cy <- split_ret (t_retval (fst x)); Ok (x, fst cy, snd cy))
                            (seq 0 len) carry;
              let '(xs', cf, ys) := r in
              Ok (TScan (map fst xs') args (VT [cf; stack_vals ys]) (zsum (map t_score (map fst xs'))), zsum (map snd xs'))
          end
      | _ => Err EType
      end
  | GSwitch bs =>
      match args with
      | VZ idx :: bargs =>
          let j := clampZ idx (gfs_len bs) in
          match nth_error bargs j with
          | Some (VT a) =>
              do x <- gen_branch bs j k c a;
              Ok (TSwitch args j (fst x) (t_retval (fst x)) (t_score (fst x)), snd x)
          | _ => Err EType
          end
      | _ => Err EType
      end
  | GMask g' =>
      match args with
      | VB check :: a => do x <- generate g' k c a; Ok (TMask (fst x) check args, if check then snd x else 0)
      | _ => Err EType
      end
  | GDimap pre g' post =>
      do ia <- eval_list args pre;
      do x <- generate g' k c ia;
      do r <- eval [VT args; VT ia; t_retval (fst x)] post;
      Ok (TDimap (fst x) args r, snd x)
  end
with gen_body (b : sbody) (k : key) (cnt : N) (c : chm) (env : list val) (acc : list (addr * trace)) (w : Z) {struct b}
  : res (val * list (addr * trace) * Z) :=
  match b with
  | SRet e => do v <- eval env e; Ok (v, acc, w)
  | SSite a g' aexprs rest =>
      do av <- eval_list env aexprs;
      do x <- generate g' (fold_in k cnt) (csub_addr c a) av;
      if existsb (fun p => addr_eqb (fst p) a) acc then Err EAddressReuse
      else gen_body rest k (cnt + 1)%N c (env ++ [t_retval (fst x)]) (acc ++ [(a, fst x)]) (w + snd x)
  end
with gen_branch (bs : gfs) (j : nat) (k : key) (c : chm) (a : list val) {struct bs} : res (trace * Z) :=
  match bs, j with
  | GNil, _ => Err EType
  | GCons g' _, O => generate g' k c a
  | GCons _ r, S j' => gen_branch r j' k c a
  end.

(* ---------------- project ---------------- *)
Definition sel_addr (s : sel) (a : addr) : sel := call s a.

Fixpoint project (t : trace) (s : sel) {struct t} : res Z :=
  match t with
  | TDist _ _ _ sc => Ok (if check s then sc else 0)
  | TStatic _ _ subs =>
      do ws <- mapM (fun p => project (snd p) (sel_addr s (fst p))) subs; Ok (zsum ws)
  | TVmap inner _ | TScan inner _ _ _ =>
      do ws <- mapM (fun x => project x s) inner; Ok (zsum ws)
  | TSwitch _ _ sub _ _ => project sub s
  | TMask _ _ _ => Err ENotSupported
  | TDimap inner _ _ => project inner s
  end.

(* ---------------- get_subtrace (one static address) ---------------- *)
Fixpoint subs_get (subs : list (addr * trace)) (a : addr) : option trace :=
  match subs with
  | [] => None
  | (a', t) :: r => if addr_eqb a a' then Some t else subs_get r a
  end.
Fixpoint get_inner_trace (t : trace) (a : addr) {struct t} : res trace :=
  match t with
  | TStatic _ _ subs => match subs_get subs a with Some x => Ok x | None => Err EOther end
  | TSwitch _ _ sub _ _ => get_inner_trace sub a
  | TMask inner _ _ => get_inner_trace inner a
  | TDimap inner _ _ => get_inner_trace inner a
  | TDist _ _ _ _ => Err ENotSupported
  | TVmap _ _ | TScan _ _ _ _ => Err ENotSupported   (* stacked sub-traces: not observed one element at a time *)
  end.

(* ================= the reference semantics (specification side) =================
   "the sum, over every random choice the program makes, of that choice's
   log-density at its value given the values it depends on, exactly as the
   program text defines": `ref` runs the program text over a finite map of
   choice values and lists the random choices it makes — no traces, keys or
   stored scores.  Python loop for scan, branches[clamp idx] for switch,
   `if flag` for mask. *)
Record term := { tm_path : path; tm_dist : nat; tm_val : Z; tm_par : Z }.
Definition tm_logpdf (t : term) : Z := d_logpdf (tm_dist t) (tm_val t) (tm_par t).
Definition tm_prefix (p : path) (t : term) : term :=
  {| tm_path := p ++ tm_path t; tm_dist := tm_dist t; tm_val := tm_val t; tm_par := tm_par t |}.
Definition leaf_Z (v : val) : option Z :=
  match v with VZ z => Some z | VM _ (VZ z) => Some z | _ => None end.

Fixpoint ref (g : gf) (c : chm) (args : list val) {struct g} : res (list term * val) :=
  match g with
  | GDist d =>
      match args with
      | [VZ p] => match cvalue c with
                  | Some v => match leaf_Z v with
                              | Some z => Ok ([{| tm_path := []; tm_dist := d; tm_val := z; tm_par := p |}], VZ z)
                              | None => Err EOther end
                  | None => Err EOther end
      | _ => Err EType
      end
  | GStatic b => ref_body b c args []
  | GVmap axes g' =>
      match vmap_len axes args with
      | None => Err EType
      | Some n =>
          do rs <- mapM (fun i => do x <- ref g' (csub c (KI i)) (slice_args axes args i);
                                  Ok (map (tm_prefix [KI i]) (fst x), snd x)) (seq 0 n);
          Ok (concat (map fst rs), VA (map snd rs))
      end
  | GScan n g' =>
      match args with
      | [carry; xs] =>
          match scan_len n xs with
          | None => Err EType
          | Some len =>
              do r <- scanM (fun i cr => do x <- ref g' (csub c (KI i)) [cr; slice0 xs i];
                                         do cy <- split_ret (snd x);
                                         Ok (map (tm_prefix [KI i]) (fst x), fst cy, snd cy))
                            (seq 0 len) carry;
              let '(ts, cf, ys) := r in Ok (concat ts, VT [cf; stack_vals ys])
          end
      | _ => Err EType
      end
  | GSwitch bs =>
      match args with
      | VZ idx :: bargs =>
          let j := clampZ idx (gfs_len bs) in
          match nth_error bargs j with
          | Some (VT a) => ref_branch bs j c a
          | _ => Err EType
          end
      | _ => Err EType
      end
  | GMask g' =>
      match args with
      | VB check :: a => do x <- ref g' c a; Ok (if check then fst x else [], mbuild check (snd x))
      | _ => Err EType
      end
  | GDimap pre g' post =>
      do ia <- eval_list args pre;
      do x <- ref g' c ia;
      do r <- eval [VT args; VT ia; snd x] post;
      Ok (fst x, r)
  end
with ref_body (b : sbody) (c : chm) (env : list val) (acc : list term) {struct b} : res (list term * val) :=
  match b with
  | SRet e => do v <- eval env e; Ok (acc, v)
  | SSite a g' aexprs rest =>
      do av <- eval_list env aexprs;
      let sub := csub_addr c a in
      if cis_empty sub then Err EMissingAddress
      else do x <- ref g' sub av;
           ref_body rest c (env ++ [snd x]) (acc ++ map (tm_prefix (map KS a)) (fst x))
  end
with ref_branch (bs : gfs) (j : nat) (c : chm) (a : list val) {struct bs} : res (list term * val) :=
  match bs, j with
  | GNil, _ => Err EType
  | GCons g' _, O => ref g' c a
  | GCons _ r, S j' => ref_branch r j' c a
  end.

(* the live random choices recorded in a trace *)
Fixpoint t_terms (t : trace) {struct t} : list term :=
  match t with
  | TDist d args v _ => match args with [VZ p] => [{| tm_path := []; tm_dist := d; tm_val := v; tm_par := p |}] | _ => [] end
  | TStatic _ _ subs => flat_map (fun p => map (tm_prefix (map KS (fst p))) (t_terms (snd p))) subs
  | TVmap inner _ | TScan inner _ _ _ =>
      flat_mapi (fun i x => map (tm_prefix [KI i]) (t_terms x)) 0%nat inner
  | TSwitch _ _ sub _ _ => t_terms sub
  | TMask inner check _ => if check then t_terms inner else []
  | TDimap inner _ _ => t_terms inner
  end.

(* static part of a full address: index levels are transparent to selections *)
Fixpoint static_part (p : path) : list nat :=
  match p with [] => [] | KS n :: r => n :: static_part r | KI _ :: r => static_part r end.
(* an address is constrained when the constraint holds a valid value there *)
Definition constrained (c : chm) (p : path) : bool :=
  match cget c p with Some (VM false _) | None => false | Some _ => true end.
