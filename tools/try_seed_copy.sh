#!/bin/bash
# tools/try_seed_copy.sh <seeded-name> <ID> [ID...] : apply a kept seeded change to a scratch COPY of /repo
# (so that nothing else running against /repo is disturbed), run the quick checks against it, remove the copy.
name=$1; shift
d=/tmp/seedrepo/$name
rm -rf $d; mkdir -p $d; rsync -a --exclude .git /repo/ $d/
( cd $d && patch -p1 -s < /verif/seeded/$name/patch.diff ) || { echo "patch does not apply"; rm -rf $d; exit 2; }
cd /verif
for id in "$@"; do
  VERIF_REPO=$d ./check $id --tier quick > out/seed_$name.$id.log 2>&1; rc=$?
  echo "seed $name check $id: exit $rc; $(grep -c '^VIOLATION' out/seed_$name.$id.log) VIOLATION lines; $(grep '^VIOLATION' out/seed_$name.$id.log | head -1)"
done
rm -rf $d
