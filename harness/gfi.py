"""Engine B-gfi: programs x histories, realised on the implementation and
shipped to the Coq model (coq/model/GFI.v, GFIRun.v).

Program AST (python tuples), types and the desugaring of the derived
combinators exactly as the library source defines them.

types:  "S" scalar float | "B" flag | "I" index | ("T", [t..]) tuple | ("A", n, t) array |
        ("M", t) mask | "N" None
"""
import random
from .core import clist, cz, cbool

NPROBES = 4
COEF = [(2, 3, 5, 0), (7, 11, 13, 3), (17, 19, 23, 7), (29, 31, 37, 11)]


# ============================================================================
# expressions
# ============================================================================
# ("var", i) ("const", z) ("add", a, b) ("mul", a, b) ("tup", [..]) ("proj", i, e) ("none",)
# ("zeros", n) ("notidx", e) ("cons", a, arr) ("unmask", m, d) ("maskvalue", m)

def c_expr(e):
    k = e[0]
    if k == "var": return f"(EVar {e[1]})"
    if k == "const": return f"(EConst {cz(e[1])})"
    if k == "add": return f"(EAdd {c_expr(e[1])} {c_expr(e[2])})"
    if k == "mul": return f"(EMul {c_expr(e[1])} {c_expr(e[2])})"
    if k == "tup": return f"(ETup {clist([c_expr(x) for x in e[1]])})"
    if k == "proj": return f"(EProj {e[1]} {c_expr(e[2])})"
    if k == "none": return "ENone"
    if k == "zeros": return f"(EZeros {e[1]})"
    if k == "notidx": return f"(ENotIdx {c_expr(e[1])})"
    if k == "cons": return f"(ECons {c_expr(e[1])} {c_expr(e[2])})"
    if k == "unmask": return f"(EUnmask {c_expr(e[1])} {c_expr(e[2])})"
    if k == "maskvalue": return f"(EMaskValue {c_expr(e[1])})"
    raise ValueError(e)


def py_eval(e, env):
    """evaluate an expression on JAX values (inside a traced function)"""
    import jax.numpy as jnp
    k = e[0]
    if k == "var": return env[e[1]]
    if k == "const": return float(e[1])          # a Python literal -> a jaxpr literal
    if k == "add": return py_eval(e[1], env) + py_eval(e[2], env)
    if k == "mul": return py_eval(e[1], env) * py_eval(e[2], env)
    if k == "tup": return tuple(py_eval(x, env) for x in e[1])
    if k == "proj": return py_eval(e[2], env)[e[1]]
    if k == "none": return None
    raise ValueError(e)


# ============================================================================
# programs
# ============================================================================
# core:    ("dist", d) ("static", [(addr, g, [expr..])..], ret) ("vmap", axes, g) ("scan", n, g)
#          ("switch", [g..]) ("mask", g) ("dimap", [pre..], g, post)
# derived: ("repeat", n, g, arity) ("or_else", g1, g2) ("map", post1, g, arity) ("contramap", [pre..], g)
#          ("iterate", n, g) ("iterate_final", n, g) ("accumulate", g) ("reduce", g)
#          ("masked_iterate", g) ("masked_iterate_final", g)

def desugar(p):
    k = p[0]
    if k == "dist": return p
    if k == "static": return ("static", [(a, desugar(g), es) for (a, g, es) in p[1]], p[2])
    if k == "vmap": return ("vmap", p[1], desugar(p[2]))
    if k == "scan": return ("scan", p[1], desugar(p[2]))
    if k == "switch": return ("switch", [desugar(g) for g in p[1]])
    if k == "mask": return ("mask", desugar(p[1]))
    if k == "dimap": return ("dimap", p[1], desugar(p[2]), p[3])
    ident_post = ("var", 2)
    if k == "repeat":
        n, g, ar = p[1], desugar(p[2]), p[3]
        inner = ("dimap", [("proj", i, ("var", 1)) for i in range(ar)], g, ident_post)
        v = ("vmap", [0, None], inner)
        return ("dimap", [("zeros", n), ("tup", [("var", i) for i in range(ar)])], v, ident_post)
    if k == "or_else":
        sw = ("switch", [desugar(p[1]), desugar(p[2])])
        return ("dimap", [("notidx", ("var", 0)), ("var", 1), ("var", 2)], sw, ident_post)
    if k == "map":
        post1, g, ar = p[1], desugar(p[2]), p[3]     # post1 is an expr over env [ret] -> rewritten over [args, xf, ret]
        return ("dimap", [("var", i) for i in range(ar)], g, shift_var(post1, 2))
    if k == "contramap":
        return ("dimap", p[1], desugar(p[2]), ident_post)
    if k == "iterate" or k == "iterate_final":
        n, f = p[1], desugar(p[2])
        if k == "iterate":
            inner = ("dimap", [("var", 0)], f, ("tup", [("var", 2), ("var", 2)]))
            post = ("cons", ("proj", 0, ("var", 0)), ("proj", 1, ("var", 2)))
        else:
            inner = ("dimap", [("var", 0)], f, ("tup", [("var", 2), ("none",)]))
            post = ("proj", 0, ("var", 2))
        return ("dimap", [("var", 0), ("none",)], ("scan", n, inner), post)
    if k == "accumulate":
        f = desugar(p[1])
        inner = ("dimap", [("var", 0), ("var", 1)], f, ("tup", [("var", 2), ("var", 2)]))
        return ("dimap", [("var", 0), ("var", 1)], ("scan", None, inner),
                ("cons", ("proj", 0, ("var", 0)), ("proj", 1, ("var", 2))))
    if k == "reduce":
        f = desugar(p[1])
        inner = ("dimap", [("var", 0), ("var", 1)], f, ("tup", [("var", 2), ("none",)]))
        return ("dimap", [("var", 0), ("var", 1)], ("scan", None, inner), ("proj", 0, ("var", 2)))
    if k in ("masked_iterate", "masked_iterate_final"):
        step = desugar(p[1])
        if k == "masked_iterate_final":
            post = ("tup", [("unmask", ("var", 2), ("proj", 0, ("var", 0))), ("none",)])
            step2 = ("dimap", [("var", 1), ("var", 0)], ("mask", step), post)
            return ("dimap", [("var", 0), ("var", 1)], ("scan", None, step2), ("proj", 0, ("var", 2)))
        post = ("tup", [("maskvalue", ("var", 2)), ("maskvalue", ("var", 2))])
        step2 = ("dimap", [("var", 1), ("var", 0)], ("mask", step), post)
        return ("dimap", [("var", 0), ("var", 1)], ("scan", None, step2),
                ("cons", ("proj", 0, ("var", 0)), ("proj", 1, ("var", 2))))
    raise ValueError(p)


def shift_var(e, by):
    k = e[0]
    if k == "var": return ("var", e[1] + by)
    if k in ("add", "mul", "cons", "unmask"): return (k, shift_var(e[1], by), shift_var(e[2], by))
    if k == "tup": return ("tup", [shift_var(x, by) for x in e[1]])
    if k == "proj": return ("proj", e[1], shift_var(e[2], by))
    if k in ("notidx", "maskvalue"): return (k, shift_var(e[1], by))
    return e


def c_addr(a):
    return clist([f"{x}%nat" for x in a])


def c_gf(p):
    k = p[0]
    if k == "dist": return f"(GDist {p[1]})"
    if k == "static":
        body = f"(SRet {c_expr(p[2])})"
        for (a, g, es) in reversed(p[1]):
            body = f"(SSite {c_addr(a)} {c_gf(g)} {clist([c_expr(e) for e in es])} {body})"
        return f"(GStatic {body})"
    if k == "vmap":
        axes = clist(["None" if a is None else f"(Some {a}%nat)" for a in p[1]])
        return f"(GVmap {axes} {c_gf(p[2])})"
    if k == "scan":
        n = "None" if p[1] is None else f"(Some {p[1]}%nat)"
        return f"(GScan {n} {c_gf(p[2])})"
    if k == "switch":
        bs = "GNil"
        for g in reversed(p[1]):
            bs = f"(GCons {c_gf(g)} {bs})"
        return f"(GSwitch {bs})"
    if k == "mask": return f"(GMask {c_gf(p[1])})"
    if k == "dimap": return f"(GDimap {clist([c_expr(e) for e in p[1]])} {c_gf(p[2])} {c_expr(p[3])})"
    raise ValueError(p)


def c_dgf(p):
    """the program in the derived syntax of coq/model/Derived.v (desugared by the model itself)"""
    k = p[0]
    if k == "dist": return f"(DDist {p[1]})"
    if k == "static":
        body = f"(DRet {c_expr(p[2])})"
        for (a, g, es) in reversed(p[1]):
            body = f"(DSite {c_addr(a)} {c_dgf(g)} {clist([c_expr(e) for e in es])} {body})"
        return f"(DStatic {body})"
    if k == "vmap":
        axes = clist(["None" if a is None else f"(Some {a}%nat)" for a in p[1]])
        return f"(DVmap {axes} {c_dgf(p[2])})"
    if k == "scan":
        n = "None" if p[1] is None else f"(Some {p[1]}%nat)"
        return f"(DScan {n} {c_dgf(p[2])})"
    if k == "switch":
        bs = "DNil"
        for g in reversed(p[1]):
            bs = f"(DCons {c_dgf(g)} {bs})"
        return f"(DSwitch {bs})"
    if k == "mask": return f"(DMask {c_dgf(p[1])})"
    if k == "dimap": return f"(DDimap {clist([c_expr(e) for e in p[1]])} {c_dgf(p[2])} {c_expr(p[3])})"
    if k == "repeat": return f"(DRepeat {p[1]}%nat {c_dgf(p[2])} {p[3]}%nat)"
    if k == "or_else": return f"(DOrElse {c_dgf(p[1])} {c_dgf(p[2])})"
    if k == "map": return f"(DMap {c_expr(p[1])} {c_dgf(p[2])} {p[3]}%nat)"
    if k == "contramap": return f"(DContramap {clist([c_expr(e) for e in p[1]])} {c_dgf(p[2])})"
    if k == "iterate": return f"(DIterate {p[1]}%nat {c_dgf(p[2])})"
    if k == "iterate_final": return f"(DIterateFinal {p[1]}%nat {c_dgf(p[2])})"
    if k == "accumulate": return f"(DAccumulate {c_dgf(p[1])})"
    if k == "reduce": return f"(DReduce {c_dgf(p[1])})"
    if k == "masked_iterate": return f"(DMaskedIterate {c_dgf(p[1])})"
    if k == "masked_iterate_final": return f"(DMaskedIterateFinal {c_dgf(p[1])})"
    raise ValueError(p)


# ============================================================================
# realisation on the implementation
# ============================================================================
_PROBES = None
_ECHO = None
ECHO_MODE = False      # realise() uses key-echo probes instead of the integer probes (C04 direct oracle)


def echo_probe():
    """a distribution whose sample is 20 bits of its own PRNG key: two sites with equal samples drew with one key"""
    global _ECHO
    if _ECHO is None:
        import jax
        import jax.numpy as jnp
        from genjax._src.generative_functions.distributions.distribution import exact_density

        def sample(key, p):
            kd = jax.random.key_data(key)
            bits = ((kd[..., 0] ^ (kd[..., 1] >> 5)) & 0xFFFFF)
            return bits.astype(jnp.float32) + 0.0 * p

        def logpdf(v, p):
            return 0.0 * v + 0.0 * p
        _ECHO = exact_density(sample, logpdf, "EchoProbe")
    return _ECHO


def probes():
    global _PROBES
    if _PROBES is None:
        import jax
        import jax.numpy as jnp
        from genjax._src.generative_functions.distributions.distribution import exact_density
        out = []
        for i, (a, b, c, s) in enumerate(COEF):
            def sample(key, p, s=s):
                kd = jax.random.key_data(key)
                bits = ((kd[..., 0] ^ kd[..., 1]) >> s) & 3
                return p + bits.astype(jnp.float32)

            def logpdf(v, p, a=a, b=b, c=c):
                return a * v + b * p + float(c)
            out.append(exact_density(sample, logpdf, f"Probe{i}"))
        _PROBES = out
    return _PROBES


def addr_name(a):
    names = tuple(f"a{x}" for x in a)
    return names[0] if len(names) == 1 else names


def realise(p):
    import genjax
    import jax.numpy as jnp
    k = p[0]
    if k == "dist":
        return echo_probe() if ECHO_MODE else probes()[p[1]]
    if k == "static":
        sites = [(addr_name(a), realise(g), es) for (a, g, es) in p[1]]
        ret = p[2]

        def body(*args):
            env = list(args)
            for (nm, callee, es) in sites:
                av = tuple(py_eval(e, env) for e in es)
                env.append(callee(*av) @ nm)
            return py_eval(ret, env)
        return genjax.gen(body)
    if k == "vmap":
        return realise(p[2]).vmap(in_axes=tuple(p[1]))
    if k == "scan":
        return realise(p[2]).scan(n=p[1])
    if k == "switch":
        gs = [realise(g) for g in p[1]]
        return genjax.switch(*gs)
    if k == "mask":
        return realise(p[1]).mask()
    if k == "dimap":
        pre, post = p[1], p[3]
        return realise(p[2]).dimap(pre=lambda *args: tuple(py_eval(e, list(args)) for e in pre),
                                   post=lambda args, xf, ret: py_eval(post, [args, xf, ret]))
    if k == "repeat": return realise(p[2]).repeat(n=p[1])
    if k == "or_else": return realise(p[1]).or_else(realise(p[2]))
    if k == "map":
        post1 = p[1]
        return realise(p[2]).map(lambda ret: py_eval(post1, [ret]))
    if k == "contramap":
        pre = p[1]
        return realise(p[2]).contramap(lambda *args: tuple(py_eval(e, list(args)) for e in pre))
    if k == "iterate": return realise(p[2]).iterate(n=p[1])
    if k == "iterate_final": return realise(p[2]).iterate_final(n=p[1])
    if k == "accumulate": return realise(p[1]).accumulate()
    if k == "reduce": return realise(p[1]).reduce()
    if k == "masked_iterate": return realise(p[1]).masked_iterate()
    if k == "masked_iterate_final": return realise(p[1]).masked_iterate_final()
    raise ValueError(p)


# ---- values ------------------------------------------------------------------
def to_jax(v, t, stage="ar"):
    """model value (python nested) -> JAX value of type t"""
    import jax.numpy as jnp
    import numpy as np
    if t == "S": return jnp.array(float(v), dtype=jnp.float32)
    if t == "B": return bool(v) if stage == "py" else jnp.array(bool(v))
    if t == "I": return int(v) if stage == "py" else jnp.array(int(v), dtype=jnp.int32)
    if t == "N": return None
    if t[0] == "T": return tuple(to_jax(x, tt, stage) for x, tt in zip(v, t[1]))
    if t[0] == "A":
        n, et = t[1], t[2]
        if et == "S": return jnp.array([float(x) for x in v], dtype=jnp.float32).reshape((n,))
        if et == "B": return jnp.array([bool(x) for x in v], dtype=bool).reshape((n,))
        if et == "I": return jnp.array([int(x) for x in v], dtype=jnp.int32).reshape((n,))
        if et == "N": return None
        if et[0] == "T":
            return tuple(to_jax([x[j] for x in v], ("A", n, tt), stage) for j, tt in enumerate(et[1]))
        if et[0] == "A":
            m, it = et[1], et[2]
            assert it == "S"
            return jnp.array([[float(y) for y in x] for x in v], dtype=jnp.float32).reshape((n, m))
    raise ValueError((v, t))


def from_jax(x, t):
    """JAX value of type t -> model value; integrality is asserted"""
    import numpy as np
    import jax.tree_util as jtu
    from genjax import Mask
    if t == "S":
        a = np.asarray(x)
        assert a.shape == (), (a.shape, t)
        f = float(a)
        assert f == round(f) and abs(f) < 2 ** 24, f
        return int(round(f))
    if t == "B": return bool(np.asarray(x))
    if t == "I": return int(np.asarray(x))
    if t == "N":
        assert x is None, x
        return None
    if t[0] == "T":
        assert isinstance(x, tuple) and len(x) == len(t[1]), (x, t)
        return [from_jax(y, tt) for y, tt in zip(x, t[1])]
    if t[0] == "A":
        n, et = t[1], t[2]
        if et == "N":
            assert x is None
            return None
        return [from_jax(jtu.tree_map(lambda v: v[i], x), et) for i in range(n)]
    if t[0] == "M":
        assert isinstance(x, Mask), type(x)
        flag = x.primal_flag()
        f = bool(np.asarray(flag))
        return ("M", f, from_jax(x.value, t[1]) if f else None)
    raise ValueError(t)


def c_val(v, t):
    if t == "S": return f"(VZ {cz(v)})"
    if t == "B": return f"(VB {cbool(v)})"
    if t == "I": return f"(VZ {cz(v)})"
    if t == "N": return "VNone"
    if t[0] == "T": return f"(VT {clist([c_val(x, tt) for x, tt in zip(v, t[1])])})"
    if t[0] == "A":
        if t[2] == "N": return "VNone" if t[1] > 0 else "(VA [])"
        return f"(VA {clist([c_val(x, t[2]) for x in v])})"
    if t[0] == "M":
        return f"(VM true {c_val(v[2], t[1])})" if v[1] else "(VM false VNone)"
    raise ValueError(t)


# ---- addresses -----------------------------------------------------------------
def addresses(p, argt):
    """all potential choice addresses of a core program called with argument types argt:
    list of paths, a path is a list of ("s", id) / ("i", idx)"""
    k = p[0]
    if k == "dist": return [[]]
    if k == "static":
        out = []
        for (a, g, es) in p[1]:
            out += [[("s", x) for x in a] + q for q in addresses(g, None)]
        return out
    if k in ("vmap", "scan"):
        n = p[-1] if False else None
        raise ValueError("use addresses_n")
    raise ValueError(p)


def addresses_n(p, lens):
    """lens: iterator-like list of lengths for vmap/scan nodes encountered in pre-order"""
    k = p[0]
    if k == "dist": return [[]]
    if k == "static":
        out = []
        for (a, g, es) in p[1]:
            out += [[("s", x) for x in a] + q for q in addresses_n(g, lens)]
        return out
    if k in ("vmap", "scan"):
        n = lens.pop(0)
        sub = addresses_n(p[2], lens)
        return [[("i", i)] + q for i in range(n) for q in sub]
    if k == "switch":
        out = []
        for g in p[1]:
            out += addresses_n(g, lens)
        return out
    if k == "mask": return addresses_n(p[1], lens)
    if k == "dimap": return addresses_n(p[2], lens)
    raise ValueError(p)


def path_key(path):
    return tuple((f"a{x}" if k == "s" else int(x)) for k, x in path)


def c_path(path):
    return clist([(f"KS {x}" if k == "s" else f"KI {x}") for k, x in path])


def lookup(chm, path):
    """observable value at a full address, or None (absent / masked off)"""
    import numpy as np
    from genjax import Mask
    key = path_key(path)
    try:
        sub = chm(*key) if key else chm
        v = sub.get_value()
    except Exception as e:
        return ("error", type(e).__name__)
    if v is None:
        return None
    if isinstance(v, Mask):
        if not bool(np.all(np.asarray(v.primal_flag()))):
            return None
        v = v.value
    a = np.asarray(v)
    if a.shape != ():
        return ("nonscalar", a.shape)
    f = float(a)
    assert f == round(f), f
    return int(round(f))


def build_chm(entries, style=0):
    """entries: list of (path, value | ("M", flag, value, stage)) -> ChoiceMap.
    style 0: Python-int index components; 1: array index components; 2: where every index 0..n-1 of a leading index
    level carries a plain value under the same static suffix, ONE vectorised entry (static address, array leaf) —
    the struct-of-arrays form vmap/scan constraints are usually written in"""
    import jax.numpy as jnp
    from genjax import ChoiceMap as C, Mask
    acc = C.empty()
    if style == 2:
        groups = {}
        for path, v in entries:
            if path and path[0][0] == "i" and all(k == "s" for k, _ in path[1:]) and len(path) > 1 and not isinstance(v, tuple):
                groups.setdefault(tuple(tuple(c) for c in path[1:]), {})[path[0][1]] = v
        done = set()
        for suffix, byidx in groups.items():
            n = len(byidx)
            if n >= 1 and sorted(byidx) == list(range(n)) and n == max(byidx) + 1 and n == style_n(entries):
                leaf = jnp.array([float(byidx[i]) for i in range(n)], dtype=jnp.float32)
                acc = acc | C.entry(leaf, *path_key(list(suffix)))
                done.add(suffix)
        entries = [(p_, v_) for (p_, v_) in entries
                   if not (p_ and p_[0][0] == "i" and tuple(tuple(c) for c in p_[1:]) in done and not isinstance(v_, tuple))]
        style = 0
    for path, v in entries:
        key = path_key(path)
        if isinstance(v, tuple) and v[0] == "M":
            flag = bool(v[1]) if v[3] == "py" else jnp.array(bool(v[1]))
            leaf = Mask(jnp.array(float(v[2]), dtype=jnp.float32), flag)
        else:
            leaf = jnp.array(float(v), dtype=jnp.float32)
        if style == 1 and any(isinstance(k, int) for k in key):
            key = tuple(jnp.array(k, dtype=jnp.int32) if isinstance(k, int) else k for k in key)
        acc = acc | C.entry(leaf, *key)
    return acc


_STYLE_N = [None]


def style_n(entries):
    """the length of the leading vector level (set by the caller through set_style_n)"""
    return _STYLE_N[0]


def set_style_n(n):
    _STYLE_N[0] = n


def c_entries(entries):
    out = []
    for path, v in entries:
        if isinstance(v, tuple) and v[0] == "M":
            cv = f"(VM {cbool(v[1])} (VZ {cz(v[2])}))"
        else:
            cv = f"(VZ {cz(v)})"
        out.append(f"({c_path(path)}, {cv})")
    return clist(out)


# ---- selections (terms of p_C18) -----------------------------------------------
def realise_sel(t):
    from genjax import Selection as S
    k = t[0]
    if k == "all": return S.all()
    if k == "none": return S.none()
    if k == "leaf": return S.leaf()
    if k == "at": return S.at[tuple(Ellipsis if c == "..." else f"a{c}" for c in t[1])]
    if k == "or": return realise_sel(t[1]) | realise_sel(t[2])
    if k == "and": return realise_sel(t[1]) & realise_sel(t[2])
    if k == "not": return ~realise_sel(t[1])
    raise ValueError(t)


def c_sel(t):
    k = t[0]
    if k == "all": return "TAll"
    if k == "none": return "TNone"
    if k == "leaf": return "TLeaf"
    if k == "at": return "(TAt %s)" % clist([("CEllipsis" if c == "..." else f"(CName {c})") for c in t[1]])
    if k == "or": return f"(TOr {c_sel(t[1])} {c_sel(t[2])})"
    if k == "and": return f"(TAnd {c_sel(t[1])} {c_sel(t[2])})"
    if k == "not": return f"(TNot {c_sel(t[1])})"
    raise ValueError(t)


def sel_mem(t, names):
    """python evaluation of a selection term on a static address (list of ids)"""
    k = t[0]
    if k == "all": return True
    if k == "none": return False
    if k == "leaf": return len(names) == 0
    if k == "at":
        q = t[1]
        if not q: return len(names) == 0
        if len(names) < len(q): return False
        return all(c == "..." or c == n for c, n in zip(q, names))
    if k == "or": return sel_mem(t[1], names) or sel_mem(t[2], names)
    if k == "and": return sel_mem(t[1], names) and sel_mem(t[2], names)
    if k == "not": return not sel_mem(t[1], names)


# ============================================================================
# typed random program generation
# ============================================================================
class Gen:
    def __init__(self, rng, max_depth=3):
        self.rng = rng
        self.max_depth = max_depth
        self.addr_ctr = 0

    def fresh_addr(self, used, tup=False):
        r = self.rng
        while True:
            a = [r.randint(0, 5)]
            if tup:
                a.append(r.randint(0, 5))
            if not any(a[0] == u[0] for u in used):   # distinct first components: no trie merging
                return a

    def sexpr(self, envt, depth=2):
        """an expression of type S over an environment of types"""
        r = self.rng
        svars = [i for i, t in enumerate(envt) if t == "S"]
        if depth == 0 or r.random() < 0.45 or not svars:
            if svars and r.random() < 0.75:
                return ("var", r.choice(svars))
            return ("const", r.randint(-2, 3))
        k = r.random()
        if k < 0.6:
            return ("add", self.sexpr(envt, depth - 1), self.sexpr(envt, depth - 1))
        return ("mul", self.sexpr(envt, depth - 1), ("const", r.randint(-1, 2)))

    def expr_of(self, t, envt):
        """an expression of type t, or None if impossible"""
        r = self.rng
        if t == "S": return self.sexpr(envt)
        if t == "N": return ("none",)
        cands = [i for i, tt in enumerate(envt) if tt == t]
        if cands and (t in ("B", "I") or t[0] == "A" or r.random() < 0.5):
            return ("var", r.choice(cands))
        if t in ("B", "I") or t[0] in ("A", "M"):
            return None
        if t[0] == "T":
            parts = [self.expr_of(tt, envt) for tt in t[1]]
            if any(p is None for p in parts): return None
            return ("tup", parts)
        return None

    def gf(self, depth, want_args=None):
        """returns (prog, argtypes, rettype).  want_args: required argument types (or None = free)"""
        r = self.rng
        if want_args is not None:
            return self.static(depth, want_args)
        kinds = ["dist"] * 2 + ["static"] * 3
        if depth > 0:
            kinds += ["vmap", "vmap", "scan", "switch", "mask", "dimap", "repeat", "or_else", "map",
                      "iterate", "iterate_final", "accumulate", "reduce", "masked_iterate_final", "masked_iterate", "contramap"]
        k = r.choice(kinds)
        return getattr(self, k)(depth)

    def dist(self, depth=0):
        return ("dist", self.rng.randrange(NPROBES)), ["S"], "S"

    def static(self, depth, argt=None, ret_t=None):
        r = self.rng
        if argt is None:
            argt = ["S"] * r.randint(0, 2)
        envt = list(argt)
        sites, used = [], []
        tup = r.random() < 0.15      # one address arity per body: mixed str/tuple keys make the trace unflattenable (finding K22)
        nsites = r.randint(1, 3)
        for _ in range(nsites):
            for _try in range(6):
                g, gat, grt = self.gf(depth - 1) if depth > 0 else self.dist()
                es = [self.expr_of(t, envt) for t in gat]
                if all(e is not None for e in es):
                    break
            else:
                g, gat, grt = self.dist()
                es = [self.sexpr(envt)]
            a = self.fresh_addr(used, tup)
            used.append(a)
            sites.append((a, g, es))
            envt.append(grt)
        free_ret = ret_t is None
        if ret_t is None:
            k = r.random()
            if k < 0.6: ret_t = "S"
            elif k < 0.8: ret_t = ("T", ["S", "S"])
            else:
                ret_t = r.choice(envt) if envt else "S"
        ret = self.expr_of(ret_t, envt)
        if ret is None:
            ret_t = "S"
            ret = self.sexpr(envt)
        if free_ret and ret_t == "S" and r.random() < 0.12:
            ret_t = ("T", ["S", "S"])
            ret = ("tup", [ret, ("const", 1)])      # a literal leaf in the return value
        return ("static", sites, ret), list(argt), ret_t

    def vmap(self, depth):
        r = self.rng
        g, gat, grt = self.gf(depth - 1)
        if not gat:
            g, gat, grt = self.static(depth - 1, ["S"])
        n = r.choice([0] + [1, 2, 2, 3] * 4)
        axes, argt = [], []
        for t in gat:
            ax = 0 if (r.random() < 0.7 or not axes or all(a is None for a in axes)) else None
            if t == "N":
                ax = None
            if ax == 0 and t == ("A", 2, "S") and False:
                pass
            axes.append(ax)
            argt.append(("A", n, t) if ax == 0 else t)
        if all(a is None for a in axes):
            return self.vmap(depth)
        # axis-1 mapping: the inner function is itself a vmap over a vector argument; the outer one maps the COLUMNS
        # of a matrix (in_axes=1), so element j of the outer map receives column j
        if g[0] == "vmap" and gat and isinstance(gat[0], tuple) and gat[0][0] == "A" and gat[0][2] == "S" and gat[0][1] >= 1 \
                and n >= 1 and r.random() < 0.6:
            axes[0] = 1
            argt[0] = ("A", gat[0][1], ("A", n, "S"))      # rows = inner length, columns = outer length
        return ("vmap", axes, g), argt, ("A", n, grt)

    def kernel(self, depth, xt):
        """a static kernel (carry:S, x:xt) -> (S, y) with y in {S, N}"""
        yt = self.rng.choice(["S", "N"])
        return self.static(depth, ["S", xt], ("T", ["S", yt])), yt

    def scan(self, depth):
        r = self.rng
        n = r.choice([0] + [1, 2, 3] * 5)
        xt = r.choice(["S", "N"])
        (g, gat, grt), yt = self.kernel(depth - 1, xt)
        if xt == "N":
            return ("scan", n, g), ["S", "N"], ("T", ["S", ("A", n, yt)])
        length = n if r.random() < 0.5 else None
        return ("scan", length, g), ["S", ("A", n, "S")], ("T", ["S", ("A", n, yt)])

    def switch(self, depth):
        r = self.rng
        nb = r.randint(1, 3)
        bs, bats = [], []
        for _ in range(nb):
            g, gat, grt = self.static(depth - 1, ["S"] * r.randint(0, 2), "S")
            bs.append(g)
            bats.append(("T", gat))
        return ("switch", bs), ["I"] + bats, "S"

    def mask(self, depth):
        g, gat, grt = self.gf(depth - 1)
        if self.contains(g, ("switch", "mask")) and False:
            pass
        return ("mask", g), ["B"] + gat, (grt if (isinstance(grt, tuple) and grt[0] == "M") else ("M", grt))   # Mask.build flattens

    def dimap(self, depth):
        r = self.rng
        g, gat, grt = self.gf(depth - 1)
        argt = ["S"] * r.randint(1, 2)
        pre = [self.expr_of(t, argt) for t in gat]
        if any(e is None for e in pre):
            g, gat, grt = self.static(depth - 1, ["S"])
            pre = [self.sexpr(argt)]
        if grt == "S":
            post = ("add", ("var", 2), ("mul", ("proj", 0, ("var", 0)), ("const", r.randint(0, 2))))
            if gat and gat[0] == "S" and r.random() < 0.6:
                # post also reads the transformed arguments (its second parameter)
                post = ("add", post, ("mul", ("proj", 0, ("var", 1)), ("const", r.randint(1, 2))))
            rt = "S"
        else:
            post, rt = ("var", 2), grt
        return ("dimap", pre, g, post), argt, rt

    def dimap_dropping(self, depth):
        """the targeted dimap root: two arguments, `pre` forwards only the second one, `post` reads the first one"""
        r = self.rng
        g, gat, grt = self.static(max(depth - 1, 0), ["S"], "S")
        argt = ["S", "S"]
        pre = [("var", 1)]
        post = ("add", ("var", 2), ("mul", ("proj", 0, ("var", 0)), ("const", r.randint(1, 2))))
        return ("dimap", pre, g, post), argt, "S"

    def contramap(self, depth):
        r = self.rng
        g, gat, grt = self.gf(depth - 1)
        argt = ["S"] * r.randint(1, 2)
        pre = [self.expr_of(t, argt) for t in gat]
        if any(e is None for e in pre):
            g, gat, grt = self.static(depth - 1, ["S"])
            pre = [self.sexpr(argt)]
        return ("contramap", pre, g), argt, grt

    def map(self, depth):
        g, gat, grt = self.gf(depth - 1)
        if grt != "S":
            g, gat, grt = self.static(depth - 1, None, "S")
        post1 = ("add", ("var", 0), ("const", self.rng.randint(1, 3)))
        return ("map", post1, g, len(gat)), gat, "S"

    def repeat(self, depth):
        g, gat, grt = self.gf(depth - 1)
        n = self.rng.choice([0] + [1, 2, 3] * 5)
        return ("repeat", n, g, len(gat)), gat, ("A", n, grt)

    def or_else(self, depth):
        r = self.rng
        g1, a1, _ = self.static(depth - 1, ["S"] * r.randint(0, 2), "S")
        g2, a2, _ = self.static(depth - 1, ["S"] * r.randint(0, 2), "S")
        return ("or_else", g1, g2), ["B", ("T", a1), ("T", a2)], "S"

    def stepfn(self, depth):
        return self.static(depth, ["S"], "S")

    def iterate(self, depth):
        g, _, _ = self.stepfn(depth - 1)
        n = self.rng.choice([0] + [1, 2, 3] * 5)
        return ("iterate", n, g), ["S"], ("A", n + 1, "S")

    def iterate_final(self, depth):
        g, _, _ = self.stepfn(depth - 1)
        n = self.rng.choice([0] + [1, 2, 3] * 5)
        return ("iterate_final", n, g), ["S"], "S"

    def accumulate(self, depth):
        g, _, _ = self.static(depth - 1, ["S", "S"], "S")
        n = self.rng.choice([0] + [1, 2, 3] * 5)
        return ("accumulate", g), ["S", ("A", n, "S")], ("A", n + 1, "S")

    def reduce(self, depth):
        g, _, _ = self.static(depth - 1, ["S", "S"], "S")
        n = self.rng.choice([0] + [1, 2, 3] * 5)
        return ("reduce", g), ["S", ("A", n, "S")], "S"

    def masked_iterate_final(self, depth):
        g, _, _ = self.stepfn(depth - 1)
        n = self.rng.choice([1, 2, 3, 4])
        return ("masked_iterate_final", g), ["S", ("A", n, "B")], "S"

    def masked_iterate(self, depth):
        g, _, _ = self.stepfn(depth - 1)
        n = self.rng.choice([1, 2, 3])
        return ("masked_iterate", g), ["S", ("A", n, "B")], ("A", n + 1, "S")

    @staticmethod
    def contains(p, kinds):
        if not isinstance(p, tuple): return False
        if p[0] in kinds: return True
        for x in p[1:]:
            if isinstance(x, tuple) and Gen.contains(x, kinds): return True
            if isinstance(x, list):
                for y in x:
                    if isinstance(y, tuple) and (Gen.contains(y, kinds) or any(Gen.contains(z, kinds) for z in y if isinstance(z, tuple))):
                        return True
        return False

    # ---- argument values -----------------------------------------------------
    def value(self, t, nbranches=None):
        r = self.rng
        if t == "S": return r.randint(-3, 3)
        if t == "B": return r.random() < 0.6
        if t == "I": return r.randint(-1, (nbranches or 2))
        if t == "N": return None
        if t[0] == "T": return [self.value(tt) for tt in t[1]]
        if t[0] == "A":
            if t[2] == "N": return None
            return [self.value(t[2]) for _ in range(t[1])]
        raise ValueError(t)


def vm_lens(p, argt, args):
    """pre-order list of vmap/scan lengths of a *core* program for given args (static info only)"""
    out = []

    def go(p):
        k = p[0]
        if k == "static":
            for (a, g, es) in p[1]:
                go(g)
        elif k in ("vmap", "scan"):
            out.append(p)
            go(p[2])
        elif k == "switch":
            for g in p[1]: go(g)
        elif k == "mask": go(p[1])
        elif k == "dimap": go(p[2])
    go(p)
    return out
