(* C06 for Update on the mask-free, switch-free fragment: applying the backward request of an Update to
   the new trace, with the original arguments, returns EXACTLY the original trace, and the weight is negated. *)
From Coq Require Import List Bool ZArith NArith Lia Arith.
Import ListNotations.
From Gen Require Import SelGen.
From Model Require Import Key Sel GFI GFIEdit.
From Proofs Require Import GFIBase GFIRef GFIWf GFIConsistent GFISim GFIEditProofs.
Open Scope Z_scope.

Fixpoint simple (g : gf) : Prop :=
  match g with
  | GDist _ => True
  | GStatic b => simple_body b
  | GVmap _ g' | GScan _ g' | GDimap _ g' _ => simple g'
  | GSwitch _ | GMask _ => False
  end
with simple_body (b : sbody) : Prop :=
  match b with SRet _ => True | SSite _ g _ rest => simple g /\ simple_body rest end.

(* the backward request of (t -> t') restores t from t' *)
Definition Restores (g : gf) (t t' : trace) (b : request) : Prop :=
  exists bc, b = RUpdate bc /\ forall k' tg', exists w' bc', edit g k' t' (RUpdate bc) (t_args t) tg' = Ok (t, w', RUpdate bc').

(* ---- sub-maps of concatenations of prefixed maps ---- *)
Definition cat_static (l : list (addr * chm)) : chm := flat_map (fun p => cprefix (map KS (fst p)) (snd p)) l.
Lemma csub_addr_cat_others a l :
  a <> [] -> Forall (fun a' => a' <> []) (map fst l) -> ~ In (ahead a) (map ahead (map fst l)) -> csub_addr (cat_static l) a = [].
Proof.
  intros Ha. induction l as [|[a' c] r IH]; intros Hne Hnin; [apply csub_path_nil|].
  simpl in *. unfold csub_addr in *. rewrite csub_path_app. inversion Hne; subst.
  assert (E : csub_addr (cprefix (map KS a') c) a = []).
  { apply csub_addr_other; auto; intros E; apply Hnin; left; congruence. }
  unfold csub_addr in E. rewrite E. simpl. apply IH; auto.
Qed.
Lemma cat_static_app a b : cat_static (a ++ b) = cat_static a ++ cat_static b.
Proof. unfold cat_static. apply flat_map_app. Qed.
Lemma csub_addr_cat_own pre a c post :
  heads_ok (map fst (pre ++ (a, c) :: post)) -> csub_addr (cat_static (pre ++ (a, c) :: post)) a = c.
Proof.
  intros [Hnd Hne]. rewrite map_app in *. simpl in *. rewrite map_app in Hnd. simpl in Hnd.
  apply Forall_app in Hne. destruct Hne as [Hpre Hpost]. inversion Hpost as [|? ? Ha Hpost']; subst.
  apply NoDup_remove in Hnd. destruct Hnd as [Hnd Hnin]. rewrite in_app_iff in Hnin.
  rewrite cat_static_app. unfold csub_addr. rewrite csub_path_app.
  fold (csub_addr (cat_static pre) a). rewrite csub_addr_cat_others; auto.
  simpl. change (flat_map (fun p => cprefix (map KS (fst p)) (snd p)) post) with (cat_static post). rewrite csub_path_app.
  rewrite csub_path_cprefix. fold (csub_addr (cat_static post) a). rewrite csub_addr_cat_others; auto.
  apply app_nil_r.
Qed.

Definition cat_indexed (s : nat) (l : list chm) : chm := flat_mapi (fun i c => cprefix [KI i] c) s l.
Lemma cat_indexed_cons s c r : cat_indexed s (c :: r) = cprefix [KI s] c ++ cat_indexed (S s) r.
Proof. reflexivity. Qed.
Lemma csub_cat_indexed_lt s l i : (i < s)%nat -> csub (cat_indexed s l) (KI i) = [].
Proof.
  revert s; induction l as [|c r IH]; intros s Hlt; [reflexivity|].
  rewrite cat_indexed_cons, csub_app, csub_cprefix_other, IH; [reflexivity | lia | intros E; inversion E; lia].
Qed.
Lemma csub_cat_indexed s l j c : nth_error l j = Some c -> csub (cat_indexed s l) (KI (s + j)) = c.
Proof.
  revert s j; induction l as [|c0 r IH]; intros s j H; [destruct j; discriminate|].
  rewrite cat_indexed_cons, csub_app. destruct j as [|j'].
  - simpl in H. inversion H; subst. rewrite Nat.add_0_r, csub_cprefix_same, cprefix_nil, csub_cat_indexed_lt by lia. apply app_nil_r.
  - simpl in H. rewrite csub_cprefix_other by (intros E; inversion E; lia).
    replace (s + S j')%nat with (S s + j')%nat by lia. apply (IH (S s) j'). exact H.
Qed.

(* opt_concat of all-Some lists *)
Lemma opt_concat_somes (l : list chm) : opt_concat (map Some l) = Some (concat l).
Proof. induction l as [|c r IH]; [reflexivity|]. simpl. rewrite IH. reflexivity. Qed.

Lemma list_eq_nth {A} (l1 l2 : list A) :
  length l1 = length l2 -> (forall j x, nth_error l1 j = Some x -> nth_error l2 j = Some x) -> l1 = l2.
Proof.
  revert l2; induction l1 as [|x r IH]; intros [|y s] Hl H; simpl in Hl; try discriminate; [reflexivity|].
  pose proof (H 0%nat x eq_refl) as H0. simpl in H0. inversion H0; subst. f_equal. apply IH; [lia|].
  intros j z Hj. apply (H (S j) z Hj).
Qed.

(* ---- static bodies: replay of the backward request ---- *)
(* facts about one site of the forward edit *)
Record site_fact := { sf_addr : addr; sf_g : gf; sf_es : list expr; sf_old : trace; sf_new : trace; sf_bc : chm }.
Definition site_ok (f : site_fact) : Prop :=
  forall k' tg', exists w' bc', edit (sf_g f) k' (sf_new f) (RUpdate (sf_bc f)) (t_args (sf_old f)) tg' = Ok (sf_old f, w', RUpdate bc').

Fixpoint body_matches (b : sbody) (fs : list site_fact) : Prop :=
  match b, fs with
  | SRet _, [] => True
  | SSite a g es rest, f :: r => sf_addr f = a /\ sf_g f = g /\ sf_es f = es /\ body_matches rest r
  | _, _ => False
  end.

Definition all_updates (bw : list (addr * request)) : Prop := Forall (fun ab => exists bc, snd ab = RUpdate bc) bw.
Lemma replay_body : forall b fs k' cnt' NEW BC env0 envt' acc0 w0 bw0 ret0,
  body_matches b fs -> Forall site_ok fs ->
  wfb b env0 (map (fun f => (sf_addr f, sf_old f)) fs) ret0 ->
  (forall f, In f fs -> subs_get NEW (sf_addr f) = Some (sf_new f) /\ csub_addr BC (sf_addr f) = sf_bc f) ->
  NoDup (map fst acc0 ++ map sf_addr fs) -> all_updates bw0 ->
  exists w1 bw1, edit_body b k' cnt' NEW (RUpdate BC) env0 envt' acc0 w0 bw0
                 = Ok (ret0, acc0 ++ map (fun f => (sf_addr f, sf_old f)) fs, w1, bw1) /\ all_updates bw1.
Proof.
  induction b as [e|a g es rest IH]; intros fs k' cnt' NEW BC env0 envt' acc0 w0 bw0 ret0 Hm Hok Hw Hlk Hnd Hbw.
  - destruct fs; [|contradiction]. simpl in Hw. destruct Hw as [_ He]. simpl. rewrite He. simpl. rewrite app_nil_r. eauto.
  - destruct fs as [|f r]; [contradiction|]. simpl in Hm. destruct Hm as [Ha [Hg [Hes Hm]]].
    simpl in Hw. destruct Hw as [_ [Hav [Hwt Hw']]]. subst a g es. simpl.
    rewrite Hav. simpl.
    destruct (Hlk f (or_introl eq_refl)) as [Hget Hbc]. rewrite Hget. rewrite Hbc.
    inversion Hok as [|? ? Hf Hok']; subst.
    destruct (Hf (fold_in k' cnt') (map (tag_eval envt') (sf_es f))) as [w' [bc' He]]. rewrite He. simpl.
    assert (Hnin : ~ In (sf_addr f) (map fst acc0)).
    { simpl in Hnd. intros Hi. apply NoDup_remove_2 in Hnd. apply Hnd. rewrite in_app_iff. now left. }
    destruct (existsb (fun p => addr_eqb (fst p) (sf_addr f)) acc0) eqn:Eex.
    { exfalso. apply existsb_exists in Eex. destruct Eex as [[a0 t0] [Hin Heq]]. simpl in Heq. apply addr_eqb_eq in Heq. subst.
      apply Hnin. apply in_map_iff. exists (sf_addr f, t0). auto. }
    destruct (IH r k' (cnt' + 1)%N NEW BC (env0 ++ [t_retval (sf_old f)]) (envt' ++ [tg_unknown]) (acc0 ++ [(sf_addr f, sf_old f)]) (w0 + w') (bw0 ++ [(sf_addr f, RUpdate bc')]) ret0 Hm Hok' Hw')
      as [w1 [bw1 [H1 H2]]].
    + intros f0 Hi. apply Hlk. now right.
    + rewrite map_app. simpl. rewrite <- app_assoc. simpl. simpl in Hnd. exact Hnd.
    + apply Forall_app. split; [exact Hbw|]. constructor; [eexists; reflexivity | constructor].
    + rewrite H1. rewrite <- app_assoc. simpl. eauto.
Qed.
Lemma all_updates_request bw : all_updates bw ->
  exists bc, match mapM (fun ab : addr * request => do c <- req_chm (snd ab); Ok (opt_prefix (map KS (fst ab)) c)) bw with
             | Ok cs => req_of (opt_concat cs) | Err _ => RJunk end = RUpdate bc.
Proof.
  intros H.
  assert (G : exists l, mapM (fun ab : addr * request => do c <- req_chm (snd ab); Ok (opt_prefix (map KS (fst ab)) c)) bw = Ok (map Some l)).
  { induction H as [|[a r] rest [bc Hbc] _ IH]; [exists []; reflexivity|]. destruct IH as [l Hl]. simpl in Hbc. subst r.
    exists (cprefix (map KS a) bc :: l). rewrite mapM_cons. simpl. rewrite Hl. reflexivity. }
  destruct G as [l Hl]. rewrite Hl, opt_concat_somes. simpl. eauto.
Qed.

(* ---- helper facts for the static case ---- *)
Lemma body_matches_addrs : forall b fs, body_matches b fs -> map sf_addr fs = body_addrs b.
Proof.
  induction b as [e|a g es rest IH]; intros fs Hm; destruct fs as [|f r]; simpl in Hm; try contradiction; [reflexivity|].
  destruct Hm as [Ha [_ [_ Hm]]]. simpl. rewrite Ha. f_equal. apply IH. exact Hm.
Qed.
Lemma subs_get_cons_other (a a' : addr) t l : a <> a' -> subs_get ((a', t) :: l) a = subs_get l a.
Proof. intros Hne. simpl. destruct (addr_eqb a a') eqn:E; [apply addr_eqb_eq in E; contradiction | reflexivity]. Qed.
Lemma olds_are_the_facts : forall b env subs ret fs,
  wfb b env subs ret -> NoDup (body_addrs b) -> body_matches b fs ->
  Forall (fun f => subs_get subs (sf_addr f) = Some (sf_old f)) fs ->
  map (fun f => (sf_addr f, sf_old f)) fs = subs.
Proof.
  induction b as [e|a g es rest IH]; intros env subs ret fs Hw Hnd Hm Hf.
  - destruct fs; [|contradiction]. simpl in Hw. destruct Hw as [-> _]. reflexivity.
  - destruct fs as [|f r]; [contradiction|]. simpl in Hm. destruct Hm as [Ha [_ [_ Hm]]].
    simpl in Hw. destruct subs as [|[a' t0] subs']; [contradiction|]. destruct Hw as [-> [_ [_ Hw']]].
    inversion Hf as [|? ? Hf0 Hf']; subst. simpl in Hf0. rewrite addr_eqb_refl in Hf0. inversion Hf0; subst.
    simpl. f_equal. simpl in Hnd. inversion Hnd as [|? ? Hnin Hnd']; subst.
    eapply IH; eauto.
    rewrite Forall_forall in *. intros f0 Hi. specialize (Hf' f0 Hi).
    rewrite subs_get_cons_other in Hf'; [exact Hf'|].
    intros E. apply Hnin. rewrite <- (body_matches_addrs _ _ Hm). rewrite <- E. apply in_map. exact Hi.
Qed.
Lemma subs_get_map_nodup (fs : list site_fact) (h : site_fact -> trace) f :
  NoDup (map sf_addr fs) -> In f fs -> subs_get (map (fun f => (sf_addr f, h f)) fs) (sf_addr f) = Some (h f).
Proof.
  induction fs as [|f0 r IH]; intros Hnd Hin; [contradiction|]. simpl in Hnd. inversion Hnd as [|? ? Hnin Hnd']; subst.
  destruct Hin as [->|Hin].
  - simpl. rewrite addr_eqb_refl. reflexivity.
  - simpl. destruct (addr_eqb (sf_addr f) (sf_addr f0)) eqn:E.
    + apply addr_eqb_eq in E. exfalso. apply Hnin. rewrite <- E. apply in_map. exact Hin.
    + apply IH; assumption.
Qed.
Lemma In_split_map (fs : list site_fact) f : In f fs -> exists pre post, fs = pre ++ f :: post.
Proof. apply in_split. Qed.

Lemma static_bwd_request (fs : list site_fact) :
  match mapM (fun ab : addr * request => do c <- req_chm (snd ab); Ok (opt_prefix (map KS (fst ab)) c))
             (map (fun f => (sf_addr f, RUpdate (sf_bc f))) fs) with
  | Ok cs => req_of (opt_concat cs)
  | Err _ => RJunk
  end = RUpdate (cat_static (map (fun f => (sf_addr f, sf_bc f)) fs)).
Proof.
  assert (G : mapM (fun ab : addr * request => do c <- req_chm (snd ab); Ok (opt_prefix (map KS (fst ab)) c))
                   (map (fun f => (sf_addr f, RUpdate (sf_bc f))) fs)
              = Ok (map Some (map (fun f => cprefix (map KS (sf_addr f)) (sf_bc f)) fs))).
  { induction fs as [|f r IH]; [reflexivity|]. simpl map. rewrite mapM_cons. simpl. rewrite IH. reflexivity. }
  rewrite G. rewrite opt_concat_somes. simpl. f_equal. unfold cat_static. rewrite flat_map_concat_map, map_map. reflexivity.
Qed.

(* ---- vector helpers ---- *)
Lemma vector_bwd_request : forall (xs : list (trace * Z * request)) s cs,
  (forall x, In x xs -> exists bc, snd x = RUpdate bc) ->
  mapiM (fun i x => do c' <- req_chm (snd x); Ok (opt_prefix [KI i] c')) s xs = Ok cs ->
  exists bcs, Forall2 (fun x bc => snd x = RUpdate bc) xs bcs /\ req_of (opt_concat cs) = RUpdate (cat_indexed s bcs).
Proof.
  induction xs as [|x r IH]; intros s cs Hall H; simpl in H.
  - inversion H; subst. exists []. split; [constructor | reflexivity].
  - destruct (Hall x (or_introl eq_refl)) as [bc Hbc]. rewrite Hbc in H. simpl in H.
    bind_inv H as cs' Hcs. inversion H; subst.
    destruct (IH (S s) cs' (fun y Hy => Hall y (or_intror Hy)) Hcs) as [bcs [HF Hreq]].
    exists (bc :: bcs). split; [constructor; assumption|].
    destruct (opt_concat cs') as [c0|] eqn:E; simpl in Hreq; [|discriminate]. inversion Hreq as [Hc0].
    cbn [opt_concat opt_prefix option_map]. rewrite E. cbn [option_map req_of]. rewrite cat_indexed_cons, Hc0. reflexivity.
Qed.
Lemma mapiM_build {A B} (f : nat -> A -> res B) (h : nat -> A -> B) : forall l s,
  (forall j x, nth_error l j = Some x -> f (s + j)%nat x = Ok (h (s + j)%nat x)) ->
  mapiM f s l = Ok ((fix go (i : nat) (l : list A) := match l with [] => [] | x :: r => h i x :: go (S i) r end) s l).
Proof.
  induction l as [|x r IH]; intros s H; [reflexivity|]. simpl.
  pose proof (H 0%nat x eq_refl) as H0. rewrite Nat.add_0_r in H0. rewrite H0. simpl.
  rewrite (IH (S s)); [reflexivity|]. intros j y Hj. replace (S s + j)%nat with (s + S j)%nat by lia. apply H. exact Hj.
Qed.

Definition imap_gen {A B} (h : nat -> A -> B) : nat -> list A -> list B :=
  fix go (i : nat) (l : list A) := match l with [] => [] | x :: r => h i x :: go (S i) r end.

(* the elements of a vector trace are restored one by one *)
Lemma restore_elements g (inner news : list trace) (bcs : list chm) (fargs : nat -> list val) k' tg' :
  length news = length inner -> length bcs = length inner ->
  (forall j told tnew bc, nth_error inner j = Some told -> nth_error news j = Some tnew -> nth_error bcs j = Some bc ->
      t_args told = fargs j /\
      forall k'' tg'', exists w' bc', edit g k'' tnew (RUpdate bc) (t_args told) tg'' = Ok (told, w', RUpdate bc')) ->
  exists ys, mapiM (fun i tnew => edit g (fold_in k' (N.of_nat i)) tnew (RUpdate (csub (cat_indexed 0 bcs) (KI i))) (fargs i) tg') 0%nat news = Ok ys /\
             map (fun y => fst (fst y)) ys = inner /\ (forall y, In y ys -> exists bc', snd y = RUpdate bc').
Proof.
  intros Hl1 Hl2 H.
  assert (G : forall news' s inner' bcs',
     length news' = length inner' -> length bcs' = length inner' ->
     (forall j told tnew bc, nth_error inner' j = Some told -> nth_error news' j = Some tnew -> nth_error bcs' j = Some bc ->
        nth_error inner (s + j) = Some told /\ nth_error news (s + j) = Some tnew /\ nth_error bcs (s + j) = Some bc) ->
     exists ys, mapiM (fun i tnew => edit g (fold_in k' (N.of_nat i)) tnew (RUpdate (csub (cat_indexed 0 bcs) (KI i))) (fargs i) tg') s news' = Ok ys /\
                map (fun y => fst (fst y)) ys = inner' /\ (forall y, In y ys -> exists bc', snd y = RUpdate bc')).
  { induction news' as [|tn r IH]; intros s inner' bcs' L1 L2 Hn.
    - destruct inner'; [|discriminate]. exists []. simpl. repeat split; auto. intros y [].
    - destruct inner' as [|to ri]; [discriminate|]. destruct bcs' as [|bc rb]; [discriminate|].
      destruct (Hn 0%nat to tn bc eq_refl eq_refl eq_refl) as [H1 [H2 H3]]. rewrite Nat.add_0_r in H1, H2, H3.
      destruct (H s to tn bc H1 H2 H3) as [Ha Hr].
      destruct (Hr (fold_in k' (N.of_nat s)) tg') as [w' [bc' He]].
      destruct (IH (S s) ri rb) as [ys [Hy1 [Hy2 Hy3]]]; [simpl in *; lia | simpl in *; lia | |].
      { intros j t1 t2 b1 J1 J2 J3. replace (S s + j)%nat with (s + S j)%nat by lia. apply (Hn (S j)); assumption. }
      exists ((to, w', RUpdate bc') :: ys). simpl.
      assert (Ec : csub (cat_indexed 0 bcs) (KI s) = bc) by (rewrite <- (Nat.add_0_l s); apply csub_cat_indexed; exact H3).
      rewrite Ec, <- Ha, He. simpl. rewrite Hy1. simpl. split; [reflexivity|]. split; [rewrite Hy2; reflexivity|].
      intros y [<-|Hy]; [eexists; reflexivity | apply Hy3; exact Hy]. }
  destruct (G news 0%nat inner bcs Hl1 Hl2) as [ys Hys]; [|exists ys; exact Hys].
  intros j t1 t2 b1 J1 J2 J3. simpl. auto.
Qed.

Lemma nth_error_map_inv' {A B} (f : A -> B) l i y :
  nth_error (map f l) i = Some y -> exists x, nth_error l i = Some x /\ y = f x.
Proof.
  revert i; induction l as [|a r IH]; intros [|i] H; simpl in *; try discriminate.
  - inversion H. eauto.
  - apply IH. exact H.
Qed.
Lemma mapiM_total_updates : forall (ys : list (trace * Z * request)) s,
  (forall y, In y ys -> exists bc, snd y = RUpdate bc) ->
  exists cs, mapiM (fun i x => do c' <- req_chm (snd x); Ok (opt_prefix [KI i] c')) s ys = Ok cs /\
             exists bc, req_of (opt_concat cs) = RUpdate bc.
Proof.
  induction ys as [|y r IH]; intros s H; [exists []; split; [reflexivity | eexists; reflexivity]|].
  destruct (H y (or_introl eq_refl)) as [bc Hbc]. destruct (IH (S s) (fun z Hz => H z (or_intror Hz))) as [cs [Hcs [bc0 Hreq]]].
  exists (Some (cprefix [KI s] bc) :: cs). simpl. rewrite Hbc. simpl. rewrite Hcs. simpl. split; [reflexivity|].
  destruct (opt_concat cs) as [c0|]; simpl in *; [eexists; reflexivity | discriminate].
Qed.

(* the iterations of a scan are restored one by one, the original carries re-appear *)
Lemma restore_scan g xs (inner news : list trace) (bcs : list chm) k' :
  length news = length inner -> length bcs = length inner ->
  (forall j told tnew bc, nth_error inner j = Some told -> nth_error news j = Some tnew -> nth_error bcs j = Some bc ->
      forall k'' tg'', exists w' bc', edit g k'' tnew (RUpdate bc) (t_args told) tg'' = Ok (told, w', RUpdate bc')) ->
  forall c cf ys, scan_ok (wft g) xs 0 c inner cf ys ->
  exists zs, scanE (fun i told c0 => do x0 <- edit g (fold_in k' (N.of_nat i)) told (RUpdate (csub (cat_indexed 0 bcs) (KI i)))
                                          [c0; slice0 xs i] [tg_unknown; tg_unknown];
                                     let '(t', w, b) := x0 in do cy <- split_ret (t_retval t'); Ok (t', w, b, fst cy, snd cy))
                   0%nat news c = Ok (zs, cf, ys) /\
             map (fun z => fst (fst z)) zs = inner /\ (forall z, In z zs -> exists bc', snd z = RUpdate bc').
Proof.
  intros Hl1 Hl2 H.
  assert (G : forall news' s inner' bcs' c cf ys,
     length news' = length inner' -> length bcs' = length inner' ->
     (forall j told tnew bc, nth_error inner' j = Some told -> nth_error news' j = Some tnew -> nth_error bcs' j = Some bc ->
        nth_error inner (s + j) = Some told /\ nth_error news (s + j) = Some tnew /\ nth_error bcs (s + j) = Some bc) ->
     scan_ok (wft g) xs s c inner' cf ys ->
     exists zs, scanE (fun i told c0 => do x0 <- edit g (fold_in k' (N.of_nat i)) told (RUpdate (csub (cat_indexed 0 bcs) (KI i)))
                                          [c0; slice0 xs i] [tg_unknown; tg_unknown];
                                     let '(t', w, b) := x0 in do cy <- split_ret (t_retval t'); Ok (t', w, b, fst cy, snd cy))
                      s news' c = Ok (zs, cf, ys) /\
                map (fun z => fst (fst z)) zs = inner' /\ (forall z, In z zs -> exists bc', snd z = RUpdate bc')).
  { induction news' as [|tn r IH]; intros s inner' bcs' c cf ys L1 L2 Hn Hok.
    - destruct inner'; [|discriminate]. simpl in Hok. destruct Hok as [-> ->]. exists []. simpl. repeat split; auto. intros z [].
    - destruct inner' as [|to ri]; [discriminate|]. destruct bcs' as [|bc rb]; [discriminate|].
      simpl in Hok. destruct Hok as [_ [Hargs [c' [y [ys' [Hsplit [-> Hrest]]]]]]].
      destruct (Hn 0%nat to tn bc eq_refl eq_refl eq_refl) as [H1 [H2 H3]]. rewrite Nat.add_0_r in H1, H2, H3.
      destruct (H s to tn bc H1 H2 H3 (fold_in k' (N.of_nat s)) [tg_unknown; tg_unknown]) as [w' [bc' He]].
      destruct (IH (S s) ri rb c' cf ys') as [zs [Hz1 [Hz2 Hz3]]]; [simpl in *; lia | simpl in *; lia | | exact Hrest |].
      { intros j t1 t2 b1 J1 J2 J3. replace (S s + j)%nat with (s + S j)%nat by lia. apply (Hn (S j)); assumption. }
      exists ((to, w', RUpdate bc') :: zs). simpl.
      assert (Ec : csub (cat_indexed 0 bcs) (KI s) = bc) by (rewrite <- (Nat.add_0_l s); apply csub_cat_indexed; exact H3).
      rewrite Ec, <- Hargs, He. simpl. rewrite Hsplit. simpl. rewrite Hz1. simpl.
      split; [reflexivity|]. split; [rewrite Hz2; reflexivity|].
      intros z [<-|Hz]; [eexists; reflexivity | apply Hz3; exact Hz]. }
  intros c cf ys Hok. apply (G news 0%nat inner bcs c cf ys Hl1 Hl2); [|exact Hok].
  intros j t1 t2 b1 J1 J2 J3. simpl. auto.
Qed.

Lemma Forall2_nth {A B} (R : A -> B -> Prop) l1 l2 : Forall2 R l1 l2 ->
  length l1 = length l2 /\ forall j x y, nth_error l1 j = Some x -> nth_error l2 j = Some y -> R x y.
Proof.
  induction 1 as [|x y r1 r2 Hxy _ [IH1 IH2]]; [split; [reflexivity | intros [|j] ? ? H; discriminate]|].
  split; [simpl; congruence|]. intros [|j] a b Ha Hb; simpl in *; [inversion Ha; inversion Hb; subst; exact Hxy | eapply IH2; eauto].
Qed.

(* unfolding equations of edit with the auxiliary functions kept folded *)
Definition static_bwd (bw : list (addr * request)) : request :=
  match mapM (fun ab : addr * request => do c <- req_chm (snd ab); Ok (opt_prefix (map KS (fst ab)) c)) bw with
  | Ok cs => req_of (opt_concat cs) | Err _ => RJunk end.
Lemma edit_static_eq b k a0 r0 olds c a tg :
  edit (GStatic b) k (TStatic a0 r0 olds) (RUpdate c) a tg =
  (do x <- edit_body b k 1%N olds (RUpdate c) a tg [] 0 [];
   let '(v, subs, w, bw) := x in Ok (TStatic a v subs, w, static_bwd bw)).
Proof. reflexivity. Qed.
Lemma edit_vmap_eq axes g k olds args0 c a tg :
  edit (GVmap axes g) k (TVmap olds args0) (RUpdate c) a tg =
  (if negb (match vmap_len axes a with Some n => Nat.eqb n (length olds) | None => false end) then Err EType else
   do xs <- mapiM (fun i told => edit g (fold_in k (N.of_nat i)) told (RUpdate (csub c (KI i))) (slice_args axes a i) tg) 0%nat olds;
   do cs <- mapiM (fun i x => do c' <- req_chm (snd x); Ok (opt_prefix [KI i] c')) 0%nat xs;
   Ok (TVmap (map (fun x => fst (fst x)) xs) a, zsum (map (fun x => snd (fst x)) xs), req_of (opt_concat cs))).
Proof. reflexivity. Qed.
Lemma edit_scan_eq n g k olds a0 r0 s0 c carry xs tg :
  edit (GScan n g) k (TScan olds a0 r0 s0) (RUpdate c) [carry; xs] tg =
  (if negb (match scan_len n xs with Some m => Nat.eqb m (length olds) | None => false end) then Err EType else
   do rr <- scanE (fun i told c1 => do x0 <- edit g (fold_in k (N.of_nat i)) told (RUpdate (csub c (KI i))) [c1; slice0 xs i] [tg_unknown; tg_unknown];
                                    let '(t', w, b) := x0 in do cy <- split_ret (t_retval t'); Ok (t', w, b, fst cy, snd cy)) 0%nat olds carry;
   let '(xs', cf, ys) := rr in
   let ts := map (fun x => fst (fst x)) xs' in
   do bw <- (do cs <- mapiM (fun i x => do c' <- req_chm (snd x); Ok (opt_prefix [KI i] c')) 0%nat xs'; Ok (req_of (opt_concat cs)));
   Ok (TScan ts [carry; xs] (VT [cf; stack_vals ys]) (zsum (map t_score ts)), zsum (map (fun x => snd (fst x)) xs'), bw)).
Proof. reflexivity. Qed.
Lemma static_bwd_request' (fs : list site_fact) :
  static_bwd (map (fun f => (sf_addr f, RUpdate (sf_bc f))) fs) = RUpdate (cat_static (map (fun f => (sf_addr f, sf_bc f)) fs)).
Proof. apply static_bwd_request. Qed.
Lemma bind_Ok {A B} (a : A) (f : A -> res B) : bind (Ok a) f = f a.
Proof. reflexivity. Qed.
Lemma all_updates_request' bw : all_updates bw -> exists bc, static_bwd bw = RUpdate bc.
Proof. apply all_updates_request. Qed.

Theorem update_restores_all :
  (forall g, wfg g -> simple g -> forall k t c a tg x, wft g t -> edit g k t (RUpdate c) a tg = Ok x ->
      Restores g t (fst (fst x)) (snd x)) /\
  (forall b, wfg_body b -> simple_body b -> forall k cnt olds c env envt acc w bw x,
      olds_ok b olds -> edit_body b k cnt olds (RUpdate c) env envt acc w bw = Ok x ->
      let '(v, subs, w', bw') := x in
      exists fs, body_matches b fs /\ Forall site_ok fs /\
                 subs = acc ++ map (fun f => (sf_addr f, sf_new f)) fs /\
                 bw' = bw ++ map (fun f => (sf_addr f, RUpdate (sf_bc f))) fs /\
                 Forall (fun f => subs_get olds (sf_addr f) = Some (sf_old f)) fs) /\
  (forall bs : gfs, True).
Proof.
  apply gf_sbody_gfs_ind; try (intros; exact I).
  - (* GDist *) intros d _ _ k t c a tg x Hw H. destruct t; simpl in Hw; try contradiction.
    destruct Hw as [-> [p0 [-> ->]]]. simpl in H.
    destruct a as [|[p| | | | |] [|? ?]]; try discriminate.
    unfold cvalue in H. unfold Restores.
    destruct (cget c []) as [[z|b0|l|l|f [z| | | | |]|]|] eqn:E; try discriminate; inversion H; subst; simpl;
      try destruct f; simpl; eexists; (split; [reflexivity|]); intros k' tg'; simpl; eexists; eexists;
      repeat f_equal.
  - (* GStatic *) intros b IH [Hheads Hwb] Hs k t c a tg x Hw H. destruct t; simpl in Hw; try contradiction.
    rewrite edit_static_eq in H. bind_inv H as y Hy. destruct y as [[[v subs'] w'] bw']. inversion H; subst. clear H.
    assert (Hnd : NoDup (body_addrs b)) by (apply NoDup_heads; apply Hheads).
    destruct (wfb_olds _ _ _ _ [] Hw Hnd) as [Hok _]. simpl in Hok.
    pose proof (IH Hwb Hs _ _ _ _ _ _ _ _ _ _ Hok Hy) as IH'. simpl in IH'.
    destruct IH' as [fs [Hm [Hso [Hsubs [Hbw Hold]]]]]. simpl in Hsubs, Hbw. subst subs' bw'.
    unfold Restores. cbn [fst snd]. rewrite static_bwd_request'. eexists. split; [reflexivity|].
    intros k' tg'. cbn [t_args]. rewrite edit_static_eq.
    pose proof (olds_are_the_facts _ _ _ _ _ Hw Hnd Hm Hold) as Hfacts.
    pose proof (body_matches_addrs _ _ Hm) as Haddrs.
    destruct (replay_body b fs k' 1%N (map (fun f => (sf_addr f, sf_new f)) fs)
                (cat_static (map (fun f => (sf_addr f, sf_bc f)) fs)) args tg' [] 0 [] ret Hm Hso) as [w1 [bw1 [H1 H2]]].
    + rewrite Hfacts. exact Hw.
    + intros f Hin. split; [apply (subs_get_map_nodup fs sf_new f); [rewrite Haddrs; exact Hnd | exact Hin]|].
      destruct (in_split _ _ Hin) as [pre [post ->]]. rewrite map_app. simpl.
      apply (csub_addr_cat_own (map (fun f0 => (sf_addr f0, sf_bc f0)) pre) (sf_addr f) (sf_bc f) (map (fun f0 => (sf_addr f0, sf_bc f0)) post)).
      assert (Eh : map fst (map (fun f0 => (sf_addr f0, sf_bc f0)) pre ++ (sf_addr f, sf_bc f) :: map (fun f0 => (sf_addr f0, sf_bc f0)) post)
                   = map sf_addr (pre ++ f :: post)).
      { rewrite !map_app. simpl. rewrite !map_map. reflexivity. }
      rewrite Eh, Haddrs. exact Hheads.
    + simpl. rewrite Haddrs. exact Hnd.
    + constructor.
    + destruct (all_updates_request' bw1 H2) as [bc'' Hbc''].
      rewrite H1, bind_Ok. cbv beta iota zeta. rewrite Hbc''. simpl. rewrite Hfacts. eauto.
  - (* GVmap *) intros axes g IH Hg Hs k t c a tg x Hw H. destruct t; simpl in Hw; try contradiction.
    destruct Hw as [n [Hlen [Hn Hall]]]. rewrite edit_vmap_eq in H.
    destruct (vmap_len axes a) as [n'|]; cbn [negb] in H; [|discriminate].
    destruct (Nat.eqb n' (length inner)); cbn [negb] in H; [|discriminate].
    bind_inv H as xs Hxs. bind_inv H as cs Hcs. inversion H; subst. clear H.
    destruct (mapiM_ok _ _ _ _ Hxs) as [Hl Hnth].
    assert (Hel : forall j told, nth_error inner j = Some told ->
               exists y, nth_error xs j = Some y /\ Restores g told (fst (fst y)) (snd y)).
    { intros j told Hj. destruct (Hnth _ _ Hj) as [y [Hy He]]. exists y. split; [exact Hy|]. simpl in He.
      apply (IH Hg Hs _ _ _ _ _ _ (proj1 (Hall j told Hj)) He). }
    assert (Hup : forall y, In y xs -> exists bc, snd y = RUpdate bc).
    { intros y Hy. destruct (In_nth_error _ _ Hy) as [j Hj].
      assert (Hlt : (j < length inner)%nat) by (rewrite <- Hl; apply nth_error_Some; congruence).
      destruct (nth_error inner j) as [told|] eqn:Ht; [|apply nth_error_None in Ht; lia].
      destruct (Hel _ _ Ht) as [y' [Hy' [bc [Hb _]]]]. rewrite Hj in Hy'. inversion Hy'; subst. eauto. }
    destruct (vector_bwd_request xs 0%nat cs Hup Hcs) as [bcs [HF Hreq]].
    unfold Restores. cbn [fst snd]. rewrite Hreq. eexists. split; [reflexivity|]. intros k' tg'. cbn [t_args]. rewrite edit_vmap_eq.
    destruct (Forall2_nth _ _ _ HF) as [Hlb Hnb].
    rewrite Hlen. rewrite map_length, Hl, Nat.eqb_refl. cbn [negb].
    destruct (restore_elements g inner (map (fun x0 => fst (fst x0)) xs) bcs (fun i => slice_args axes args i) k' tg') as [ys [Hy1 [Hy2 Hy3]]].
    + rewrite map_length. exact Hl.
    + rewrite <- Hlb. exact Hl.
    + intros j told tnew bc J1 J2 J3. split; [apply (Hall j told J1)|].
      apply nth_error_map_inv' in J2. destruct J2 as [y [Jy ->]].
      destruct (Hel _ _ J1) as [y' [Hy' [bc0 [Hb Hr]]]]. rewrite Jy in Hy'. inversion Hy'; subst y'.
      pose proof (Hnb j y bc Jy J3) as Hbb. rewrite Hb in Hbb. inversion Hbb; subst. exact Hr.
    + destruct (mapiM_total_updates ys 0%nat Hy3) as [cs' [Hcs' [bc'' Hbc'']]].
      rewrite Hy1, bind_Ok, Hcs', bind_Ok, Hy2, Hbc''. eauto.
  - (* GScan *) intros n g IH Hg Hs k t c a tg x Hw H. destruct t; simpl in Hw; try contradiction.
    destruct Hw as [carry0 [xs0 [len [cf0 [ys0 [-> [Hlen [Hn [Hok [-> ->]]]]]]]]]].
    destruct a as [|carry [|xs [|? ?]]]; try (simpl in H; discriminate). rewrite edit_scan_eq in H.
    destruct (scan_len n xs) as [m|]; cbn [negb] in H; [|discriminate].
    destruct (Nat.eqb m (length inner)); cbn [negb] in H; [|discriminate].
    bind_inv H as rr Hrr. destruct rr as [[xs' cf] ys]. bind_inv H as bwq Hbwq. bind_inv Hbwq as cs Hcs. inversion Hbwq; subst. inversion H; subst. clear H Hbwq.
    assert (Hin : forall told, In told inner -> wft g told).
    { clear - Hok. revert Hok. generalize 0%nat carry0 ys0. induction inner as [|t0 r IHr]; intros s c ys1 Hok told Hi; [contradiction|].
      simpl in Hok. destruct Hok as [Hw0 [_ [c' [y [ys' [_ [_ Hr]]]]]]]. destruct Hi as [<-|Hi]; [exact Hw0 | eapply IHr; eauto]. }
    (* per-iteration facts of the forward scan *)
    assert (Hfw : forall olds s c0 rr0, (forall told, In told olds -> wft g told) ->
       scanE (fun i told c1 => do x0 <- edit g (fold_in k (N.of_nat i)) told (RUpdate (csub c (KI i))) [c1; slice0 xs i] [tg_unknown; tg_unknown];
                               let '(t', w, b) := x0 in do cy <- split_ret (t_retval t'); Ok (t', w, b, fst cy, snd cy)) s olds c0 = Ok rr0 ->
       length (fst (fst rr0)) = length olds /\
       forall j told, nth_error olds j = Some told -> exists y, nth_error (fst (fst rr0)) j = Some y /\ Restores g told (fst (fst y)) (snd y)).
    { induction olds as [|told rest IHo]; intros s c0 rr0 Hwf Hsc; simpl in Hsc.
      - inversion Hsc; subst. split; [reflexivity|]. intros j told Hj. destruct j; discriminate.
      - bind_inv Hsc as y Hy. destruct y as [[[[t1 w1] b1] c1] y1]. bind_inv Hsc as rr' Hrr'. destruct rr' as [[zs cf'] ys']. inversion Hsc; subst.
        bind_inv Hy as x0 Hx0. destruct x0 as [[t2 w2] b2]. bind_inv Hy as cy Hcy. inversion Hy; subst.
        destruct (IHo _ _ _ (fun t0 Hi => Hwf t0 (or_intror Hi)) Hrr') as [Hl0 Hn0]. simpl in Hl0, Hn0. simpl. split; [lia|].
        intros j told0 Hj. destruct j as [|j']; simpl in Hj.
        + inversion Hj; subst. eexists. split; [reflexivity|]. simpl.
          apply (IH Hg Hs _ _ _ _ _ _ (Hwf told0 (or_introl eq_refl)) Hx0).
        + apply (Hn0 j' told0 Hj). }
    destruct (Hfw inner 0%nat carry (xs', cf, ys) Hin Hrr) as [Hl Hel]. simpl in Hl, Hel.
    assert (Hup : forall y, In y xs' -> exists bc, snd y = RUpdate bc).
    { intros y Hy. destruct (In_nth_error _ _ Hy) as [j Hj].
      assert (Hlt : (j < length inner)%nat) by (rewrite <- Hl; apply nth_error_Some; congruence).
      destruct (nth_error inner j) as [told|] eqn:Ht; [|apply nth_error_None in Ht; lia].
      destruct (Hel _ _ Ht) as [y' [Hy' [bc [Hb _]]]]. rewrite Hj in Hy'. inversion Hy'; subst. eauto. }
    destruct (vector_bwd_request xs' 0%nat cs Hup Hcs) as [bcs [HF Hreq]].
    unfold Restores. cbn [fst snd]. rewrite Hreq. eexists. split; [reflexivity|]. intros k' tg'. cbn [t_args]. rewrite edit_scan_eq.
    destruct (Forall2_nth _ _ _ HF) as [Hlb Hnb].
    rewrite Hlen. rewrite map_length, Hl, Nat.eqb_refl. cbn [negb].
    destruct (restore_scan g xs0 inner (map (fun x0 => fst (fst x0)) xs') bcs k') with (c := carry0) (cf := cf0) (ys := ys0) as [zs [Hz1 [Hz2 Hz3]]].
    + rewrite map_length. exact Hl.
    + rewrite <- Hlb. exact Hl.
    + intros j told tnew bc J1 J2 J3.
      apply nth_error_map_inv' in J2. destruct J2 as [y [Jy ->]].
      destruct (Hel _ _ J1) as [y' [Hy' [bc0 [Hb Hr]]]]. rewrite Jy in Hy'. inversion Hy'; subst y'.
      pose proof (Hnb j y bc Jy J3) as Hbb. rewrite Hb in Hbb. inversion Hbb; subst. exact Hr.
    + exact Hok.
    + destruct (mapiM_total_updates zs 0%nat Hz3) as [cs' [Hcs' [bc'' Hbc'']]].
      rewrite Hz1, bind_Ok. cbv beta iota zeta. rewrite Hcs', !bind_Ok, Hz2, Hbc''. eauto.
  - (* GSwitch *) intros bs _ _ Hs. contradiction.
  - (* GMask *) intros g _ _ Hs. contradiction.
  - (* GDimap *) intros pre g IH post Hg Hs k t c a tg x Hw H. destruct t; simpl in Hw; try contradiction.
    destruct Hw as [Hpre [Hw Hpost]]. simpl in H. bind_inv H as ia Hia. bind_inv H as y Hy. destruct y as [[t' w] b].
    bind_inv H as rv Hrv. inversion H; subst. clear H.
    destruct (IH Hg Hs _ _ _ _ _ _ Hw Hy) as [bc [Hb Hr]]. simpl in Hb, Hr. subst b.
    unfold Restores. simpl. eexists. split; [reflexivity|]. intros k' tg'. simpl. rewrite Hpre. simpl.
    destruct (Hr k' (map (tag_eval tg') pre)) as [w' [bc' He]]. rewrite He. simpl. rewrite Hpost. simpl. eauto.
  - (* SRet *) intros e _ _ k cnt olds c env envt acc w bw x Hok H. simpl in H. bind_inv H as v Hv. inversion H; subst.
    exists []. simpl. rewrite !app_nil_r. repeat split; auto; constructor.
  - (* SSite *) intros ad g IHg es rest IHr [Hg Hrest] [Hsg Hsr] k cnt olds c env envt acc w bw x [Hold Hok] H.
    simpl in H. bind_inv H as av Hav. destruct (subs_get olds ad) as [told|] eqn:Hget; [|discriminate].
    bind_inv H as y Hy. destruct y as [[t' w'] b'].
    destruct (existsb _ acc); [discriminate|].
    destruct (IHg Hg Hsg _ _ _ _ _ _ (Hold _ eq_refl) Hy) as [bc [Hb Hr]]. simpl in Hb, Hr. subst b'.
    specialize (IHr Hrest Hsr _ _ _ _ _ _ _ _ _ _ Hok H). destruct x as [[[v subs] wf] bwf].
    destruct IHr as [fs [Hm [Hso [Hsubs [Hbw Hof]]]]].
    exists ({| sf_addr := ad; sf_g := g; sf_es := es; sf_old := told; sf_new := t'; sf_bc := bc |} :: fs).
    simpl. split; [auto|]. split; [constructor; [exact Hr | exact Hso]|].
    split; [rewrite Hsubs, <- app_assoc; reflexivity|]. split; [rewrite Hbw, <- app_assoc; reflexivity|].
    constructor; [exact Hget | exact Hof].
Qed.

Theorem update_roundtrip g k t c a tg t' w b :
  wfg g -> simple g -> wft g t -> edit g k t (RUpdate c) a tg = Ok (t', w, b) ->
  exists bc, b = RUpdate bc /\ forall k' tg', exists b', edit g k' t' b (t_args t) tg' = Ok (t, - w, b').
Proof.
  intros Hg Hs Hw H.
  destruct (proj1 update_restores_all g Hg Hs k t c a tg (t', w, b) Hw H) as [bc [Hb Hr]]. simpl in Hb, Hr. subst b.
  exists bc. split; [reflexivity|]. intros k' tg'. destruct (Hr k' tg') as [w' [bc' He]].
  destruct (edit_ok g k t (RUpdate c) a tg t' w (RUpdate bc) Hg I Hw H) as [Hw' [_ E1]].
  destruct (edit_ok g k' t' (RUpdate bc) (t_args t) tg' t w' (RUpdate bc') Hg I Hw' He) as [_ [_ E2]].
  exists (RUpdate bc'). rewrite He. f_equal. f_equal. f_equal. lia.
Qed.
