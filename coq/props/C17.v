(* C17 — choice-map queries agree with a finite-map model.

   `amap c : list comp -> option Z` (model/ChmSpec.v) is the finite map a choice map
   denotes: the valid scalar at an address, defined on the structure of the map.
   All statements are about the executable model of choice_map.py (model/Chm.v), for
   every fuel `n`, every well-formed map (`wf`: what the public constructors build,
   except the two regions refuted at the end) and every address.  Only statements
   here; proofs are in proofs/ChmLookup.v and proofs/ChmDom.v. *)
From Coq Require Import List Bool ZArith Arith.
Import ListNotations.
From Gen Require Import SelGen.
From Model Require Import Sel Flag Chm ChmSpec.
From Proofs Require Import SelProofs ChmBasics ChmLaws ChmLookup ChmDom ChmEval ChmVmap.
Open Scope Z_scope.

(* [], in, get_submap, get_value: the scalar a lookup returns (None when it returns
   nothing, an array, or a value whose Mask flag is false) is the finite map's entry *)
Theorem C17_lookup_abs : forall n c p sub v,
  wf c -> get_submap n c p = OK sub -> get_value n sub = OK v ->
  oview v [] = amap c p.
Proof. exact lookup_abs. Qed.
Print Assumptions C17_lookup_abs.

(* array-valued lookups: each element of the returned leaf is the entry at the address
   extended by the element's indices (index components address array elements) *)
Theorem C17_lookup_abs_elements : forall n c p l t,
  wf c -> get_submap n c p = OK (Choice l) ->
  sview l t = amap c (p ++ map (fun z => CI (LPy z)) t).
Proof. exact lookup_abs_elements. Qed.
Print Assumptions C17_lookup_abs_elements.

(* get_submap composes: the sub-map at p holds at r what the map holds at p ++ r *)
Theorem C17_submap : forall n p c z, get_submap n c p = OK z -> wf c ->
  wf z /\ forall r, amap z r = amap c (p ++ r).
Proof. exact get_submap_law. Qed.
Print Assumptions C17_submap.

(* | is the left-biased union *)
Theorem C17_or_left_biased : forall n x y z, or_build n x y = OK z -> wf x -> wf y ->
  wf z /\ forall p, amap z p = funion (amap x p) (amap y p).
Proof. exact or_left_biased. Qed.
Print Assumptions C17_or_left_biased.

(* mask(flag): conjunction with the flag, for a Python bool and for a 0-d array alike *)
Theorem C17_mask_flag : forall n f c z, filter_flag n f c = OK z -> flag_scalar f = true -> wf c ->
  wf z /\ forall p, amap z p = fmask (flag_true f) (amap c p).
Proof. exact mask_flag. Qed.
Print Assumptions C17_mask_flag.

(* mask(False) empties the map: nothing valid is left ... *)
Theorem C17_mask_false_nothing_valid : forall n s c z,
  filter_flag n (FS s false) c = OK z -> wf c -> forall p, amap z p = None.
Proof. exact mask_false_nothing_valid. Qed.
Print Assumptions C17_mask_false_nothing_valid.
(* ... and with Python's False on a map without Mask leaves the result is Static({}) *)
Theorem C17_mask_false_empty : forall n c z, filter_flag n (FS Py false) c = OK z -> plain c -> z = empty.
Proof. exact mask_false_empty. Qed.
Print Assumptions C17_mask_false_empty.

(* filter keeps exactly the addresses whose static part is selected; index components
   are transparent to selections *)
Theorem C17_filter_static_projection : forall n s c z, filter_sel n s c = OK z -> wf c ->
  wf z /\ forall p, amap z p = if mem s (statics p) then amap c p else None.
Proof. exact filter_static_projection. Qed.
Print Assumptions C17_filter_static_projection.

(* get_selection selects exactly the static addresses at which the map has a leaf *)
Theorem C17_get_selection_exact : forall n q c b, chmsel_mem n c q = OK b -> index_free c -> b = dom c q.
Proof. exact get_selection_exact. Qed.
Print Assumptions C17_get_selection_exact.

(* extend: the map nested under q holds at q ++ p what it held at p, and nothing under
   another first static component *)
Theorem C17_extend_prefix : forall q ks c p, comps_of_b q = Some ks ->
  amap (c_extend c q) (ks ++ p) = amap c p.
Proof. exact extend_prefix. Qed.
Print Assumptions C17_extend_prefix.
Theorem C17_extend_other : forall n q c k p, k <> n -> amap (c_extend c (BS n :: q)) (CS k :: p) = None.
Proof. exact extend_other. Qed.
Print Assumptions C17_extend_other.

(* at[q].set(v): the new entries override, everything else is kept *)
Theorem C17_set_overrides : forall n base q ks v z p,
  builder_set n base q v = OK z -> comps_of_b q = Some ks -> wf v -> wf base ->
  amap z (ks ++ p) = funion (amap v p) (amap base (ks ++ p)).
Proof. exact set_overrides_at. Qed.
Print Assumptions C17_set_overrides.
Theorem C17_set_union : forall n base q v z,
  builder_set n base q v = OK z -> wf (c_extend v q) -> wf base ->
  wf z /\ forall p, amap z p = funion (amap (c_extend v q) p) (amap base p).
Proof. exact set_overrides. Qed.
Print Assumptions C17_set_union.

(* switch: an in-range array index selects its branch; a Python int indexes the list *)
Theorem C17_switch_selects : forall n k cs z, switch_build n (XArr (Z.of_nat k)) cs = OK z ->
  Forall wf cs -> (k < length cs)%nat ->
  wf z /\ forall p, amap z p = match nth_error cs k with Some c => amap c p | None => None end.
Proof. exact switch_selects. Qed.
Print Assumptions C17_switch_selects.
Theorem C17_switch_python_index : forall n z cs c, switch_build n (XPy z) cs = OK c ->
  exists j, nth_error cs j = Some c /\ Z.of_nat j = (if z <? 0 then z + Z.of_nat (length cs) else z).
Proof. exact switch_python_index. Qed.
Print Assumptions C17_switch_python_index.

(* jax.vmap-built maps.  Stacking the rows of a vectorised construction (Static / Choice, what
   vmap(lambda v: C["x"].set(v)) or a Vmap trace holds) gives a well-formed vectorised map whose
   row r is the r-th row: an index component selects it, before or after the names *)
Theorem C17_vmap_rows : forall n rows z, vstack n rows = OK z -> Forall vect rows -> Forall wf rows ->
  vect z /\ wf z /\
  forall r row, nth_error rows r = Some row -> forall pend p, abs z (Z.of_nat r :: pend) p = abs row pend p.
Proof. exact vstack_rows. Qed.
Print Assumptions C17_vmap_rows.
(* vmap(lambda i, v: C[i, ...].set(v)): an array-shaped index level; looking i up finds the
   first row that carries index i *)
Theorem C17_vmap_indexed : forall n rows z cs zs,
  vstack n rows = OK z ->
  Forall2 (fun row cz => row = Indexed (fst cz) (IAr (snd cz)) /\ vect (fst cz) /\ wf (fst cz)) rows (combine cs zs) ->
  length cs = length zs -> rows <> [] ->
  wf z /\
  forall i p, amap z (CI i :: p) =
              match find_index zs (lidx_z i) 0 with
              | Some r => match nth_error cs r with Some c => amap c p | None => None end
              | None => None
              end.
Proof. exact vmap_indexed_lookup. Qed.
Print Assumptions C17_vmap_indexed.

(* every map built by the modelled public API (choice, entry, d/kw/from_mapping, C[..].set,
   at[..].set/update, |, mask, filter, extend, switch, get_submap) is well-formed, provided
   address components are scalars, mask flags are scalars and array switch indices are in
   range (`expr_ok`): all statements above apply to every such map *)
Theorem C17_constructed_maps_wf : forall n e c, eval n None e = OK c -> expr_ok e -> wf c.
Proof. exact eval_wf. Qed.
Print Assumptions C17_constructed_maps_wf.

(* ------------------------------------------------------------------------------------
   non-vacuity: a map built by the model of the public API that meets every hypothesis,
   with an index level, an array leaf, a masked leaf, a union and a filter *)
Definition ex_e : expr :=
  EFilter (TNot (TAt [CName 3]))
    (EOr (ESetC [XS 1; XI (IPy 0)] (EChoice (LS (AConst (AN [A0 10; A0 20])) None)))
         (ED [([XS 1; XI (IPy 1)], EChoice (LS (AConst (AN [A0 5; A0 6])) (Some (FConst (FS Ar true)))));
              ([XS 2], EChoice (LS (AConst (A0 7)) None));
              ([XS 3], EChoice (LS (AConst (A0 9)) None))])).
Definition ex_c : chm :=
  Static [(1%nat, Or (Indexed (Choice (LRaw (AN [A0 10; A0 20]))) (IPy 0))
                     (Indexed (Choice (LMask (AN [A0 5; A0 6]) (FS Ar true))) (IPy 1)));
          (2%nat, Choice (LRaw (A0 7)))].
Example C17_nonvacuous_eval : eval FUEL None ex_e = OK ex_c.
Proof. vm_compute. reflexivity. Qed.
Example C17_nonvacuous_expr_ok : expr_ok ex_e.
Proof. simpl. repeat split; auto. Qed.
Example C17_nonvacuous_wf : wf ex_c.
Proof.
  simpl. repeat split; auto; repeat constructor; simpl; intuition discriminate.
Qed.
Example C17_nonvacuous_lookup :
  (exists sub v, get_submap FUEL ex_c [CS 1; CI (LAr 0); CI (LPy 1)] = OK sub /\ get_value FUEL sub = OK v /\ oview v [] = Some 20) /\
  amap ex_c [CS 1; CI (LAr 0); CI (LPy 1)] = Some 20 /\ amap ex_c [CS 1; CI (LPy 1); CI (LPy 0)] = Some 5 /\
  amap ex_c [CS 2] = Some 7 /\ amap ex_c [CS 3] = None.
Proof.
  split; [|vm_compute; repeat split].
  eexists. eexists. split; [vm_compute; reflexivity|]. split; vm_compute; reflexivity.
Qed.
Example C17_nonvacuous_selection :
  index_free (Static [(1%nat, Choice (LRaw (A0 1))); (2%nat, Static [(1%nat, Choice (LRaw (A0 2)))])]) /\
  chmsel_mem FUEL (Static [(1%nat, Choice (LRaw (A0 1))); (2%nat, Static [(1%nat, Choice (LRaw (A0 2)))])]) [2%nat; 1%nat] = OK true.
Proof. vm_compute. repeat split. Qed.
Example C17_nonvacuous_plain :
  plain (Static [(1%nat, Indexed (Choice (LRaw (A0 1))) (IPy 0))]) /\
  filter_flag FUEL (FS Py false) (Static [(1%nat, Indexed (Choice (LRaw (A0 1))) (IPy 0))]) = OK empty.
Proof. vm_compute. repeat split. Qed.
Example C17_nonvacuous_vmap :
  let e := EVmap [5; 7] [A0 10; A0 20] [true; false]
             (ESetC [XHole; XS 1] (EChoice (LS AHole (Some FHole)))) in
  exists z, eval FUEL None e = OK z /\
            z = Indexed (Static [(1%nat, Choice (LMask (AN [A0 10; A0 20]) (FV [true; false])))]) (IVec [5; 7]) /\
            amap z [CI (LPy 5); CS 1] = Some 10 /\ amap z [CI (LAr 7); CS 1] = None /\ amap z [CI (LPy 6); CS 1] = None.
Proof. eexists. split; [vm_compute; reflexivity|]. vm_compute. repeat split. Qed.
Example C17_nonvacuous_switch :
  let cs := [Static [(1%nat, Choice (LRaw (A0 1)))]; Static [(1%nat, Choice (LRaw (A0 2)))]] in
  Forall wf cs /\ exists z, switch_build FUEL (XArr 1) cs = OK z /\ amap z [CS 1] = Some 2.
Proof.
  simpl. split.
  - repeat constructor; simpl; intuition.
  - eexists. split; [vm_compute; reflexivity|vm_compute; reflexivity].
Qed.

(* ------------------------------------------------------------------------------------
   where the unchanged implementation does NOT behave like a finite map (the model
   reproduces it; the checks keep these regions out of the oracle; see notes/C17.md) *)

(* an index level (or traced switch) beneath an array-shaped index level: tree_map in
   Indexed.get_inner_map wraps the inner address in a Mask and every later comparison
   with it is False.  C[jnp.array([0,1,2])].set(C[jnp.array([5,6,7])].set(v))[1, 6]
   comes back with flag False although the entry exists. *)
Theorem C17_nested_index_refuted :
  exists e c p sub v, eval FUEL None e = OK c /\ get_submap FUEL c p = OK sub /\ get_value FUEL sub = OK v /\
                      oview v [] = None /\ amap c p = Some 20.
Proof.
  exists (ESetC [XI (IVec [0; 1; 2])] (ESetC [XI (IVec [5; 6; 7])] (EChoice (LS (AConst (AN [A0 10; A0 20; A0 30])) None)))).
  eexists. exists [CI (LPy 1); CI (LPy 6)]. eexists. eexists.
  split; [vm_compute; reflexivity|]. split; [vm_compute; reflexivity|]. split; [vm_compute; reflexivity|].
  split; vm_compute; reflexivity.
Qed.
Print Assumptions C17_nested_index_refuted.

(* get_selection is not transparent to index levels (filter is): C[0, "a"].set(1.0)
   .get_selection()["a"] is False, so chm & chm and chm.filter(chm.get_selection()) are empty *)
Theorem C17_get_selection_index_refuted :
  exists e c, eval FUEL None e = OK c /\ chmsel_mem FUEL c [1%nat] = OK false /\ dom c [1%nat] = true.
Proof.
  exists (ESetC [XI (IPy 0); XS 1] (EChoice (LS (AConst (A0 1)) None))). eexists.
  split; [vm_compute; reflexivity|]. split; vm_compute; reflexivity.
Qed.
Print Assumptions C17_get_selection_index_refuted.

(* mask(False) does not statically empty a map whose leaf carries an array-flag Mask:
   FlagOp.and_(False, array) is an array, so Choice.build keeps the leaf *)
Theorem C17_mask_false_array_mask_refuted :
  exists c z, filter_flag FUEL (FS Py false) c = OK z /\ static_is_empty z = false.
Proof.
  exists (Static [(1%nat, Choice (LMask (A0 1) (FS Ar true)))]). eexists.
  split; [vm_compute; reflexivity|reflexivity].
Qed.
Print Assumptions C17_mask_false_array_mask_refuted.

(* an out-of-range array switch index masks every branch, including what is |-ed in *)
Theorem C17_switch_out_of_range_refuted :
  exists e c, eval FUEL None e = OK c /\ amap c [CS 2] = None /\
              amap (Static [(2%nat, Choice (LRaw (A0 7)))]) [CS 2] = Some 7.
Proof.
  exists (EOr (ESwitch (XArr 5) [ESetC [XS 1] (EChoice (LS (AConst (A0 1)) None)); ESetC [XS 1] (EChoice (LS (AConst (A0 2)) None))])
              (ESetC [XS 2] (EChoice (LS (AConst (A0 7)) None)))).
  eexists. split; [vm_compute; reflexivity|]. split; vm_compute; reflexivity.
Qed.
Print Assumptions C17_switch_out_of_range_refuted.
