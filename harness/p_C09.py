"""C09 — the incremental interpreter computes the same values with sound change tags.
Engine A-jaxpr (harness/jaxpr_engine.py).  Model: coq/model/Jaxpr.v, Incr.v, JaxPrims.v."""
import itertools
import json

from . import core
from . import jaxpr_engine as E


def gen_cases(ctx):
    rng = ctx.rng
    nfun = ctx.n(40, 360)
    cases = []
    for _ in range(nfun):
        r = rng.random()
        if len(cases) < ctx.n(4, 24):
            prog = E.gen_prog(rng, rng.randint(36, 60), wide=True)
        else:
            prog = E.gen_prog(rng, rng.randint(2, 8) if r < 0.85 else rng.randint(9, 14))
        n = len(prog["ik"])
        vals = [E.gen_value(rng, k) for k in prog["ik"]]
        taggings = ["".join(t) for t in itertools.product("NU", repeat=n)]
        rng.shuffle(taggings)
        runs = []
        for tg in taggings[: ctx.n(3, 8)]:
            perturbs = []
            if "U" in tg:
                for _ in range(3):
                    perturbs.append([v if t == "N" else E.gen_value(rng, k, -4, 4) for v, t, k in zip(vals, tg, prog["ik"])])
            r = rng.random()
            runs.append({"tags": list(tg), "h": "none" if r < 0.8 else "null", "perturb": perturbs})
        r = rng.random()
        if (r < 0.3 and E.has_swappable(prog)):      # the handler branch of the loop: `add`/`mul`/`max` dispatched as `sub`/`add`/`min`, tagged UnknownChange
            runs.append({"tags": list(rng.choice(taggings)), "h": "swap", "perturb": []})
        elif r > 0.9:    # malformed: tangents of the wrong arity
            k = rng.choice([n - 1, n + 1])
            runs.append({"tags": [rng.choice("NU") for _ in range(k)], "h": "none", "perturb": []})
        cases.append({"prog": prog, "vals": vals, "runs": runs})
    return cases


def run(ctx):
    import time
    t0 = time.time()
    ctx.proofs()
    t1 = time.time()
    cases = gen_cases(ctx)
    results = E.run_pool("incr", cases, procs=ctx.n(8, 14))
    t2 = time.time()
    terms, metas, skips, prims = [], [], {}, {}
    stats = {"functions": 0, "equations": 0, "literal_atoms": 0, "dropvars": 0, "count_collisions": 0}
    noracle = 0
    for c, r in zip(cases, results):
        if r["skip"]:
            kind = r["skip"].split(":")[0]
            skips[kind] = skips.get(kind, 0) + 1
            for o in r["oracle"]:
                noracle += 1
                if noracle <= 3:
                    ctx.fail("oracle", "incremental(f): " + o["what"], case=o["case"])
            if kind not in ("inexact", "staging"):
                ctx.fail("tie", f"engine A-jaxpr could not run a generated function ({r['skip'][:600]})",
                         case=None, signature=None)
            continue
        stats["functions"] += 1
        st = r["stats"]
        stats["equations"] += st.get("neqn", 0)
        stats["literal_atoms"] += st.get("nlit", 0)
        stats["dropvars"] += st.get("ndrop", 0)
        stats["count_collisions"] += st.get("collisions", 0)
        for k, v in st.get("prims", {}).items():
            prims[k] = prims.get(k, 0) + v
        for o in r["oracle"]:
            noracle += 1
            if noracle <= 3:
                ctx.fail("oracle", "incremental(f): " + o["what"], case=o["case"])
        terms += r["terms"]
        metas += r["metas"]
    mism, errs = E.coq_check("C09", results, "icase", "imismatches")
    ctx.log(f"phases: build+proofs {t1 - t0:.0f}s, implementation runs {t2 - t1:.0f}s, Coq evaluation of {len(terms)} cases {time.time() - t2:.0f}s")
    for e in errs[:2]:
        ctx.fail("correspondence", "A-jaxpr/incremental case file did not evaluate: " + e)
    for i in mism[:3]:
        m = metas[i]
        case = {"prog": m["prog"], "vals": m["vals"], "tags": m["tags"], "h": m["h"], "perturb": m["perturb"]}
        ctx.fail("correspondence",
                 f"model coq/model/Incr.v and incremental.py disagree: tags {m['tags']} handler {m['h']} inputs {m['vals']}: "
                 f"implementation returned {m['impl']}", case=case)
        # look for a concrete failing input around the mismatch: every tagging, more perturbations
        if noracle == 0 and m["h"] != "swap":
            for why, wcase in neighbourhood(ctx, m):
                ctx.fail("oracle", "incremental(f): " + why, case=wcase)
                noracle += 1
                break
    valid = [m for m in metas if m["ok"] and len(m["tags"]) == len(m["vals"]) and m["h"] != "swap"]
    mixed = {json.dumps([m["prog"], m["tags"]]) for m in valid
             if sum(1 for x in (m["ntagN"], m["ntagU"], m["ntagR"]) if x) >= 2}
    ctx.cov["evaluations"] = len(terms)
    ctx.cov["traces_validated_against_impl"] = len(terms) - len(mism)
    ctx.cov["distinct_nontrivial"] = len(mixed)
    ctx.cov["rule"] = ("random functions from the jnp/lax grammar of harness/jaxpr_engine.py (2-8 statements, 15% with 9-14, the first few straight-line with 36-60, nesting <= 2; arithmetic, "
                      "comparison, where/select, static and dynamic indexing, reductions, cond/switch, scan/map/fori_loop, while_loop, "
                      "jit/checkpoint/custom_jvp/custom_vjp calls, a genjax InitialStylePrimitive, closed-over constants, Python and numpy "
                      "literals, literal / pass-through / repeated outputs, flat, nested and dict pytrees), 1-3 inputs in [-3,3], "
                      f"{ctx.n(3, 8)} of the 2^n taggings each, 3 perturbations of the UnknownChange inputs; non-trivial = a valid run whose "
                      "outputs carry at least two of {NoChange, UnknownChange, not-a-Diff}")
    ctx.cov["by_kind"] = {"functions": stats["functions"], "equations_serialised": stats["equations"],
                          "literal_atoms": stats["literal_atoms"], "dropvars": stats["dropvars"],
                          "var_count_collisions": stats["count_collisions"],
                          "runs_handler_none": sum(1 for m in metas if m["h"] == "none"),
                          "runs_handler_null": sum(1 for m in metas if m["h"] == "null"),
                          "runs_handler_swap": sum(1 for m in metas if m["h"] == "swap"),
                          "runs_malformed_tangents": sum(1 for m in metas if len(m["tags"]) != len(m["vals"])),
                          "errors_compared": sum(1 for m in metas if not m["ok"]),
                          "outputs_NoChange": sum(m["ntagN"] for m in metas), "outputs_UnknownChange": sum(m["ntagU"] for m in metas),
                          "outputs_not_Diff": sum(m["ntagR"] for m in metas),
                          "perturbed_evaluations": sum(len(m["perturb"]) for m in valid),
                          "skipped": skips, "primitives": dict(sorted(prims.items(), key=lambda kv: -kv[1]))}
    ctx.cov["inexact_skipped"] = skips.get("inexact", 0)
    ctx.cov["genjax_file"] = sorted({r.get("genjax_file") for r in results if r.get("genjax_file")})
    ctx.cov["exhaustive"] = False
    ctx.add_samples([{"tags": m["tags"], "handler": m["h"], "inputs": m["vals"], "impl": m["impl"], "program": m["prog"]}
                     for m in metas[:1] + metas[len(metas) // 2: len(metas) // 2 + 1] + metas[-1:]])
    if stats["count_collisions"]:
        ctx.log(f"note: {stats['count_collisions']} distinct jax Vars shared a `count` (genjax's Environment keys on it)")
    if len(valid) and len(mixed) * 5 < len(valid):
        ctx.log(f"note: only {len(mixed)} of {len(valid)} valid runs have mixed output tags")


def neighbourhood(ctx, m):
    """direct oracle on every tagging of the mismatching function with fresh perturbations"""
    E.worker_init()
    prog, vals = m["prog"], m["vals"]
    n = len(vals)
    rng = ctx.rng
    for tg in itertools.product("NU", repeat=n):
        perturbs = [[v if t == "N" else E.gen_value(rng, k, -4, 4) for v, t, k in zip(vals, tg, prog["ik"])] for _ in range(4)]
        case = {"prog": prog, "vals": vals, "tags": list(tg), "h": m["h"], "perturb": perturbs}
        try:
            why = oracle_case(case)
        except Exception as e:      # the search is best effort
            continue
        if why:
            yield why, case


def oracle_case(case):
    prog, vals, tags, h = case["prog"], case["vals"], case["tags"], case["h"]
    leaves = [E.to_array(k, v) for k, v in zip(prog["ik"], vals)]
    res = E.run_incremental(prog, leaves, tags, h)
    return E.incr_oracle(prog, vals, tags, h, res, case.get("perturb", []))


def replay(case):
    E.worker_init()
    why = oracle_case(case)
    print(f"incremental(f)(None, {case['vals']}, {case['tags']}): {why or 'primals equal ordinary evaluation; NoChange outputs unaffected by the changed inputs'}")
    return why is None
