(* C31: the time-travel debugger (model: coq/model/TimeTravel.v) against a reference
   semantics of straight-line programs with record points. *)
From Coq Require Import ZArith List Bool Lia ZifyBool Arith.
Import ListNotations.
From Model Require Import TimeTravel.
Close Scope Z_scope.
Open Scope nat_scope.

(* ------------------------------------------------------------------------- *)
(* Specification side: nothing here mentions continuations, stacks or fuel.    *)
(* ------------------------------------------------------------------------- *)

(* a recorded call: its tag, callee, arguments, return value *)
Record call := mkcall { ctag : tag; cfun : prog; cargs : list Z; cret : Z }.

(* the recorded calls of running p, in execution order (a call before the calls nested in it);
   a jit-ted sub-function (Call) counts as one opaque step here *)
Fixpoint ref_calls (p : prog) (env : list Z) : list call :=
  match p with
  | Ret _ => []
  | Let e k => ref_calls k (env ++ [eval env e])
  | Rec t g args k =>
      let a := map (eval env) args in
      let r := eval_prog g a in
      mkcall t g a r :: ref_calls g a ++ ref_calls k (env ++ [r])
  | Call g args k => ref_calls k (env ++ [eval_prog g (map (eval env) args)])
  end.

(* ... and ALL recorded calls executed, those inside jit-ted sub-functions included *)
Fixpoint all_calls (p : prog) (env : list Z) : list call :=
  match p with
  | Ret _ => []
  | Let e k => all_calls k (env ++ [eval env e])
  | Rec t g args k =>
      let a := map (eval env) args in
      let r := eval_prog g a in
      mkcall t g a r :: all_calls g a ++ all_calls k (env ++ [r])
  | Call g args k =>
      let a := map (eval env) args in
      all_calls g a ++ all_calls k (env ++ [eval_prog g a])
  end.
(* the region: no record point inside a sub-jaxpr *)
Fixpoint no_rec (p : prog) : bool :=
  match p with
  | Ret _ => true
  | Let _ k => no_rec k
  | Rec _ _ _ _ => false
  | Call g _ k => no_rec g && no_rec k
  end.
Fixpoint flat (p : prog) : bool :=
  match p with
  | Ret _ => true
  | Let _ k => flat k
  | Rec _ g _ k => flat g && flat k
  | Call g _ k => no_rec g && flat k
  end.

(* index of the last occurrence of t, counting from i *)
Fixpoint last_index_from (i : nat) (t : tag) (tags : list tag) : option nat :=
  match tags with
  | [] => None
  | x :: r => match last_index_from (S i) t r with
              | Some j => Some j
              | None => if tag_eqb x t then Some i else None
              end
  end.
Definition last_index := last_index_from 0.

(* navigation on a recording of n frames whose tags are `tags` *)
Inductive nav := NJump (t : tag) | NFwd | NBwd.
Definition spec_step (tags : list tag) (p : nat) (c : nav) : nat :=
  match c with
  | NJump t => if truthy t then match last_index t tags with Some i => i | None => p end else p
  | NFwd => Nat.min (S p) (length tags - 1)
  | NBwd => Nat.pred p
  end.

(* re-running p where the recorded call number i (execution order, counted from c) receives
   the arguments a' instead of the ones the program computes *)
Section Override.
  Variables (i : nat) (a' : list Z).
  Fixpoint eval_ov (p : prog) (env : list Z) (c : nat) : Z :=
    match p with
    | Ret e => eval env e
    | Let e k => eval_ov k (env ++ [eval env e]) c
    | Rec t g args k =>
        let a := if Nat.eqb c i then a' else map (eval env) args in
        eval_ov k (env ++ [eval_ov g a (S c)]) (S c + count g)
    | Call g args k => eval_ov k (env ++ [eval_prog g (map (eval env) args)]) c
    end.
  Fixpoint calls_ov (p : prog) (env : list Z) (c : nat) : list call :=
    match p with
    | Ret _ => []
    | Let e k => calls_ov k (env ++ [eval env e]) c
    | Rec t g args k =>
        let a := if Nat.eqb c i then a' else map (eval env) args in
        let r := eval_ov g a (S c) in
        mkcall t g a r :: calls_ov g a (S c) ++ calls_ov k (env ++ [r]) (S c + count g)
    | Call g args k => calls_ov k (env ++ [eval_prog g (map (eval env) args)]) c
    end.
End Override.

(* ------------------------------------------------------------------------- *)
(* The recording as a function of the configuration (with continuations).      *)
(* ------------------------------------------------------------------------- *)
Fixpoint calls (p : prog) (env : list Z) (st : list kont) : list (tag * frame) :=
  match p with
  | Ret _ => []
  | Let e k => calls k (env ++ [eval env e]) st
  | Rec t g args k =>
      let a := map (eval env) args in
      let r := eval_prog g a in
      (t, mkframe g a r ((k, env) :: st)) :: calls g a ((k, env) :: st) ++ calls k (env ++ [r]) st
  | Call g args k => calls k (env ++ [eval_prog g (map (eval env) args)]) st
  end.
Fixpoint calls_stack (v : Z) (st : list kont) : list (tag * frame) :=
  match st with
  | [] => []
  | (k, env) :: st' => calls k (env ++ [v]) st' ++ calls_stack (eval_prog k (env ++ [v])) st'
  end.
Definition calls_cfg (g : prog) (st : list kont) (a : list Z) : list (tag * frame) :=
  calls g a st ++ calls_stack (eval_prog g a) st.
Definition obs (x : tag * frame) : call := mkcall (fst x) (ff (snd x)) (fargs (snd x)) (fret (snd x)).

Fixpoint jp_fold (i : nat) (tags : list tag) (j : dict) : dict :=
  match tags with
  | [] => j
  | t :: r => jp_fold (S i) r (if truthy t then dict_set j t i else j)
  end.

(* ---- tags and dicts ---- *)
Lemma tag_eqb_eq a b : tag_eqb a b = true <-> a = b.
Proof.
  destruct a, b; simpl; split; intros H; try discriminate; try reflexivity.
  - apply Nat.eqb_eq in H. now subst.
  - inversion H. apply Nat.eqb_refl.
Qed.
Lemma tag_eqb_refl a : tag_eqb a a = true.
Proof. now apply tag_eqb_eq. Qed.
Lemma tag_eqb_neq a b : tag_eqb a b = false <-> a <> b.
Proof.
  split.
  - intros H E. apply tag_eqb_eq in E. congruence.
  - intros H. destruct (tag_eqb a b) eqn:E; auto. apply tag_eqb_eq in E. contradiction.
Qed.

Lemma dict_get_set d t i t' :
  dict_get (dict_set d t i) t' = if tag_eqb t t' then Some i else dict_get d t'.
Proof.
  induction d as [|[u j] d IH]; simpl.
  - reflexivity.
  - destruct (tag_eqb u t) eqn:E; simpl.
    + apply tag_eqb_eq in E. subst u. destruct (tag_eqb t t'); reflexivity.
    + rewrite IH. destruct (tag_eqb u t') eqn:E2; auto.
      destruct (tag_eqb t t') eqn:E3; auto.
      apply tag_eqb_eq in E2, E3. subst. rewrite tag_eqb_refl in E. discriminate.
Qed.

Lemma jp_fold_get tags : forall i j t,
  dict_get (jp_fold i tags j) t =
  match (if truthy t then last_index_from i t tags else None) with
  | Some k => Some k
  | None => dict_get j t
  end.
Proof.
  induction tags as [|x r IH]; intros i j t; simpl.
  - destruct (truthy t); reflexivity.
  - rewrite IH. destruct (truthy t) eqn:Ht.
    + destruct (last_index_from (S i) t r); auto.
      destruct (truthy x) eqn:Hx.
      * rewrite dict_get_set. destruct (tag_eqb x t); reflexivity.
      * destruct (tag_eqb x t) eqn:E; auto. apply tag_eqb_eq in E. subst. congruence.
    + destruct (truthy x) eqn:Hx; auto.
      rewrite dict_get_set. destruct (tag_eqb x t) eqn:E; auto.
      apply tag_eqb_eq in E. subst. congruence.
Qed.

Lemma last_index_from_bounds t tags : forall i k, last_index_from i t tags = Some k -> i <= k < i + length tags.
Proof.
  induction tags as [|x r IH]; intros i k; simpl.
  - discriminate.
  - destruct (last_index_from (S i) t r) eqn:E.
    + intros H; inversion H; subst. apply IH in E. lia.
    + destruct (tag_eqb x t); intros H; inversion H; subst. lia.
Qed.

(* last_index says what its name says *)
Lemma last_index_from_none t tags : forall i,
  last_index_from i t tags = None <-> (forall m, nth_error tags m <> Some t).
Proof.
  induction tags as [|x r IH]; intros i; simpl.
  - split; auto. intros _ m. destruct m; discriminate.
  - destruct (last_index_from (S i) t r) eqn:E.
    + split; [discriminate|]. intros H. exfalso.
      assert (last_index_from (S i) t r = None) as C.
      { apply IH. intros m. apply (H (S m)). }
      congruence.
    + destruct (tag_eqb x t) eqn:Ex.
      * split; [discriminate|]. intros H. apply tag_eqb_eq in Ex. subst. exfalso. now apply (H 0).
      * split; auto. intros _ m. destruct m; simpl.
        -- apply tag_eqb_neq in Ex. congruence.
        -- apply (proj1 (IH (S i)) E).
Qed.
Lemma last_index_from_some t tags : forall i k,
  last_index_from i t tags = Some k ->
  i <= k /\ nth_error tags (k - i) = Some t /\ forall m, k - i < m -> nth_error tags m <> Some t.
Proof.
  induction tags as [|x r IH]; intros i k; simpl.
  - discriminate.
  - destruct (last_index_from (S i) t r) eqn:E.
    + intros H; inversion H; subst n. apply IH in E. destruct E as (H1 & H2 & H3).
      split; [lia|]. replace (k - i) with (S (k - S i)) by lia. simpl. split; auto.
      intros m Hm. destruct m; [lia|]. simpl. apply H3. lia.
    + destruct (tag_eqb x t) eqn:Ex; [|discriminate]. intros H; inversion H; subst k.
      apply tag_eqb_eq in Ex. subst x. split; [lia|]. rewrite Nat.sub_diag. simpl. split; auto.
      intros m Hm. destruct m; [lia|]. simpl. apply (proj1 (last_index_from_none t r (S i)) E).
Qed.
Lemma last_index_char t tags k :
  last_index t tags = Some k <->
  (nth_error tags k = Some t /\ forall m, k < m -> nth_error tags m <> Some t).
Proof.
  unfold last_index. split.
  - intros H. apply last_index_from_some in H. rewrite Nat.sub_0_r in H. tauto.
  - intros (H2 & H3). destruct (last_index_from 0 t tags) as [k'|] eqn:E.
    + apply last_index_from_some in E. rewrite Nat.sub_0_r in E. destruct E as (_ & G2 & G3).
      f_equal. destruct (Nat.lt_trichotomy k' k) as [L|[L|L]]; auto; exfalso.
      * now apply (G3 k).
      * now apply (H3 k').
    + exfalso. apply (proj1 (last_index_from_none t tags 0) E k H2).
Qed.

(* ------------------------------------------------------------------------- *)
(* The interpreter peels the head of the recording.                            *)
(* ------------------------------------------------------------------------- *)
Lemma iter_prog_spec p : forall env st,
  iter_prog p env st =
  match calls p env st with
  | [] => inl (eval_prog p env)
  | nx :: _ => inr (run_stack (eval_prog p env) st, nx)
  end.
Proof.
  induction p as [e|e k IHk|t g IHg args k IHk|g IHg args k IHk]; intros env st; simpl.
  - reflexivity.
  - apply IHk.
  - reflexivity.
  - apply IHk.
Qed.

Lemma iter_stack_spec st : forall v,
  iter_stack v st = (run_stack v st, hd_error (calls_stack v st)).
Proof.
  induction st as [|[k env] st IH]; intros v; simpl.
  - reflexivity.
  - rewrite iter_prog_spec. destruct (calls k (env ++ [v]) st) as [|nx rest] eqn:E; simpl.
    + apply IH.
    + reflexivity.
Qed.

Lemma time_travel_spec g st a :
  time_travel g st a = (run_cont g st a, hd_error (calls_cfg g st a)).
Proof.
  unfold time_travel, calls_cfg, run_cont. rewrite iter_prog_spec.
  destruct (calls g a st) as [|nx rest]; simpl.
  - apply iter_stack_spec.
  - reflexivity.
Qed.

(* after the head frame, the recording is the recording of that frame's continuation *)
Definition tail_ok (l : list (tag * frame)) (v : Z) : Prop :=
  forall t fr rest, l = (t, fr) :: rest ->
    rest = calls_cfg (ff fr) (fcont fr) (fargs fr) /\ run_cont (ff fr) (fcont fr) (fargs fr) = v.

Lemma prog_tail st (Hst : forall v, tail_ok (calls_stack v st) (run_stack v st)) :
  forall p env, tail_ok (calls p env st ++ calls_stack (eval_prog p env) st) (run_stack (eval_prog p env) st).
Proof.
  induction p as [e|e k IHk|t g IHg args k IHk|g IHg args k IHk]; intros env; simpl.
  - apply Hst.
  - apply IHk.
  - intros t' fr rest H. inversion H; subst t' fr rest; clear H. simpl.
    unfold calls_cfg, run_cont. simpl. rewrite <- app_assoc. auto.
  - apply IHk.
Qed.
Lemma stack_tail st : forall v, tail_ok (calls_stack v st) (run_stack v st).
Proof.
  induction st as [|[k env] st IH]; intros v; simpl.
  - intros t fr rest H. discriminate.
  - apply prog_tail. exact IH.
Qed.
Lemma cfg_tail g st a : tail_ok (calls_cfg g st a) (run_cont g st a).
Proof. unfold calls_cfg, run_cont. apply prog_tail. apply stack_tail. Qed.

Lemma calls_length p : forall env st, length (calls p env st) = count p.
Proof.
  induction p as [e|e k IHk|t g IHg args k IHk|g IHg args k IHk]; intros env st; simpl; auto.
  rewrite app_length, IHg, IHk. reflexivity.
Qed.
Lemma calls_stack_length st : forall v, length (calls_stack v st) = count_stack st.
Proof.
  induction st as [|[k env] st IH]; intros v; simpl; auto.
  rewrite app_length, calls_length, IH. reflexivity.
Qed.
Lemma calls_cfg_length g st a : length (calls_cfg g st a) = count g + count_stack st.
Proof. unfold calls_cfg. now rewrite app_length, calls_length, calls_stack_length. Qed.

(* ---- the loop of _record ---- *)
Lemma record_loop_spec : forall fuel g st a sq j,
  length (calls_cfg g st a) <= fuel ->
  record_loop fuel (run_cont g st a) (hd_error (calls_cfg g st a)) sq j =
  Some (run_cont g st a, sq ++ map snd (calls_cfg g st a),
        jp_fold (length sq) (map fst (calls_cfg g st a)) j).
Proof.
  induction fuel as [|fuel IH]; intros g st a sq j Hlen.
  - destruct (calls_cfg g st a) eqn:E; simpl in *; [|lia].
    now rewrite app_nil_r.
  - destruct (calls_cfg g st a) as [|[t fr] rest] eqn:E.
    + simpl. now rewrite app_nil_r.
    + destruct (cfg_tail g st a t fr rest E) as [Hrest Hrun].
      cbn [hd_error record_loop]. rewrite time_travel_spec.
      rewrite <- Hrest. rewrite Hrun.
      assert (length rest <= fuel) as Hl by (simpl in Hlen; lia).
      rewrite Hrest in Hl |- *. rewrite <- Hrun. rewrite IH by exact Hl.
      rewrite Hrun. f_equal. f_equal; [f_equal|].
      * rewrite <- app_assoc. reflexivity.
      * cbn [map fst jp_fold]. rewrite app_length. cbn [length].
        replace (length sq + 1 - 1) with (length sq) by lia.
        replace (length sq + 1) with (S (length sq)) by lia. reflexivity.
Qed.

Theorem record_spec g st a :
  record g st a =
  Some (mkdbg (run_cont g st a) (map snd (calls_cfg g st a)) (jp_fold 0 (map fst (calls_cfg g st a)) []) 0).
Proof.
  unfold record. rewrite time_travel_spec. rewrite record_loop_spec.
  - reflexivity.
  - rewrite calls_cfg_length. lia.
Qed.

(* ------------------------------------------------------------------------- *)
(* time_machine                                                                *)
(* ------------------------------------------------------------------------- *)
Lemma obs_calls p : forall env st, map obs (calls p env st) = ref_calls p env.
Proof.
  induction p as [e|e k IHk|t g IHg args k IHk|g IHg args k IHk]; intros env st; simpl; auto.
  rewrite map_app, IHg, IHk. reflexivity.
Qed.

Lemma map_nth_seq (a pre : list Z) :
  map (fun i => nth i (pre ++ a) 0%Z) (seq (length pre) (length a)) = a.
Proof.
  revert pre. induction a as [|x a IH]; intros pre; simpl; auto.
  f_equal.
  - rewrite app_nth2 by lia. now rewrite Nat.sub_diag.
  - specialize (IH (pre ++ [x])). rewrite <- app_assoc in IH. simpl in IH.
    rewrite app_length in IH. simpl in IH. replace (length pre + 1) with (S (length pre)) in IH by lia.
    exact IH.
Qed.
Lemma args_vars (a : list Z) : map (eval a) (map EVar (seq 0 (length a))) = a.
Proof. rewrite map_map. simpl. apply (map_nth_seq a []). Qed.

Lemma nth_snoc (a : list Z) r : nth (length a) (a ++ [r]) 0%Z = r.
Proof. rewrite app_nth2 by lia. now rewrite Nat.sub_diag. Qed.
Lemma nth_snoc2 (a : list Z) r r' : nth (S (length a)) ((a ++ [r]) ++ [r']) 0%Z = r'.
Proof.
  assert (length (a ++ [r]) = S (length a)) as L by (rewrite app_length; simpl; lia).
  rewrite app_nth2 by lia. rewrite L. now rewrite Nat.sub_diag.
Qed.

Definition ident : prog := Ret (EVar 0).

Lemma eval_instrument p a : eval_prog (instrument p (length a)) a = eval_prog p a.
Proof.
  unfold instrument, Tag. cbn [eval_prog]. rewrite args_vars. cbn [map eval].
  rewrite nth_snoc. cbn [eval_prog eval nth]. apply nth_snoc2.
Qed.

(* the recorded calls of the instrumented function: "_enter" around f, then f's own, then "exit" *)
Lemma ref_calls_instrument p a :
  ref_calls (instrument p (length a)) a =
  mkcall (TName 0) p a (eval_prog p a) :: ref_calls p a ++
  [mkcall (TName 1) ident [eval_prog p a] (eval_prog p a)].
Proof.
  unfold instrument, Tag. cbn [ref_calls]. rewrite args_vars. cbn [map eval].
  rewrite nth_snoc. cbn [eval_prog eval nth ref_calls app]. reflexivity.
Qed.

Definition frames_of (d : debugger) : list (prog * list Z * Z) :=
  map (fun fr => (ff fr, fargs fr, fret fr)) (dseq d).
Definition call3 (c : call) := (cfun c, cargs c, cret c).

Lemma time_machine_spec p a :
  time_machine p a =
  let P := instrument p (length a) in
  Some (mkdbg (eval_prog p a) (map snd (calls P a [])) (jp_fold 0 (map fst (calls P a [])) []) 0).
Proof.
  unfold time_machine. rewrite record_spec. unfold calls_cfg, run_cont. cbn [calls_stack run_stack]. cbn zeta.
  rewrite app_nil_r. rewrite eval_instrument. reflexivity.
Qed.

Lemma map_fst_calls p env st : map fst (calls p env st) = map ctag (ref_calls p env).
Proof. rewrite <- (obs_calls p env st). rewrite map_map. reflexivity. Qed.
Lemma map_snd_calls3 p env st :
  map (fun fr => (ff fr, fargs fr, fret fr)) (map snd (calls p env st)) = map call3 (ref_calls p env).
Proof. rewrite <- (obs_calls p env st). rewrite !map_map. reflexivity. Qed.

(* tt_final *)
Theorem tt_final p a : exists d, time_machine p a = Some d /\ final d = eval_prog p a.
Proof. rewrite time_machine_spec. eexists; split; reflexivity. Qed.

(* tt_frames_preorder *)
Theorem tt_frames_preorder p a :
  exists d, time_machine p a = Some d /\
    let cs := ref_calls (instrument p (length a)) a in
    frames_of d = map call3 cs /\
    ptr d = 0 /\
    (forall t, dict_get (jp d) t = if truthy t then last_index t (map ctag cs) else None) /\
    cs = mkcall (TName 0) p a (eval_prog p a) :: ref_calls p a ++ [mkcall (TName 1) ident [eval_prog p a] (eval_prog p a)].
Proof.
  rewrite time_machine_spec. eexists; split; [reflexivity|]. cbn zeta. unfold frames_of. cbn [dseq jp ptr].
  split; [apply map_snd_calls3|]. split; [reflexivity|]. split.
  - intros t. rewrite jp_fold_get. rewrite map_fst_calls. unfold last_index.
    destruct (truthy t); [|reflexivity]. destruct (last_index_from 0 t _); reflexivity.
  - apply ref_calls_instrument.
Qed.

(* ------------------------------------------------------------------------- *)
(* navigation                                                                  *)
(* ------------------------------------------------------------------------- *)
Definition nav_step (d : debugger) (c : nav) : debugger :=
  match c with
  | NJump t => match jump d t with Ok d' => d' | Err _ => d end   (* a raising jump leaves the caller with d *)
  | NFwd => fwd d
  | NBwd => bwd d
  end.

Definition nav_inv (tags : list tag) (d : debugger) : Prop :=
  (forall t, dict_get (jp d) t = if truthy t then last_index t tags else None) /\
  length (dseq d) = length tags /\ ptr d < length tags.

Lemma nav_step_inv tags d c : nav_inv tags d ->
  let d' := nav_step d c in
  nav_inv tags d' /\ ptr d' = spec_step tags (ptr d) c /\
  dseq d' = dseq d /\ final d' = final d /\ jp d' = jp d.
Proof.
  intros (Hjp & Hlen & Hptr). unfold nav_inv.
  destruct c as [t| |]; cbn [nav_step spec_step].
  - unfold jump. destruct t as [| |n].
    + cbn [truthy]. repeat split; auto.
    + cbn [truthy]. rewrite Hjp. cbn [truthy]. repeat split; auto.
    + rewrite Hjp. cbn [truthy]. destruct (last_index (TName n) tags) as [k|] eqn:E.
      * cbn [ptr dseq jp final]. apply last_index_from_bounds in E. repeat split; auto. lia.
      * repeat split; auto.
  - unfold fwd. rewrite Hlen. destruct (length tags <=? S (ptr d)) eqn:E.
    + apply Nat.leb_le in E. repeat split; auto. lia.
    + apply Nat.leb_gt in E. cbn [ptr dseq jp final]. repeat split; auto. lia.
  - unfold bwd. destruct (ptr d) as [|q] eqn:Eq.
    + rewrite Eq. repeat split; auto.
    + rewrite Hlen. destruct (length tags <=? q) eqn:E.
      * apply Nat.leb_le in E. lia.
      * cbn [ptr dseq jp final Nat.pred]. repeat split; auto. lia.
Qed.

Lemma nav_script_inv tags script : forall d, nav_inv tags d ->
  let d' := fold_left nav_step script d in
  nav_inv tags d' /\ ptr d' = fold_left (spec_step tags) script (ptr d) /\
  dseq d' = dseq d /\ final d' = final d /\ jp d' = jp d.
Proof.
  induction script as [|c script IH]; intros d H; cbn [fold_left].
  - repeat split; auto; apply H.
  - destruct (nav_step_inv tags d c H) as (H1 & H2 & H3 & H4 & H5).
    destruct (IH _ H1) as (G1 & G2 & G3 & G4 & G5). cbn zeta in *.
    repeat split; try apply G1; congruence.
Qed.

Lemma time_machine_nav_inv p a d :
  time_machine p a = Some d -> ptr d = 0 /\ nav_inv (map ctag (ref_calls (instrument p (length a)) a)) d.
Proof.
  rewrite time_machine_spec. cbn zeta. intros H.
  remember (calls (instrument p (length a)) a []) as L eqn:EL. injection H as H. subst d L. unfold nav_inv. cbn [ptr jp dseq].
  split; [reflexivity|]. split; [|split].
  - intros t. rewrite jp_fold_get, map_fst_calls. unfold last_index.
    destruct (truthy t); [|reflexivity]. destruct (last_index_from 0 t _); reflexivity.
  - rewrite !map_length. rewrite <- (obs_calls _ a []). now rewrite map_length.
  - rewrite ref_calls_instrument. simpl. lia.
Qed.

(* tt_nav_bounds *)
Theorem tt_nav_bounds p a script :
  exists d, time_machine p a = Some d /\
    let d' := fold_left nav_step script d in
    let tags := map ctag (ref_calls (instrument p (length a)) a) in
    ptr d' < length (dseq d') /\
    length (dseq d') = length tags /\
    ptr d' = fold_left (spec_step tags) script 0 /\
    dseq d' = dseq d /\ final d' = final d /\ jp d' = jp d.
Proof.
  destruct (tt_final p a) as (d & Hd & _). exists d. split; [exact Hd|].
  destruct (time_machine_nav_inv p a d Hd) as (H0 & Hinv).
  destruct (nav_script_inv _ script d Hinv) as ((_ & G1 & G1') & G2 & G3 & G4 & G5). cbn zeta in *.
  rewrite H0 in G2. repeat split; auto. lia.
Qed.

(* ------------------------------------------------------------------------- *)
(* remix                                                                       *)
(* ------------------------------------------------------------------------- *)
Lemma ov_out i a' p : forall env c, (i < c \/ c + count p <= i) -> eval_ov i a' p env c = eval_prog p env.
Proof.
  induction p as [e|e k IHk|t g IHg args k IHk|g IHg args k IHk]; intros env c H; cbn [eval_ov eval_prog count] in *.
  - reflexivity.
  - apply IHk. exact H.
  - destruct (Nat.eqb_spec c i) as [E|E]; [lia|].
    rewrite IHg by lia. rewrite IHk by lia. reflexivity.
  - apply IHk. exact H.
Qed.
Lemma calls_ov_out i a' p : forall env c, (i < c \/ c + count p <= i) -> calls_ov i a' p env c = ref_calls p env.
Proof.
  induction p as [e|e k IHk|t g IHg args k IHk|g IHg args k IHk]; intros env c H; cbn [calls_ov ref_calls count] in *.
  - reflexivity.
  - apply IHk. exact H.
  - destruct (Nat.eqb_spec c i) as [E|E]; [lia|].
    rewrite ov_out by lia. rewrite IHg by lia. rewrite IHk by lia. reflexivity.
  - apply IHk. exact H.
Qed.
Lemma calls_ov_length i a' p : forall env c, length (calls_ov i a' p env c) = count p.
Proof.
  induction p as [e|e k IHk|t g IHg args k IHk|g IHg args k IHk]; intros env c; cbn [calls_ov count length]; auto.
  rewrite app_length, IHg, IHk. reflexivity.
Qed.

(* the value a frame's continuation computes from new arguments = re-running the
   surrounding program with that call's arguments replaced *)
Lemma remix_value i a' p : forall env st c j t fr,
  nth_error (calls p env st) j = Some (t, fr) -> i = c + j ->
  run_cont (ff fr) (fcont fr) a' = run_stack (eval_ov i a' p env c) st.
Proof.
  induction p as [e|e k IHk|t0 g IHg args k IHk|g IHg args k IHk]; intros env st c j t fr Hn Hi; cbn [calls eval_ov] in *.
  - destruct j; discriminate.
  - eapply IHk; eauto.
  - destruct j as [|j]; cbn [nth_error] in Hn.
    + injection Hn as Ht Hfr. subst t fr. cbn [ff fcont]. unfold run_cont. cbn [run_stack].
      replace (c =? i) with true by (symmetry; apply Nat.eqb_eq; lia).
      rewrite (ov_out i a' g) by lia. rewrite (ov_out i a' k) by lia. reflexivity.
    + destruct (Nat.eqb_spec c i) as [E|E]; [lia|].
      destruct (Nat.lt_ge_cases j (count g)) as [L|L].
      * rewrite nth_error_app1 in Hn by (rewrite calls_length; exact L).
        rewrite (IHg _ _ (S c) j t fr Hn) by lia. cbn [run_stack].
        rewrite (ov_out i a' k) by lia. reflexivity.
      * rewrite nth_error_app2 in Hn by (rewrite calls_length; exact L).
        rewrite calls_length in Hn.
        rewrite (ov_out i a' g) by lia.
        apply (IHk _ _ (S c + count g) (j - count g) t fr Hn). lia.
  - eapply IHk; eauto.
Qed.

(* ... and the frames recorded from there on are the calls of that re-run *)
Lemma remix_frames i a' p : forall env st c j t fr,
  nth_error (calls p env st) j = Some (t, fr) -> i = c + j ->
  mkcall t (ff fr) a' (eval_prog (ff fr) a') :: map obs (calls_cfg (ff fr) (fcont fr) a')
  = skipn j (calls_ov i a' p env c) ++ map obs (calls_stack (eval_ov i a' p env c) st).
Proof.
  induction p as [e|e k IHk|t0 g IHg args k IHk|g IHg args k IHk]; intros env st c j t fr Hn Hi; cbn [calls eval_ov calls_ov] in *.
  - destruct j; discriminate.
  - eapply IHk; eauto.
  - destruct j as [|j]; cbn [nth_error] in Hn.
    + injection Hn as Ht Hfr. subst t fr. cbn [ff fcont skipn]. unfold calls_cfg. cbn [calls_stack].
      replace (c =? i) with true by (symmetry; apply Nat.eqb_eq; lia).
      rewrite (ov_out i a' g) by lia. rewrite (ov_out i a' k) by lia.
      rewrite (calls_ov_out i a' g) by lia. rewrite (calls_ov_out i a' k) by lia.
      rewrite !map_app, !obs_calls. cbn [app]. rewrite <- app_assoc. reflexivity.
    + destruct (Nat.eqb_spec c i) as [E|E]; [lia|]. cbn [skipn].
      destruct (Nat.lt_ge_cases j (count g)) as [L|L].
      * rewrite nth_error_app1 in Hn by (rewrite calls_length; exact L).
        rewrite (IHg _ _ (S c) j t fr Hn) by lia. cbn [calls_stack].
        rewrite (ov_out i a' k) by lia. rewrite (calls_ov_out i a' k) by lia.
        rewrite skipn_app, calls_ov_length. replace (j - count g) with 0 by lia. cbn [skipn].
        rewrite map_app, obs_calls. rewrite <- app_assoc. reflexivity.
      * rewrite nth_error_app2 in Hn by (rewrite calls_length; exact L).
        rewrite calls_length in Hn.
        rewrite (ov_out i a' g) by lia.
        rewrite (IHk _ _ (S c + count g) (j - count g) t fr Hn) by lia.
        rewrite skipn_app, calls_ov_length.
        rewrite (skipn_all2 (calls_ov i a' g _ _)) by (rewrite calls_ov_length; exact L).
        reflexivity.
  - eapply IHk; eauto.
Qed.

(* remix on a debugger whose frames are the recording of P (pointer anywhere) *)
Lemma remix_spec P a fin j0 i a' t fr :
  nth_error (calls P a []) i = Some (t, fr) ->
  let d := mkdbg fin (map snd (calls P a [])) j0 i in
  (length a' = length (fargs fr) ->
     exists d2, remix d a' = Ok d2 /\ final d2 = eval_ov i a' P a 0 /\ ptr d2 = i /\ jp d2 = j0 /\
       frames_of d2 = firstn i (map call3 (ref_calls P a)) ++ skipn i (map call3 (calls_ov i a' P a 0))) /\
  (length a' <> length (fargs fr) -> remix d a' = Err EType).
Proof.
  intros Hn d. assert (nth_error (dseq d) (ptr d) = Some fr) as Hfr.
  { unfold d. cbn [dseq ptr]. apply (map_nth_error snd _ _ Hn). }
  split; intros Hlen; unfold remix; rewrite Hfr.
  - replace (length a' =? length (fargs fr)) with true by (symmetry; now apply Nat.eqb_eq).
    cbn [negb]. rewrite record_spec. eexists. split; [reflexivity|]. cbn [final ptr jp].
    split; [|split; [reflexivity|split; [reflexivity|]]].
    + rewrite (remix_value i a' P a [] 0 i t fr Hn) by lia. reflexivity.
    + unfold frames_of, d. cbn [dseq ptr app]. rewrite map_app. f_equal.
      * rewrite <- firstn_map. rewrite map_snd_calls3. reflexivity.
      * rewrite skipn_map.
        pose proof (remix_frames i a' P a [] 0 i t fr Hn eq_refl) as F. cbn [calls_stack map] in F.
        rewrite app_nil_r in F. rewrite <- F. cbn [map call3 cfun cargs cret].
        f_equal. rewrite !map_map. reflexivity.
  - replace (length a' =? length (fargs fr)) with false by (symmetry; now apply Nat.eqb_neq).
    reflexivity.
Qed.

(* tt_remix: from the time machine, after any navigation, remix at the frame under the
   pointer re-runs the (instrumented) function with that call's arguments replaced *)
Theorem tt_remix p a script a' :
  exists d, time_machine p a = Some d /\
    let d1 := fold_left nav_step script d in
    let P := instrument p (length a) in
    let i := ptr d1 in
    exists c, nth_error (ref_calls P a) i = Some c /\
    (length a' = length (cargs c) ->
       exists d2, remix d1 a' = Ok d2 /\
         final d2 = eval_ov i a' P a 0 /\
         frames_of d2 = firstn i (map call3 (ref_calls P a)) ++ skipn i (map call3 (calls_ov i a' P a 0)) /\
         ptr d2 = i /\ jp d2 = jp d /\ length (dseq d2) = length (dseq d)) /\
    (length a' <> length (cargs c) -> remix d1 a' = Err EType).
Proof.
  destruct (tt_nav_bounds p a script) as (d & Hd & Hb). exists d. split; [exact Hd|].
  cbn zeta in *. destruct Hb as (Hlt & Hlen & _ & Hseq & Hfin & Hjp).
  set (d1 := fold_left nav_step script d) in *. set (P := instrument p (length a)) in *.
  assert (dseq d = map snd (calls P a [])) as Eseq.
  { rewrite time_machine_spec in Hd. cbn zeta in Hd. fold P in Hd.
    remember (calls P a []) as L. injection Hd as Hd. subst d. reflexivity. }
  assert (ptr d1 < length (calls P a [])) as Hi.
  { rewrite Hseq, Eseq, map_length in Hlt. exact Hlt. }
  destruct (nth_error (calls P a []) (ptr d1)) as [[t fr]|] eqn:En;
    [|apply nth_error_None in En; lia].
  exists (obs (t, fr)). split.
  { rewrite <- (obs_calls P a []). apply map_nth_error. exact En. }
  cbn [obs cargs snd].
  assert (d1 = mkdbg (final d1) (map snd (calls P a [])) (jp d1) (ptr d1)) as Ed1.
  { rewrite <- Eseq, <- Hseq. destruct d1; reflexivity. }
  destruct (remix_spec P a (final d1) (jp d1) (ptr d1) a' t fr En) as [R1 R2].
  rewrite <- Ed1 in R1, R2. split.
  - intros Hl. destruct (R1 Hl) as (d2 & E1 & E2 & E3 & E4 & E5).
    exists d2. repeat split; auto; try congruence.
    assert (length (frames_of d2) = length (dseq d)) as LL.
    { rewrite E5, app_length, firstn_length, skipn_length, !map_length, calls_ov_length.
      rewrite Eseq, map_length, calls_length.
      rewrite <- (obs_calls P a []), map_length, calls_length.
      rewrite calls_length in Hi. lia. }
    unfold frames_of in LL. rewrite map_length in LL. exact LL.
  - exact R2.
Qed.

(* ------------------------------------------------------------------------- *)
(* bounds under ANY script, remixes included                                    *)
(* ------------------------------------------------------------------------- *)
Definition step_keep (d : debugger) (c : cmd) : debugger :=
  match step d c with Ok d' => d' | Err _ => d end.     (* a raising command leaves the caller with d *)

Definition wf (n : nat) (d : debugger) : Prop :=
  length (dseq d) = n /\ ptr d < n /\
  (forall t i, dict_get (jp d) t = Some i -> i < n) /\
  (forall j fr, nth_error (dseq d) j = Some fr -> count (ff fr) + count_stack (fcont fr) + S j = n).

Lemma count_stack_cons k env st : count_stack ((k, env) :: st) = count k + count_stack st.
Proof. reflexivity. Qed.
Lemma calls_count p : forall env st j t fr,
  nth_error (calls p env st) j = Some (t, fr) ->
  count (ff fr) + count_stack (fcont fr) + S j = count p + count_stack st.
Proof.
  induction p as [e|e k IHk|t0 g IHg args k IHk|g IHg args k IHk]; intros env st j t fr Hn; cbn [calls count] in *.
  - destruct j; discriminate.
  - eapply IHk; eauto.
  - destruct j as [|j]; cbn [nth_error] in Hn.
    + injection Hn as Ht Hfr. subst t fr. cbn [ff fcont]. rewrite count_stack_cons. lia.
    + destruct (Nat.lt_ge_cases j (count g)) as [L|L].
      * rewrite nth_error_app1 in Hn by (rewrite calls_length; exact L).
        apply IHg in Hn. rewrite count_stack_cons in Hn. lia.
      * rewrite nth_error_app2 in Hn by (rewrite calls_length; exact L).
        rewrite calls_length in Hn. apply IHk in Hn. lia.
  - eapply IHk; eauto.
Qed.
Lemma calls_stack_count st : forall v j t fr,
  nth_error (calls_stack v st) j = Some (t, fr) ->
  count (ff fr) + count_stack (fcont fr) + S j = count_stack st.
Proof.
  induction st as [|[k env] st IH]; intros v j t fr Hn; cbn [calls_stack] in Hn.
  - destruct j; discriminate.
  - rewrite count_stack_cons.
    destruct (Nat.lt_ge_cases j (count k)) as [L|L].
    + rewrite nth_error_app1 in Hn by (rewrite calls_length; exact L).
      apply calls_count in Hn. lia.
    + rewrite nth_error_app2 in Hn by (rewrite calls_length; exact L).
      rewrite calls_length in Hn. apply IH in Hn. lia.
Qed.
Lemma calls_cfg_count g st a j t fr :
  nth_error (calls_cfg g st a) j = Some (t, fr) ->
  count (ff fr) + count_stack (fcont fr) + S j = count g + count_stack st.
Proof.
  unfold calls_cfg. intros Hn. destruct (Nat.lt_ge_cases j (count g)) as [L|L].
  - rewrite nth_error_app1 in Hn by (rewrite calls_length; exact L). now apply calls_count in Hn.
  - rewrite nth_error_app2 in Hn by (rewrite calls_length; exact L).
    rewrite calls_length in Hn. apply calls_stack_count in Hn. lia.
Qed.

Lemma nth_error_firstn {A} (l : list A) : forall k j, j < k -> nth_error (firstn k l) j = nth_error l j.
Proof.
  induction l as [|x l IH]; intros k j H.
  - rewrite firstn_nil. reflexivity.
  - destruct k; [lia|]. destruct j; simpl; auto. apply IH. lia.
Qed.

Lemma wf_step n d c : wf n d -> wf n (step_keep d c).
Proof.
  intros (Hlen & Hptr & Hjp & Hfr). unfold step_keep.
  destruct c as [t| | |a]; cbn [step].
  - unfold jump. destruct t; try (repeat split; assumption);
      (destruct (dict_get (jp d) _) as [i|] eqn:E; [|repeat split; assumption]);
      repeat split; cbn [dseq ptr jp]; auto; eapply Hjp; eauto.
  - unfold fwd. rewrite Hlen. destruct (n <=? S (ptr d)) eqn:E; [repeat split; assumption|].
    apply Nat.leb_gt in E. repeat split; cbn [dseq ptr jp]; auto.
  - unfold bwd. destruct (ptr d) as [|q] eqn:Eq; [repeat split; auto; lia|].
    rewrite Hlen. destruct (n <=? q) eqn:E; [repeat split; auto; lia|].
    repeat split; cbn [dseq ptr jp]; auto. lia.
  - unfold remix. destruct (nth_error (dseq d) (ptr d)) as [fr|] eqn:En; [|repeat split; assumption].
    destruct (negb (length a =? length (fargs fr))); [repeat split; assumption|].
    rewrite record_spec. pose proof (Hfr _ _ En) as Hc.
    assert (length (firstn (ptr d) (dseq d)) = ptr d) as Lf by (apply firstn_length_le; lia).
    repeat split; cbn [dseq ptr jp]; auto.
    + rewrite app_length, Lf. cbn [app length]. rewrite map_length, calls_cfg_length. lia.
    + intros j fr' Hn.
      destruct (Nat.lt_ge_cases j (ptr d)) as [L|L].
      * rewrite nth_error_app1 in Hn by lia. rewrite nth_error_firstn in Hn by exact L. eapply Hfr; eauto.
      * rewrite nth_error_app2 in Hn by lia. rewrite Lf in Hn.
        destruct (j - ptr d) as [|m] eqn:Em; cbn [app nth_error] in Hn.
        -- injection Hn as Hn. subst fr'. cbn [ff fcont]. replace j with (ptr d) by lia. exact Hc.
        -- rewrite nth_error_map in Hn.
           destruct (nth_error (calls_cfg (ff fr) (fcont fr) a) m) as [[t' fr'']|] eqn:E2; [|discriminate].
           cbn [option_map snd] in Hn. injection Hn as Hn. subst fr''.
           apply calls_cfg_count in E2. lia.
Qed.

Lemma wf_script n script : forall d, wf n d ->
  let d' := fold_left step_keep script d in wf n d' /\ jp d' = jp d.
Proof.
  induction script as [|c script IH]; intros d H; cbn [fold_left].
  - split; auto.
  - destruct (IH _ (wf_step n d c H)) as [G1 G2]. split; [exact G1|].
    cbn zeta in G2. rewrite G2. unfold step_keep.
    destruct c as [t| | |a]; cbn [step].
    + unfold jump. destruct t; auto; destruct (dict_get (jp d) _); reflexivity.
    + unfold fwd. destruct (_ <=? _); reflexivity.
    + unfold bwd. destruct (ptr d); auto. destruct (_ <=? _); reflexivity.
    + unfold remix. destruct (nth_error _ _); auto. destruct (negb _); auto.
      rewrite record_spec. reflexivity.
Qed.

Lemma time_machine_wf p a d : time_machine p a = Some d -> wf (length (dseq d)) d.
Proof.
  rewrite time_machine_spec. cbn zeta. intros H.
  remember (calls (instrument p (length a)) a []) as L eqn:EL. injection H as H. subst d. unfold wf. cbn [dseq ptr jp].
  assert (length L = 2 + count p) as LL.
  { subst L. rewrite calls_length. unfold instrument, Tag. cbn [count]. lia. }
  rewrite map_length. repeat split.
  - lia.
  - intros t i Hg. rewrite jp_fold_get in Hg. destruct (truthy t); [|discriminate].
    destruct (last_index_from 0 t (map fst L)) as [k|] eqn:E; [|discriminate].
    injection Hg as Hg. subst k. apply last_index_from_bounds in E. rewrite map_length in E. lia.
  - intros j fr Hn. rewrite nth_error_map in Hn.
    destruct (nth_error L j) as [[t fr']|] eqn:E; [|discriminate]. cbn [option_map snd] in Hn.
    injection Hn as Hn. subst fr'. subst L. apply calls_count in E. rewrite calls_length.
    cbn [count_stack fold_right] in E. lia.
Qed.

(* after ANY sequence of jump / fwd / bwd / remix the pointer is inside the frames, and the
   number of frames and jump_points never change *)
Theorem tt_bounds_any_script p a script :
  exists d, time_machine p a = Some d /\
    let d' := fold_left step_keep script d in
    ptr d' < length (dseq d') /\ length (dseq d') = length (dseq d) /\ jp d' = jp d /\
    length (dseq d) = 2 + count p.
Proof.
  destruct (tt_final p a) as (d & Hd & _). exists d. split; [exact Hd|].
  destruct (wf_script _ script d (time_machine_wf p a d Hd)) as ((G1 & G2 & _) & G3). cbn zeta in *.
  repeat split; auto; try lia.
  destruct (tt_frames_preorder p a) as (d0 & Hd0 & Hf & _ & _ & Hcs). cbn zeta in *.
  assert (d0 = d) by congruence. subst d0.
  assert (length (frames_of d) = 2 + count p) as LL.
  { rewrite Hf, map_length, Hcs. cbn [length]. rewrite app_length. cbn [length].
    rewrite <- (obs_calls p a []), map_length, calls_length. lia. }
  unfold frames_of in LL. now rewrite map_length in LL.
Qed.

(* ------------------------------------------------------------------------- *)
(* summary(): the tag shown for the frame under the pointer                     *)
(* ------------------------------------------------------------------------- *)
Lemma dict_set_keys d t i x : In x (map fst (dict_set d t i)) -> x = t \/ In x (map fst d).
Proof.
  induction d as [|[u j] d IH]; simpl.
  - intros [H|[]]; auto.
  - destruct (tag_eqb u t); simpl; intros [H|H]; auto. destruct (IH H); auto.
Qed.
Lemma dict_set_nodup d t i : NoDup (map fst d) -> NoDup (map fst (dict_set d t i)).
Proof.
  induction d as [|[u j] d IH]; simpl; intros H.
  - constructor; [intros []|constructor].
  - inversion H as [|? ? Hn Hd]; subst. destruct (tag_eqb u t) eqn:E; simpl.
    + constructor; assumption.
    + constructor; [|now apply IH]. intros Hin. apply dict_set_keys in Hin as [->|Hin]; [|contradiction].
      rewrite tag_eqb_refl in E. discriminate.
Qed.
Lemma jp_fold_nodup tags : forall i j, NoDup (map fst j) -> NoDup (map fst (jp_fold i tags j)).
Proof.
  induction tags as [|x r IH]; intros i j H; simpl; auto.
  apply IH. destruct (truthy x); auto. now apply dict_set_nodup.
Qed.
Lemma dict_get_in d t j : NoDup (map fst d) -> (dict_get d t = Some j <-> In (t, j) d).
Proof.
  induction d as [|[u k] d IH]; simpl; intros H.
  - split; [discriminate|intros []].
  - inversion H as [|? ? Hn Hd]; subst. destruct (tag_eqb u t) eqn:E.
    + apply tag_eqb_eq in E. subst u. split.
      * intros G; left; congruence.
      * intros [G|G]; [congruence|]. exfalso. apply Hn. apply (in_map fst) in G. exact G.
    + apply tag_eqb_neq in E. rewrite (IH Hd). split; auto. intros [G|G]; auto. congruence.
Qed.

Lemma rev_get_fold i (d : dict) : forall acc : tag,
  NoDup (map fst d) -> (forall t t', In (t, i) d -> In (t', i) d -> t = t') ->
  (forall t, In (t, i) d -> fold_left (fun acc tj => if Nat.eqb (snd tj) i then fst tj else acc) d acc = t) /\
  ((forall t, ~ In (t, i) d) -> fold_left (fun acc tj => if Nat.eqb (snd tj) i then fst tj else acc) d acc = acc).
Proof.
  induction d as [|[u j] d IH]; intros acc Hnd Hu; cbn [fold_left].
  - split; [intros t []|reflexivity].
  - inversion Hnd as [|? ? Hn Hd]; subst.
    assert (forall t t', In (t, i) d -> In (t', i) d -> t = t') as Hu' by (intros; apply Hu; right; assumption).
    split.
    + intros t [G|G].
      * injection G as -> ->. cbn [snd fst]. rewrite Nat.eqb_refl.
        apply (proj2 (IH t Hd Hu')). intros t' G'.
        assert (t' = t) by (apply Hu; [right|left]; auto). subst t'.
        apply Hn. apply (in_map fst) in G'. exact G'.
      * apply (proj1 (IH _ Hd Hu')). exact G.
    + intros G. cbn [snd fst]. destruct (Nat.eqb_spec j i) as [->|Hne].
      * exfalso. apply (G u). now left.
      * apply (proj2 (IH acc Hd Hu')). intros t G'. apply (G t). now right.
Qed.

Definition shown_tag (tags : list tag) (i : nat) : tag :=
  match nth_error tags i with
  | Some t => if truthy t then match last_index t tags with
                               | Some k => if Nat.eqb k i then t else TNone
                               | None => TNone
                               end
              else TNone
  | None => TNone
  end.

Lemma rev_get_spec tags d i :
  NoDup (map fst (jp d)) ->
  (forall t, dict_get (jp d) t = if truthy t then last_index t tags else None) ->
  rev_get (jp d) i = shown_tag tags i.
Proof.
  intros Hnd Hjp. unfold rev_get.
  assert (forall t t', In (t, i) (jp d) -> In (t', i) (jp d) -> t = t') as Hu.
  { intros t t' G G'. apply (dict_get_in _ _ _ Hnd) in G, G'. rewrite Hjp in G, G'.
    destruct (truthy t); [|discriminate]. destruct (truthy t'); [|discriminate].
    apply last_index_char in G, G'. destruct G as [G _], G' as [G' _]. congruence. }
  destruct (rev_get_fold i (jp d) TNone Hnd Hu) as [R1 R2].
  unfold shown_tag. destruct (nth_error tags i) as [t|] eqn:En.
  - destruct (truthy t) eqn:Ht.
    + destruct (last_index t tags) as [k|] eqn:El.
      * destruct (Nat.eqb_spec k i) as [->|Hne].
        -- apply R1. apply (dict_get_in _ _ _ Hnd). rewrite Hjp, Ht. exact El.
        -- apply R2. intros t' G. apply (dict_get_in _ _ _ Hnd) in G. rewrite Hjp in G.
           destruct (truthy t'); [|discriminate]. assert (G' := G). apply last_index_char in G' as [G' _].
           assert (t' = t) by congruence. subst t'. congruence.
      * exfalso. apply (proj1 (last_index_from_none t tags 0) El i En).
    + apply R2. intros t' G. apply (dict_get_in _ _ _ Hnd) in G. rewrite Hjp in G.
      destruct (truthy t') eqn:Ht'; [|discriminate]. apply last_index_char in G as [G _]. congruence.
  - apply R2. intros t' G. apply (dict_get_in _ _ _ Hnd) in G. rewrite Hjp in G.
    destruct (truthy t'); [|discriminate]. apply last_index_char in G as [G _]. congruence.
Qed.

(* summary() after any navigation: final_retval, the frame under the pointer, and its tag if
   this frame is the last one carrying that (non-empty) tag, else None *)
Theorem tt_summary p a script :
  exists d, time_machine p a = Some d /\
    let d' := fold_left nav_step script d in
    let tags := map ctag (ref_calls (instrument p (length a)) a) in
    exists fr, nth_error (dseq d) (ptr d') = Some fr /\
      summary d' = Ok (eval_prog p a, (shown_tag tags (ptr d'), fr)).
Proof.
  destruct (tt_nav_bounds p a script) as (d & Hd & Hb). exists d. split; [exact Hd|].
  cbn zeta in *. destruct Hb as (Hlt & Hlen & _ & Hseq & Hfin & Hjp).
  destruct (tt_final p a) as (d0 & Hd0 & Hf0). assert (d0 = d) by congruence. subst d0.
  destruct (time_machine_nav_inv p a d Hd) as (_ & (Hj & _ & _)).
  set (d' := fold_left nav_step script d) in *.
  destruct (nth_error (dseq d') (ptr d')) as [fr|] eqn:En; [|apply nth_error_None in En; lia].
  exists fr. split; [rewrite <- Hseq; exact En|].
  unfold summary. rewrite En. rewrite Hfin, Hf0. f_equal. f_equal. f_equal.
  apply rev_get_spec.
  - rewrite Hjp. rewrite time_machine_spec in Hd. cbn zeta in Hd.
    remember (calls (instrument p (length a)) a []) as L. injection Hd as Hd. subst d. cbn [jp].
    apply jp_fold_nodup. constructor.
  - rewrite Hjp. exact Hj.
Qed.

(* ------------------------------------------------------------------------- *)
(* the region: every recorded call gets a frame iff no record point sits in a    *)
(* sub-jaxpr (jit-ted helper, cond branch, scan body)                            *)
(* ------------------------------------------------------------------------- *)
Lemma no_rec_all p : forall env, no_rec p = true -> all_calls p env = [].
Proof.
  induction p as [e|e k IHk|t g IHg args k IHk|g IHg args k IHk]; intros env H; cbn [no_rec all_calls] in *.
  - reflexivity.
  - now apply IHk.
  - discriminate.
  - apply andb_prop in H as [H1 H2]. rewrite IHg, IHk by assumption. reflexivity.
Qed.
Lemma flat_all p : forall env, flat p = true -> ref_calls p env = all_calls p env.
Proof.
  induction p as [e|e k IHk|t g IHg args k IHk|g IHg args k IHk]; intros env H; cbn [flat ref_calls all_calls] in *.
  - reflexivity.
  - now apply IHk.
  - apply andb_prop in H as [H1 H2]. rewrite IHg, IHk by assumption. reflexivity.
  - apply andb_prop in H as [H1 H2]. rewrite no_rec_all by assumption. cbn [app]. now apply IHk.
Qed.
Lemma flat_instrument p n : flat (instrument p n) = flat p.
Proof. unfold instrument, Tag. cbn [flat]. now rewrite andb_true_r. Qed.

Theorem tt_frames_all p a : flat p = true ->
  exists d, time_machine p a = Some d /\
    frames_of d = map call3 (all_calls (instrument p (length a)) a) /\
    all_calls (instrument p (length a)) a =
      mkcall (TName 0) p a (eval_prog p a) :: all_calls p a ++ [mkcall (TName 1) ident [eval_prog p a] (eval_prog p a)].
Proof.
  intros Hf. destruct (tt_frames_preorder p a) as (d & Hd & H1 & _ & _ & H2). cbn zeta in *.
  exists d. split; [exact Hd|].
  rewrite <- (flat_all (instrument p (length a))) by (now rewrite flat_instrument).
  split; [exact H1|]. rewrite H2. now rewrite (flat_all p a Hf).
Qed.

Definition ex_hidden : prog :=
  Call (Rec (TName 2) (Ret (EMul (EVar 0) (EConst 2%Z))) [EVar 0] (Ret (EVar 1))) [EVar 0] (Ret (EAdd (EVar 1) (EConst 1%Z))).
Theorem tt_frames_refuted :
  exists p a d, time_machine p a = Some d /\ final d = eval_prog p a /\
    length (frames_of d) < length (all_calls (instrument p (length a)) a) /\
    dict_get (jp d) (TName 2) = None /\
    In (TName 2) (map ctag (all_calls (instrument p (length a)) a)).
Proof.
  exists ex_hidden, [3%Z]. eexists. split; [vm_compute; reflexivity|].
  split; [reflexivity|]. split; [vm_compute; lia|]. split; [reflexivity|]. vm_compute. auto.
Qed.
