"""Engine C-inf, flat-Q part (shared by C27 Rejuvenate and C28 HMC): flat static
programs whose sites are `exact_density` probes with *polynomial* log-densities
(small dyadic coefficients), realised on the implementation and printed as
literals for coq/model/FlatQ.v.

pexpr (python tuples):  ("v", i) | ("c", num, den) | ("+", a, b) | ("*", a, b)
psite:   {"addr": nat, "args": [pexpr over env], "lp": pexpr over [value] + args, "shift": int}
         env = program parameters ++ values of the earlier sites
program: [psite, ...]; address nat i is realised as the string NAMES[i]
"""
from fractions import Fraction as F

NAMES = ["m", "c", "t", "a", "q"]      # sorted order differs from index order on purpose


def name(a):
    return NAMES[a]


# ---- Coq literals -------------------------------------------------------------
def c_q(x):
    x = F(x)
    return f"(Qmake ({x.numerator})%Z {x.denominator}%positive)"


def c_qlist(xs):
    return "[" + "; ".join(c_q(x) for x in xs) + "]"


def c_pexpr(e):
    k = e[0]
    if k == "v": return f"(PVar {e[1]}%nat)"
    if k == "c": return f"(PConst {c_q(F(e[1], e[2]))})"
    if k == "+": return f"(PAdd {c_pexpr(e[1])} {c_pexpr(e[2])})"
    if k == "*": return f"(PMul {c_pexpr(e[1])} {c_pexpr(e[2])})"
    raise ValueError(e)


def c_psite(s):
    args = "[" + "; ".join(c_pexpr(a) for a in s["args"]) + "]"
    return (f"{{| ps_addr := {s['addr']}%nat; ps_args := {args}; ps_lp := {c_pexpr(s['lp'])}; "
            f"ps_shift := {s['shift']}%N |}}")


def c_prog(p):
    return "[" + "; ".join(c_psite(s) for s in p) + "]"


def c_chm(pairs):
    return "[" + "; ".join(f"({a}%nat, {c_q(v)})" for a, v in pairs) + "]"


def c_key(kd):
    return f"({int(kd[0])}%N, {int(kd[1])}%N)"


def c_natlist(xs):
    return "[" + "; ".join(f"{int(x)}%nat" for x in xs) + "]"


# ---- evaluation ------------------------------------------------------------------
def jeval(e, env):
    """on JAX float32 values (inside traced code); constants are Python floats (dyadic, exact)"""
    k = e[0]
    if k == "v": return env[e[1]]
    if k == "c": return e[1] / e[2]
    if k == "+": return jeval(e[1], env) + jeval(e[2], env)
    if k == "*": return jeval(e[1], env) * jeval(e[2], env)
    raise ValueError(e)


def feval(e, env, track=None):
    """exact, over Fractions; `track` (a list) collects every intermediate value so that the
    caller can check they are all exactly representable in float32"""
    k = e[0]
    if k == "v": r = F(env[e[1]])
    elif k == "c": r = F(e[1], e[2])
    elif k == "+": r = feval(e[1], env, track) + feval(e[2], env, track)
    elif k == "*": r = feval(e[1], env, track) * feval(e[2], env, track)
    else: raise ValueError(e)
    if track is not None:
        track.append(r)
    return r


def fits(x, bits=24):
    """x = n / 2^k (lowest terms) with |n| < 2^bits: exactly representable in float32"""
    x = F(x)
    d = x.denominator
    return d & (d - 1) == 0 and abs(x.numerator) < (1 << bits) and d <= (1 << 40)


def pvars(e):
    k = e[0]
    if k == "v": return {e[1]}
    if k == "c": return set()
    return pvars(e[1]) | pvars(e[2])


# ---- realisation on the implementation ------------------------------------------------
_DISTS = {}


def dist_of(lp, shift, nargs):
    """exact_density probe: sample = args[0] (0 if none) + (((k0^k1) >> shift) & 3 - 1) / 2,
    logpdf(v, *args) = lp over [v] + args"""
    ck = (repr(lp), shift, nargs)
    if ck not in _DISTS:
        import jax
        import jax.numpy as jnp
        from genjax._src.generative_functions.distributions.distribution import exact_density

        def sample(key, *args):
            kd = jax.random.key_data(key)
            bits = ((kd[..., 0] ^ kd[..., 1]) >> shift) & 3
            base = args[0] if args else jnp.float32(0)
            return base + (bits.astype(jnp.float32) - 1.0) * 0.5

        def logpdf(v, *args):
            r = jeval(lp, [v, *args])
            return jnp.asarray(r, dtype=jnp.float32)
        _DISTS[ck] = exact_density(sample, logpdf, f"PolyProbe{len(_DISTS)}")
    return _DISTS[ck]


def realise(prog):
    """the @gen function with one `dist(args) @ name` per site, parameters positional"""
    import genjax
    sites = [(name(s["addr"]), dist_of(s["lp"], s["shift"], len(s["args"])), s["args"]) for s in prog]

    def body(*params):
        env = list(params)
        v = 0.0
        for (nm, d, es) in sites:
            av = tuple(jeval(e, env) for e in es)
            v = d(*av) @ nm
            env.append(v)
        return v
    return genjax.gen(body)


def chm_of(pairs):
    """ChoiceMap from [(addr nat, float)]"""
    import jax.numpy as jnp
    from genjax import ChoiceMap as C
    c = C.empty()
    for a, v in pairs:
        c = c | C.kw(**{name(a): jnp.float32(float(v))})
    return c


def read_chm(chm, addr_universe):
    """canonical observation of a choice map through the public API: [(addr, Fraction)] for the
    addresses of the universe that are present, in the given order"""
    out = []
    for a in addr_universe:
        if name(a) in chm:
            out.append((a, F(float(chm[name(a)]))))
    return out


def fr(x):
    return F(float(x))


# ---- exact reference semantics of a flat program (Fractions) ----------------------------
def f_site_scores(prog, params, vals_by_addr, track=None):
    """the sites' log-densities at the given values (dict addr -> Fraction), in site order"""
    env = [F(p) for p in params]
    out = []
    for s in prog:
        args = [feval(e, env, track) for e in s["args"]]
        v = F(vals_by_addr[s["addr"]])
        out.append(feval(s["lp"], [v] + args, track))
        env.append(v)
    return out


def f_assess(prog, params, vals_by_addr, track=None):
    """sum of the sites' log-densities at the given values, accumulated in site order"""
    tot = F(0)
    for sc in f_site_scores(prog, params, vals_by_addr, track):
        tot += sc
        if track is not None:
            track.append(tot)
    return tot


# ---- an independent polynomial representation (for the C28 oracle) -------------------------
class Poly:
    """multivariate polynomial: {sorted tuple of (var, power): Fraction}"""

    def __init__(self, terms=None):
        self.t = {k: v for k, v in (terms or {}).items() if v != 0}

    @staticmethod
    def const(c): return Poly({(): F(c)})

    @staticmethod
    def var(i): return Poly({((i, 1),): F(1)})

    def __add__(self, o):
        t = dict(self.t)
        for k, v in o.t.items():
            t[k] = t.get(k, F(0)) + v
        return Poly(t)

    def __mul__(self, o):
        t = {}
        for k1, v1 in self.t.items():
            for k2, v2 in o.t.items():
                d = dict(k1)
                for var, pw in k2:
                    d[var] = d.get(var, 0) + pw
                k = tuple(sorted(d.items()))
                t[k] = t.get(k, F(0)) + v1 * v2
        return Poly(t)

    def diff(self, i):
        t = {}
        for k, v in self.t.items():
            d = dict(k)
            if i in d:
                pw = d[i]
                if pw == 1: del d[i]
                else: d[i] = pw - 1
                kk = tuple(sorted(d.items()))
                t[kk] = t.get(kk, F(0)) + v * pw
        return Poly(t)

    def __call__(self, env):
        tot = F(0)
        for k, v in self.t.items():
            m = v
            for var, pw in k:
                m *= F(env[var]) ** pw
            tot += m
        return tot

    def degree(self):
        return max((sum(pw for _, pw in k) for k in self.t), default=0)


def poly_of(e, env):
    k = e[0]
    if k == "v": return env[e[1]]
    if k == "c": return Poly.const(F(e[1], e[2]))
    if k == "+": return poly_of(e[1], env) + poly_of(e[2], env)
    if k == "*": return poly_of(e[1], env) * poly_of(e[2], env)
    raise ValueError(e)


def total_poly(prog, params):
    """log-density of the whole program as a polynomial in the site values (variable i = site i)"""
    env = [Poly.const(p) for p in params]
    tot = Poly.const(0)
    for i, s in enumerate(prog):
        v = Poly.var(i)
        args = [poly_of(e, env) for e in s["args"]]
        tot = tot + poly_of(s["lp"], [v] + args)
        env.append(v)
    return tot
