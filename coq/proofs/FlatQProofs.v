(* Facts about flat static programs over Q (coq/model/FlatQ.v) shared by C27 and C28:
   a trace produced by simulate/update stores, per site, the log-density of its value
   (wf_trace); for such a trace `assess` of its choices is its score; `update` returns
   weight = new score - old score, the overridden choices and the discard. *)
From Coq Require Import List Bool ZArith NArith QArith Lia Arith.
Import ListNotations.
From Model Require Import Key FlatQ.
Open Scope Q_scope.

Definition keys {A} (l : list (nat * A)) : list nat := map fst l.

Lemma memb_In a l : memb a l = true <-> In a l.
Proof.
  induction l as [|b l IH]; simpl; [split; [discriminate|tauto]|].
  rewrite orb_true_iff, IH, Nat.eqb_eq. split; intros [H|H]; auto.
Qed.
Lemma memb_false a l : memb a l = false <-> ~ In a l.
Proof. rewrite <- memb_In. destruct (memb a l); split; congruence. Qed.
Lemma nodupb_NoDup l : nodupb l = true -> NoDup l.
Proof.
  induction l as [|a l IH]; simpl; [constructor|].
  rewrite andb_true_iff, negb_true_iff. intros [H1 H2]. constructor; auto. now apply memb_false.
Qed.

Lemma lookup_notin {A} (l : list (nat * A)) a : ~ In a (keys l) -> lookup l a = None.
Proof.
  induction l as [|[b v] l IH]; simpl; auto. intros H.
  destruct (Nat.eqb a b) eqn:E; [apply Nat.eqb_eq in E; subst; tauto|]. apply IH. tauto.
Qed.
Lemma lookup_app_r {A} (pre l : list (nat * A)) a : ~ In a (keys pre) -> lookup (pre ++ l) a = lookup l a.
Proof.
  induction pre as [|[b v] pre IH]; simpl; auto. intros H.
  destruct (Nat.eqb a b) eqn:E; [apply Nat.eqb_eq in E; subst; tauto|]. apply IH. tauto.
Qed.
Lemma lookup_choices_of s a : lookup (choices_of s) a = option_map fst (lookup s a).
Proof.
  induction s as [|[b [v sc]] s IH]; simpl; auto. destruct (Nat.eqb a b); auto.
Qed.
Lemma lookup_In {A} (l : list (nat * A)) a v : lookup l a = Some v -> In a (keys l).
Proof.
  induction l as [|[b w] l IH]; simpl; [discriminate|].
  destruct (Nat.eqb a b) eqn:E; [apply Nat.eqb_eq in E; auto|]. intros H. right. auto.
Qed.
Lemma keys_app {A} (a b : list (nat * A)) : keys (a ++ b) = keys a ++ keys b.
Proof. apply map_app. Qed.
Lemma keys_choices_of s : keys (choices_of s) = keys s.
Proof. unfold keys, choices_of. rewrite map_map. reflexivity. Qed.

(* ---- well-formed traces ---- *)
Fixpoint wf_sites (ss : prog) (subs : subs_t) (env : list Q) : Prop :=
  match ss, subs with
  | [], [] => True
  | s :: r, e :: subs' =>
      fst e = s_addr s /\ snd (snd e) == s_lpdf s (fst (snd e)) (s_args s env)
      /\ wf_sites r subs' (env ++ [fst (snd e)])
  | _, _ => False
  end.
Definition wf_trace (p : prog) (t : strace) : Prop :=
  nodupb (addrs p) = true /\ wf_sites p (t_subs t) (t_args t).

Lemma wf_keys ss : forall subs env, wf_sites ss subs env -> keys subs = addrs ss.
Proof.
  induction ss as [|s r IH]; intros [|e subs] env H; simpl in *; try tauto.
  destruct H as (H1 & _ & H3). f_equal; eauto.
Qed.

Lemma sim_sites_wf ss : forall k c env, wf_sites ss (sim_sites ss k c env) env.
Proof.
  induction ss as [|s r IH]; intros; simpl; auto. repeat split; try reflexivity. apply IH.
Qed.
Lemma simulate_wf p k args t : simulate p k args = Ok t -> wf_trace p t /\ t_args t = args.
Proof.
  unfold simulate, wf_trace. destruct (nodupb (addrs p)) eqn:E; [|discriminate].
  intros H; inversion H; subst; simpl. repeat split; auto. apply sim_sites_wf.
Qed.

Lemma nodup_mid (l1 : list nat) a l2 : NoDup (l1 ++ a :: l2) -> ~ In a l1 /\ NoDup ((l1 ++ [a]) ++ l2).
Proof.
  intros H. split.
  - apply NoDup_remove_2 in H. intros Hin. apply H. apply in_or_app. auto.
  - rewrite <- app_assoc. exact H.
Qed.

(* C01 for flat programs: assess of a well-formed trace's choices is its score *)
Lemma assess_sites_wf ss : forall subs pre env,
  wf_sites ss subs env -> NoDup (keys pre ++ addrs ss) ->
  exists s, assess_sites ss (choices_of (pre ++ subs)) env = Ok s /\ s == sum_scores subs.
Proof.
  induction ss as [|s r IH]; intros [|e subs] pre env H ND; simpl in *; try tauto.
  - exists 0. split; reflexivity.
  - destruct e as [a [v sc]]. simpl in *. destruct H as (Ha & Hsc & Hwf). subst a.
    apply nodup_mid in ND as [Hnin ND].
    unfold get. rewrite lookup_choices_of, lookup_app_r by exact Hnin. simpl.
    rewrite Nat.eqb_refl. simpl.
    specialize (IH subs (pre ++ [(s_addr s, (v, sc))]) (env ++ [v]) Hwf).
    rewrite keys_app in IH. simpl in IH. specialize (IH ND).
    destruct IH as (s' & He & Hs').
    rewrite <- app_assoc in He. simpl in He. rewrite He. simpl.
    eexists. split; [reflexivity|]. rewrite Hsc, Hs'. reflexivity.
Qed.
Lemma assess_wf p t : wf_trace p t ->
  exists s, assess p (choices t) (t_args t) = Ok s /\ s == score t.
Proof.
  intros [ND H]. unfold assess. rewrite ND.
  apply (assess_sites_wf p (t_subs t) [] (t_args t) H). simpl. now apply nodupb_NoDup.
Qed.

(* the update of a well-formed trace *)
Lemma upd_sites_spec ss : forall subs pre c envO envN nsubs w bwd,
  wf_sites ss subs envO -> NoDup (keys pre ++ addrs ss) ->
  upd_sites ss (pre ++ subs) c envN = Ok (nsubs, w, bwd) ->
  wf_sites ss nsubs envN /\ w == sum_scores nsubs - sum_scores subs
  /\ choices_of nsubs = override (choices_of subs) c /\ bwd = discard (choices_of subs) c.
Proof.
  induction ss as [|s r IH]; intros [|e subs] pre c envO envN nsubs w bwd H ND U; simpl in *; try tauto.
  - inversion U; subst. simpl. repeat split; auto; try ring.
  - destruct e as [a [v0 sc0]]. simpl in *. destruct H as (Ha & Hsc & Hwf). subst a.
    apply nodup_mid in ND as [Hnin ND].
    rewrite lookup_app_r in U by exact Hnin. simpl in U. rewrite Nat.eqb_refl in U.
    set (v := match get c (s_addr s) with Some v' => v' | None => v0 end) in *.
    destruct (upd_sites r (pre ++ (s_addr s, (v0, sc0)) :: subs) c (envN ++ [v])) as [[[ns w'] b']|] eqn:E;
      simpl in U; [|discriminate].
    inversion U; subst; clear U.
    specialize (IH subs (pre ++ [(s_addr s, (v0, sc0))]) c (envO ++ [v0]) (envN ++ [v]) ns w' b' Hwf).
    rewrite keys_app in IH. simpl in IH. specialize (IH ND).
    rewrite <- app_assoc in IH. simpl in IH. specialize (IH E).
    destruct IH as (W & Hw & Hc & Hb). simpl.
    split; [split; [reflexivity|split; [reflexivity|exact W]]|].
    split; [rewrite Hw; ring|]. split.
    + unfold override at 1. simpl. fold (override (choices_of subs) c). now rewrite Hc.
    + unfold discard at 1. simpl. fold (discard (choices_of subs) c).
      destruct (get c (s_addr s)); simpl; now rewrite Hb.
Qed.

Lemma update_spec p t c nt w bwd :
  wf_trace p t -> update p t c = Ok (nt, w, bwd) ->
  wf_trace p nt /\ t_args nt = t_args t /\ w == score nt - score t
  /\ choices nt = override (choices t) c /\ bwd = discard (choices t) c.
Proof.
  intros [ND H] U. unfold update in U. rewrite ND in U.
  destruct (upd_sites p (t_subs t) c (t_args t)) as [[[ns w'] b']|] eqn:E; simpl in U; [|discriminate].
  inversion U; subst; clear U.
  destruct (upd_sites_spec p (t_subs t) [] c (t_args t) (t_args t) ns w bwd H) as (W & Hw & Hc & Hb); auto.
  { simpl. now apply nodupb_NoDup. }
  unfold wf_trace, score, choices. simpl. repeat split; auto.
Qed.

(* update of a well-formed trace cannot fail (every site finds its subtrace) *)
Lemma upd_sites_ok ss : forall subs pre c envO envN,
  wf_sites ss subs envO -> NoDup (keys pre ++ addrs ss) ->
  exists r, upd_sites ss (pre ++ subs) c envN = Ok r.
Proof.
  induction ss as [|s r IH]; intros [|e subs] pre c envO envN H ND; simpl in *; try tauto.
  - eexists; reflexivity.
  - destruct e as [a [v0 sc0]]. simpl in *. destruct H as (Ha & Hsc & Hwf). subst a.
    apply nodup_mid in ND as [Hnin ND].
    rewrite lookup_app_r by exact Hnin. simpl. rewrite Nat.eqb_refl.
    set (v := match get c (s_addr s) with Some v' => v' | None => v0 end).
    specialize (IH subs (pre ++ [(s_addr s, (v0, sc0))]) c (envO ++ [v0]) (envN ++ [v]) Hwf).
    rewrite keys_app in IH. simpl in IH. specialize (IH ND).
    rewrite <- app_assoc in IH. simpl in IH. destruct IH as [[[ns w'] b'] E]. rewrite E. simpl.
    eexists; reflexivity.
Qed.
Lemma update_ok p t c : wf_trace p t -> exists r, update p t c = Ok r.
Proof.
  intros [ND H]. unfold update. rewrite ND.
  destruct (upd_sites_ok p (t_subs t) [] c (t_args t) (t_args t) H) as [[[ns w] b] E].
  { simpl. now apply nodupb_NoDup. }
  simpl in E. rewrite E. simpl. eexists; reflexivity.
Qed.

(* ---- override / discard, pointwise ---- *)
Lemma get_override x c a :
  get (override x c) a = match get x a with
                         | Some v => Some (match get c a with Some v' => v' | None => v end)
                         | None => None
                         end.
Proof.
  unfold get. induction x as [|[b v] x IH]; simpl; auto.
  destruct (Nat.eqb a b) eqn:E; auto. apply Nat.eqb_eq in E. subst. reflexivity.
Qed.
Lemma get_discard x c a : NoDup (keys x) ->
  get (discard x c) a = if is_some (get c a) then get x a else None.
Proof.
  unfold discard. unfold get. induction x as [|[b v] x IH]; simpl; intros ND.
  - destruct (is_some (lookup c a)); reflexivity.
  - inversion ND as [|? ? Hn ND']; subst. specialize (IH ND').
    destruct (is_some (lookup c b)) eqn:Eb; simpl.
    + destruct (Nat.eqb a b) eqn:E.
      * apply Nat.eqb_eq in E. subst. now rewrite Eb.
      * exact IH.
    + destruct (Nat.eqb a b) eqn:E.
      * apply Nat.eqb_eq in E. subst. rewrite Eb.
        apply lookup_notin. unfold keys. intros Hin. apply Hn.
        apply in_map_iff in Hin as ([k w] & Hk & Hin). apply filter_In in Hin as [Hin _].
        simpl in Hk. subst. apply in_map_iff. exists (b, w). auto.
      * exact IH.
Qed.
Lemma keys_override x c : keys (override x c) = keys x.
Proof. unfold keys, override. rewrite map_map. reflexivity. Qed.
