(* C25 -- Marginal is an unbiased density sampler for the selected choices.
   Model: coq/model/Infer.v (marg_rw, marg_est, marg_rw_alg mirror sp.py:Marginal), over ALL flat
   discrete generative functions (any number of sites, any finite supports, any conditional
   pmfs), in probability space over the rationals (Prob.v).  The sampler's outcomes are
   (output, weight) pairs with their probabilities; E is the expectation.
   Hypotheses: m_wf (supports list each value once), m_normed (every conditional sums to 1),
   m_pos (every listed value has positive conditional probability: the support condition
   of the stochastic probability interface). *)
From Coq Require Import List ZArith QArith Qcanon Bool.
Import ListNotations.
From Model Require Import Prob Infer.
From Proofs Require Import ProbProofs InferProofs InferExamples.
Open Scope Qc_scope.

(* what random_weighted returns: the selected choices of a simulated trace t, and (in
   probability space) score / project(~selection) = project(selection): the product of the
   selected sites' conditionals given the values t assigns to the earlier sites *)
Theorem C25_marginal_weight_is_project : forall m b o w p, m_pos m ->
  In ((o, w), p) (marg_rw m b) ->
  exists t, In t (ctraces m []) /\ o = fselb true b t /\ w = projb true m [] b t /\ p = dens m [] t.
Proof. exact marginal_weight_is_project. Qed.
Print Assumptions C25_marginal_weight_is_project.

(* GenSP Defn 3.2 (sp.py:Algorithm.random_weighted docstring): for every assignment x of supported
   values to the selected sites, sum over the runs that return x of P(run) / w(run) = 1 ... *)
Theorem C25_marginal_unbiased : forall m b, m_wf m -> m_normed m -> m_pos m ->
  forall x, In x (outs m b) -> E (inv_on cmap_eqb x) (marg_rw m b) = 1.
Proof. exact marginal_uds. Qed.
Print Assumptions C25_marginal_unbiased.

(* ... the probability of returning x is the marginal probability of x under the program ... *)
Theorem C25_marginal_prob_is_marginal : forall m b x, m_wf m -> In x (outs m b) ->
  prob_out cmap_eqb (marg_rw m b) x = evidence m x.
Proof. exact marginal_prob. Qed.
Print Assumptions C25_marginal_prob_is_marginal.

(* ... hence E[1/w | S = x] = 1 / p(x), with w = exp(returned log-weight) *)
Theorem C25_marginal_unbiased_spi : forall m b x, m_wf m -> m_normed m -> m_pos m -> In x (outs m b) ->
  cond_inv_w cmap_eqb (marg_rw m b) x = / evidence m x.
Proof. exact marginal_unbiased. Qed.
Print Assumptions C25_marginal_unbiased_spi.

Example C25_marginal_unbiased_nonvacuous :
  m_wf ex_m /\ m_normed ex_m /\ m_pos ex_m /\ In [None; Some 1%Z] (outs ex_m [false; true])
  /\ cond_inv_w cmap_eqb (marg_rw ex_m [false; true]) [None; Some 1%Z] = q 2 1
  /\ evidence ex_m [None; Some 1%Z] = q 1 2.
Proof. exact marginal_unbiased_nonvacuous. Qed.

(* the positivity hypothesis is needed: a listed value of conditional probability 0 breaks it *)
Theorem C25_marginal_unbiased_needs_support_refuted :
  exists m b x, m_wf m /\ m_normed m /\ In x (outs m b) /\ E (inv_on cmap_eqb x) (marg_rw m b) <> 1.
Proof. exact marginal_unbiased_needs_positivity. Qed.
Print Assumptions C25_marginal_unbiased_needs_support_refuted.

(* estimate_logpdf (no algorithm) is an unbiased estimate of the marginal density (Defn 3.1);
   no hypothesis on the model *)
Theorem C25_estimate_logpdf_unbiased : forall m v, E (fun w => w) (marg_est m v) = evidence m v.
Proof. exact marginal_estimate_unbiased. Qed.
Print Assumptions C25_estimate_logpdf_unbiased.

(* everything selected: w is the exact joint density, and estimate_logpdf of the same sample
   is deterministic and returns the same number *)
Theorem C25_marginal_all_exact : forall m o w p, m_pos m -> In ((o, w), p) (marg_rw m (all_sel m)) ->
  exists t, o = map Some t /\ w = dens m [] t /\ w = evidence m o /\ marg_est m o = ret w.
Proof. exact marginal_all_exact. Qed.
Print Assumptions C25_marginal_all_exact.

(* the unselected choices do not influence the selected ones: w is the exact marginal density of
   the selected choices ... *)
Theorem C25_marginal_independent_exact : forall m b t, m_normed m -> sel_indep m b ->
  In t (ctraces m []) -> projb true m [] b t = evidence m (fselb true b t).
Proof. exact marginal_indep_exact. Qed.
Print Assumptions C25_marginal_independent_exact.
(* ... and every value estimate_logpdf can return for that sample equals it *)
Theorem C25_marginal_independent_estimate : forall m b t w p, m_normed m -> sel_indep m b ->
  In t (ctraces m []) -> In (w, p) (marg_est m (fselb true b t)) -> w = projb true m [] b t.
Proof. exact marginal_indep_estimate. Qed.
Print Assumptions C25_marginal_independent_estimate.
Example C25_independent_nonvacuous : sel_indep ex_m [true; false] /\ ~ sel_indep ex_m [false; true].
Proof. exact sel_indep_nonvacuous. Qed.

(* WITH an inference algorithm (Importance / ImportanceK whose target constrains the selected
   addresses): the weight Marginal.random_weighted returns is NOT an unbiased density estimate,
   for K = 1 and K = 2, and with everything selected it is not the density of the sample
   (it is the density of the algorithm's own constraint).  Known finding; see notes/C25.md. *)
Theorem C25_marginal_algorithm_refuted :
  exists m b a x, m_wf m /\ m_normed m /\ m_pos m /\ In x (outs m b)
    /\ E (inv_on cmap_eqb x) (marg_rw_alg m b a) <> 1.
Proof. exact marginal_alg_not_unbiased. Qed.
Print Assumptions C25_marginal_algorithm_refuted.
Theorem C25_marginal_algorithm_K2_refuted :
  exists m b a x, m_wf m /\ m_normed m /\ m_pos m /\ In x (outs m b)
    /\ E (inv_on cmap_eqb x) (marg_rw_alg m b a) <> 1.
Proof. exact marginal_alg_K2_not_unbiased. Qed.
Print Assumptions C25_marginal_algorithm_K2_refuted.
Theorem C25_marginal_algorithm_all_selected_refuted :
  exists m a o w p, m_wf m /\ m_normed m /\ m_pos m
    /\ In ((o, w), p) (marg_rw_alg m (all_sel m) a) /\ p <> 0 /\ w <> evidence m o.
Proof. exact marginal_alg_all_selected_not_exact. Qed.
Print Assumptions C25_marginal_algorithm_all_selected_refuted.
