(* Model of genjax/_src/generative_functions/distributions/distribution.py:
   Distribution / ExactDensity / exact_density (C24).

   Part 1 (Section Wrapper): the GFI methods of a distribution wrapper as the code
   composes them, parametric in an abstract sampler `d_sample` and an abstract
   per-leaf log-density `d_logprob` (TFP's `sample` / `log_prob` for the exported
   wrappers).  Scores and weights live in Z (log space).
   Part 2: `kwargle`, the way exact_density recognises a keyword invocation.
   Part 3: the integer-exact probe distributions the harness defines through
   `exact_density` (harness/tfp_engine.py), and the correspondence cases. *)
From Coq Require Import List Bool ZArith NArith.
Import ListNotations.
From Model Require Import Kwargs.
Open Scope Z_scope.

Definition zsum (l : list Z) : Z := fold_right Z.add 0 l.

(* what `logpdf` returns: a 0-d array, or an array with leaves (batch / sample shape) *)
Inductive lp := LS (z : Z) | LV (l : list Z).
Definition leaves (w : lp) : list Z := match w with LS z => [z] | LV l => l end.
(* ExactDensity.estimate_logpdf: `w = self.logpdf(v, *args); if w.shape: return jnp.sum(w) else: return w` *)
Definition est (w : lp) : Z := match w with LS z => z | LV l => zsum l end.

Inductive tag := NoChange | Unknown.

(* ------------------------------------------------------------------------- *)
Section Wrapper.
Variables key params value : Type.
Variable d_sample : key -> params -> value.
Variable d_logprob : value -> params -> lp.

(* DistributionTrace(gen_fn, args, value, score) *)
Record trace := mkTr { t_args : params; t_value : value; t_score : Z }.

Definition estimate_logpdf (v : value) (a : params) : Z := est (d_logprob v a).

(* ExactDensity.random_weighted: v = sample(key, *args); w = estimate_logpdf(key, v, *args) *)
Definition random_weighted (k : key) (a : params) : Z * value :=
  let v := d_sample k a in (estimate_logpdf v a, v).

(* Distribution.simulate *)
Definition simulate (k : key) (a : params) : trace :=
  let '(w, v) := random_weighted k a in mkTr a v w.

(* what `chm.get_value()` returns at a distribution: None, a value, or Mask(value, flag)
   with an array flag (concrete flags were folded away by Choice.build / ChoiceMap.mask) *)
Inductive constraint := CNone | CVal (v : value) | CMask (flag : bool) (v : value).

(* Distribution.generate_choice_map *)
Definition generate (k : key) (c : constraint) (a : params) : trace * Z :=
  match c with
  | CNone => (simulate k a, 0)
  | CMask flag v =>
      (* jax.lax.cond(flag, _importance, _simulate, key, value) *)
      let '(score, w, new_v) :=
        if flag then (let w := estimate_logpdf v a in (w, w, v))
        else (let '(score, new_v) := random_weighted k a in (score, 0, new_v)) in
      (mkTr a new_v score, w)
  | CVal v => let w := estimate_logpdf v a in (mkTr a v w, w)
  end.
(* GenerativeFunction.importance = generate *)
Definition importance := generate.

(* ExactDensity.assess (checkify off: the flag of a masked value is not consulted);
   with no value `logpdf(None, ...)` raises *)
Definition assess (c : constraint) (a : params) : option (Z * value) :=
  match c with
  | CMask _ v => Some (estimate_logpdf v a, v)
  | CVal v => Some (estimate_logpdf v a, v)
  | CNone => None
  end.

(* the constraint of the backward Update request *)
Inductive bwdc := BEmpty | BVal (v : value) | BMask (flag : bool) (v : value).
Record edit_out := mkE { e_trace : trace; e_weight : Z; e_retdiff : tag; e_bwd : bwdc }.

(* Distribution.edit_update_with_constraint; a' = Diff.tree_primal(argdiffs).  The change
   tags of the arguments are not consulted on this path. *)
Definition edit_update (k : key) (tr : trace) (c : constraint) (a' : params) : edit_out :=
  match c with
  | CMask flag v =>
      let old_value := t_value tr in
      let '(new_value, w, score) :=
        if flag
        then (let fwd := estimate_logpdf v a' in (v, fwd - t_score tr, fwd))                 (* _true_branch *)
        else (let fwd := estimate_logpdf old_value a' in (old_value, fwd - t_score tr, fwd)) (* _false_branch *)
      in mkE (mkTr a' new_value score) w Unknown (BMask flag old_value)
  | CNone =>
      let v := t_value tr in
      let fwd := estimate_logpdf v a' in
      mkE (mkTr a' v fwd) (fwd - t_score tr) NoChange BEmpty
  | CVal v =>
      let fwd := estimate_logpdf v a' in
      mkE (mkTr a' v fwd) (fwd - t_score tr) Unknown (BVal (t_value tr))
  end.

(* Distribution.project: jnp.where(selection.check(), trace.get_score(), 0.0) *)
Definition project (tr : trace) (selected : bool) : Z := if selected then t_score tr else 0.

(* Distribution.edit_regenerate; `selected` is `() in selection` (a Python bool for every
   Selection class); `nochange` is Diff.static_check_no_change(argdiffs) *)
Definition edit_regenerate (k : key) (tr : trace) (selected : bool) (a' : params) (nochange : bool) : edit_out :=
  if selected then
    let '(w, new_v) := random_weighted k a' in
    mkE (mkTr a' new_v w) (w - t_score tr) Unknown (BVal (t_value tr))
  else if nochange then mkE tr 0 NoChange BEmpty
  else
    (* new_score, _ = self.assess(trace.get_choices(), primals) *)
    let new_score := estimate_logpdf (t_value tr) a' in
    mkE (mkTr a' (t_value tr) new_score) (new_score - t_score tr) NoChange BEmpty.

(* GenerativeFunction.update: Update(constraint).edit(...), returns bwd.constraint *)
Definition update := edit_update.
(* GenerativeFunction.propose: (tr.get_choices(), tr.get_score(), tr.get_retval()) *)
Definition propose (k : key) (a : params) : value * Z * value :=
  let tr := simulate k a in (t_value tr, t_score tr, t_value tr).

(* the invariant behind C24: a trace's score is the sum of the leaves of log_prob at its
   value and arguments *)
Definition trace_ok (tr : trace) : Prop :=
  t_score tr = zsum (leaves (d_logprob (t_value tr) (t_args tr))).

End Wrapper.

Arguments mkTr {params value}. Arguments t_args {params value}. Arguments t_value {params value}.
Arguments t_score {params value}.
Arguments CNone {value}. Arguments CVal {value}. Arguments CMask {value}.
Arguments BEmpty {value}. Arguments BVal {value}. Arguments BMask {value}.
Arguments mkE {params value}. Arguments e_trace {params value}. Arguments e_weight {params value}.
Arguments e_retdiff {params value}. Arguments e_bwd {params value}.

(* ------------------------------------------------------------------------- *)
(* Part 2: exact_density's `kwargle`.  A distribution answers handle_kwargs() with itself;
   a keyword invocation then reaches sample/logpdf with args = (positional tuple, kwargs dict):

     if len(args) == 2 and isinstance(args[1], dict): f(a0, *args[0], **args[1])
     else:                                            f(a0, *args, **kwargs)          *)
Inductive aval := AZ (z : Z) | ATup (l : list Z) | ADict (kw : list (nat * Z)).


(* args[0] must be unpackable: a tuple.  (pos, kw) seen by the underlying function, None when
   `*args[0]` is not a tuple of numbers *)
Definition kwargle_args (args : list aval) : option (list aval * list (nat * Z)) :=
  match args with
  | [ATup pos; ADict kw] => Some (map AZ pos, kw)
  | [_; ADict _] => None
  | _ => Some (args, [])
  end.

Definition as_nums (l : list aval) : option (list Z) :=
  fold_right (fun a acc => match a, acc with AZ z, Some r => Some (z :: r) | _, _ => None end) (Some []) l.

(* the parameters the underlying sampler / density finally receives, in signature order *)
Definition kw_bind (sig : sigt Z) (args : list aval) : option (list Z) :=
  match kwargle_args args with
  | None => None
  | Some (pos, kw) => match as_nums pos with Some p => bind sig p kw | None => None end
  end.

(* `handle_kwargs: lambda self: self` *)
Definition handle_kwargs {A} (d : A) : A := d.

(* ------------------------------------------------------------------------- *)
(* Part 3: probes.  sample leaf i = <sw, params> + (((k0 xor k1) >> (shift + i)) land 3)
                    logpdf leaf i = a * v_i + <bs, params> + c + i                       *)
Record pspec := { ps_sig : sigt Z; ps_sw : list Z; ps_a : Z; ps_bs : list Z; ps_c : Z;
                  ps_shift : N; ps_n : nat (* 0: scalar *) }.
Fixpoint dot (l1 l2 : list Z) : Z :=
  match l1, l2 with x :: r1, y :: r2 => x * y + dot r1 r2 | _, _ => 0 end.
Definition pkey := (N * N)%type.
Definition bits (k : pkey) (s : N) : Z := Z.of_N (N.land (N.shiftr (N.lxor (fst k) (snd k)) s) 3).
Definition p_sample (ps : pspec) (k : pkey) (p : list Z) : list Z :=
  map (fun i => dot (ps_sw ps) p + bits k (ps_shift ps + N.of_nat i)) (seq 0 (Nat.max 1 (ps_n ps))).
Definition p_logprob (ps : pspec) (v : list Z) (p : list Z) : lp :=
  match ps_n ps with
  | O => LS (ps_a ps * hd 0 v + dot (ps_bs ps) p + ps_c ps)
  | _ => LV (map (fun iv => ps_a ps * snd iv + dot (ps_bs ps) p + ps_c ps + Z.of_nat (fst iv))
                 (combine (seq 0 (length v)) v))
  end.

Definition req (n : nat) : nat * option Z := (n, None).
Definition probes : list pspec :=
  [ {| ps_sig := [req 0]; ps_sw := [1]; ps_a := 2; ps_bs := [3]; ps_c := 5; ps_shift := 0; ps_n := 0 |};
    {| ps_sig := [req 0; req 1]; ps_sw := [1; 2]; ps_a := 7; ps_bs := [11; 13]; ps_c := 3; ps_shift := 3; ps_n := 0 |};
    {| ps_sig := [req 0; req 1]; ps_sw := [1; 3]; ps_a := 2; ps_bs := [3; 5]; ps_c := 1; ps_shift := 5; ps_n := 3 |};
    {| ps_sig := [req 0; req 1]; ps_sw := [2; 1]; ps_a := 3; ps_bs := [5; 7]; ps_c := 2; ps_shift := 9; ps_n := 4 |};
    {| ps_sig := []; ps_sw := []; ps_a := 5; ps_bs := []; ps_c := 4; ps_shift := 6; ps_n := 0 |};
    {| ps_sig := [req 0; req 1; (2%nat, Some 1)]; ps_sw := [1; 1; 1]; ps_a := 5; ps_bs := [2; 3; 4]; ps_c := 0; ps_shift := 2; ps_n := 0 |} ].
Definition probe (d : nat) : pspec := nth d probes {| ps_sig := []; ps_sw := []; ps_a := 0; ps_bs := []; ps_c := 0; ps_shift := 0; ps_n := 0 |}.

(* the probe as a wrapper over argument packages *)
Definition pd_sample (d : nat) (k : pkey) (a : list aval) : list Z :=
  match kw_bind (ps_sig (probe d)) a with Some p => p_sample (probe d) k p | None => [] end.
Definition pd_logprob (d : nat) (v : list Z) (a : list aval) : lp :=
  match kw_bind (ps_sig (probe d)) a with Some p => p_logprob (probe d) v p | None => LS 0 end.
Definition args_ok (d : nat) (a : list aval) : bool :=
  match kw_bind (ps_sig (probe d)) a with Some _ => true | None => false end.

(* ---- observations, as the harness canonicalises them ---- *)
Definition flat_args (a : list aval) : list Z :=
  flat_map (fun x => match x with AZ z => [z] | ATup l => l | ADict kw => map snd (kw_sorted kw) end) a.
Definition tag_z (t : tag) : Z := match t with NoChange => 0 | Unknown => 1 end.
Definition bwd_z (b : @bwdc (list Z)) : list Z :=
  match b with BEmpty => [0] | BVal v => 1 :: v | BMask f v => 2 :: (if f then 1 else 0) :: v end.
Definition obs_trace (tr : @trace (list aval) (list Z)) : list Z := t_value tr ++ [t_score tr] ++ flat_args (t_args tr).
Definition obs_edit (e : @edit_out (list aval) (list Z)) : list Z :=
  t_value (e_trace e) ++ [t_score (e_trace e); e_weight e; tag_z (e_retdiff e)] ++ bwd_z (e_bwd e) ++ flat_args (t_args (e_trace e)).

Inductive dop :=
| OSim | OPropose
| OAssess (c : @constraint (list Z))
| OGen (c : @constraint (list Z))
| OImp (c : @constraint (list Z))
| OProject (selected : bool)
| OEdit (c : @constraint (list Z)) (a' : list aval)
| OUpdate (c : @constraint (list Z)) (a' : list aval)
| ORegen (selected : bool) (a' : list aval) (nochange : bool).

(* trace-consuming operations start from simulate(k0, a0); the operation itself uses key k *)
Inductive dcase := DCase (d : nat) (k0 : pkey) (a0 : list aval) (k : pkey) (op : dop) (want : option (list Z)).

Definition run_dop (d : nat) (k0 : pkey) (a0 : list aval) (k : pkey) (op : dop) : option (list Z) :=
  let S := pd_sample d in
  let L := pd_logprob d in
  if negb (args_ok d a0) then None else
  let tr0 := simulate _ _ _ S L k0 a0 in
  match op with
  | OSim => Some (obs_trace (simulate _ _ _ S L k a0))
  | OPropose => let '(c, s, r) := propose _ _ _ S L k a0 in Some (c ++ [s] ++ r)
  | OAssess c => match assess _ _ L c a0 with Some (s, v) => Some (s :: v) | None => None end
  | OGen c => let '(tr, w) := generate _ _ _ S L k c a0 in Some (t_value tr ++ [t_score tr; w])
  | OImp c => let '(tr, w) := importance _ _ _ S L k c a0 in Some (t_value tr ++ [t_score tr; w])
  | OProject s => Some [project _ _ tr0 s]
  | OEdit c a' => if args_ok d a' then Some (obs_edit (edit_update _ _ _ L k tr0 c a')) else None
  | OUpdate c a' => if args_ok d a' then Some (obs_edit (update _ _ _ L k tr0 c a')) else None
  | ORegen s a' nc => if args_ok d a' then Some (obs_edit (edit_regenerate _ _ _ S L k tr0 s a' nc)) else None
  end.

Fixpoint zlist_eqb (a b : list Z) : bool :=
  match a, b with [], [] => true | x :: r, y :: s => Z.eqb x y && zlist_eqb r s | _, _ => false end.
Definition oz_eqb (a b : option (list Z)) : bool :=
  match a, b with Some x, Some y => zlist_eqb x y | None, None => true | _, _ => false end.
Definition dcase_ok (c : dcase) : bool :=
  match c with DCase d k0 a0 k op want => oz_eqb (run_dop d k0 a0 k op) want end.
Fixpoint dmismatches_from (n : nat) (cs : list dcase) : list nat :=
  match cs with
  | [] => []
  | c :: r => if dcase_ok c then dmismatches_from (S n) r else n :: dmismatches_from (S n) r
  end.
Definition dmismatches := dmismatches_from 0.
