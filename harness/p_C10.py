"""C10 — engine B-gfi (harness/bgfi.py); theorems in coq/props/C10.v."""
from . import bgfi


def run(ctx):
    bgfi.run_property(ctx, "C10")


def replay(case):
    return bgfi.replay(case)
