"""C15 — engine B-gfi (harness/bgfi.py); theorems in coq/props/C15.v."""
from . import bgfi


def run(ctx):
    bgfi.run_property(ctx, "C15", oracles=bgfi.PROP_ORACLES.get("C15"))


def replay(case):
    return bgfi.replay(case)
