(* Model of
     genjax/_src/core/compiler/interpreters/incremental.py : class Diff (static helpers)
     genjax/_src/core/pytree.py : Pytree.dataclass / static / field / const / tree_const /
                                  tree_const_unwrap / partial, Const, Closure
   on top of a model of JAX pytrees as JAX itself sees them: a tree is a leaf or
   a node (node type + auxiliary data, children).  Every `Pytree.dataclass` -
   Diff, _NoChange, _UnknownChange, Const, Closure and user classes alike - is a
   node whose auxiliary data are its class and its *static* fields and whose
   children are its *dynamic* fields in declaration order
   (penzai.core.struct.Struct.tree_flatten, reached from Pytree.dataclass).
   Raised exceptions (ValueError of tree_map / tree_unflatten / vmap, beartype's
   TypeError of Diff.__init__, AssertionError) are None.
   No proofs in this file. *)
From Coq Require Import List Bool ZArith.
Import ListNotations.
Open Scope Z_scope.

(* ------------------------------------------------------------------------ *)
(* leaves, node kinds, trees                                                  *)
(* ------------------------------------------------------------------------ *)
(* Py: a Python int; Ar: a concrete array; Tr: a jax tracer (inside jit / vmap) *)
Inductive stage := Py | Ar | Tr.
Inductive leaf :=
| LS (s : stage) (z : Z)            (* scalar *)
| LV (s : stage) (l : list Z)       (* 1-d array *)
| LFn (k : Z).                      (* a Python callable (harness function number k) *)
Inductive tan := NoChange | UnknownChange.

Inductive kind :=
| KNone | KTuple | KList
| KDict (keys : list Z)                         (* keys in sorted order, as jax flattens dicts *)
| KRec (cls : nat) (layout : list (option Z))   (* user Pytree.dataclass: per declared field,
                                                   Some s = Pytree.static() field holding s,
                                                   None = dynamic field (one child each) *)
| KDiff                                         (* Diff: dynamic fields primal, tangent *)
| KTan (t : tan)                                (* _NoChange() / _UnknownChange(): no fields *)
| KConst (v : leaf)                             (* Const: one static field val *)
| KClosure (fn : Z).                            (* Closure: dynamic dyn_args (a tuple), static fn *)
Inductive tree := Leaf (l : leaf) | Node (k : kind) (cs : list tree).
(* PyTreeDef *)
Inductive def := DLeaf | DNode (k : kind) (ds : list def).

(* ------------------------------------------------------------------------ *)
(* decidable equalities                                                       *)
(* ------------------------------------------------------------------------ *)
Definition stage_eqb (a b : stage) : bool :=
  match a, b with Py, Py | Ar, Ar | Tr, Tr => true | _, _ => false end.
Section ListEqb.
  Context {A : Type}.
  Variable eq : A -> A -> bool.
  Fixpoint list_eqb (a b : list A) : bool :=
    match a, b with [], [] => true | x :: r, y :: s => eq x y && list_eqb r s | _, _ => false end.
End ListEqb.
Definition opt_eqb {A} (eq : A -> A -> bool) (a b : option A) : bool :=
  match a, b with Some x, Some y => eq x y | None, None => true | _, _ => false end.
Definition leaf_eqb (a b : leaf) : bool :=
  match a, b with
  | LS s z, LS s' z' => stage_eqb s s' && Z.eqb z z'
  | LV s l, LV s' l' => stage_eqb s s' && list_eqb Z.eqb l l'
  | LFn k, LFn k' => Z.eqb k k'
  | _, _ => false
  end.
Definition tan_eqb (a b : tan) : bool :=
  match a, b with NoChange, NoChange | UnknownChange, UnknownChange => true | _, _ => false end.
Definition kind_eqb (a b : kind) : bool :=
  match a, b with
  | KNone, KNone | KTuple, KTuple | KList, KList | KDiff, KDiff => true
  | KDict k, KDict k' => list_eqb Z.eqb k k'
  | KRec c l, KRec c' l' => Nat.eqb c c' && list_eqb (opt_eqb Z.eqb) l l'
  | KTan t, KTan t' => tan_eqb t t'
  | KConst v, KConst v' => leaf_eqb v v'
  | KClosure f, KClosure f' => Z.eqb f f'
  | _, _ => false
  end.
Fixpoint tree_eqb (a b : tree) : bool :=
  match a, b with
  | Leaf l, Leaf l' => leaf_eqb l l'
  | Node k cs, Node k' cs' => kind_eqb k k' && list_eqb tree_eqb cs cs'
  | _, _ => false
  end.
Fixpoint def_eqb (a b : def) : bool :=
  match a, b with
  | DLeaf, DLeaf => true
  | DNode k ds, DNode k' ds' => kind_eqb k k' && list_eqb def_eqb ds ds'
  | _, _ => false
  end.

(* ------------------------------------------------------------------------ *)
(* jax.tree_util                                                              *)
(* ------------------------------------------------------------------------ *)
(* tree_flatten: leaves left to right, and the treedef.  Node data (static
   fields included) never reaches the leaves. *)
Fixpoint leaves (t : tree) : list leaf :=
  match t with Leaf l => [l] | Node _ cs => flat_map leaves cs end.
Fixpoint structure (t : tree) : def :=
  match t with Leaf _ => DLeaf | Node k cs => DNode k (map structure cs) end.
Definition flatten (t : tree) : list leaf * def := (leaves t, structure t).

(* tree_unflatten: consume the leaves left to right *)
Section UnflatList.
  Variable u : def -> list leaf -> option (tree * list leaf).
  Fixpoint unflat_list (ds : list def) (ls : list leaf) : option (list tree * list leaf) :=
    match ds with
    | [] => Some ([], ls)
    | d :: r =>
        match u d ls with
        | Some (t, ls') =>
            match unflat_list r ls' with Some (ts, ls'') => Some (t :: ts, ls'') | None => None end
        | None => None
        end
    end.
End UnflatList.
Fixpoint unflat (d : def) (ls : list leaf) : option (tree * list leaf) :=
  match d with
  | DLeaf => match ls with l :: r => Some (Leaf l, r) | [] => None end
  | DNode k ds =>
      match unflat_list unflat ds ls with Some (ts, r) => Some (Node k ts, r) | None => None end
  end.
Definition unflatten (d : def) (ls : list leaf) : option tree :=
  match unflat d ls with Some (t, []) => Some t | _ => None end.

(* tree_map(f, t, is_leaf=isl): f on every leaf and on every node isl accepts;
   other nodes are rebuilt around their mapped children, so a node without
   children (None, a tangent object, a Const) is returned as it is *)
Fixpoint tmap (isl : tree -> bool) (f : tree -> tree) (t : tree) : tree :=
  match t with
  | Leaf _ => f t
  | Node k cs => if isl t then f t else Node k (map (tmap isl f) cs)
  end.
Definition no_is_leaf (_ : tree) : bool := false.
(* tree_leaves(t, is_leaf=isl) *)
Fixpoint tleaves (isl : tree -> bool) (t : tree) : list tree :=
  match t with
  | Leaf _ => [t]
  | Node k cs => if isl t then [t] else flat_map (tleaves isl) cs
  end.
Fixpoint map_leaves (g : leaf -> leaf) (t : tree) : tree :=
  match t with Leaf l => Leaf (g l) | Node k cs => Node k (map (map_leaves g) cs) end.

(* tree_map(f, t, r) without is_leaf: r is flattened "up to" t: wherever t has a
   leaf the whole subtree of r is handed to f; wherever t has a node, r must have
   a node of the same type, the same auxiliary data (dict keys, static fields)
   and the same number of children *)
Section Map2.
  Context {A B C : Type}.
  Variable f : A -> B -> option C.
  Fixpoint map2o (l1 : list A) (l2 : list B) : option (list C) :=
    match l1, l2 with
    | [], [] => Some []
    | a :: r1, b :: r2 =>
        match f a b, map2o r1 r2 with Some c, Some r => Some (c :: r) | _, _ => None end
    | _, _ => None
    end.
End Map2.
Fixpoint tmap2 (f : tree -> tree -> option tree) (t r : tree) : option tree :=
  match t with
  | Leaf _ => f t r
  | Node k cs =>
      match r with
      | Node k' rs =>
          if kind_eqb k k'
          then match map2o (tmap2 f) cs rs with Some out => Some (Node k out) | None => None end
          else None
      | Leaf _ => None
      end
  end.

(* ------------------------------------------------------------------------ *)
(* incremental.py: class Diff                                                 *)
(* ------------------------------------------------------------------------ *)
Definition TanT (tg : tan) : tree := Node (KTan tg) [].
Definition DiffT (p : tree) (tg : tan) : tree := Node KDiff [p; TanT tg].
(* Diff.is_diff, Diff.is_change_tangent *)
Definition is_diff (v : tree) : bool := match v with Node KDiff _ => true | _ => false end.
Definition is_change_tangent (v : tree) : bool := match v with Node (KTan _) _ => true | _ => false end.
(* Diff(p, t): the constructor is type-checked (`tangent: ChangeTangent`) *)
Definition mkDiff (p tg : tree) : option tree :=
  if is_change_tangent tg then Some (Node KDiff [p; tg]) else None.
(* get_primal / get_tangent *)
Definition get_primal (v : tree) : tree := match v with Node KDiff (p :: _) => p | _ => v end.
Definition get_tangent (v : tree) : tree :=
  match v with Node KDiff (_ :: tg :: _) => tg | _ => TanT NoChange end.

(* Diff.tree_diff: `jtu.tree_map(lambda p, t: Diff(p, t), tree, tangent_tree)` *)
Definition tree_diff (t tn : tree) : option tree := tmap2 mkDiff t tn.
(* Diff.tree_primal: `_inner(v) = v.get_primal() if isinstance(v, Diff) else v`,
   `jtu.tree_map(_inner, v, is_leaf=Diff.is_diff)` *)
Definition tree_primal (v : tree) : tree :=
  tmap is_diff (fun v => if is_diff v then get_primal v else v) v.
(* Diff.tree_tangent: `_inner(v) = v.get_tangent() if isinstance(v, Diff) else NoChange` *)
Definition tree_tangent (v : tree) : tree :=
  tmap is_diff (fun v => if is_diff v then get_tangent v else TanT NoChange) v.
(* Diff.no_change / Diff.unknown_change:
     primal_tree = Diff.tree_primal(tree)
     tangent_tree = jtu.tree_map(lambda _: <tangent>, primal_tree)
     return Diff.tree_diff(primal_tree, tangent_tree) *)
Definition change (tg : tan) (t : tree) : option tree :=
  let p := tree_primal t in
  let tn := tmap no_is_leaf (fun _ => TanT tg) p in
  tree_diff p tn.
Definition no_change := change NoChange.
Definition unknown_change := change UnknownChange.
(* Diff.static_check_tree_diff: all(map(is_diff, tree_leaves(v, is_leaf=is_diff))) *)
Definition static_check_tree_diff (v : tree) : bool := forallb is_diff (tleaves is_diff v).
(* Diff.static_check_no_change:
     all(isinstance(leaf, _NoChange) for leaf in
         tree_leaves(Diff.tree_tangent(v), is_leaf=Diff.is_change_tangent)) *)
Definition is_nochange (v : tree) : bool := match v with Node (KTan NoChange) _ => true | _ => false end.
Definition static_check_no_change (v : tree) : bool :=
  forallb is_nochange (tleaves is_change_tangent (tree_tangent v)).

(* ------------------------------------------------------------------------ *)
(* pytree.py                                                                  *)
(* ------------------------------------------------------------------------ *)
Definition ConstT (l : leaf) : tree := Node (KConst l) [].
Definition is_const (v : tree) : bool := match v with Node (KConst _) _ => true | _ => false end.
(* typing.static_check_is_concrete: `not isinstance(x, jc.Tracer)` *)
Definition concrete_leaf (l : leaf) : bool :=
  match l with LS Tr _ | LV Tr _ => false | _ => true end.
(* Pytree.const, on a leaf or a Const (the static value of a Const is a leaf in
   this model; wrapping containers is outside it and the generator never does) *)
Definition const_ (v : tree) : option tree :=
  match v with
  | Leaf l => if concrete_leaf l then Some (ConstT l) else None     (* assert static_check_is_concrete *)
  | Node (KConst _) _ => Some v
  | Node _ _ => None
  end.
(* Pytree.tree_const: Const stays, concrete leaf is wrapped, tracer stays *)
Definition tree_const (v : tree) : tree :=
  tmap is_const
       (fun v => match v with
                 | Node (KConst _) _ => v
                 | Leaf l => if concrete_leaf l then ConstT l else v
                 | _ => v
                 end) v.
(* Pytree.tree_const_unwrap / Const.unwrap *)
Definition unwrap (v : tree) : tree := match v with Node (KConst l) _ => Leaf l | _ => v end.
Definition tree_const_unwrap (v : tree) : tree := tmap is_const unwrap v.
(* harness function number k is `lambda *a: (k,) + a` *)
Definition apply_fn (k : Z) (args : list tree) : tree := Node KTuple (Leaf (LS Py k) :: args).
(* Const.__call__: `assert isinstance(self.val, Callable); self.val( *args)` *)
Definition const_call (c : tree) (args : list tree) : option tree :=
  match c with Node (KConst (LFn k)) _ => Some (apply_fn k args) | _ => None end.
(* Pytree.partial( *dyn)(fn) = Closure(dyn, fn);  Closure.__call__: fn( *dyn_args, *args) *)
Definition partial (dyn : list tree) (k : Z) : tree := Node (KClosure k) [Node KTuple dyn].
Definition closure_call (c : tree) (args : list tree) : option tree :=
  match c with
  | Node (KClosure k) [Node KTuple dyn] => Some (apply_fn k (dyn ++ args))
  | _ => None
  end.
(* Pytree.static_check_tree_structure_equivalence *)
Definition structure_equivalence (ts : list tree) : bool :=
  match ts with
  | [] => true
  | t :: rest => forallb (fun v => def_eqb (structure t) (structure v)) rest
  end.

(* ------------------------------------------------------------------------ *)
(* jax.jit / jax.vmap of a structural function, through flatten / unflatten   *)
(* ------------------------------------------------------------------------ *)
Definition is_fn_leaf (l : leaf) : bool := match l with LFn _ => true | _ => false end.
Definition to_tracer (l : leaf) : leaf :=
  match l with LS _ z => LS Tr z | LV _ v => LV Tr v | LFn k => LFn k end.
Definition to_array (l : leaf) : leaf :=
  match l with LS _ z => LS Ar z | LV _ v => LV Ar v | LFn k => LFn k end.
(* closed-over Python ints stay what they are; arrays passed as arguments are traced *)
Definition to_tracer_nonpy (l : leaf) : leaf :=
  match l with LS Py z => LS Py z | _ => to_tracer l end.
(* jit(f)(t): flatten t, every leaf becomes a tracer (a callable leaf is not a valid
   jax type), rebuild with the same treedef, run f, flatten the result, every leaf
   comes back as an array, rebuild *)
Definition jit_with (tr : leaf -> leaf) (args_all : bool) (f : tree -> option tree) (t : tree) : option tree :=
  let (ls, d) := flatten t in
  if args_all && existsb is_fn_leaf ls then None else
  match unflatten d (map tr ls) with
  | Some t' =>
      match f t' with
      | Some r =>
          let (ls', d') := flatten r in
          if existsb is_fn_leaf ls' then None else unflatten d' (map to_array ls')
      | None => None
      end
  | None => None
  end.
Definition jit_apply := jit_with to_tracer true.
(* variant: the function closes over the Python-int and callable leaves, only arrays are arguments *)
Definition jit_closed_apply := jit_with to_tracer_nonpy false.

(* vmap(f)(t), in_axes=0: every leaf must be a 1-d array of one common length
   n >= 1; f sees tracer scalars; modelled slice by slice, outputs stacked *)
Definition vec_len (l : leaf) : option nat := match l with LV _ v => Some (length v) | _ => None end.
Definition batch_size (ls : list leaf) : option nat :=
  match ls with
  | [] => None
  | l :: _ =>
      match vec_len l with
      | Some n =>
          if (0 <? n)%nat && forallb (fun x => match vec_len x with Some m => Nat.eqb m n | None => false end) ls
          then Some n else None
      | None => None
      end
  end.
Definition slice_leaf (i : nat) (l : leaf) : leaf :=
  match l with LV _ v => LS Tr (nth i v 0) | _ => l end.
Definition scalar_of (l : leaf) : option Z := match l with LS _ z => Some z | _ => None end.
Fixpoint all_some {A} (l : list (option A)) : option (list A) :=
  match l with
  | [] => Some []
  | Some a :: r => match all_some r with Some r' => Some (a :: r') | None => None end
  | None :: _ => None
  end.
(* column j of the per-slice outputs, stacked along a new leading axis *)
Definition stack_col (outs : list (list leaf)) (j : nat) : option leaf :=
  match all_some (map (fun ls => match nth_error ls j with Some l => scalar_of l | None => None end) outs) with
  | Some zs => Some (LV Ar zs)
  | None => None
  end.
Definition vmap_apply (f : tree -> option tree) (t : tree) : option tree :=
  let (ls, d) := flatten t in
  match batch_size ls with
  | None => None
  | Some n =>
      match all_some (map (fun i => match unflatten d (map (slice_leaf i) ls) with
                                    | Some ti => f ti | None => None end) (seq 0 n)) with
      | None => None
      | Some outs =>
          match outs with
          | [] => None
          | r0 :: _ =>
              if forallb (fun r => def_eqb (structure r) (structure r0)) outs
              then match all_some (map (stack_col (map leaves outs)) (seq 0 (length (leaves r0)))) with
                   | Some cols => unflatten (structure r0) cols
                   | None => None
                   end
              else None
          end
      end
  end.

(* ------------------------------------------------------------------------ *)
(* correspondence cases                                                       *)
(* ------------------------------------------------------------------------ *)
Inductive op :=
| OId | ORoundtrip                       (* identity; tree_unflatten(tree_flatten(t)) *)
| OPrimal | OTangent | ONoChange | OUnknownChange
| OTreeConst | OConstUnwrap | OConst.
Inductive mode := Eager | Jit | JitClosed | Vmap.
Definition run_op (o : op) (t : tree) : option tree :=
  match o with
  | OId => Some t
  | ORoundtrip => let (ls, d) := flatten t in unflatten d ls
  | OPrimal => Some (tree_primal t)
  | OTangent => Some (tree_tangent t)
  | ONoChange => no_change t
  | OUnknownChange => unknown_change t
  | OTreeConst => Some (tree_const t)
  | OConstUnwrap => Some (tree_const_unwrap t)
  | OConst => const_ t
  end.
Definition run_mode (m : mode) (f : tree -> option tree) (t : tree) : option tree :=
  match m with
  | Eager => f t
  | Jit => jit_apply f t
  | JitClosed => jit_closed_apply f t
  | Vmap => vmap_apply f t
  end.

Inductive dcase :=
| CApply (m : mode) (o : op) (t : tree) (want : option tree)
| CTreeDiff (t tn : tree) (want : option tree)
| CChecks (t : tree) (all_diff no_chg : bool)              (* the two static checks *)
| CFlatten (t : tree) (ls : list leaf) (d : def)            (* jtu.tree_flatten *)
| CUnflatten (d : def) (ls : list leaf) (want : option tree)
| CClosure (m : mode) (k : Z) (dyn args : list tree) (want : option tree)   (* Pytree.partial( *dyn)(fn_k)( *args) *)
| CConstCall (c : tree) (args : list tree) (want : option tree)
| CEquiv (ts : list tree) (want : bool).

Definition otree_eqb := opt_eqb tree_eqb.
Definition dcase_ok (c : dcase) : bool :=
  match c with
  | CApply m o t w => otree_eqb (run_mode m (run_op o) t) w
  | CTreeDiff t tn w => otree_eqb (tree_diff t tn) w
  | CChecks t a n => Bool.eqb (static_check_tree_diff t) a && Bool.eqb (static_check_no_change t) n
  | CFlatten t ls d => list_eqb leaf_eqb (leaves t) ls && def_eqb (structure t) d
  | CUnflatten d ls w => otree_eqb (unflatten d ls) w
  | CClosure m k dyn args w =>
      (* the closure is built outside, passed through the mode, called inside *)
      otree_eqb (run_mode m (fun c => closure_call c args) (partial dyn k)) w
  | CConstCall c args w => otree_eqb (const_call c args) w
  | CEquiv ts w => Bool.eqb (structure_equivalence ts) w
  end.
Fixpoint dmismatches_from (n : nat) (cs : list dcase) : list nat :=
  match cs with
  | [] => []
  | c :: r => if dcase_ok c then dmismatches_from (S n) r else n :: dmismatches_from (S n) r
  end.
Definition dmismatches := dmismatches_from 0.
