"""known-finding witness (C29): a sampling site inside a lax.cond branch gets only the REST OF THE
BRANCH as its continuation; the rest of the program is applied afterwards to the branch's
(expected) Dual.  With x = cond(b, flip_enum(p) ? 1 : 0, 0) and loss x*x the estimator returns
q*p^2 (tangent 2*q*p) for E[x^2] = q*p (tangent q).  The continuation after the cond also re-uses
the cond's key.  exit 1 while present."""
import sys, jax, jax.numpy as jnp
from genjax.adev import expectation, flip_enum, Dual

@expectation
def loss(p):
    b = flip_enum(0.5)
    x = jax.lax.cond(b, lambda: jnp.where(flip_enum(p), 1.0, 0.0), lambda: jnp.float32(0.0) * p)
    return x * x

bad = []
d = loss.jvp_estimate(jax.random.key(0), (Dual(0.25, 1.0),))
if abs(float(d.primal) - 0.125) > 1e-6 or abs(float(d.tangent) - 0.5) > 1e-6:
    bad.append(("estimate", float(d.primal), float(d.tangent), "exact: 0.125, 0.5"))
print("FAIL" if bad else "OK", bad[:2])
sys.exit(1 if bad else 0)
