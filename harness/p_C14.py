"""C14 — engine B-gfi (harness/bgfi.py); theorems in coq/props/C14.v."""
from . import bgfi


def run(ctx):
    bgfi.run_property(ctx, "C14", oracles=bgfi.PROP_ORACLES.get("C14"))


def replay(case):
    return bgfi.replay(case)
