"""C34: SwitchTrace.get_inner_trace picks the branch subtrace with `self.subtraces[self.get_idx()]`, a Python list
indexed by the index ARRAY.  Under vmap / scan the index is batched, so get_subtrace of an address the program
traced under vmap(switch(...)) raises TypeError instead of returning the (stacked) subtrace.
exit 0 = property holds, exit 1 = defect shows."""
import sys, os
os.environ.setdefault("JAX_PLATFORMS", "cpu")
import jax, jax.numpy as jnp, genjax
from genjax import gen, normal

@gen
def inner(x):
    return normal(x, 1.0) @ "y"

@gen
def b0(x):
    return inner(x) @ "z"

@gen
def b1(x):
    return inner(x + 1.0) @ "z"

sw = genjax.switch(b0, b1)
g = sw.vmap(in_axes=(0, None, None))
tr = g.simulate(jax.random.key(0), (jnp.array([0, 1, 0]), (0.0,), (0.0,)))
parent = tr.get_choices()
try:
    st = tr.get_subtrace("z")
except Exception as e:
    print("get_subtrace('z') under vmap(switch) raised", type(e).__name__, str(e)[:80]); sys.exit(1)
ok = bool(jnp.allclose(st.get_choices()["y"], parent[:, "z", "y"].unmask() if hasattr(parent[:, "z", "y"], "unmask") else parent[:, "z", "y"]))
print("subtrace choices agree with the parent's submap:", ok)
sys.exit(0 if ok else 1)
