(* More derived combinators as their documented reference programs: repeat (C11), iterate and accumulate (C12). *)
From Coq Require Import List Bool ZArith NArith Lia Arith.
Import ListNotations.
From Gen Require Import SelGen.
From Model Require Import Key Sel GFI GFIEdit Derived.
From Proofs Require Import GFIBase GFIRef GFIWf GFIConsistent GFIProject GFISim GFIDerived.
Open Scope Z_scope.

Lemma eval_vars_from (pre l : list val) :
  mapM (eval (pre ++ l)) (map EVar (seq (length pre) (length l))) = Ok l.
Proof.
  revert pre. induction l as [|x r IH]; intros pre; [reflexivity|]. simpl seq. simpl map. rewrite mapM_cons. simpl eval.
  rewrite nth_error_app2 by lia. rewrite Nat.sub_diag. simpl.
  replace (pre ++ x :: r) with ((pre ++ [x]) ++ r) by (rewrite <- app_assoc; reflexivity).
  specialize (IH (pre ++ [x])). rewrite app_length in IH. simpl in IH. rewrite Nat.add_1_r in IH. rewrite IH. reflexivity.
Qed.
Lemma eval_vars (a : list val) : eval_list a (map EVar (seq 0 (length a))) = Ok a.
Proof. apply (eval_vars_from [] a). Qed.
Lemma eval_projs_from (x0 : val) (pre l : list val) :
  mapM (eval [x0; VT (pre ++ l)]) (map (fun i => EProj i (EVar 1)) (seq (length pre) (length l))) = Ok l.
Proof.
  revert pre. induction l as [|x r IH]; intros pre; [reflexivity|]. simpl seq. simpl map. rewrite mapM_cons. simpl eval.
  rewrite nth_error_app2 by lia. rewrite Nat.sub_diag. simpl.
  replace (pre ++ x :: r) with ((pre ++ [x]) ++ r) by (rewrite <- app_assoc; reflexivity).
  specialize (IH (pre ++ [x])). rewrite app_length in IH. simpl in IH. rewrite Nat.add_1_r in IH. rewrite IH. reflexivity.
Qed.
Lemma eval_projs x0 (a : list val) : eval_list [x0; VT a] (map (fun i => EProj i (EVar 1)) (seq 0 (length a))) = Ok a.
Proof. apply (eval_projs_from x0 [] a). Qed.

Lemma wft_dimap_eq pre g post inner args ret :
  wft (GDimap pre g post) (TDimap inner args ret) =
  (eval_list args pre = Ok (t_args inner) /\ wft g inner /\ eval [VT args; VT (t_args inner); t_retval inner] post = Ok ret).
Proof. reflexivity. Qed.

Lemma nth_repeat_in {A} (a d : A) m j : (j < m)%nat -> nth j (repeat a m) d = a.
Proof. revert j; induction m as [|m IH]; intros j H; [lia|]. destruct j; simpl; [reflexivity | apply IH; lia]. Qed.

(* repeat(n): n independent calls of g on the same arguments *)
Theorem repeat_is_n_copies n g t :
  wft (g_repeat n g (length (t_args t))) t ->
  exists us, length us = n /\
    (forall j u, nth_error us j = Some u -> wft g u /\ t_args u = t_args t /\ csub (t_choices t) (KI j) = t_choices u) /\
    t_retval t = VA (map t_retval us) /\ t_score t = zsum (map t_score us).
Proof.
  unfold g_repeat. intros H. destruct t; try (simpl in H; contradiction). rewrite wft_dimap_eq in H. destruct H as [Hpre [Hw Hpost]].
  simpl t_args in *. unfold eval_list in Hpre. rewrite mapM_cons in Hpre. cbn [eval bind] in Hpre. rewrite mapM_cons in Hpre. cbn [eval] in Hpre.
  change ((fix go (l : list expr) : res (list val) := match l with [] => Ok [] | x :: r => do v <- eval args x; do vs <- go r; Ok (v :: vs) end)
            (map EVar (seq 0 (length args)))) with (eval_list args (map EVar (seq 0 (length args)))) in Hpre.
  rewrite eval_vars in Hpre. simpl in Hpre.
  destruct t; simpl in Hw; try contradiction. destruct Hw as [m [Hlen [Hm Hall]]].
  simpl t_args in Hpre. inversion Hpre; subst args0. clear Hpre.
  simpl in Hlen. rewrite repeat_length in Hlen. inversion Hlen; subst m. clear Hlen.
  simpl in Hpost. inversion Hpost; subst ret. clear Hpost.
  exists (map inner_of inner). rewrite map_length. split; [reflexivity|]. split.
  - intros j u Hj. apply nth_error_map_inv in Hj. destruct Hj as [tj [Hj ->]].
    destruct (Hall j tj Hj) as [Hwj Haj].
    assert (Hlt : (j < length inner)%nat) by (apply nth_error_Some; congruence).
    simpl in Haj. rewrite nth_repeat_in in Haj by lia.
    destruct tj; try contradiction. destruct Hwj as [Hp [Hwu Hq]]. simpl in Haj. subst args0.
    rewrite eval_projs in Hp. inversion Hp as [Hargs]. simpl. split; [exact Hwu|]. split; [congruence|].
    fold (ichoices 0 inner). rewrite <- (Nat.add_0_l j). rewrite (csub_ichoices 0 inner j _ Hj). reflexivity.
  - assert (Hel : forall tj, In tj inner -> t_retval tj = t_retval (inner_of tj) /\ t_score tj = t_score (inner_of tj)).
    { intros tj Hin. destruct (In_nth_error _ _ Hin) as [j Hj]. destruct (Hall j tj Hj) as [Hwj _].
      destruct tj; try contradiction. destruct Hwj as [_ [_ Hq]]. inversion Hq. simpl. auto. }
    simpl. rewrite !map_map. split; [f_equal|f_equal]; apply map_ext_in; intros tj Hin; apply (Hel tj Hin).
Qed.

(* iterate: [init, f(init), f(f(init)), ...] ; accumulate: the running carries *)
Lemma iterate_chain f : forall inner i c cf ys,
  scan_ok (wft (GDimap [EVar 0] f (ETup [EVar 2; EVar 2]))) VNone i c inner cf ys ->
  iter_chain f c (map inner_of inner) cf /\ ys = map t_retval (map inner_of inner) /\
  zsum (map t_score inner) = zsum (map t_score (map inner_of inner)).
Proof.
  induction inner as [|t r IH]; intros i c cf ys H; simpl in H.
  - destruct H as [-> ->]. simpl. auto.
  - destruct H as [Hw [Ha [c' [y [ys' [Hs [-> Hr]]]]]]].
    destruct t; simpl in Hw; try contradiction. destruct Hw as [Hpre [Hw Hpost]]. simpl in Ha. subst args.
    simpl in Hpre. inversion Hpre as [Hargs]. simpl in Hpost. inversion Hpost; subst ret. simpl in Hs. inversion Hs; subst.
    destruct (IH _ _ _ _ Hr) as [H1 [H2 H3]]. simpl. rewrite H3, H2. split; [|auto].
    split; [exact Hw|]. split; [symmetry; exact Hargs | exact H1].
Qed.
Theorem iterate_is_loop n f t :
  wft (g_iterate n f) t ->
  exists init rest ts xf l, t_args t = init :: rest /\ length ts = n /\ iter_chain f init ts xf /\
    stack_vals (map t_retval ts) = VA l /\ t_retval t = VA (init :: l) /\ t_score t = zsum (map t_score ts).
Proof.
  unfold g_iterate. intros H. destruct t; simpl in H; try contradiction. destruct H as [Hpre [Hw Hpost]].
  destruct t; simpl in Hw; try contradiction.
  destruct Hw as [carry [xs [len [cf [ys [Ha [Hlen [Hn [Hok [-> ->]]]]]]]]]].
  simpl in *. destruct args as [|init rest]; simpl in Hpre; try discriminate. rewrite Ha in Hpre. inversion Hpre; subst.
  inversion Hlen; subst.
  destruct (iterate_chain f inner 0%nat _ _ _ Hok) as [H1 [H2 H3]]. subst ys.
  simpl in Hpost. destruct (stack_vals (map t_retval (map inner_of inner))) eqn:Es; try discriminate. inversion Hpost; subst.
  eexists _, _, (map inner_of inner), _, _. rewrite map_length.
  split; [reflexivity|]. split; [reflexivity|]. split; [exact H1|]. split; [exact Es|]. split; [reflexivity | exact H3].
Qed.

Lemma accumulate_chain f xs : forall inner i c cf ys,
  scan_ok (wft (GDimap [EVar 0; EVar 1] f (ETup [EVar 2; EVar 2]))) xs i c inner cf ys ->
  reduce_chain f xs i c (map inner_of inner) cf /\ ys = map t_retval (map inner_of inner) /\
  zsum (map t_score inner) = zsum (map t_score (map inner_of inner)).
Proof.
  induction inner as [|t r IH]; intros i c cf ys H; simpl in H.
  - destruct H as [-> ->]. simpl. auto.
  - destruct H as [Hw [Ha [c' [y [ys' [Hs [-> Hr]]]]]]].
    destruct t; simpl in Hw; try contradiction. destruct Hw as [Hpre [Hw Hpost]]. simpl in Ha. subst args.
    simpl in Hpre. inversion Hpre as [Hargs]. simpl in Hpost. inversion Hpost; subst ret. simpl in Hs. inversion Hs; subst.
    destruct (IH _ _ _ _ Hr) as [H1 [H2 H3]]. simpl. rewrite H3, H2. split; [|auto].
    split; [exact Hw|]. split; [symmetry; exact Hargs | exact H1].
Qed.
Theorem accumulate_is_loop f t :
  wft (g_accumulate f) t ->
  exists init xs rest ts xf l, t_args t = init :: xs :: rest /\ leading_len xs = Some (length ts) /\
    reduce_chain f xs 0 init ts xf /\ stack_vals (map t_retval ts) = VA l /\ t_retval t = VA (init :: l) /\
    t_score t = zsum (map t_score ts).
Proof.
  unfold g_accumulate. intros H. destruct t; simpl in H; try contradiction. destruct H as [Hpre [Hw Hpost]].
  destruct t; simpl in Hw; try contradiction.
  destruct Hw as [carry [xs [len [cf [ys [Ha [Hlen [Hn [Hok [-> ->]]]]]]]]]].
  simpl in *. destruct args as [|init [|xs0 rest]]; simpl in Hpre; try discriminate. rewrite Ha in Hpre. inversion Hpre; subst.
  destruct (accumulate_chain f _ inner 0%nat _ _ _ Hok) as [H1 [H2 H3]]. subst ys.
  simpl in Hpost. destruct (stack_vals (map t_retval (map inner_of inner))) eqn:Es; try discriminate. inversion Hpost; subst.
  eexists _, _, _, (map inner_of inner), _, _. rewrite map_length.
  split; [reflexivity|]. split; [exact Hlen|]. split; [exact H1|]. split; [exact Es|]. split; [reflexivity | exact H3].
Qed.

(* mix: the score is the index distribution's log-density of the component plus that component's score *)
Lemma eval_vars_mid (pre l suf : list val) :
  mapM (eval (pre ++ l ++ suf)) (map EVar (seq (length pre) (length l))) = Ok l.
Proof.
  revert pre. induction l as [|x r IH]; intros pre; [reflexivity|]. simpl seq. simpl map. rewrite mapM_cons. simpl eval.
  rewrite nth_error_app2 by lia. rewrite Nat.sub_diag. simpl.
  replace (pre ++ x :: r ++ suf) with ((pre ++ [x]) ++ r ++ suf) by (rewrite <- app_assoc; reflexivity).
  specialize (IH (pre ++ [x])). rewrite app_length in IH. simpl in IH. rewrite Nat.add_1_r in IH. rewrite IH. reflexivity.
Qed.

Theorem mix_is_index_plus_component d bs t :
  wft (g_mix d bs) t -> length (t_args t) = S (gfs_len bs) ->
  exists p bargs idx sub a,
    t_args t = VZ p :: bargs /\
    nth_error bargs (clampZ idx (gfs_len bs)) = Some (VT a) /\
    wf_branch bs (clampZ idx (gfs_len bs)) sub /\ t_args sub = a /\
    t_score t = d_logpdf d idx p + t_score sub /\ t_retval t = t_retval sub /\
    t_choices t = cprefix (map KS mix_component) [([], VZ idx)] ++ cprefix (map KS mix_sample) (t_choices sub).
Proof.
  unfold g_mix. intros H Hlen. destruct t; try (simpl in H; contradiction). simpl t_args in *.
  simpl in H. destruct subs as [|[a1 t1] subs]; [contradiction|]. destruct H as [-> [Hav1 [Hw1 H]]].
  destruct subs as [|[a2 t2] subs]; [contradiction|]. destruct H as [-> [Hav2 [Hw2 [-> Hret]]]].
  destruct t1; simpl in Hw1; try contradiction. destruct Hw1 as [-> [p [-> ->]]].
  destruct args as [|a0 bargs]; [discriminate|]. simpl in Hlen. injection Hlen as Hlen.
  unfold eval_list in Hav1. simpl in Hav1. inversion Hav1; subst a0. clear Hav1.
  simpl t_retval in *.
  destruct t2; simpl in Hw2; try contradiction.
  destruct Hw2 as [idx [bargs' [a [-> [-> [Hnth [Hwb [Ha [-> ->]]]]]]]]].
  cbn [app] in Hav2. rewrite nth_error_app2 in Hav2 by lia. rewrite Hlen, Nat.sub_diag in Hav2. cbn [nth_error bind] in Hav2.
  pose proof (eval_vars_mid [VZ p] bargs [VZ v]) as E. simpl length in E. rewrite Hlen in E. cbn [app] in E.
  unfold eval_list in Hav2. rewrite E in Hav2. simpl in Hav2. inversion Hav2; subst idx bargs'. clear Hav2 E.
  eexists p, bargs, v, _, a. simpl t_args in *.
  split; [reflexivity|]. split; [exact Hnth|]. split; [exact Hwb|]. split; [exact Ha|].
  split; [simpl; lia|]. split.
  - cbn [t_retval] in Hret. destruct bargs as [|b0 br]; simpl in Hlen; rewrite <- Hlen in Hret.
    + simpl in Hret. inversion Hret. reflexivity.
    + cbn [app] in Hret. rewrite <- app_assoc in Hret. rewrite nth_error_app2 in Hret by lia.
      replace (S (length br) - length br)%nat with 1%nat in Hret by lia. simpl in Hret. inversion Hret. reflexivity.
  - simpl. rewrite app_nil_r. reflexivity.
Qed.
