"""C24 — distribution wrappers agree with their TFP densities.  Engine C-tfp.

Three ties, all on the current /repo tree:
 (a) structure: integer-exact probe distributions built with `exact_density` (scalar / vector /
     matrix valued, positional and keyword invocations, every GFI method, masked constraints,
     argdiff kinds); inputs and the implementation's outputs go to Coq, where coq/model/Dist.v
     recomputes them (`dmismatches`);
 (b) the table: the exported wrappers are read from the module at run time and compared with the
     pinned list; every wrapper answers handle_kwargs() with itself;
 (c) direct oracle (no model): every wrapper x parameter points x {positional, keyword, mixed}:
     simulate score / assess / importance weight / update weight against the summed log_prob of the
     TFP distribution built here with explicit TFP keywords; sample dtype and support (tested).
"""
import os
import time
import numpy as np
from . import core
from . import tfp_engine as E
from . import tfp_table as TT

HEADER = "From Coq Require Import List Bool ZArith NArith.\nFrom Model Require Import Kwargs Dist."
RTOL = 1e-5     # |a-b| <= RTOL*max(1,|a|,|b|): float32 sums evaluated by two differently staged programs


# =============================================================================
# (a) probe cases
# =============================================================================
def rand_vals(rng, n):
    return [rng.randint(-3, 3) for _ in range(n)]


def gen_args(rng, d, malformed=False):
    """an argument list for probe d: positional, or packaged (positional tuple, keyword dict)"""
    sig = E.PSPECS[d][0]
    n = len(sig)
    vals = rand_vals(rng, n)
    nreq = sum(1 for s in sig if s[1] is None)
    if malformed:
        k = rng.randrange(6)
        if k == 0:   # too many positional
            return E.plain(vals + [1]), "too_many"
        if k == 1 and nreq > 0:   # too few
            return E.plain(vals[:nreq - 1]), "too_few"
        if k == 2:   # unknown keyword
            return E.packaged(vals[:n], [(7, 2)]), "unknown_kw"
        if k == 3 and n > 0:   # multiple values
            return E.packaged(vals, [(sig[0][0], 1)]), "multiple"
        if k == 4 and nreq > 0:   # missing required, by keyword
            j = rng.randrange(nreq)
            return E.packaged([], [(sig[i][0], vals[i]) for i in range(n) if i != j]), "missing"
        return [("z", 1), ("d", [(sig[0][0], 2)] if n else [])], "not_a_tuple"
    style = rng.randrange(3)
    if style == 0:
        if n > nreq and rng.random() < 0.5:
            return E.plain(vals[:nreq]), "pos_default"
        return E.plain(vals), "pos"
    j = rng.randint(0, n)                      # first j positional, the rest by keyword
    rest = list(range(j, n))
    if n > nreq and rest and rest[-1] >= nreq and rng.random() < 0.5:
        rest = rest[:-1]                       # leave the defaulted parameter out
    rng.shuffle(rest)
    return E.packaged(vals[:j], [(sig[i][0], vals[i]) for i in rest]), ("kw_all" if j == 0 else "kw_mixed")


def gen_cons(rng, d, allow_none=True):
    v = [rng.randint(-2, 4) for _ in range(E.vlen(d))]
    k = rng.randrange(5)
    if k == 0 and allow_none: return ("none",)
    if k == 1: return ("mask", True, v)
    if k == 2: return ("mask", False, v)
    return ("val", v)


def gen_probe_cases(ctx, n):
    rng = ctx.rng
    out = []
    kinds = ["sim", "propose", "assess", "gen", "imp", "project", "edit", "update", "regen"]
    for i in range(n):
        d = rng.randrange(len(E.PSPECS))
        bad = rng.random() < 0.08
        a0, style = gen_args(rng, d, malformed=bad)
        k0 = (rng.getrandbits(32), rng.getrandbits(32))
        k = (rng.getrandbits(32), rng.getrandbits(32))
        kind = kinds[i % len(kinds)] if not bad else rng.choice(kinds)
        if kind in ("sim", "propose"):
            op = (kind,)
        elif kind in ("assess",):
            op = (kind, gen_cons(rng, d, allow_none=rng.random() < 0.15))
        elif kind in ("gen", "imp"):
            op = (kind, gen_cons(rng, d))
        elif kind == "project":
            op = (kind, rng.random() < 0.5)
        else:
            same = rng.random() < 0.4
            if same:
                a1, unknown = a0, rng.random() < 0.5          # NoChange is honest only for unchanged arguments
            else:
                a1, _ = gen_args(rng, d, malformed=(rng.random() < 0.04))
                unknown = True
            if kind == "regen":
                op = (kind, rng.random() < 0.5, a1, unknown)
            else:
                op = (kind, gen_cons(rng, d), a1, unknown)
        out.append({"d": d, "k0": k0, "a0": a0, "k": k, "op": op, "style": style})
    return out


def run_probe_case(c):
    return E.run_dist_op(E.probes()[c["d"]], c["d"], tuple(c["k0"]), c["a0"], tuple(c["k"]), c["op"])


def probe_oracle(c, out):
    """the property on the implementation's own numbers, without the model: the score is the SUM of the
    probe's per-leaf log-density at the returned value and the bound parameters."""
    if out is None:
        return None
    d, op = c["d"], c["op"]
    sig, sw, a, bs, cc, shift, nl, shape = E.PSPECS[d]
    m = E.vlen(d)

    def bound(args):
        if len(args) == 2 and args[1][0] == "d" and args[0][0] == "t":
            pos, kw = list(args[0][1]), dict(args[1][1])
        else:
            pos, kw = [x[1] for x in args], {}
        full = []
        for i, (nm, dflt) in enumerate(sig):
            full.append(pos[i] if i < len(pos) else kw.get(nm, dflt))
        return full

    def lpsum(v, args):
        p = bound(args)
        base = sum(b * x for b, x in zip(bs, p)) + cc
        return sum(a * vi + base + (i if nl else 0) for i, vi in enumerate(v))

    kind = op[0]
    if kind in ("sim", "propose"):
        v, s = out[:m], out[m]
        return None if s == lpsum(v, c["a0"]) else f"score {s} is not the sum of the leaves {lpsum(v, c['a0'])}"
    if kind == "assess":
        s, v = out[0], out[1:1 + m]
        return None if s == lpsum(v, c["a0"]) else f"assess score {s} != {lpsum(v, c['a0'])}"
    if kind in ("gen", "imp"):
        v, s, w = out[:m], out[m], out[m + 1]
        cons = op[1]
        constrained = cons[0] == "val" or (cons[0] == "mask" and cons[1])
        if s != lpsum(v, c["a0"]): return f"score {s} != {lpsum(v, c['a0'])}"
        if constrained and (w != s or v != list(cons[-1])): return f"constrained weight {w}, score {s}, value {v}"
        if not constrained and w != 0: return f"unconstrained weight {w} != 0"
        return None
    if kind in ("edit", "update", "regen"):
        v, s, w = out[:m], out[m], out[m + 1]
        if s != lpsum(v, op[2]): return f"new score {s} != {lpsum(v, op[2])}"
        # the old trace, from the implementation: simulate with the first key
        old = E.run_dist_op(E.probes()[d], d, tuple(c["k0"]), c["a0"], tuple(c["k0"]), ("sim",))
        v_old, s_old = old[:m], old[m]
        if w != s - s_old:
            return f"weight {w} is not new score - old score = {s} - {s_old}"
        if kind == "regen":
            if not op[1] and v != v_old: return f"regenerate with nothing selected changed the value {v_old} -> {v}"
        else:
            cons = op[1]
            want = list(cons[-1]) if (cons[0] == "val" or (cons[0] == "mask" and cons[1])) else v_old
            if v != want: return f"update installed {v}, expected {want}"
        rec = []
        for x in op[2]:
            rec += [x[1]] if x[0] == "z" else (list(x[1]) if x[0] == "t" else [val for _, val in sorted(x[1])])
        if rec and out[-len(rec):] != rec and not (kind == "regen" and not op[1] and not op[3]):
            return f"the new trace records the arguments {out[-len(rec):]}, the edit was given {rec}"
        return None
    return None


# =============================================================================
# (b) + (c) the TFP table
# =============================================================================
def exported_table():
    import genjax
    import genjax._src.generative_functions.distributions.tensorflow_probability as M
    from genjax._src.generative_functions.distributions.distribution import ExactDensity
    found = sorted(n for n in dir(M) if isinstance(getattr(M, n), ExactDensity))
    return M, found


def close(a, b):
    a, b = np.asarray(a, dtype=np.float64), np.asarray(b, dtype=np.float64)
    if a.shape != b.shape:
        return False
    both_nan = np.isnan(a) & np.isnan(b)
    same_inf = np.isinf(a) & np.isinf(b) & (np.sign(a) == np.sign(b))
    with np.errstate(invalid="ignore"):
        ok = np.abs(a - b) <= RTOL * np.maximum(1.0, np.maximum(np.abs(a), np.abs(b)))
    return bool(np.all(ok | both_nan | same_inf))


HEAVY = {"beta_quotient"}     # tracing TFP's log_prob (hyp2f1) takes tens of seconds per call
CHEAP_SAMPLERS = ["normal", "flip", "categorical", "uniform", "cauchy", "exponential", "geometric", "laplace", "mv_normal_diag",
                  "kumaraswamy", "weibull", "log_normal", "truncated_normal", "half_normal"]

_JIT = {}


def _invoker(name, form, sample_shape):
    M, _ = exported_table()
    ent = TT.table()[name]
    tfpnames = ent[1]
    wnames = ent[5] if len(ent) > 5 else ent[1]
    if isinstance(form, (tuple, list)):
        tfpnames = wnames = list(form[1])
        form = "kw"
    w = getattr(M, name)
    extra = {} if sample_shape is None else {"sample_shape": tuple(sample_shape)}

    def invoke(vs):
        """(generative function, args) for this invocation form"""
        if form == "pos" and not extra:
            return w, tuple(vs)
        if form == "pos":
            return w(*vs, **extra), ()
        if form == "kw":
            return w(**dict(zip(wnames, vs)), **extra), ()
        return w(vs[0], **dict(zip(wnames[1:], vs[1:])), **extra), ()
    return invoke, ent, tfpnames


def tfp_fn(name, form, level, sample_shape):
    """the jitted program for one wrapper (cached: parameter points of the same shape reuse it).
    form 'pos' | 'kw' | 'mixed' | ['alt', keywords] with level 0 (simulate), 1 (+ assess / importance at the
    simulated value), 2 (+ a second point: simulate, assess, importance, update with and without constraint);
    form 'combo': level 2 positionally, then assess + importance by keyword and assess in mixed form at
    the same values (and keyword / mixed simulate when `level` is 3)."""
    import jax
    import jax.numpy as jnp
    from genjax import ChoiceMap as C, Diff
    ck = (name, repr(form), level, repr(sample_shape))
    if ck in _JIT:
        return _JIT[ck]
    combo = form == "combo"
    invoke, ent, tfpnames = _invoker(name, "pos" if combo else form, sample_shape)
    nparam = len(ent[1])

    def f_heavy(key, key2, vals, vals2):
        # the sampler alone (dtype / support), then one assess against one direct log_prob
        d = TT.direct(name, tfpnames, vals)
        g, args = invoke(vals)
        v = g.sample(key, *args)
        s, r = g.assess(C.choice(v), args)
        return {"v": v, "sim_score": s, "lp_v": jnp.sum(d.log_prob(v))}

    def f(key, key2, vals, vals2):
        d = TT.direct(name, tfpnames, vals)
        g, args = invoke(vals)
        tr = g.simulate(key, args)
        v = tr.get_retval()
        out = {"v": v, "sim_score": tr.get_score(), "lp_v": jnp.sum(d.log_prob(v))}
        if level == 1:
            s, r = g.assess(C.choice(v), args)
            tr_i, w_i = g.importance(key2, C.choice(v), args)
            out.update({"assess1": s, "imp1_w": w_i, "imp1_score": tr_i.get_score()})
            if combo:      # new arguments, same value: weight = log_prob(v; new) - old score
                d2 = TT.direct(name, tfpnames, vals2)
                g2, args2 = invoke(vals2)
                tr_n, w_n, _, _ = g2.update(key, tr, C.empty(), Diff.unknown_change(args2))
                out.update({"updn_w": w_n, "updn_score": tr_n.get_score(), "lp2_v": jnp.sum(d2.log_prob(v)),
                            "updn_value_same": jnp.all(tr_n.get_retval() == v)})
        if level >= 2:
            d2 = TT.direct(name, tfpnames, vals2)
            g2, args2 = invoke(vals2)
            tr2 = g2.simulate(key2, args2)
            v3 = tr2.get_retval()
            s, r = g2.assess(C.choice(v3), args2)
            tr_i, w_i = g2.importance(key, C.choice(v3), args2)
            ad = Diff.unknown_change(args2)
            tr_u, w_u, _, _ = g2.update(key, tr, C.choice(v3), ad)
            tr_n, w_n, _, _ = g2.update(key, tr, C.empty(), ad)
            out.update({"sim2_score": tr2.get_score(), "lp2_v3": jnp.sum(d2.log_prob(v3)), "assess": s,
                        "assess_ret_same": jnp.all(r == v3), "imp_w": w_i, "imp_score": tr_i.get_score(),
                        "imp_value_same": jnp.all(tr_i.get_retval() == v3),
                        "upd_w": w_u, "upd_score": tr_u.get_score(), "upd_value_same": jnp.all(tr_u.get_retval() == v3),
                        "updn_w": w_n, "updn_score": tr_n.get_score(), "lp2_v": jnp.sum(d2.log_prob(v)),
                        "updn_value_same": jnp.all(tr_n.get_retval() == v)})
        if combo:
            gk, ak = _invoker(name, "kw", sample_shape)[0](vals)
            sk, _ = gk.assess(C.choice(v), ak)
            tr_k, w_k = gk.importance(key2, C.choice(v), ak)
            out.update({"kw_assess": sk, "kw_imp_w": w_k, "kw_imp_score": tr_k.get_score()})
            if nparam >= 2:
                gm, am = _invoker(name, "mixed", sample_shape)[0](vals)
                sm, _ = gm.assess(C.choice(v), am)
                out["mixed_assess"] = sm
            if level == 3:
                trk = gk.simulate(key, ak)
                out.update({"kw_sim_same": jnp.all(trk.get_retval() == v), "kw_sim_score": trk.get_score()})
        return out

    _JIT[ck] = (jax.jit(f_heavy if level == -1 else f), ent, tfpnames)
    return _JIT[ck]


def wrapped_constructor(w):
    """the `dist` callable a tfp_distribution wrapper closes over (sampler's and logpdf's), or None"""
    import inspect
    try:
        lp = inspect.getclosurevars(type(w).logpdf).nonlocals["logpdf"]
        sm = inspect.getclosurevars(type(w).sample).nonlocals["sample"]
        d1 = inspect.getclosurevars(lp).nonlocals["dist"]
        d2 = inspect.getclosurevars(sm).nonlocals["dist"]
        return d1 if d1 is d2 else None
    except (KeyError, TypeError, AttributeError):
        return None


def structural_case(name, vals, kd):
    """quick-tier substitute for wrappers whose log_prob takes a minute to trace: the wrapper must close
    over exactly the TFP class it documents (then its positional / keyword parameters are TFP's own, and
    sampler and logpdf are the tfp_distribution code every other wrapper exercises numerically); the
    sampler alone is run for dtype and support.  Returns None when the identity cannot be established."""
    import jax
    import jax.numpy as jnp
    from tensorflow_probability.substrates import jax as tfp
    M, _ = exported_table()
    ent = TT.table()[name]
    w = getattr(M, name)
    if wrapped_constructor(w) is not getattr(tfp.distributions, ent[0]):
        return None
    key = jax.random.wrap_key_data(jnp.array(kd[0], dtype=jnp.uint32))
    vals = [jnp.asarray(np.asarray(v, dtype=np.float32)) for v in vals]
    v = np.asarray(jax.jit(lambda key, vals: w.sample(key, *vals))(key, vals))
    fails = []
    if str(v.dtype) != ent[4]:
        fails.append(f"sample dtype {v.dtype}, documented {ent[4]}")
    if not bool(ent[3](v, *[np.asarray(x) for x in vals])):
        fails.append(f"sample {v.tolist()} outside the support for parameters {[np.asarray(x).tolist() for x in vals]}")
    return fails, 1, 1


def tfp_case(name, form, vals, vals2, kd, level=2, sample_shape=None):
    """one wrapper, a parameter point (vals) and a second one (vals2).  Returns (failures, n comparisons,
    n bitwise equal)."""
    import jax
    import jax.numpy as jnp
    if level == -2:
        r = structural_case(name, vals, kd)
        if r is not None:
            return r
        level = -1
    jf, ent, tfpnames = tfp_fn(name, form, level, sample_shape)
    key = jax.random.wrap_key_data(jnp.array(kd[0], dtype=jnp.uint32))
    key2 = jax.random.wrap_key_data(jnp.array(kd[1], dtype=jnp.uint32))
    vals = [jnp.asarray(np.asarray(v, dtype=np.float32)) for v in vals]
    vals2 = [jnp.asarray(np.asarray(v, dtype=np.float32)) for v in vals2]
    o = jf(key, key2, vals, vals2)
    o = {k: np.asarray(x) for k, x in o.items()}
    fails, ncmp, nexact = [], 0, 0

    def cmp(what, got, want):
        nonlocal ncmp, nexact
        ncmp += 1
        if np.array_equal(np.asarray(got), np.asarray(want), equal_nan=True):
            nexact += 1
        if not close(got, want):
            fails.append(f"{what}: wrapper gives {float(got):.7g}, summed TFP log_prob gives {float(want):.7g}")

    cmp("assess score" if level == -1 else "simulate score", o["sim_score"], o["lp_v"])
    v = o["v"]
    if str(v.dtype) != ent[4]:
        fails.append(f"sample dtype {v.dtype}, documented {ent[4]}")
    if tfpnames == ent[1] and not bool(ent[3](v, *[np.asarray(x) for x in vals])):
        fails.append(f"sample {v.tolist()} outside the support for parameters {[np.asarray(x).tolist() for x in vals]}")
    if level == 1:
        cmp("assess score", o["assess1"], o["lp_v"])
        cmp("importance weight", o["imp1_w"], o["lp_v"])
        cmp("importance trace score", o["imp1_score"], o["lp_v"])
        if "updn_w" in o:
            cmp("update (arguments only) weight", o["updn_w"], np.float32(o["lp2_v"]) - np.float32(o["sim_score"]))
            cmp("update (arguments only) score", o["updn_score"], o["lp2_v"])
            if not bool(o["updn_value_same"]):
                fails.append("update without a constraint changed the value")
    if level >= 2:
        cmp("simulate score (second point)", o["sim2_score"], o["lp2_v3"])
        cmp("assess score", o["assess"], o["lp2_v3"])
        cmp("importance weight", o["imp_w"], o["lp2_v3"])
        cmp("importance trace score", o["imp_score"], o["lp2_v3"])
        cmp("update (constrained) weight", o["upd_w"], np.float32(o["lp2_v3"]) - np.float32(o["sim_score"]))
        cmp("update (constrained) score", o["upd_score"], o["lp2_v3"])
        cmp("update (arguments only) weight", o["updn_w"], np.float32(o["lp2_v"]) - np.float32(o["sim_score"]))
        cmp("update (arguments only) score", o["updn_score"], o["lp2_v"])
        for k, what in (("assess_ret_same", "assess does not return the assessed value"),
                        ("imp_value_same", "importance does not keep the constrained value"),
                        ("upd_value_same", "update does not install the constrained value"),
                        ("updn_value_same", "update without a constraint changed the value")):
            if not bool(o[k]):
                fails.append(what)
    if form == "combo":
        cmp("keyword assess score", o["kw_assess"], o["lp_v"])
        cmp("keyword importance weight", o["kw_imp_w"], o["lp_v"])
        cmp("keyword importance trace score", o["kw_imp_score"], o["lp_v"])
        if "mixed_assess" in o:
            cmp("mixed positional/keyword assess score", o["mixed_assess"], o["lp_v"])
        if "kw_sim_score" in o:
            cmp("keyword simulate score", o["kw_sim_score"], o["lp_v"])
            if not bool(o["kw_sim_same"]):
                fails.append("keyword simulate samples a different value than positional simulate with the same key")
    return fails, ncmp, nexact


def tfp_plan(ctx):
    """list of jobs: dict(name, form, vals, vals2, kd, level, sample_shape)"""
    rng = ctx.rng
    T = TT.table()
    jobs = []

    def kd():
        return [[rng.getrandbits(32), rng.getrandbits(32)], [rng.getrandbits(32), rng.getrandbits(32)]]

    def pt(gen, b):
        vs = TT.batched(gen, rng, b) if b else gen(rng)
        return [np.asarray(v).tolist() for v in vs]

    def job(name, form, level, b, ss=None):
        gen = T[name][2] if not isinstance(form, list) else form[2]
        f = form if not isinstance(form, list) else form[:2]
        jobs.append({"name": name, "form": f, "vals": pt(gen, b), "vals2": pt(gen, b), "kd": kd(), "level": level, "sample_shape": ss})

    if ctx.quick:
        for name in TT.PINNED:
            if name in HEAVY:
                job(name, "pos", -2, 2)
                continue
            for p in range(3):                 # three points, one traced program
                job(name, "combo", 3 if name in CHEAP_SAMPLERS else 1, 2)
        for name in CHEAP_SAMPLERS:
            job(name, "pos", 1, 0)             # unbatched
        for name in ["normal", "flip", "categorical", "uniform", "laplace"]:
            job(name, rng.choice(["pos", "kw"]), 1, 2, [3])
    else:
        for name in TT.PINNED:
            nparam = len(T[name][1])
            if name in HEAVY:                  # one traced program, the reduced operation set
                for p in range(3):
                    job(name, "combo", 1, 2)
                continue
            for p in range(10):
                job(name, "combo", 3, 2)
            for form in ["pos", "kw"] + (["mixed"] if nparam >= 2 else []):
                for p in range(2):
                    job(name, form, 2, 3)
            for p in range(2):
                job(name, "pos", 2, 0)
            job(name, rng.choice(["pos", "kw"]), 1, 2, [3])
    for (name, wn, gen) in TT.ALT:
        job(name, ["alt", wn, gen], 1, 0)
    return jobs


def run_tfp_job(job):
    try:
        fails, ncmp, nexact = tfp_case(job["name"], job["form"], job["vals"], job["vals2"], job["kd"], job["level"], job["sample_shape"])
        return fails, ncmp, nexact
    except Exception as e:       # a wrapper that cannot be invoked the documented way
        return [f"raised {type(e).__name__}: {str(e)[:200]}"], 0, 0


def _init_worker():
    # one thread per worker process: the programs are tiny, the cost is tracing
    os.environ["XLA_FLAGS"] = (os.environ.get("XLA_FLAGS", "") + " --xla_cpu_multi_thread_eigen=false "
                               "intra_op_parallelism_threads=1 --xla_force_host_platform_device_count=1")
    os.environ["OMP_NUM_THREADS"] = "1"
    os.environ["TF_CPP_MIN_LOG_LEVEL"] = "3"
    import warnings
    warnings.filterwarnings("ignore")


def _worker(jobs):
    import warnings
    warnings.filterwarnings("ignore")
    return [run_tfp_job(j) for j in jobs]


def _probe_worker(cases):
    import warnings
    warnings.filterwarnings("ignore")
    outs = []
    for c in cases:
        try:
            o = run_probe_case(c)
            outs.append((o, probe_oracle(c, o)))
        except E.Inexact:
            outs.append("INEXACT")
    return outs


class TfpPool:
    """wrappers are independent: the jobs of one wrapper (one traced program) go to one process;
    the probe cases are spread over the same processes"""

    def __init__(self, jobs, nproc, probe_cases=()):
        import multiprocessing as mp
        self.jobs = jobs
        groups = {}
        for i, j in enumerate(jobs):
            gk = (j["name"], repr(j["form"])) if j["name"] in HEAVY else j["name"]
            groups.setdefault(gk, []).append(i)
        cost = lambda g: (0 if jobs[g[0]]["name"] in HEAVY else 1, -len(g))
        order = sorted(groups.values(), key=cost)
        self.pool = mp.get_context("spawn").Pool(nproc, initializer=_init_worker)
        heavy = [g for g in order if jobs[g[0]]["name"] in HEAVY]
        rest = [g for g in order if jobs[g[0]]["name"] not in HEAVY]
        self.asyncs = [(g, self.pool.apply_async(_worker, ([jobs[i] for i in g],))) for g in heavy]
        probe_cases = list(probe_cases)
        chunk = max(1, (len(probe_cases) + 2 * nproc - 1) // (2 * nproc))
        self.probe_asyncs = [self.pool.apply_async(_probe_worker, (probe_cases[i:i + chunk],))
                             for i in range(0, len(probe_cases), chunk)]
        self.asyncs += [(g, self.pool.apply_async(_worker, ([jobs[i] for i in g],))) for g in rest]

    def probe_results(self):
        out = []
        for a in self.probe_asyncs:
            out += a.get(timeout=3000)
        return out

    def results(self):
        out = [None] * len(self.jobs)
        try:
            for g, a in self.asyncs:
                for i, r in zip(g, a.get(timeout=3000)):
                    out[i] = r
        finally:
            self.pool.terminate()
        return out


# =============================================================================
def run(ctx):
    import genjax
    cases = gen_probe_cases(ctx, ctx.n(405, 5000))
    jobs = tfp_plan(ctx)
    nproc = int(os.environ.get("VERIF_PROCS", "8"))
    pool = TfpPool(jobs, nproc, cases)     # (a) and (c) run on the implementation in worker processes while the proofs build
    t0 = time.time()
    ctx.proofs()
    ctx.cov["genjax_file"] = genjax.__file__
    t_proofs = time.time() - t0
    t0 = time.time()

    # ---- (b) the table of exported wrappers --------------------------------------------------
    M, found = exported_table()
    missing = [n for n in TT.PINNED if n not in found]
    extra = [n for n in found if n not in TT.PINNED]
    if missing or extra:
        ctx.fail("tie", f"exported wrapper table differs from the pinned list: missing {missing}, not in the list {extra}")
    for n in found:
        w = getattr(M, n)
        if w.handle_kwargs() is not w:
            ctx.fail("tie", f"{n}.handle_kwargs() is not the wrapper itself (model: handle_kwargs d = d)")
        if hasattr(genjax, n) and getattr(genjax, n) is not w:
            ctx.fail("tie", f"genjax.{n} is not the wrapper defined in the tensorflow_probability module")
    ctx.cov["not_exported_at_top_level"] = [n for n in found if not hasattr(genjax, n)]

    # ---- (a) structure on the probes -> Coq -----------------------------------------------------
    terms, outs, inexact, nbad = [], [], 0, 0
    for c, r in zip(cases, pool.probe_results()):
        if r == "INEXACT":
            inexact += 1
            o, why = None, None
            c["skip"] = True
        else:
            o, why = r
        outs.append(o)
        if why is not None:
            nbad += 1
            if nbad <= 3:
                ctx.fail("oracle", f"probe {c['d']} {c['op'][0]} ({c['style']}): {why}", case={"probe": c})
    kept = [(c, o) for c, o in zip(cases, outs) if not c.get("skip")]
    terms = [E.c_dcase(c["d"], c["k0"], c["a0"], c["k"], c["op"], o) for c, o in kept]
    mism, errs = core.coq_mismatches("C24", HEADER, terms, "dcase", fn="dmismatches", shard=700)
    for e in errs[:2]:
        ctx.fail("correspondence", "C-tfp probe case file did not evaluate: " + e)
    for i in mism[:3]:
        c, o = kept[i]
        ctx.fail("correspondence", f"coq/model/Dist.v and the implementation disagree on probe {c['d']} args {c['a0']} op {c['op']}: "
                                   f"implementation gives {o}", case={"probe": c})
    if mism:
        # look for a concrete property failure around the mismatch: same case, every other operation kind
        for i in mism[:5]:
            c, _ = kept[i]
            for kind_op in [("sim",), ("assess", ("val", [1] * E.vlen(c["d"]))), ("gen", ("val", [1] * E.vlen(c["d"])))]:
                c2 = dict(c, op=kind_op)
                why = probe_oracle(c2, run_probe_case(c2))
                if why:
                    ctx.fail("oracle", f"probe {c2['d']} {kind_op[0]}: {why}", case={"probe": c2})
                    break
    t_probe = time.time() - t0

    # ---- (c) every wrapper against TFP ------------------------------------------------------------
    res = pool.results()
    ncmp = nexact = nfail = 0
    by_wrapper = {}
    for j, (fails, nc, ne) in zip(jobs, res):
        ncmp += nc
        nexact += ne
        by_wrapper[j["name"]] = by_wrapper.get(j["name"], 0) + 1
        if fails:
            nfail += 1
            if nfail <= 3:
                ctx.fail("oracle", f"{j['name']} ({j['form']}{', sample_shape' if j['sample_shape'] else ''}): " + "; ".join(fails[:3]),
                         case={"tfp": j})
    t_tfp = time.time() - t0 - t_probe

    nerr = sum(1 for c, o in kept if o is None)
    ctx.cov["evaluations"] = len(kept) + len(jobs)
    ctx.cov["traces_validated_against_impl"] = len(kept) - len(mism)
    ctx.cov["distinct_nontrivial"] = len({repr((c["d"], c["a0"], c["op"])) for c, o in kept if o is not None})
    ctx.cov["inexact_skipped"] = inexact
    ctx.cov["errors_compared"] = nerr
    ctx.cov["by_kind"] = {k: sum(1 for c, o in kept if c["op"][0] == k) for k in ("sim", "propose", "assess", "gen", "imp", "project", "edit", "update", "regen")}
    ctx.cov["by_invocation"] = {k: sum(1 for c, o in kept if c["style"] == k) for k in sorted({c["style"] for c, o in kept})}
    ctx.cov["by_probe"] = {str(d): sum(1 for c, o in kept if c["d"] == d) for d in range(len(E.PSPECS))}
    ctx.cov["tfp"] = {"wrappers": len(found), "jobs": len(jobs), "comparisons": ncmp, "bitwise_equal": nexact,
                      "tolerance": f"|a-b| <= {RTOL}*max(1,|a|,|b|)", "jobs_failed": nfail,
                      "forms": {f: sum(1 for j in jobs if (j["form"] if isinstance(j["form"], str) else "alt") == f) for f in ("combo", "pos", "kw", "mixed", "alt")},
                      "sample_shape_jobs": sum(1 for j in jobs if j["sample_shape"]), "reduced_in_quick": sorted(HEAVY) if ctx.quick else []}
    ctx.cov["timing_s"] = {"proofs": round(t_proofs, 1), "probes": round(t_probe, 1), "tfp_wait_after_probes": round(t_tfp, 1)}
    ctx.cov["rule"] = ("probe cases: 6 integer-exact exact_density probes (0-3 parameters, scalar / 3-vector / 2x2 values, one default) x "
                       "{positional, positional with default, keyword, mixed, 6 malformed shapes} x 9 operations x constraint kinds "
                       "{none, value, mask true, mask false} x new arguments {same NoChange, same Unknown, different}; non-trivial = the "
                       "implementation returned a value (malformed invocations are compared as errors); TFP jobs: every exported wrapper x "
                       "batched (2,) / (3,) and unbatched points x {positional, keyword, mixed}, 8 alternative keyword parametrisations, sample_shape")
    ctx.add_samples([{"probe_case": kept[i][0], "impl": kept[i][1]} for i in (0, len(kept) // 2)] +
                    [{"tfp_job": {k: jobs[0][k] for k in ("name", "form", "vals")}, "result": res[0][0] or "ok"}])
    ctx.cov["trusted_base"].append("TFP samplers and log_prob (the oracle distribution is built with explicit TFP keywords); "
                                   "sample dtype/support are tested, not proved")


def replay(case):
    import warnings
    warnings.filterwarnings("ignore")
    if "probe" in case:
        c = case["probe"]
        c = dict(c, k0=tuple(c["k0"]), k=tuple(c["k"]), a0=detuple_args(c["a0"]), op=detuple_op(c["op"]))
        o = run_probe_case(c)
        why = probe_oracle(c, o)
        if why is None:
            # the model comparison for this one case
            mism, errs = core.coq_mismatches("C24replay", HEADER, [E.c_dcase(c["d"], c["k0"], c["a0"], c["k"], c["op"], o)], "dcase", fn="dmismatches")
            if mism or errs:
                why = f"model coq/model/Dist.v predicts something else than {o}"
        print(f"probe {c['d']} args {c['a0']} op {c['op']}: implementation {o}: {why or 'ok'}")
        return why is None
    j = case["tfp"]
    fails, nc, ne = run_tfp_job(j)
    print(f"{j['name']} ({j['form']}): {fails or 'ok'}")
    return not fails


def detuple_args(a):
    out = []
    for x in a:
        if x[0] == "z": out.append(("z", x[1]))
        elif x[0] == "t": out.append(("t", list(x[1])))
        else: out.append(("d", [tuple(p) for p in x[1]]))
    return out


def detuple_op(op):
    op = list(op)
    k = op[0]
    if k in ("assess", "gen", "imp"):
        return (k, tuple(op[1]))
    if k in ("edit", "update"):
        return (k, tuple(op[1]), detuple_args(op[2]), op[3])
    if k == "regen":
        return (k, op[1], detuple_args(op[2]), op[3])
    return tuple(op)
