"""fixed-defect witness: mv_normal_reparam read its tangents with tree_primal,
so the pathwise derivative used the primal values as tangents (C29).
exit 1 if present."""
import sys, jax, jax.numpy as jnp
from genjax.adev import expectation, mv_normal_reparam, Dual

@expectation
def loss(mu, cov):
    x = mv_normal_reparam(mu, cov)
    return jnp.sum(x)

bad = []
key = jax.random.key(0)
mu = jnp.array([0.5, -1.0]); cov = jnp.array([[2.0, 0.3], [0.3, 1.0]])
try:
    # d/dmu_0 E[sum x] = 1 pathwise for every sample; cov tangent zero
    d = loss.jvp_estimate(key, (Dual(mu, jnp.array([1.0, 0.0])), Dual(cov, jnp.zeros((2, 2)))))
    if abs(float(d.tangent) - 1.0) > 1e-5:
        bad.append(("tangent", float(d.tangent), 1.0))
except Exception as e:
    bad.append(("raises", type(e).__name__, str(e)[:80]))
print("FAIL" if bad else "OK", bad[:3])
sys.exit(1 if bad else 0)
