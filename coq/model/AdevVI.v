(* AdevVI.v — executable model of the VI objectives of src/genjax/_src/inference/vi.py for
   enumerable (flip) and reparameterised (normal) model/guide pairs.  NO PROOFS in this file.

   vi.ELBO:   _loss(args...) = -(Importance(target, guide).estimate_normalizing_constant(key, target)), an ADEV
              program whose sample sites are the guide's ADEV primitives (vi.adev_distribution -> sample_primitive);
              everything else is deterministic log-density arithmetic:
                Marginal.random_weighted   (sp.py):  w_q = tr.get_score() - project(~selection)       [selection = all: 0]
                Importance.run_smc         (smc.py): w0  = target.importance(choice).weight - w_q
                ChangeTarget.run_smc       (smc.py): w1  = target.importance(latents).weight - particle.get_score() + w0
                get_log_marginal_likelihood_estimate: logsumexp([w1]) - log 1 = w1
   vi.PWake:  -(target.importance(sample).trace.get_score()) with sample drawn by the guide
   vi.IWELBO: ImportanceK vmaps the proposal; sample_p has no batching rule (adev/core.py batch_primitive) -> raises
   vi.QWake:  proposal.estimate_logpdf(key, sample, target): `args: tuple[Any, ...]` on a varargs parameter rejects the Target -> raises

   Pairs: latent flips x_1..x_n (probabilities = expressions of the parameters and the earlier latents,
   Boolean variable 0 = the most recent latent), observed flips y_j with fixed values, a guide with one
   ADEV flip primitive per latent in the same order.  Real variables are the parameters only. *)
From Coq Require Import List ZArith QArith Qabs Bool.
Import ListNotations.
From Model Require Import Adev.
Open Scope Q_scope.

(* move an expression under k more Boolean binders *)
Fixpoint eshiftb (k : nat) (e : expr) : expr :=
  match e with
  | EC q => EC q
  | EV i => EV i
  | EAdd a b => EAdd (eshiftb k a) (eshiftb k b)
  | ESub a b => ESub (eshiftb k a) (eshiftb k b)
  | EMul a b => EMul (eshiftb k a) (eshiftb k b)
  | ENeg a => ENeg (eshiftb k a)
  | EDiv a b => EDiv (eshiftb k a) (eshiftb k b)
  | ELog a => ELog (eshiftb k a)
  | EIf c a b => EIf (c + k) (eshiftb k a) (eshiftb k b)
  end.

(* log-density of flip(pe) at the Boolean just bound (variable 0); pe lives in the outer scope *)
Definition lflipv (pe : expr) : expr :=
  EIf 0 (ELog (eshiftb 1 pe)) (ELog (ESub (EC 1) (eshiftb 1 pe))).
(* log-density of flip(pe) at an observed constant *)
Definition lflipo (pe : expr) (o : bool) : expr :=
  if o then ELog pe else ELog (ESub (EC 1) pe).

Definition vguide := list (prim * expr).

(* the weight algebra of ELBO: P = model importance weight = model score (everything constrained),
   Qs = guide trace score *)
Definition elbo_weight (P Qs : expr) : expr :=
  EAdd (ESub P P) (ESub P (ESub Qs (EC 0))).
Definition add_obs (P : expr) (obs : list (expr * bool)) : expr :=
  fold_left (fun a oe => EAdd a (lflipo (fst oe) (snd oe))) obs P.

(* the guide's sites, accumulating P (model log-density of the latents so far) and Qs (guide score so far),
   then the loss `fin P_with_observations Qs` *)
Fixpoint vi_build (fin : expr -> expr -> expr) (g : vguide) (lat : list expr) (obs : list (expr * bool)) (P Qs : expr) : prog :=
  match g, lat with
  | (pr, qe) :: g', pe :: lat' =>
      Sample pr [qe] (vi_build fin g' lat' obs (EAdd (eshiftb 1 P) (lflipv pe)) (EAdd (eshiftb 1 Qs) (lflipv qe)))
  | _, _ => Ret (fin (add_obs P obs) Qs)
  end.
Definition elbo_fin (A Qs : expr) : expr := ENeg (elbo_weight A Qs).
Definition pwake_fin (A Qs : expr) : expr := ENeg A.      (* -(tr.get_score()); the guide's own score is dropped *)
Definition elbo_prog (g : vguide) (lat : list expr) (obs : list (expr * bool)) : prog :=
  vi_build elbo_fin g lat obs (EC 0) (EC 0).
Definition pwake_prog (g : vguide) (lat : list expr) (obs : list (expr * bool)) : prog :=
  vi_build pwake_fin g lat obs (EC 0) (EC 0).

(* IWELBO / QWake with guides made of ADEV primitives: raise on the unchanged tree *)
Definition iwelbo_grad (g : vguide) (lat : list expr) (obs : list (expr * bool)) (N : nat) (xs : list Q) : option (list Q) := None.
Definition qwake_grad (g : vguide) (lat : list expr) (obs : list (expr * bool)) (xs : list Q) : option (list Q) := None.

(* a normal latent with a normal observation, a normal_reparam guide:
     x ~ N(m0, s0); v ~ N(x, s1) observed at v0;   guide x ~ normal_reparam(m, s)
   log N(x; mu, sigma) = -1/2 ((x - mu)/sigma)^2 - log sigma - 1/2 log(2 pi) *)
Definition twopi : Q := 6283185307179586 # 1000000000000000.
Definition lnormal (x mu sigma : expr) : expr :=
  ESub (ESub (EMul (EC (-1 # 2)) (EMul (EDiv (ESub x mu) sigma) (EDiv (ESub x mu) sigma))) (ELog sigma))
       (EMul (EC (1 # 2)) (ELog (EC twopi))).
(* m0 s0 s1 v0 m s are expressions of the parameters; inside the program the latent is real variable 0,
   so the parameter expressions are used under one more real binder *)
Fixpoint eshiftr (e : expr) : expr :=
  match e with
  | EC q => EC q
  | EV i => EV (S i)
  | EAdd a b => EAdd (eshiftr a) (eshiftr b)
  | ESub a b => ESub (eshiftr a) (eshiftr b)
  | EMul a b => EMul (eshiftr a) (eshiftr b)
  | ENeg a => ENeg (eshiftr a)
  | EDiv a b => EDiv (eshiftr a) (eshiftr b)
  | ELog a => ELog (eshiftr a)
  | EIf c a b => EIf c (eshiftr a) (eshiftr b)
  end.
Definition elbo_normal_integrand (m0 s0 s1 v0 m s : expr) : expr :=
  elbo_weight (EAdd (EAdd (EC 0) (lnormal (EV 0) (eshiftr m0) (eshiftr s0))) (lnormal (eshiftr v0) (EV 0) (eshiftr s1)))
              (EAdd (EC 0) (lnormal (EV 0) (eshiftr m) (eshiftr s))).
Definition elbo_normal_prog (m0 s0 s1 v0 m s : expr) : prog :=
  Sample PNormalReparam [m; s] (Ret (ENeg (elbo_normal_integrand m0 s0 s1 v0 m s))).

(* ---------------------------------------------------------------------------- *)
(* SPECIFICATION: the objectives as explicit sums over all assignments of the     *)
(* latents, evaluated in dual numbers (value, formal derivative with dlg = log')  *)
(* ---------------------------------------------------------------------------- *)
Fixpoint all_assign (n : nat) : list (list bool) :=
  match n with
  | O => [[]]
  | S m => map (cons true) (all_assign m) ++ map (cons false) (all_assign m)
  end.
Definition dsum (l : list dual) : dual := fold_right dadd (0, 0) l.

Section Obj.
Variables lg dlg : Q -> Q.
Notation deval := (deval lg dlg).
Definition bern (x : bool) (p : dual) : dual := if x then p else dsub (dC 1) p.
(* probability of the assignment under the flips with probabilities es (site order); benv = earlier values *)
Fixpoint prob_d (es : list expr) (xs : list bool) (env : list dual) (benv : list bool) : dual :=
  match es, xs with
  | e :: es', x :: xs' => dmul (bern x (deval e env benv)) (prob_d es' xs' env (x :: benv))
  | _, _ => dC 1
  end.
Fixpoint logdens_d (es : list expr) (xs : list bool) (env : list dual) (benv : list bool) : dual :=
  match es, xs with
  | e :: es', x :: xs' => dadd (dlog lg dlg (bern x (deval e env benv))) (logdens_d es' xs' env (x :: benv))
  | _, _ => (0, 0)
  end.
Fixpoint obs_d (obs : list (expr * bool)) (env : list dual) (benv : list bool) : dual :=
  match obs with
  | (e, o) :: r => dadd (dlog lg dlg (bern o (deval e env benv))) (obs_d r env benv)
  | [] => (0, 0)
  end.
(* ELBO = sum_x q(x) (log p(x, obs) - log q(x)) *)
Definition elbo_obj (qs lat : list expr) (obs : list (expr * bool)) (env : list dual) : dual :=
  dsum (map (fun xs => dmul (prob_d qs xs env [])
                            (dsub (dadd (logdens_d lat xs env []) (obs_d obs env (rev xs))) (logdens_d qs xs env [])))
            (all_assign (length qs))).
(* the PWake objective: E_{x ~ q} log p(x, obs) *)
Definition pwake_obj (qs lat : list expr) (obs : list (expr * bool)) (env : list dual) : dual :=
  dsum (map (fun xs => dmul (prob_d qs xs env []) (dadd (logdens_d lat xs env []) (obs_d obs env (rev xs))))
            (all_assign (length qs))).
End Obj.
