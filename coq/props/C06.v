(* C06 — backward requests undo edits.  PARTIAL in Coq: exact restoration is proved at distribution sites
   (Update with plain / masked constraints, Regenerate) and the negation of the weight is proved for every
   program whenever the backward edit restores the score; exact restoration through every combinator is decided
   on each run by the correspondence (the model's backward request is compared with the implementation's and then
   applied) and by the direct oracle (apply the implementation's backward request, compare with the original
   trace).  Known findings: K19 (switch), K24 (scan regenerate), K25 (mask switched off). *)
From Coq Require Import List ZArith.
Import ListNotations.
From Model Require Import Key Sel GFI GFIEdit.
From Proofs Require Import GFIBase GFIWf GFIEditProofs GFIRoundtrip.
Open Scope Z_scope.

Theorem C06_site_roundtrip_partial : forall d k k' t r a tg tg' t' w b,
  plain r -> wft (GDist d) t -> edit (GDist d) k t r a tg = Ok (t', w, b) ->
  exists b', edit (GDist d) k' t' b (t_args t) tg' = Ok (t, - w, b').
Proof. exact dist_roundtrip. Qed.
Print Assumptions C06_site_roundtrip_partial.

Theorem C06_backward_weight_negates_partial : forall g k k' t r r' a tg tg' t' w b t'' w' b',
  wfg g -> plain r -> plain r' -> wft g t ->
  edit g k t r a tg = Ok (t', w, b) -> edit g k' t' r' (t_args t) tg' = Ok (t'', w', b') ->
  t_score t'' = t_score t -> w' = - w.
Proof. exact backward_weight_negates. Qed.
Print Assumptions C06_backward_weight_negates_partial.
