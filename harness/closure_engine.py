"""Closure engine (C32): closures `g(*stored, **kw)` and `partial_apply` over probe
distributions and small @genjax.gen functions, every GFI method, on the implementation;
the same call on the underlying function with the stored arguments prepended (direct
oracle) and the variants a wrong closure could have made (the table shipped to Coq)."""
import numpy as np
from . import tfp_engine as E
from .core import clist, cz, cbool, copt
from .tfp_engine import F, NAMES, ints, flat_leaves, mk_key, tag_obs, Inexact

ERRORS = Exception      # every exception is the observation `None`; Inexact (a harness condition) is re-raised first


def kwdict(kw):
    return {NAMES[n]: F(v) for n, v in kw}


def c_kw(kw):
    return clist([f"({n}%nat, {cz(v)})" for n, v in kw])


def c_zs(zs):
    return clist([cz(z) for z in zs])


def c_ad(ad):
    return clist([f"({cz(v)}, {'Unknown' if u else 'NoChange'})" for v, u in ad])


def mk_argdiffs(ad):
    from genjax import Diff
    return tuple(Diff.unknown_change(F(v)) if u else Diff.no_change(F(v)) for v, u in ad)


def mk_kwdiffs(kw):
    """[(name id, value, unknown?)] -> dict of Diffs"""
    from genjax import Diff
    return {NAMES[n]: (Diff.unknown_change(F(v)) if u else Diff.no_change(F(v))) for n, v, u in kw}


# =============================================================================
# closures over probe distributions
# =============================================================================
def dist_obs_trace(tr):
    assert ints(tr.get_choices().get_value()) == ints(tr.get_retval())
    return ints(tr.get_retval()) + ints(tr.get_score()) + flat_leaves(tr.get_args())


def dist_obs_edit(tr, w, rd, bchm):
    return (ints(tr.get_retval()) + ints(tr.get_score()) + ints(w) + [tag_obs(rd)] + E.bwd_obs(bchm)
            + flat_leaves(tr.get_args()))


def dist_request(d, r):
    from genjax import Update, Regenerate, Selection
    if r[0] == "upd":
        return Update(E.impl_cons(d, r[1]))
    return Regenerate(Selection.all() if r[1] else Selection.none())


def run_dist_method(gf, d, k0, args0, k, op, wrap_args, wrap_diffs):
    """one method of `gf` (a closure or the underlying distribution).  wrap_args(values) gives the
    `args` argument, wrap_diffs(ad) the `argdiffs` argument."""
    key0, key = mk_key(k0), mk_key(k)
    try:
        a0 = wrap_args(args0)
        kind = op[0]
        if kind == "sim":
            return dist_obs_trace(gf.simulate(key, a0))
        if kind == "propose":
            c, s, r = gf.propose(key, a0)
            return ints(c.get_value()) + ints(s) + ints(r)
        if kind == "assess":
            s, v = gf.assess(E.impl_cons(d, op[1]), a0)
            return ints(s) + ints(v)
        if kind in ("gen", "imp"):
            tr, w = (gf.generate if kind == "gen" else gf.importance)(key, E.impl_cons(d, op[1]), a0)
            return ints(tr.get_retval()) + ints(tr.get_score()) + ints(w)
        tr0 = gf.simulate(key0, a0)
        if kind == "project":
            from genjax import Selection
            return ints(gf.project(key, tr0, Selection.all() if op[1] else Selection.none()))
        if kind == "edit":
            tr, w, rd, bwd = gf.edit(key, tr0, dist_request(d, op[1]), wrap_diffs(op[2]))
            return dist_obs_edit(tr, w, rd, bwd.constraint)
        if kind == "update":
            tr, w, rd, bchm = gf.update(key, tr0, E.impl_cons(d, op[1]), wrap_diffs(op[2]))
            return dist_obs_edit(tr, w, rd, bchm)
        raise KeyError(kind)
    except Inexact:
        raise
    except ERRORS:
        return None


def run_cdist(d, stored, kw, k0, args0, k, op):
    """the closure P_d(*stored, **kw)"""
    P = E.probes()[d]
    try:
        clo = P(*[F(v) for v in stored], **kwdict(kw))
    except Inexact:
        raise
    except ERRORS:
        return None
    if op[0] == "call":
        try:
            return ints(clo(mk_key(k), *[F(v) for v in args0], **kwdict(op[1])))
        except Inexact:
            raise
        except ERRORS:
            return None
    return run_dist_method(clo, d, k0, args0, k, op, lambda vs: tuple(F(v) for v in vs), mk_argdiffs)


def ref_cdist(d, stored, kw, k0, args0, k, op):
    """direct oracle: the underlying distribution called with the stored arguments prepended and the
    keyword arguments merged (its handle_kwargs() form when there are keyword arguments)"""
    P = E.probes()[d]
    full_kw = list(kw)
    if op[0] == "call":
        over = dict(op[1])
        full_kw = [(n, over.get(n, v)) for n, v in kw] + [(n, v) for n, v in op[1] if n not in dict(kw)]
    if full_kw:
        g = P.handle_kwargs()
        wrap_args = lambda vs: (tuple(F(v) for v in list(stored) + list(vs)), kwdict(full_kw))
        wrap_diffs = lambda ad: (mk_argdiffs([(v, True) for v in stored] + list(ad)),
                                 mk_kwdiffs([(n, v, True) for n, v in full_kw]))
    else:
        g = P
        wrap_args = lambda vs: tuple(F(v) for v in list(stored) + list(vs))
        wrap_diffs = lambda ad: mk_argdiffs([(v, True) for v in stored] + list(ad))
    if op[0] == "call":
        try:
            return ints(g.simulate(mk_key(k), wrap_args(args0)).get_retval())
        except Inexact:
            raise
        except ERRORS:
            return None
    return run_dist_method(g, d, k0, args0, k, op, wrap_args, wrap_diffs)


def c_dreq(r):
    return f"(RUpdate {E.c_cons(r[1])})" if r[0] == "upd" else f"(RRegen {cbool(r[1])})"


def c_cop(op):
    k = op[0]
    if k == "sim": return "CSim"
    if k == "propose": return "CPropose"
    if k == "assess": return f"(CAssess {E.c_cons(op[1])})"
    if k == "gen": return f"(CGen {E.c_cons(op[1])})"
    if k == "imp": return f"(CImp {E.c_cons(op[1])})"
    if k == "project": return f"(CProject {cbool(op[1])})"
    if k == "edit": return f"(CEdit {c_dreq(op[1])} {c_ad(op[2])})"
    if k == "update": return f"(CUpdate {E.c_cons(op[1])} {c_ad(op[2])})"
    if k == "call": return f"(CCall {c_kw(op[1])})"
    raise KeyError(k)


def c_ccdist(d, stored, kw, k0, args0, k, op, out):
    return (f"CCDist {d}%nat {c_zs(stored)} {c_kw(kw)} {E.c_key(k0)} {c_zs(args0)} {E.c_key(k)} "
            f"{c_cop(op)} {E.c_obs(out)}")


# =============================================================================
# closures / partial applications over static generative functions
# =============================================================================
# each entry: (parameter names, defaults, address universe, builder)
_FUNS = None


def funs():
    global _FUNS
    if _FUNS is None:
        import genjax
        P = E.probes()

        @genjax.gen
        def f0(p, q, r=1.0):
            x = P[1](p, q) @ "x"
            y = P[1](x, q=r) @ "y"
            return x + 2.0 * y + 3.0 * q + 5.0 * p

        @genjax.gen
        def f1(p):
            x = P[0](p) @ "x"
            return (x, p)

        @genjax.gen
        def f2(p, q, r, zz=2.0):
            v = P[2](p, q) @ "v"
            y = P[1](r, zz) @ ("s", "y")
            return v.sum() + y + 2.0 * r, p * q

        @genjax.gen
        def f3():
            x = P[4]() @ "x"
            return x

        _FUNS = [
            (f0, [0, 1, 2], {2: 1}, ["x", "y", "zz"]),
            (f1, [0], {}, ["x", "y"]),
            (f2, [0, 1, 2, 7], {7: 2}, ["v", ("s", "y"), "s", "x"]),
            (f3, [], {}, ["x", "q"]),
        ]
    return _FUNS


def chm_obs(chm, universe):
    out = []
    for a in universe:
        if a in chm:
            v = chm[a]
            out += [1] + ints(v)
        else:
            out += [0]
    return out


def tags_obs(rd):
    import jax
    from genjax import Diff
    isleaf = lambda x: type(x).__name__ in ("_NoChange", "_UnknownChange")
    tans = jax.tree_util.tree_leaves(Diff.tree_tangent(rd), is_leaf=isleaf)
    return [1 if type(t).__name__ == "_UnknownChange" else 0 for t in tans]


def st_obs_trace(tr, uni):
    return chm_obs(tr.get_choices(), uni) + ints(tr.get_score()) + flat_leaves(tr.get_retval())


def args_tail(tr, skip=0):
    """the recorded arguments go last, followed by their count, so that they can be cut off
    (`strip_args`).  `skip`: a partially applied function records only the arguments it was called with,
    not the ones partial_apply closed over; the underlying function's are compared without those."""
    a = flat_leaves(tr.get_args())[skip:] if tr is not None else []
    return [-7] + a + [len(a)]


def strip_args(obs):
    return None if obs is None else obs[:-(obs[-1] + 2)]


def st_bwd_obs(bwd, uni):
    from genjax import Update
    if isinstance(bwd, Update):
        return [1] + chm_obs(bwd.constraint, uni)
    return [2, sum(ord(c) for c in type(bwd).__name__)]


def st_constraint(fi, c):
    """c: list of (address index in the universe, [values])"""
    from genjax import ChoiceMap
    import jax.numpy as jnp
    uni = funs()[fi][3]
    chm = ChoiceMap.empty()
    for ai, vals in c:
        a = uni[ai]
        v = jnp.array([float(x) for x in vals], dtype=jnp.float32)
        v = v[0] if len(vals) == 1 else v
        chm = chm | (ChoiceMap.kw(**{a: v}) if isinstance(a, str) else ChoiceMap.d({a: v}))
    return chm


def st_selection(fi, s):
    from genjax import Selection
    uni = funs()[fi][3]
    if s == "all": return Selection.all()
    if s == "none": return Selection.none()
    return Selection.at[uni[s]]


def st_request(fi, r):
    from genjax import Update, Regenerate
    if r[0] == "upd":
        return Update(st_constraint(fi, r[1]))
    return Regenerate(st_selection(fi, r[1]))


def run_st_method(gf, fi, key0, a0, key, m, x, extra, tr0=None, skip=0):
    """method number m (Closure.v numbering) of gf.  x: args package (m != 4,6) or argdiffs package.
    extra: constraint / selection / request of the case.  a0: args package for the initial trace."""
    uni = funs()[fi][3]
    try:
        if m == 0:
            tr = gf.simulate(key, x)
            return st_obs_trace(tr, uni) + args_tail(tr, skip)
        if m == 1:
            s, r = gf.assess(st_constraint(fi, extra), x)
            return ints(s) + flat_leaves(r) + args_tail(None)
        if m in (2, 5):
            tr, w = (gf.generate if m == 2 else gf.importance)(key, st_constraint(fi, extra), x)
            return st_obs_trace(tr, uni) + ints(w) + args_tail(tr, skip)
        if m == 7:
            c, s, r = gf.propose(key, x)
            return chm_obs(c, uni) + ints(s) + flat_leaves(r) + args_tail(None)
        if tr0 is None:
            tr0 = gf.simulate(key0, a0)
        if m == 3:
            return ints(gf.project(key, tr0, st_selection(fi, extra))) + args_tail(None)
        if m == 4:
            tr, w, rd, bwd = gf.edit(key, tr0, st_request(fi, extra), x)
            return st_obs_trace(tr, uni) + ints(w) + [-8] + tags_obs(rd) + [-9] + st_bwd_obs(bwd, uni) + args_tail(tr, skip)
        if m == 6:
            tr, w, rd, bchm = gf.update(key, tr0, st_constraint(fi, extra), x)
            return st_obs_trace(tr, uni) + ints(w) + [-8] + tags_obs(rd) + [-9] + chm_obs(bchm, uni) + args_tail(tr, skip)
        raise KeyError(m)
    except Inexact:
        raise
    except ERRORS:
        return None


def c_tab(tab):
    ents = []
    for (m, args, kw), o in tab:
        a = clist([f"({cz(v)}, {cbool(u)})" for v, u in args])
        k = "None" if kw is None else "(Some " + clist([f"({n}%nat, ({cz(v)}, {cbool(u)}))" for n, v, u in kw]) + ")"
        ents.append(f"(({m}%nat, {a}, {k}), {E.c_obs(o)})")
    return clist(ents)


def c_cctab(tab, dyn, stored, kw, m, ad, kw2, out):
    return (f"CCTab {c_tab(tab)} {c_zs(dyn)} {c_zs(stored)} {c_kw(kw)} {m}%nat {c_ad(ad)} {c_kw(kw2)} {E.c_obs(out)}")
