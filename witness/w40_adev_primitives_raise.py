"""known-finding witness (C29): four exported ADEV primitives raise on EVERY program.
  flip_mvd                  : sample wraps its argument twice (shape (1,1)); jvp_estimate reads the tangent
                              with Dual.tree_primal and calls kdual(key, primals, tangents)
  flip_enum_parallel        : calls kdual(keys, (values,), tangents) -- the continuation takes (key, dual_tree)
  categorical_enum_parallel : same call; behind it, weights softmax(probs) but samples with probs
  uniform                   : before_tail_call annotates dual_tree: tuple[...] and receives a list
exit 1 while any of them still raises (or returns a wrong exact value)."""
import sys, jax, jax.numpy as jnp
from genjax.adev import expectation, flip_mvd, flip_enum_parallel, categorical_enum_parallel, uniform, Dual

key = jax.random.key(0)
bad = []

def attempt(name, f, check):
    try:
        d = f()
        msg = check(float(d.primal), float(d.tangent))
        if msg:
            bad.append((name, msg))
    except Exception as e:
        bad.append((name, "raises " + type(e).__name__))

@expectation
def l_mvd(p):
    return jnp.sum(jnp.where(flip_mvd(p), 0.0, -p / 2.0))
@expectation
def l_fep(p):
    return jnp.where(flip_enum_parallel(p), 0.0, -p / 2.0)
vals = jnp.array([1.0, 2.0, 4.0])
@expectation
def l_cat(probs):
    return vals[categorical_enum_parallel(probs)]
@expectation
def l_uni(a):
    return uniform() * a

attempt("flip_mvd", lambda: l_mvd.jvp_estimate(key, (Dual(0.25, 1.0),)), lambda p, t: None)
attempt("flip_enum_parallel", lambda: l_fep.jvp_estimate(key, (Dual(0.25, 1.0),)),
        lambda p, t: None if abs(p + 0.09375) < 1e-6 and abs(t + 0.25) < 1e-6 else f"({p},{t}) exact (-0.09375,-0.25)")
attempt("categorical_enum_parallel",
        lambda: l_cat.jvp_estimate(key, (Dual(jnp.array([0.25, 0.25, 0.5]), jnp.array([1.0, 0.0, -1.0])),)),
        lambda p, t: None if abs(p - 2.75) < 1e-5 and abs(t + 3.0) < 1e-5 else f"({p},{t}) exact (2.75,-3)")
attempt("uniform", lambda: l_uni.jvp_estimate(key, (Dual(0.5, 1.0),)),
        lambda p, t: None if abs(p - 0.5 * t) < 1e-6 else f"({p},{t})")
print("FAIL" if bad else "OK", bad)
sys.exit(1 if bad else 0)
