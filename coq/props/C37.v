(* C37 — DiscreteHMM posterior density and sampler are exact.
   Model: coq/model/HMM.v, in probability space over canonical rationals Qc (log a + log b |-> a * b,
   logsumexp |-> sum, x - logsumexp x |-> x / sum x), mirroring discrete_hmm.py branch by branch:
   forward_filtering_backward_sampling (alphas / filters / bwd_dist / ffbs_pmf), latent_sequence_posterior
   (lsp_scan, est_pdf), log_data_marginal (data_lik: TFP's forward algorithm), scaled_circulant.
   Specification: brute force.  joint = prior * prod trans * prod obs; marginal = sum of joint over
   `seqs N T` (all N^T latent sequences); posterior = joint / marginal.
   Every statement is for ALL N, T, prior / transition / observation tables (lists of Qc) — induction on
   the observation sequence, nothing enumerated.  Hypotheses are computable predicates
   (positive, symmetric, in_range), shown satisfiable by C37_hyps_nonvacuous.

   Finding recorded here: the forward pass contracts prev[j] * transition_n[i, j] (it treats the
   COLUMN index as the previous state) while the backward pass and the density path use
   transition_n[prev, next].  For a symmetric transition table (adjacency_distance_trans*2 <= N,
   C37_circulant_symmetric) the two agree and the sampler is exact (C37_ffbs_is_posterior);
   otherwise it is not (C37_ffbs_refuted).  estimate_logpdf and data_logpdf are exact
   unconditionally. *)
From Coq Require Import List Bool ZArith QArith Qcanon.
Import ListNotations.
From Model Require Import HMM.
From Proofs Require Import HMMProofs.
Open Scope Qc_scope.

(* data_logpdf: exp of what TFP's forward algorithm returns is the brute-force marginal likelihood *)
Theorem C37_data_logpdf_is_marginal : forall N pr tr ob y ys,
  data_lik N pr tr ob (y :: ys) = marginal N pr tr ob (y :: ys).
Proof. exact data_lik_is_marginal. Qed.
Print Assumptions C37_data_logpdf_is_marginal.

(* estimate_logpdf: (product of the scanned terms) / data likelihood = joint / marginal, any tables *)
Theorem C37_estimate_logpdf_is_posterior : forall N pr tr ob xs y ys,
  length xs = S (length ys) ->
  est_pdf N pr tr ob xs (y :: ys) = posterior N pr tr ob xs (y :: ys).
Proof. exact est_pdf_is_posterior. Qed.
Print Assumptions C37_estimate_logpdf_is_posterior.

(* ... and that density is normalised over all N^T latent sequences *)
Theorem C37_posterior_normalised : forall N pr tr ob M y ys,
  positive N pr tr ob M = true -> in_range M (y :: ys) = true ->
  qsum (map (fun xs => posterior N pr tr ob xs (y :: ys)) (seqs N (length (y :: ys)))) = 1.
Proof. exact posterior_normalised_pos. Qed.
Print Assumptions C37_posterior_normalised.
Theorem C37_posterior_normalised_nonzero : forall N pr tr ob ys,
  marginal N pr tr ob ys <> 0 ->
  qsum (map (fun xs => posterior N pr tr ob xs ys) (seqs N (length ys))) = 1.
Proof. exact posterior_normalised. Qed.
Print Assumptions C37_posterior_normalised_nonzero.

(* forward filtering: sum_x alpha_T(x) = sum over all latent sequences of the joint ... *)
Theorem C37_forward_sum : forall N pr tr ob y ys,
  symmetric N tr = true ->
  qsum (last (alphas N pr tr ob (y :: ys)) []) = marginal N pr tr ob (y :: ys).
Proof. exact forward_sum. Qed.
Print Assumptions C37_forward_sum.
(* ... in general, of the chain with the TRANSPOSED transition table *)
Theorem C37_forward_sum_transposed : forall N pr tr ob y ys,
  qsum (last (alphas N pr tr ob (y :: ys)) []) = marginal N pr (transpose N tr) ob (y :: ys).
Proof. exact forward_sum_transposed. Qed.
Print Assumptions C37_forward_sum_transposed.

(* backward sampling: the probability that FFBS emits xs is the posterior of xs *)
Theorem C37_ffbs_is_posterior : forall N pr tr ob M,
  positive N pr tr ob M = true ->
  forall y ys xs,
  symmetric N tr = true ->
  in_range N xs = true -> in_range M (y :: ys) = true -> length xs = S (length ys) ->
  ffbs_pmf N pr tr ob (y :: ys) xs = posterior N pr tr ob xs (y :: ys).
Proof. exact ffbs_is_posterior. Qed.
Print Assumptions C37_ffbs_is_posterior.
Theorem C37_ffbs_normalised : forall N pr tr ob M,
  positive N pr tr ob M = true ->
  forall y ys, symmetric N tr = true -> in_range M (y :: ys) = true ->
  qsum (map (fun xs => ffbs_pmf N pr tr ob (y :: ys) xs) (seqs N (length (y :: ys)))) = 1.
Proof. exact ffbs_normalised. Qed.
Print Assumptions C37_ffbs_normalised.

(* random_weighted returns the FFBS sample together with its exact posterior density,
   whatever the categorical draws (`choose`) were *)
Theorem C37_random_weighted_returns_density : forall N pr tr ob choose y ys,
  let '(w, v) := rw N pr tr ob choose (y :: ys) in
  v = ffbs_sample N pr tr ob choose (y :: ys) /\ w = posterior N pr tr ob v (y :: ys).
Proof. exact rw_weight_is_posterior. Qed.
Print Assumptions C37_random_weighted_returns_density.

(* outside the symmetric region: positive, row-stochastic tables for which the sampler's law differs
   from the posterior and the forward pass does not sum to the likelihood *)
Theorem C37_ffbs_refuted :
  exists N M pr tr ob ys xs,
    positive N pr tr ob M = true /\ row_stochastic N pr tr ob M = true /\
    in_range M ys = true /\ in_range N xs = true /\ length xs = length ys /\
    symmetric N tr = false /\
    ffbs_pmf N pr tr ob ys xs <> posterior N pr tr ob xs ys /\
    qsum (last (alphas N pr tr ob ys) []) <> marginal N pr tr ob ys.
Proof. exact ffbs_refuted. Qed.
Print Assumptions C37_ffbs_refuted.

(* the configuration's logits: scaled_circulant is symmetric when the band does not wrap onto itself *)
Theorem C37_circulant_symmetric : forall N k e d i j,
  (0 <= k -> 2 * k <= N -> 0 <= i < N -> 0 <= j < N ->
   circ_entry N k e d i j = circ_entry N k e d j i)%Z.
Proof. exact circ_entry_sym. Qed.
Print Assumptions C37_circulant_symmetric.
Theorem C37_circulant_asymmetric_witness :
  exists N k e d i j, (0 <= i < N)%Z /\ (0 <= j < N)%Z /\ (0 <= k)%Z /\ ~ (2 * k <= N)%Z /\
    ~ (circ_entry N k e d i j == circ_entry N k e d j i)%Q.
Proof. exact circ_asymmetric_witness. Qed.
Print Assumptions C37_circulant_asymmetric_witness.

(* the hypotheses are satisfiable, on a non-trivial instance (N = 2, T = 3) *)
Example C37_hyps_nonvacuous :
  positive 2 w_pr w_sym w_ob 2 = true /\ row_stochastic 2 w_pr w_sym w_ob 2 = true /\
  symmetric 2 w_sym = true /\ in_range 2 [1; 0; 1]%nat = true /\ in_range 2 [0; 1; 1]%nat = true /\
  marginal 2 w_pr w_sym w_ob [1; 0; 1]%nat <> 0 /\
  ffbs_pmf 2 w_pr w_sym w_ob [1; 0; 1]%nat [0; 1; 1]%nat = Q2Qc (15 # 812).
Proof. exact hyps_nonvacuous. Qed.
