"""fixed-defect witness: Marginal.random_weighted (no algorithm) returned the
density of the *unselected* choices as the weight of the selected ones; with
everything selected the weight was 0 (C25, C30).  exit 1 if present."""
import sys, jax, jax.numpy as jnp
import genjax
from genjax import gen, normal, flip, ChoiceMap as C, Selection as S

@gen
def model():
    x = normal(0.0, 1.0) @ "x"
    y = normal(x, 0.5) @ "y"
    return y

bad = []
for seed in range(3):
    key = jax.random.key(seed)
    # everything selected: weight must be the exact joint log-density
    m = model.marginal()
    w, chm = m.random_weighted(key)
    exact, _ = model.assess(chm, ())
    if abs(float(w) - float(exact)) > 1e-4:
        bad.append(("all", float(w), float(exact)))
    e = m.estimate_logpdf(key, chm)
    if abs(float(w) - float(e)) > 1e-4:
        bad.append(("all-vs-estimate", float(w), float(e)))
    # x selected, y downstream: weight must be log p(x)
    m = model.marginal(selection=S.at["x"])
    w, chm = m.random_weighted(key)
    exact = float(genjax.normal.logpdf(chm["x"], 0.0, 1.0))
    if abs(float(w) - exact) > 1e-4:
        bad.append(("x", float(w), exact))
print("FAIL" if bad else "OK", bad[:3])
sys.exit(1 if bad else 0)
