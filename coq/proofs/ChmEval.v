(* Every choice map built through the modelled public API is well-formed (C17):
   the value-level theorems of ChmLookup / ChmDom therefore apply to every map of
   the construction grammar, inside the stated region. *)
From Coq Require Import List Bool ZArith Arith Lia.
Import ListNotations.
From Gen Require Import SelGen.
From Model Require Import Sel Flag Chm ChmSpec.
From Proofs Require Import SelProofs ChmBasics ChmLaws ChmLookup ChmDom.
Open Scope Z_scope.

(* the region, on expressions: scalar address components (an array-shaped component
   would need a vectorised map beneath it), scalar mask flags, in-range array switch
   indices, no jax.vmap *)
Definition xcomp_scalar (x : xcomp) : bool :=
  match x with XS _ | XI (IPy _) | XI (IAr _) => true | _ => false end.
Definition lspec_closed (l : lspec) : bool :=
  match l with LS (AConst _) None | LS (AConst _) (Some (FConst _)) => true | _ => false end.
Fixpoint expr_ok (e : expr) : Prop :=
  match e with
  | EEmpty => True
  | EChoice l => lspec_closed l = true
  | EEntry v q => expr_ok v /\ forallb xcomp_scalar q = true
  | ESetC q v => expr_ok v /\ forallb xcomp_scalar q = true
  | ED pairs => (fix all (l : list (list xcomp * expr)) : Prop :=
                   match l with [] => True | qv :: r => (expr_ok (snd qv) /\ forallb xcomp_scalar (fst qv) = true) /\ all r end) pairs
  | ESet base q v => expr_ok base /\ expr_ok v /\ forallb xcomp_scalar q = true
  | EUpdId base q => expr_ok base /\ forallb xcomp_scalar q = true
  | EUpdConst base q l => expr_ok base /\ forallb xcomp_scalar q = true /\ lspec_closed l = true
  | EOr a b => expr_ok a /\ expr_ok b
  | EMask f a => expr_ok a /\ match f with FConst (FS _ _) => True | _ => False end
  | EFilter _ a => expr_ok a
  | EExtend a q => expr_ok a /\ forallb xcomp_scalar q = true
  | ESwitch i es =>
      (fix all (l : list expr) : Prop := match l with [] => True | x :: r => expr_ok x /\ all r end) es /\
      match i with XPy _ => True | XArr z => 0 <= z < Z.of_nat (length es) end
  | ESub a _ => expr_ok a
  | EVmap _ _ _ _ => False
  end.

Lemma xcomps_scalar r q q' : forallb xcomp_scalar q = true -> mapM (xcomp_b r) q = OK q' -> exists ks, comps_of_b q' = Some ks.
Proof.
  revert q'. induction q as [|x q IH]; intros q' Hs H; simpl in H.
  - injection H as <-. exists []. reflexivity.
  - simpl in Hs. apply andb_prop in Hs. destruct Hs as [Hx Hs].
    inv_bind H. inv_bind H. injection H as <-.
    destruct (IH _ Hs Ha0) as [ks Hk]. simpl. rewrite Hk.
    destruct x as [n|[z|z|l|]|]; simpl in Hx, Ha; try discriminate; injection Ha as <-; simpl; eauto.
Qed.
Lemma lspec_leaf_ok l v : lspec_leaf None l = OK v -> leaf_ok v.
Proof.
  destruct l as [a f]. simpl. destruct a as [a|]; simpl; [|discriminate].
  destruct f as [f|]; [|intros H; injection H as <-; exact I].
  destruct f as [f|]; simpl; [|discriminate]. intros H. now apply mk_mask_ok in H.
Qed.
Lemma wf_empty : wf empty.
Proof. apply wf_Static. split; constructor. Qed.

Lemma builder_set_wf n b q ks v z : builder_set n b q v = OK z -> comps_of_b q = Some ks -> wf v -> wf b -> wf z.
Proof.
  intros H Hq Wv Wb. unfold builder_set in H. destruct (validate_addr q); [|discriminate].
  apply (or_law _ _ _ _ H (wf_extend_scalar _ _ _ Hq Wv) Wb).
Qed.

Theorem eval_wf : forall n e c, eval n None e = OK c -> expr_ok e -> wf c.
Proof.
  induction n as [|n IH]; intros e c H Hok; [discriminate|].
  destruct e; cbn [eval] in H; cbn [expr_ok] in Hok.
  - injection H as <-. apply wf_empty.
  - inv_bind H. injection H as <-. apply wf_choice_build. eapply lspec_leaf_ok; eauto.
  - destruct Hok as [Hv Hq]. inv_bind H. inv_bind H. injection H as <-.
    destruct (xcomps_scalar _ _ _ Hq Ha0) as [ks Hk]. eapply wf_extend_scalar; eauto.
  - destruct Hok as [Hv Hq]. inv_bind H. destruct (validate_addr a); [|discriminate]. inv_bind H.
    destruct (xcomps_scalar _ _ _ Hq Ha) as [ks Hk].
    eapply builder_set_wf; eauto. apply wf_empty.
  - (* ED *)
    assert (G : forall pairs acc c,
              (fix all (l : list (list xcomp * expr)) : Prop :=
                 match l with [] => True | qv :: r => (expr_ok (snd qv) /\ forallb xcomp_scalar (fst qv) = true) /\ all r end) pairs ->
              wf acc ->
              fold_left (fun acc qv => do a <- acc; do c <- eval n None (snd qv); do q' <- mapM (xcomp_b None) (fst qv);
                                       or_build (S n) a (c_extend c q')) pairs (OK acc) = OK c -> wf c).
    { clear -IH. induction pairs as [|[q v] pairs IHp]; intros acc c Hall Wacc H.
      - simpl in H. now injection H as <-.
      - destruct Hall as [[Hv Hq] Hall]. cbn [fst snd] in Hv, Hq.
        cbn [fold_left fst snd] in H. cbn [bind] in H.
        destruct (eval n None v) as [cv|er] eqn:Ev; cbn [bind] in H.
        2:{ rewrite fold_res_err in H; [discriminate|reflexivity]. }
        destruct (mapM (xcomp_b None) q) as [q'|er] eqn:Eq; cbn [bind] in H.
        2:{ rewrite fold_res_err in H; [discriminate|reflexivity]. }
        destruct (or_build (S n) acc (c_extend cv q')) as [acc'|er] eqn:Eo.
        2:{ rewrite fold_res_err in H; [discriminate|reflexivity]. }
        destruct (xcomps_scalar _ _ _ Hq Eq) as [ks Hk].
        apply (IHp _ _ Hall) in H; auto.
        apply (or_law _ _ _ _ Eo Wacc). eapply wf_extend_scalar; eauto. }
    apply (G _ _ _ Hok wf_empty H).
  - destruct Hok as [Hb [Hv Hq]]. inv_bind H. inv_bind H. destruct (validate_addr a0); [|discriminate]. inv_bind H.
    destruct (xcomps_scalar _ _ _ Hq Ha0) as [ks Hk]. eapply builder_set_wf; eauto.
  - destruct Hok as [Hb Hq]. inv_bind H. inv_bind H. inv_bind H. inv_bind H. inv_bind H.
    destruct (xcomps_scalar _ _ _ Hq Ha0) as [ks Hk].
    pose proof (IH _ _ Ha Hb) as Wb.
    destruct (get_submap_law _ _ _ _ Ha2 Wb) as [Ws _].
    destruct (get_value_law _ _ _ Ha3 Ws) as [Hl _].
    eapply builder_set_wf; eauto.
    destruct a3 as [l|]; [apply wf_choice_build; auto|exact Ws].
  - destruct Hok as [Hb [Hq Hl]]. inv_bind H. inv_bind H. inv_bind H. inv_bind H. inv_bind H. inv_bind H.
    destruct (xcomps_scalar _ _ _ Hq Ha0) as [ks Hk].
    eapply builder_set_wf; eauto. apply wf_choice_build. eapply lspec_leaf_ok; eauto.
  - destruct Hok as [H1 H2]. inv_bind H. inv_bind H. apply (or_law _ _ _ _ H); eauto.
  - destruct Hok as [H1 H2]. inv_bind H. inv_bind H.
    destruct f as [[s b|l]|]; try (destruct H2; fail). simpl in Ha0. injection Ha0 as <-.
    apply (mask_law _ _ _ _ H eq_refl). eauto.
  - inv_bind H. apply (filter_sel_law _ _ _ _ H). eauto.
  - destruct Hok as [H1 Hq]. inv_bind H. inv_bind H. injection H as <-.
    destruct (xcomps_scalar _ _ _ Hq Ha0) as [ks Hk]. eapply wf_extend_scalar; eauto.
  - (* ESwitch *)
    destruct Hok as [Hall Hi]. inv_bind H.
    assert (Wcs : Forall wf a).
    { apply mapM_OK in Ha. clear -Ha Hall IH. induction Ha as [|x y es a Hxy _ IHa]; constructor.
      - apply (IH _ _ Hxy). apply Hall.
      - apply IHa. apply Hall. }
    assert (HL : length a = length es) by (apply mapM_OK in Ha; symmetry; apply (Forall2_length _ _ _ Ha)).
    destruct i as [z|z].
    + destruct (switch_python_index _ _ _ _ H) as [j [Hj _]].
      rewrite Forall_forall in Wcs. apply (Wcs _ (nth_error_In _ _ Hj)).
    + replace z with (Z.of_nat (Z.to_nat z)) in H by lia.
      apply (switch_selects _ _ _ _ H Wcs). lia.
  - inv_bind H. apply (get_submap_law _ _ _ _ H). eauto.
  - destruct Hok.
Qed.
