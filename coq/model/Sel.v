(* Hand-written glue around the generated selection classes (gen/SelGen.v).
   Each definition transcribes a pinned method of `Selection` /
   `_SelectionBuilder` (the translator refuses to run if their source changes):

     Selection.__call__      fold of get_subselection over the address tuple
     Selection.__getitem__   check of that
     Selection.extend        right fold of StaticSel.build
     Selection.at[...]       leaf for the empty tuple, else all().extend of addr
     | & ~                   the three smart constructors                        *)
From Coq Require Import List Bool Arith.
Import ListNotations.
From Gen Require Import SelGen.

Definition call (s : sel) (p : list nat) : sel := fold_left get_subselection p s.
Definition mem (s : sel) (p : list nat) : bool := check (call s p).
Definition extend (s : sel) (addrs : list ecomp) : sel :=
  fold_right (fun a acc => StaticSel_build acc a) s addrs.
Definition at_ (addrs : list ecomp) : sel :=
  match addrs with [] => LeafSel | _ => extend AllSel addrs end.

(* Selection terms as a user writes them. *)
Inductive sterm :=
| TAll | TNone | TLeaf
| TAt (q : list ecomp)
| TOr (a b : sterm) | TAnd (a b : sterm) | TNot (a : sterm)
| TSub (a : sterm) (q : list nat)        (* S(q)            *)
| TExt (a : sterm) (q : list ecomp).     (* S.extend of q *)

Fixpoint build (t : sterm) : sel :=
  match t with
  | TAll => AllSel | TNone => NoneSel | TLeaf => LeafSel
  | TAt q => at_ q
  | TOr a b => OrSel_build (build a) (build b)
  | TAnd a b => AndSel_build (build a) (build b)
  | TNot a => ComplementSel_build (build a)
  | TSub a q => call (build a) q
  | TExt a q => extend (build a) q
  end.

(* The specification: which static addresses a term selects, as a Boolean
   combination of the operands' memberships.  No selection object in sight. *)
Definition comp_matches (c : ecomp) (a : nat) : bool :=
  match c with CEllipsis => true | CName n => Nat.eqb a n end.

(* q is matched against the front of p; the rest of p is handed to k *)
Fixpoint under (q : list ecomp) (k : list nat -> bool) (p : list nat) : bool :=
  match q with
  | [] => k p
  | c :: q' => match p with
               | [] => false
               | a :: p' => comp_matches c a && under q' k p'
               end
  end.

Definition is_nil (p : list nat) : bool := match p with [] => true | _ => false end.

Fixpoint spec (t : sterm) (p : list nat) : bool :=
  match t with
  | TAll => true
  | TNone => false
  | TLeaf => is_nil p
  | TAt q => match q with [] => is_nil p | _ => under q (fun _ => true) p end
  | TOr a b => spec a p || spec b p
  | TAnd a b => spec a p && spec b p
  | TNot a => negb (spec a p)
  | TSub a q => spec a (q ++ p)
  | TExt a q => under q (spec a) p
  end.

(* correspondence driver: a case is (term, address, expected answer) *)
Definition sel_case := (sterm * list nat * bool)%type.
Fixpoint mismatches_from (n : nat) (cs : list sel_case) : list nat :=
  match cs with
  | [] => []
  | (t, p, want) :: r =>
      if Bool.eqb (mem (build t) p) want then mismatches_from (S n) r
      else n :: mismatches_from (S n) r
  end.
Definition mismatches := mismatches_from 0.
