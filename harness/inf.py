"""Engine C-inf (C25, C26): enumerable discrete targets built from REAL genjax
distributions (flip / categorical with dyadic probabilities), run through
Marginal / Importance / ImportanceK / ChangeTarget of /repo; Coq literals for
coq/model/Infer.v and coq/model/InferKeys.v; numpy-float64 reference densities
(the direct oracles never use the Coq model)."""
import itertools
import math
from fractions import Fraction

import numpy as np

from .core import clist, cnat, cbool, copt

HEADER = ("From Coq Require Import List ZArith NArith QArith Qcanon Bool.\n"
          "From Model Require Import Prob Infer.\nOpen Scope Qc_scope.")
KHEADER = ("From Coq Require Import List NArith Bool.\n"
           "From Model Require Import Key InferKeys.\nOpen Scope N_scope.")
TOL = 2e-5          # direct oracles: |log w - reference| (float32 log-densities)


# ----------------------------------------------------------------------------
# model specs (JSON-able): sites = [{"n": card, "tab": nested list, shape cards[:i] + (n,)}]
# ----------------------------------------------------------------------------
def dyadic_row(rng, n, denom=8):
    cuts = sorted(rng.sample(range(1, denom), n - 1))
    parts = [b - a for a, b in zip([0] + cuts, cuts + [denom])]
    return [p / denom for p in parts]


def gen_spec(rng, nsites, p_cat=0.3, p_dep=0.75, denom=8):
    sites, cards = [], []
    for i in range(nsites):
        n = 3 if rng.random() < p_cat else 2
        dep = bool(cards) and rng.random() < p_dep
        tab = np.zeros(tuple(cards) + (n,))
        base = dyadic_row(rng, n, denom)
        for idx in np.ndindex(*cards):
            tab[idx] = dyadic_row(rng, n, denom) if dep else base
        sites.append({"n": n, "tab": tab.tolist(), "dep": dep})
        cards.append(n)
    return {"sites": sites}


def cards_of(spec):
    return [s["n"] for s in spec["sites"]]


def tab(spec, i):
    return np.array(spec["sites"][i]["tab"], dtype=np.float32).astype(np.float64)


# ----------------------------------------------------------------------------
# numpy float64 reference (direct oracle side)
# ----------------------------------------------------------------------------
def cond(spec, i, t):
    """P(site i = t[i] | t[:i]) as the float32 table entry, in float64"""
    return float(tab(spec, i)[tuple(t[:i]) + (t[i],)])


def ref_logdens(spec, t, which=None):
    """sum of log conditionals over the sites in `which` (all if None)"""
    n = len(spec["sites"])
    return sum(math.log(cond(spec, i, t)) for i in range(n) if which is None or which[i])


def traces(spec, c=None):
    n = len(spec["sites"])
    c = c or [None] * n
    rng = [[c[i]] if c[i] is not None else range(spec["sites"][i]["n"]) for i in range(n)]
    return [list(t) for t in itertools.product(*rng)]


def ref_evidence(spec, c):
    return sum(math.exp(ref_logdens(spec, t)) for t in traces(spec, c))


# ----------------------------------------------------------------------------
# realisation on the implementation
# ----------------------------------------------------------------------------
def site_name(i):
    return f"s{i}"


def realise(spec, names=None, with_arg=False):
    """@gen function over real genjax distributions; names[i] = address of site i"""
    import jax.numpy as jnp
    import genjax
    n = len(spec["sites"])
    names = names or [site_name(i) for i in range(n)]
    tabs = [jnp.array(np.array(s["tab"], dtype=np.float32)) for s in spec["sites"]]
    cards = cards_of(spec)

    def body(*_args):
        vals = []
        v = None
        for i in range(n):
            row = tabs[i][tuple(vals)]
            if cards[i] == 2:
                v = genjax.flip(row[1]) @ names[i]
                vals.append(v.astype(jnp.int32))
            else:
                v = genjax.categorical(logits=jnp.log(row)) @ names[i]
                vals.append(v)
        return vals[-1] if vals else jnp.zeros(())

    if with_arg:
        def fn(target):
            return body()
    else:
        def fn():
            return body()
    return genjax.gen(fn)


_SDA = {}


def site_dist_assess(spec, i, t):
    """log density of site i at t through the REAL distribution object's assess (memoised)"""
    k = (id_of(spec), i, tuple(t[: i + 1]))
    if k not in _SDA:
        _SDA[k] = _site_dist_assess(spec, i, t)
    return _SDA[k]


def id_of(obj):
    import json
    return json.dumps(obj, sort_keys=True)


def _site_dist_assess(spec, i, t):
    import jax.numpy as jnp
    import genjax
    from genjax import ChoiceMapBuilder as C
    row = jnp.array(np.array(spec["sites"][i]["tab"], dtype=np.float32))[tuple(t[:i])]
    if spec["sites"][i]["n"] == 2:
        w, _ = genjax.flip.assess(C.v(jnp.array(bool(t[i]))), (row[1],))
    else:
        w, _ = genjax.categorical.assess(C.v(jnp.array(int(t[i]))), (jnp.log(row),))
    return float(w)


def to_chm(c, spec=None, names=None):
    """positional constraint (list of int|None) -> ChoiceMap"""
    import jax.numpy as jnp
    from genjax import ChoiceMap
    from genjax import ChoiceMapBuilder as C
    out = ChoiceMap.empty()
    for i, v in enumerate(c):
        if v is None:
            continue
        nm = names[i] if names else site_name(i)
        card = spec["sites"][i]["n"] if spec else 2
        val = jnp.array(bool(v)) if card == 2 else jnp.array(int(v), dtype=jnp.int32)
        out = out | C[nm].set(val)
    return out


def has(chm, name):
    return bool(np.asarray(name in chm))


def from_chm(chm, n, names=None):
    out = []
    for i in range(n):
        nm = names[i] if names else site_name(i)
        out.append(int(np.asarray(chm[nm])) if has(chm, nm) else None)
    return out


def from_particles(pc, n):
    """ParticleCollection -> ([trace per particle], [log weight per particle])"""
    ch = pc.get_particles().get_choices()
    lw = np.asarray(pc.get_log_weights(), dtype=np.float64).reshape(-1)
    cols = [np.asarray(ch[site_name(i)]).reshape(-1).astype(int) for i in range(n)]
    K = lw.shape[0]
    return [[int(cols[i][k]) for i in range(n)] for k in range(K)], [float(x) for x in lw]


def selection_of(b):
    from genjax import Selection
    from genjax import SelectionBuilder as S
    sel = Selection.none()
    for i, x in enumerate(b):
        if x:
            sel = sel | S[site_name(i)]
    return sel


def key_of(seed):
    import jax
    return jax.random.key(int(seed))


# a SampleDistribution with exact densities (not beartyped: lives outside the genjax package)
_GFP = None


def gf_proposal(gf):
    global _GFP
    if _GFP is None:
        from genjax._src.core.pytree import Pytree
        from genjax._src.generative_functions.distributions.distribution import Distribution

        @Pytree.dataclass
        class GFProposal(Distribution):
            gf: object

            def random_weighted(self, key, *args):
                tr = self.gf.simulate(key, tuple(args))
                return tr.get_score(), tr.get_choices()

            def estimate_logpdf(self, key, v, *args):
                w, _ = self.gf.assess(v, tuple(args))
                return w
        _GFP = GFProposal
    return _GFP(gf)


_PROPS = {}


def build_proposal(q, tspec):
    if q is None:
        return None
    k = id_of([q, len(tspec["sites"])])
    if k not in _PROPS:
        _PROPS[k] = _build_proposal(q, tspec)
    return _PROPS[k]


def _build_proposal(q, tspec):
    """q = {"kind": "marg"|"gf", "spec":..., "idx": [target site per q site], "sel": [bool]}"""
    n = len(tspec["sites"])
    names = [site_name(i) if i < n else f"aux{i}" for i in q["idx"]]
    gf = realise(q["spec"], names=names, with_arg=True)
    if q["kind"] == "gf":
        return gf_proposal(gf)
    from genjax import Selection
    from genjax import SelectionBuilder as S
    sel = Selection.none()
    for j, x in enumerate(q["sel"]):
        if x:
            sel = sel | S[names[j]]
    return gf.marginal(selection=sel)


def build_alg(a, cache=None):
    """a = ["imp", tgt, q] | ["impk", tgt, q, K] | ["change", a, tgt]; tgt = {"spec":..., "c": [...]}"""
    from genjax.inference import Target
    from genjax.inference.smc import Importance, ImportanceK, ChangeTarget
    k = a[0]
    if k == "change":
        return ChangeTarget(build_alg(a[1]), build_target(a[2]))
    tgt = build_target(a[1])
    q = build_proposal(a[2], a[1]["spec"])
    if k == "imp":
        return Importance(tgt, q)
    return ImportanceK(tgt, q, int(a[3]))


_MODELS = {}


def model_of(spec):
    key = id_of(spec)
    if key not in _MODELS:
        _MODELS[key] = realise(spec)
    return _MODELS[key]


def build_target(t):
    from genjax.inference import Target
    return Target(model_of(t["spec"]), (), to_chm(t["c"], t["spec"]))


# ----------------------------------------------------------------------------
# Coq literals
# ----------------------------------------------------------------------------
def cq(x):
    fr = Fraction(x)
    num = f"({fr.numerator})" if fr.numerator < 0 else str(fr.numerator)
    return f"(Q2Qc ({num} # {fr.denominator}))"


def cq_exp(logw):
    """exp of a log-weight, computed in float64, as an exact rational literal"""
    return cq(math.exp(float(logw)))


def c_model(spec):
    items = []
    for s in spec["sites"]:
        flat = np.array(s["tab"], dtype=np.float32).astype(np.float64).reshape(-1)
        items.append(f"({cnat(s['n'])}, {clist([cq(float(x)) for x in flat])})")
    return f"(tmodel {clist(items)})"


def c_cmap(c):
    return clist(["None" if v is None else f"(Some {int(v)}%Z)" for v in c])


def c_trace(t):
    return clist([f"{int(v)}%Z" for v in t])


def c_bools(b):
    return clist([cbool(x) for x in b])


def c_target(t):
    return f"(mkTarget {c_model(t['spec'])} {c_cmap(t['c'])})"


def c_prop(q, n):
    if q is None:
        return "None"
    idx = clist([cnat(i) for i in q["idx"]])
    if q["kind"] == "gf":
        return f"(Some (gprop {c_model(q['spec'])} {idx} {cnat(n)}))"
    return f"(Some (mprop {c_model(q['spec'])} {c_bools(q['sel'])} {idx} {cnat(n)}))"


def c_alg(a):
    k = a[0]
    if k == "change":
        return f"(AChange {c_alg(a[1])} {c_target(a[2])})"
    n = len(a[1]["spec"]["sites"])
    if k == "imp":
        return f"(AImp {c_target(a[1])} {c_prop(a[2], n)})"
    return f"(AImpK {c_target(a[1])} {c_prop(a[2], n)} {cnat(a[3])})"


def c_particles(ts, lws):
    return clist([f"({c_trace(t)}, {cq_exp(w)})" for t, w in zip(ts, lws)])


def final_target(a):
    return a[2] if a[0] == "change" else a[1]


def num_particles(a):
    return num_particles(a[1]) if a[0] == "change" else (1 if a[0] == "imp" else int(a[3]))


# ----------------------------------------------------------------------------
# key-echo programs (engine part for InferKeys.v)
# ----------------------------------------------------------------------------
_ECHO = None


def echo_dist():
    global _ECHO
    if _ECHO is None:
        import jax
        import jax.numpy as jnp
        from genjax._src.generative_functions.distributions.distribution import exact_density
        _ECHO = exact_density(lambda key: (jax.random.key_data(key) % (2 ** 20)).astype(jnp.float32),
                              lambda v: jnp.zeros(()), "echo")
    return _ECHO


def kgf_leaves(g, prefix=(), names=None):
    """g = "d" | ["s", [children]] ; leaf addresses (tuples of names) in traced order;
    names = names of the top-level sites (default a0, a1, ...)"""
    if g == "d":
        return [prefix]
    out = []
    for i, ch in enumerate(g[1]):
        nm = names[i] if names else f"a{i}"
        out += kgf_leaves(ch, prefix + (nm,))
    return out


def realise_kgf(g, names=None, with_arg=False):
    """static function whose leaves are key-echo sites; names = top-level site names"""
    import genjax
    echo = echo_dist()
    if g == "d":
        return echo
    subs = [realise_kgf(ch) for ch in g[1]]
    nm = names or [f"a{i}" for i in range(len(subs))]

    def body():
        r = None
        for i, sub in enumerate(subs):
            r = sub() @ nm[i]
        return r
    if with_arg:
        def fn(target):
            return body()
    else:
        def fn():
            return body()
    return genjax.gen(fn)


def c_kgf(g):
    return "KDist" if g == "d" else f"(KStatic {clist([c_kgf(ch) for ch in g[1]])})"


def c_ktarget(t):
    return f"(mkKT {c_kgf(t['g'])} {c_bools(t['obs'])})"


def c_kalg(a):
    k = a[0]
    if k == "change":
        amap = clist(["None" if x is None else f"(Some {cnat(x)})" for x in a[3]])
        return f"(KChange {c_kalg(a[1])} {c_ktarget(a[2])} {amap})"
    q = "None" if a[2] is None else f"(Some {clist([cnat(i) for i in a[2]])})"
    if k == "imp":
        return f"(KImp {c_ktarget(a[1])} {q})"
    return f"(KImpK {c_ktarget(a[1])} {q} {cnat(a[3])})"


def k_obs_chm(t, names=None):
    import jax.numpy as jnp
    from genjax import ChoiceMap
    from genjax import ChoiceMapBuilder as C
    out = ChoiceMap.empty()
    for addr, o in zip(kgf_leaves(t["g"], names=t.get("names")), t["obs"]):
        if o:
            out = out | C[addr].set(jnp.zeros(2))
    return out


def build_kalg(a):
    from genjax.inference import Target
    from genjax.inference.smc import Importance, ImportanceK, ChangeTarget
    k = a[0]
    if k == "change":
        return ChangeTarget(build_kalg(a[1]), Target(realise_kgf(a[2]["g"], a[2].get("names")), (), k_obs_chm(a[2])))
    t = a[1]
    tgt = Target(realise_kgf(t["g"], t.get("names")), (), k_obs_chm(t))
    q = None
    if a[2] is not None:
        leaves = kgf_leaves(t["g"], names=t.get("names"))
        # proposal sites carry the (top-level) address of the target leaf they propose
        qnames = [leaves[i][0] for i in a[2]]
        q = realise_kgf(["s", ["d"] * len(a[2])], names=qnames, with_arg=True).marginal()
    if k == "imp":
        return Importance(tgt, q)
    return ImportanceK(tgt, q, int(a[3]))


def k_particles(pc, t):
    """per particle, per leaf: (w0, w1) echo words"""
    ch = pc.get_particles().get_choices()
    leaves = kgf_leaves(t["g"], names=t.get("names"))
    cols = [np.asarray(ch[addr]).reshape(-1, 2) for addr in leaves]
    K = cols[0].shape[0]
    return [[(int(cols[j][k][0]), int(cols[j][k][1])) for j in range(len(leaves))] for k in range(K)]


# ----------------------------------------------------------------------------
# running cases on the implementation in worker processes (fresh interpreters: spawn)
# ----------------------------------------------------------------------------
def _work(args):
    import importlib
    import warnings
    warnings.filterwarnings("ignore")
    modname, fname, chunk = args
    fn = getattr(importlib.import_module(modname), fname)
    out = []
    for c in chunk:
        try:
            out.append(fn(c))
        except Exception as e:      # an exception of the implementation on a generated case is itself reported
            out.append({"term": None, "why": f"raised {type(e).__name__}: {str(e)[:300]}", "sig": None, "obs": None})
    return out


def pmap(modname, fname, cases, workers=6, chunk=6):
    """[fn(c) for c in cases], order preserved, in `workers` spawned processes"""
    import multiprocessing as mp
    from concurrent.futures import ProcessPoolExecutor
    if workers <= 1 or len(cases) <= chunk:
        return _work((modname, fname, cases))
    chunks = [cases[i:i + chunk] for i in range(0, len(cases), chunk)]
    with ProcessPoolExecutor(max_workers=workers, mp_context=mp.get_context("spawn")) as ex:
        res = list(ex.map(_work, [(modname, fname, ch) for ch in chunks]))
    return [r for ch in res for r in ch]


def tie_one(name, header, term, ctype, fn):
    """single-case correspondence (used by --replay when a case has no direct oracle, or was reported by
    the tie): True iff the Coq model agrees with what the implementation just returned"""
    from . import core
    mism, errs = core.coq_mismatches(name, header, [term], ctype, fn=fn)
    for e in errs:
        print(e)
    return not mism and not errs
