(* C37 — DiscreteHMM posterior density and sampler are exact.
   Model: coq/model/HMM.v, in probability space over canonical rationals Qc (log a + log b |-> a * b,
   logsumexp |-> sum, x - logsumexp x |-> x / sum x), mirroring discrete_hmm.py branch by branch:
   forward_filtering_backward_sampling (alphas / filters / bwd_dist / ffbs_pmf), latent_sequence_posterior
   (lsp_scan, est_pdf), log_data_marginal (data_lik: TFP's forward algorithm), scaled_circulant.
   Specification: brute force.  joint = prior * prod trans * prod obs; marginal = sum of joint over
   `seqs N T` (all N^T latent sequences); posterior = joint / marginal.
   Every statement is for ALL N, T, prior / transition / observation tables (lists of Qc) — induction on
   the observation sequence, nothing enumerated.  Hypotheses are computable predicates
   (positive, symmetric, in_range), shown satisfiable by C37_hyps_nonvacuous.

   Repaired defect F37: the forward pass used to contract prev[j] * transition_n[i, j] (the COLUMN
   index as the previous state) while the backward pass and the density path use
   transition_n[prev, next].  The model now mirrors the repaired pass (alpha_step) and every theorem
   holds without a symmetry hypothesis; the old pass is kept as alpha_step_transposed with
   C37_ffbs_transposed_refuted (it does not sample the posterior on an asymmetric table) and
   C37_transposed_agrees_when_symmetric / C37_circulant_symmetric (why it went unnoticed:
   adjacency_distance_trans*2 <= N gives a symmetric table). *)
From Coq Require Import List Bool ZArith QArith Qcanon.
Import ListNotations.
From Model Require Import HMM.
From Proofs Require Import HMMProofs.
Open Scope Qc_scope.

(* data_logpdf: exp of what TFP's forward algorithm returns is the brute-force marginal likelihood *)
Theorem C37_data_logpdf_is_marginal : forall N pr tr ob y ys,
  data_lik N pr tr ob (y :: ys) = marginal N pr tr ob (y :: ys).
Proof. exact data_lik_is_marginal. Qed.
Print Assumptions C37_data_logpdf_is_marginal.

(* estimate_logpdf: (product of the scanned terms) / data likelihood = joint / marginal, any tables *)
Theorem C37_estimate_logpdf_is_posterior : forall N pr tr ob xs y ys,
  length xs = S (length ys) ->
  est_pdf N pr tr ob xs (y :: ys) = posterior N pr tr ob xs (y :: ys).
Proof. exact est_pdf_is_posterior. Qed.
Print Assumptions C37_estimate_logpdf_is_posterior.

(* ... and that density is normalised over all N^T latent sequences *)
Theorem C37_posterior_normalised : forall N pr tr ob M y ys,
  positive N pr tr ob M = true -> in_range M (y :: ys) = true ->
  qsum (map (fun xs => posterior N pr tr ob xs (y :: ys)) (seqs N (length (y :: ys)))) = 1.
Proof. exact posterior_normalised_pos. Qed.
Print Assumptions C37_posterior_normalised.
Theorem C37_posterior_normalised_nonzero : forall N pr tr ob ys,
  marginal N pr tr ob ys <> 0 ->
  qsum (map (fun xs => posterior N pr tr ob xs ys) (seqs N (length ys))) = 1.
Proof. exact posterior_normalised. Qed.
Print Assumptions C37_posterior_normalised_nonzero.

(* forward filtering: sum_x alpha_T(x) = sum over all latent sequences of the joint, for every table *)
Theorem C37_forward_sum : forall N pr tr ob y ys,
  qsum (last (alphas N pr tr ob (y :: ys)) []) = marginal N pr tr ob (y :: ys).
Proof. exact forward_sum. Qed.
Print Assumptions C37_forward_sum.

(* backward sampling: the probability that FFBS emits xs is the posterior of xs (no symmetry needed) *)
Theorem C37_ffbs_is_posterior : forall N pr tr ob M,
  positive N pr tr ob M = true ->
  forall y ys xs,
  in_range N xs = true -> in_range M (y :: ys) = true -> length xs = S (length ys) ->
  ffbs_pmf N pr tr ob (y :: ys) xs = posterior N pr tr ob xs (y :: ys).
Proof. exact ffbs_is_posterior. Qed.
Print Assumptions C37_ffbs_is_posterior.
Theorem C37_ffbs_normalised : forall N pr tr ob M,
  positive N pr tr ob M = true ->
  forall y ys, in_range M (y :: ys) = true ->
  qsum (map (fun xs => ffbs_pmf N pr tr ob (y :: ys) xs) (seqs N (length (y :: ys)))) = 1.
Proof. exact ffbs_normalised. Qed.
Print Assumptions C37_ffbs_normalised.

(* random_weighted returns the FFBS sample together with its exact posterior density,
   whatever the categorical draws (`choose`) were *)
Theorem C37_random_weighted_returns_density : forall N pr tr ob choose y ys,
  let '(w, v) := rw N pr tr ob choose (y :: ys) in
  v = ffbs_sample N pr tr ob choose (y :: ys) /\ w = posterior N pr tr ob v (y :: ys).
Proof. exact rw_weight_is_posterior. Qed.
Print Assumptions C37_random_weighted_returns_density.

(* ---- what the repair F37 fixed: the forward pass with the transposed table (alpha_step_transposed) ---- *)
(* it summed to the likelihood of the chain with the TRANSPOSED transition table *)
Theorem C37_forward_sum_transposed : forall N pr tr ob y ys,
  qsum (last (alphas_transposed N pr tr ob (y :: ys)) []) = marginal N pr (transpose N tr) ob (y :: ys).
Proof. exact forward_sum_transposed. Qed.
Print Assumptions C37_forward_sum_transposed.
(* positive, row-stochastic, asymmetric tables for which its sampler's law differs from the posterior
   and its forward pass does not sum to the likelihood *)
Theorem C37_ffbs_transposed_refuted :
  exists N M pr tr ob ys xs,
    positive N pr tr ob M = true /\ row_stochastic N pr tr ob M = true /\
    in_range M ys = true /\ in_range N xs = true /\ length xs = length ys /\
    symmetric N tr = false /\
    ffbs_pmf_transposed N pr tr ob ys xs <> posterior N pr tr ob xs ys /\
    qsum (last (alphas_transposed N pr tr ob ys) []) <> marginal N pr tr ob ys.
Proof. exact ffbs_transposed_refuted. Qed.
Print Assumptions C37_ffbs_transposed_refuted.
(* on a symmetric table the two coincide: the repair changed nothing there *)
Theorem C37_transposed_agrees_when_symmetric : forall N pr tr ob ys xs,
  symmetric N tr = true ->
  ffbs_pmf_transposed N pr tr ob ys xs = ffbs_pmf N pr tr ob ys xs.
Proof. exact transposed_agrees_when_symmetric. Qed.
Print Assumptions C37_transposed_agrees_when_symmetric.

(* the configuration's logits: scaled_circulant is symmetric when the band does not wrap onto itself *)
Theorem C37_circulant_symmetric : forall N k e d i j,
  (0 <= k -> 2 * k <= N -> 0 <= i < N -> 0 <= j < N ->
   circ_entry N k e d i j = circ_entry N k e d j i)%Z.
Proof. exact circ_entry_sym. Qed.
Print Assumptions C37_circulant_symmetric.
Theorem C37_circulant_asymmetric_witness :
  exists N k e d i j, (0 <= i < N)%Z /\ (0 <= j < N)%Z /\ (0 <= k)%Z /\ ~ (2 * k <= N)%Z /\
    ~ (circ_entry N k e d i j == circ_entry N k e d j i)%Q.
Proof. exact circ_asymmetric_witness. Qed.
Print Assumptions C37_circulant_asymmetric_witness.

(* the hypotheses are satisfiable, on a non-trivial instance with an ASYMMETRIC transition table
   (N = 2, T = 3) *)
Example C37_hyps_nonvacuous :
  positive 2 w_pr w_asym w_ob 2 = true /\ row_stochastic 2 w_pr w_asym w_ob 2 = true /\
  symmetric 2 w_asym = false /\ in_range 2 [1; 0; 1]%nat = true /\ in_range 2 [0; 1; 1]%nat = true /\
  marginal 2 w_pr w_asym w_ob [1; 0; 1]%nat <> 0 /\
  ffbs_pmf 2 w_pr w_asym w_ob [1; 0; 1]%nat [0; 1; 1]%nat = Q2Qc (675 # 26288).
Proof. exact hyps_nonvacuous. Qed.
