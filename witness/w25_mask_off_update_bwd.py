"""C06: an update that switches a mask flag off AND constrains a choice under the mask overwrites the (now hidden)
value in the stored trace, but the backward request is the old values masked by the NEW flag, i.e. empty; applying
it with the original arguments (flag on again) reveals the overwritten value instead of the original one.
exit 0 = property holds, exit 1 = defect shows."""
import sys, os
os.environ.setdefault("JAX_PLATFORMS", "cpu")
import jax, jax.numpy as jnp, genjax
from genjax import ChoiceMapBuilder as C, Diff, Update

@genjax.gen
def f(x):
    return genjax.normal(x, 1.0) @ "x"

m = f.mask()
on, off = (jnp.array(True), 0.0), (jnp.array(False), 0.0)
tr = m.simulate(jax.random.key(0), on)
x0 = tr.get_choices()["x"]
new, w, _, bwd = Update(C["x"].set(3.0)).edit(jax.random.key(1), tr, Diff.unknown_change(off))
back, w2, _, _ = bwd.edit(jax.random.key(2), new, Diff.unknown_change(on))
x1 = back.get_choices()["x"]
ok = bool(jnp.allclose(x1.unmask() if hasattr(x1, "unmask") else x1, x0.unmask() if hasattr(x0, "unmask") else x0)) and bool(jnp.allclose(w2, -w))
print("original x", x0, "after undo", x1, "weights", float(w), float(w2), "OK" if ok else "NOT RESTORED")
sys.exit(0 if ok else 1)
