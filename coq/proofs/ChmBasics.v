(* Basic lemmas for the choice-map model (C17, C33): the error monad, mapM,
   unfolding equations of the abstraction, leaves. *)
From Coq Require Import List Bool ZArith Arith Lia.
Import ListNotations.
From Gen Require Import SelGen.
From Model Require Import Sel Flag Chm ChmSpec.
Open Scope Z_scope.

(* ---- monad ---- *)
Lemma bind_OK {A B} (x : res A) (f : A -> res B) b :
  bind x f = OK b -> exists a, x = OK a /\ f a = OK b.
Proof. destruct x; simpl; intros H; [eauto|discriminate]. Qed.

Ltac inv_bind H :=
  let a := fresh "a" in let Ha := fresh "Ha" in
  apply bind_OK in H; destruct H as [a [Ha H]].
Ltac inv_ok H := injection H as H; try subst.

Lemma mapM_OK {A B} (f : A -> res B) : forall l l', mapM f l = OK l' -> Forall2 (fun a b => f a = OK b) l l'.
Proof.
  induction l as [|a l IH]; simpl; intros l' H.
  - injection H as <-. constructor.
  - inv_bind H. inv_bind H. injection H as <-. constructor; auto.
Qed.

Lemma Forall2_length {A B} (R : A -> B -> Prop) l l' : Forall2 R l l' -> length l = length l'.
Proof. induction 1; simpl; auto. Qed.
Lemma Forall2_nth {A B} (R : A -> B -> Prop) l l' :
  Forall2 R l l' -> forall j x, nth_error l j = Some x -> exists y, nth_error l' j = Some y /\ R x y.
Proof.
  induction 1; intros j z Hj; destruct j; simpl in *; try discriminate.
  - injection Hj as <-. eauto.
  - eauto.
Qed.
Lemma Forall2_nth_r {A B} (R : A -> B -> Prop) l l' :
  Forall2 R l l' -> forall j y, nth_error l' j = Some y -> exists x, nth_error l j = Some x /\ R x y.
Proof.
  induction 1; intros j z Hj; destruct j; simpl in *; try discriminate.
  - injection Hj as <-. eauto.
  - eauto.
Qed.

(* enum *)
Lemma combine_seq_nth {A} (l : list A) : forall s j x,
  nth_error l j = Some x -> nth_error (combine (seq s (length l)) l) j = Some ((s + j)%nat, x).
Proof.
  induction l as [|a l IH]; intros s j x H; destruct j; simpl in *; try discriminate.
  - injection H as <-. now rewrite Nat.add_0_r.
  - rewrite (IH (S s) j x H). f_equal. f_equal. lia.
Qed.
Lemma enum_nth {A} (l : list A) j x : nth_error l j = Some x -> nth_error (enum l) j = Some (j, x).
Proof. intros H. unfold enum. now rewrite (combine_seq_nth l 0 j x H). Qed.
Lemma enum_length {A} (l : list A) : length (enum l) = length l.
Proof. unfold enum. rewrite combine_length, seq_length. lia. Qed.

Lemma mapM_enum_OK {A B} (g : nat -> A -> res B) l l' :
  mapM (fun kc => g (fst kc) (snd kc)) (enum l) = OK l' ->
  length l' = length l /\
  forall j x, nth_error l j = Some x -> exists y, nth_error l' j = Some y /\ g j x = OK y.
Proof.
  intros H. apply mapM_OK in H. split.
  - rewrite <- (Forall2_length _ _ _ H). apply enum_length.
  - intros j x Hj. destruct (Forall2_nth _ _ _ H j (j, x) (enum_nth l j x Hj)) as [y [Hy Hg]]. eauto.
Qed.

(* ---- funion / fmask ---- *)
Lemma funion_None_r x : funion x None = x.
Proof. now destruct x. Qed.
Lemma fmask_None b : fmask b None = None.
Proof. now destruct b. Qed.
Lemma fmask_funion b x y : fmask b (funion x y) = funion (fmask b x) (fmask b y).
Proof. destruct b, x; reflexivity. Qed.
Lemma fmask_fmask a b x : fmask a (fmask b x) = fmask b (fmask a x).
Proof. destruct a, b; reflexivity. Qed.
Lemma fmask_if (b c : bool) (x : option Z) : (if c then fmask b x else None) = fmask b (if c then x else None).
Proof. destruct b, c; reflexivity. Qed.

Fixpoint first_some (l : list (option Z)) : option Z :=
  match l with [] => None | x :: r => funion x (first_some r) end.
Lemma first_some_single : forall l k v,
  nth_error l k = Some v ->
  (forall j w, nth_error l j = Some w -> j <> k -> w = None) ->
  first_some l = v.
Proof.
  induction l as [|x l IH]; intros k v Hk Hall; destruct k; simpl in *; try discriminate.
  - injection Hk as <-.
    assert (first_some l = None) as ->.
    { clear IH. assert (forall j w, nth_error l j = Some w -> w = None) as H.
      { intros j w Hj. apply (Hall (S j) w Hj). lia. }
      clear Hall. induction l as [|y l IHl]; simpl; auto.
      rewrite (H 0%nat y eq_refl). simpl. apply IHl. intros j w Hj. apply (H (S j) w Hj). }
    apply funion_None_r.
  - rewrite (Hall 0%nat x eq_refl); [|lia]. simpl. apply (IH k v Hk).
    intros j w Hj Hne. apply (Hall (S j) w Hj). lia.
Qed.
Lemma first_some_all_none : forall l, (forall j w, nth_error l j = Some w -> w = None) -> first_some l = None.
Proof.
  induction l as [|x l IH]; intros H; simpl; auto.
  rewrite (H 0%nat x eq_refl). simpl. apply IH. intros j w Hj. apply (H (S j) w Hj).
Qed.
Lemma first_some_fmask b l : first_some (map (fmask b) l) = fmask b (first_some l).
Proof. induction l as [|x l IH]; simpl; [now rewrite fmask_None|]. now rewrite IH, fmask_funion. Qed.

(* ---- unfolding the abstraction ---- *)
Lemma abs_Static m pend p :
  abs (Static m) pend p =
  match split_static p with
  | Some (is, n, rest) => match assoc n m with Some c' => abs c' (pend ++ is) rest | None => None end
  | None => None
  end.
Proof.
  simpl. destruct (split_static p) as [[[is n] rest]|]; [|reflexivity].
  induction m as [|[k c'] m IH]; simpl; [reflexivity|].
  destruct (Nat.eqb k n); [reflexivity|exact IH].
Qed.
Lemma abs_Switch i cs pend p :
  abs (Switch i cs) pend p = first_some (map (fun c => abs c pend p) cs).
Proof. simpl. induction cs as [|c cs IH]; simpl; [reflexivity|]. now rewrite IH. Qed.
Lemma abs_Or a b pend p : abs (Or a b) pend p = funion (abs a pend p) (abs b pend p).
Proof. reflexivity. Qed.
Lemma abs_empty pend p : abs empty pend p = None.
Proof. unfold empty. rewrite abs_Static. destruct (split_static p) as [[[? ?] ?]|]; reflexivity. Qed.
Lemma abs_Indexed_none c a pend p : (forall pend p, abs c pend p = None) -> abs (Indexed c a) pend p = None.
Proof.
  intros H. simpl. destruct p as [|[n|i] rest]; try reflexivity.
  destruct a as [k|k|l|]; try reflexivity.
  - destruct (Z.eqb k (lidx_z i)); auto.
  - destruct (Z.eqb k (lidx_z i)); auto.
  - destruct pend as [|r pend'].
    + destruct (find_index l (lidx_z i) 0); auto.
    + destruct (nget l r); auto. destruct (Z.eqb z (lidx_z i)); auto.
Qed.
Lemma abs_Indexed_empty a pend p : abs (Indexed empty a) pend p = None.
Proof. apply abs_Indexed_none. apply abs_empty. Qed.

Lemma wf_Static m : wf (Static m) <-> NoDup (map fst m) /\ Forall (fun kv => wf (snd kv)) m.
Proof.
  simpl. split; intros [H1 H2]; split; auto.
  - induction m as [|kv m IH]; constructor; [tauto|]. apply IH; [now inversion H1|tauto].
  - induction m as [|kv m IH]; [exact I|]. inversion H2; subst. split; auto. apply IH; auto. now inversion H1.
Qed.
Lemma all_wf_Forall cs :
  (fix all (cs : list chm) : Prop := match cs with [] => True | c' :: r => wf c' /\ all r end) cs <-> Forall wf cs.
Proof. induction cs as [|c cs IH]; split; intros H; try constructor; try tauto; inversion H; subst; tauto. Qed.
Lemma wf_Switch i cs :
  wf (Switch i cs) <->
  (exists k, i = SArr (Z.of_nat k) /\ (k < length cs)%nat /\
             forall j cj, nth_error cs j = Some cj -> j <> k -> forall pend p, abs cj pend p = None) /\
  Forall wf cs.
Proof. simpl. rewrite all_wf_Forall. reflexivity. Qed.
Lemma vect_Static m : vect (Static m) <-> Forall (fun kv => vect (snd kv)) m.
Proof. simpl. induction m as [|kv m IH]; split; intros H; try constructor; try tauto; inversion H; subst; tauto. Qed.
Lemma vect_wf : forall c, vect c -> wf c -> True.
Proof. trivial. Qed.

(* assoc *)
Lemma assoc_In n m c : assoc n m = Some c -> In (n, c) m.
Proof.
  induction m as [|[k v] m IH]; simpl; [discriminate|].
  destruct (Nat.eqb k n) eqn:E; intros H.
  - apply Nat.eqb_eq in E. injection H as <-. subst. now left.
  - right. auto.
Qed.
Lemma assoc_None n m : assoc n m = None <-> ~ In n (map fst m).
Proof.
  induction m as [|[k v] m IH]; simpl; [tauto|].
  destruct (Nat.eqb k n) eqn:E.
  - apply Nat.eqb_eq in E. subst. split; [discriminate|tauto].
  - apply Nat.eqb_neq in E. rewrite IH. tauto.
Qed.
Lemma assoc_app n m1 m2 : assoc n (m1 ++ m2) = match assoc n m1 with Some c => Some c | None => assoc n m2 end.
Proof. induction m1 as [|[k v] m1 IH]; simpl; [reflexivity|]. destruct (Nat.eqb k n); auto. Qed.
Lemma assoc_filter_nodup (P : nat * chm -> bool) n m :
  NoDup (map fst m) ->
  assoc n (filter P m) = match assoc n m with Some c => if P (n, c) then Some c else None | None => None end.
Proof.
  induction m as [|[k v] m IH]; simpl; intros ND; [reflexivity|].
  inversion ND as [|? ? Hnin ND']; subst.
  destruct (Nat.eqb k n) eqn:E.
  - apply Nat.eqb_eq in E. subst. destruct (P (n, v)) eqn:EP; simpl.
    + now rewrite Nat.eqb_refl.
    + rewrite (IH ND'). apply assoc_None in Hnin. now rewrite Hnin.
  - destruct (P (k, v)); simpl; [rewrite E|]; apply (IH ND').
Qed.
Lemma filter_keys_nodup {A} (P : nat * A -> bool) (m : list (nat * A)) : NoDup (map fst m) -> NoDup (map fst (filter P m)).
Proof.
  induction m as [|kv m IH]; simpl; intros ND; [constructor|].
  inversion ND; subst. destruct (P kv); simpl; auto. constructor; auto.
  intros Hin. apply H1. clear -Hin. induction m as [|x m IH]; simpl in *; [tauto|].
  destruct (P x); simpl in *; tauto.
Qed.

Lemma nodup_app {A} (l1 l2 : list A) :
  NoDup l1 -> NoDup l2 -> (forall x, In x l1 -> In x l2 -> False) -> NoDup (l1 ++ l2).
Proof.
  induction l1 as [|a l1 IH]; simpl; intros N1 N2 H; [exact N2|].
  inversion N1; subst. constructor.
  - intros Hin. apply in_app_or in Hin. destruct Hin; [contradiction|]. apply (H a); auto.
  - apply IH; auto. intros x H1 H2'. apply (H x); auto.
Qed.

(* Forall2 through a key-preserving map *)
Lemma Forall2_keys (R : chm -> chm -> Prop) m m' :
  Forall2 (fun kv kv' => fst kv' = fst kv /\ R (snd kv) (snd kv')) m m' ->
  map fst m' = map fst m /\
  forall n, match assoc n m, assoc n m' with
            | Some c, Some c' => R c c'
            | None, None => True
            | _, _ => False
            end.
Proof.
  induction 1 as [|[k v] [k' v'] m m' [Hk HR] _ [IH1 IH2]]; simpl; [split; auto|].
  simpl in Hk. subst k'. split; [now rewrite IH1|].
  intros n. destruct (Nat.eqb k n); [exact HR|apply IH2].
Qed.

(* static_build / indexed_build / choice_build do not change the denotation *)
Lemma static_is_empty_true c : static_is_empty c = true -> c = empty.
Proof. destruct c as [[|? ?]| | | |]; simpl; intros H; try discriminate; reflexivity. Qed.

Lemma abs_static_build m pend p : NoDup (map fst m) -> abs (static_build m) pend p = abs (Static m) pend p.
Proof.
  intros ND. unfold static_build. rewrite !abs_Static.
  destruct (split_static p) as [[[is n] rest]|]; [|reflexivity].
  rewrite (assoc_filter_nodup _ n m ND). destruct (assoc n m) as [c|]; [|reflexivity].
  simpl. destruct (static_is_empty c) eqn:E; simpl; [|reflexivity].
  apply static_is_empty_true in E. subst. now rewrite abs_empty.
Qed.
Lemma wf_static_build m : NoDup (map fst m) -> Forall (fun kv => wf (snd kv)) m -> wf (static_build m).
Proof.
  intros ND F. unfold static_build. apply wf_Static. split.
  - now apply filter_keys_nodup.
  - apply Forall_forall. intros kv Hin. apply filter_In in Hin. destruct Hin as [Hin _].
    rewrite Forall_forall in F. auto.
Qed.
Lemma vect_static_build m : Forall (fun kv => vect (snd kv)) m -> vect (static_build m).
Proof.
  intros F. unfold static_build. apply vect_Static. apply Forall_forall. intros kv Hin.
  apply filter_In in Hin. destruct Hin as [Hin _]. rewrite Forall_forall in F. auto.
Qed.

Lemma abs_indexed_build c a pend p : abs (indexed_build c a) pend p = abs (Indexed c a) pend p.
Proof.
  unfold indexed_build. destruct (static_is_empty c) eqn:E.
  - apply static_is_empty_true in E. subst. now rewrite abs_empty, abs_Indexed_empty.
  - destruct a as [k|k|[|z l]|]; try reflexivity.
    rewrite abs_empty. simpl. destruct p as [|[n|i] rest]; try reflexivity.
    destruct pend as [|r ?]; reflexivity.
Qed.
Lemma wf_indexed_build c a :
  wf c -> match a with IVec _ => vect c | IBad => False | _ => True end -> wf (indexed_build c a).
Proof.
  intros Hc Ha. unfold indexed_build. destruct (static_is_empty c); [exact Hc|].
  destruct a as [k|k|[|z l]|]; simpl; auto. split; [constructor|exact I].
Qed.

(* ---- arrays and leaves ---- *)
Lemma aview_index a i x t : aget a i = OK x -> aview x t = aview a (i :: t).
Proof.
  destruct a as [z|l]; simpl; [discriminate|].
  destruct (nget l i) as [y|]; [|discriminate]. intros H. now injection H as <-.
Qed.

Lemma sview_index v i v' t : leaf_index v i = OK v' -> sview v' t = sview v (i :: t).
Proof.
  destruct v as [a|a [s b|l]]; simpl; intros H.
  - inv_bind H. injection H as <-. simpl. now apply aview_index.
  - inv_bind H. unfold mk_mask in H. simpl in H. injection H as <-. simpl.
    destruct b; [now apply aview_index|reflexivity].
  - inv_bind H. destruct (nget l i) as [b|] eqn:E; [|discriminate].
    unfold mk_mask in H. simpl in H. injection H as <-. simpl.
    destruct b; [now apply aview_index|reflexivity].
Qed.

Lemma mask_build_sview v s b v' t : mask_build v (FS s b) = OK v' -> sview v' t = fmask b (sview v t).
Proof.
  destruct v as [a|a g]; simpl.
  - unfold mk_mask. simpl. intros H. injection H as <-. simpl. now destruct b.
  - unfold and_, flag_bin. destruct g as [s' b'|l]; simpl.
    + destruct s, s'; simpl; unfold mk_mask; simpl; intros H; inversion H; subst; simpl; destruct b, b'; reflexivity.
    + assert (match (match s with Py => Some (FV (map (andb b) l)) | Ar => Some (FV (map (andb b) l)) end) with
              | Some h => mk_mask a h | None => Err EShape end = mk_mask a (FV (map (andb b) l))) as -> by now destruct s.
      unfold mk_mask. destruct (valid_init a (FV (map (andb b) l))) eqn:E; [|discriminate].
      intros H. injection H as <-. simpl.
      destruct t as [|i t]; [now destruct b|].
      unfold nget. destruct l as [|b0 l]; [now destruct b|].
      simpl map. cbn [length]. rewrite map_length.
      set (k := norm_index (S (length l)) i).
      change (b && b0 :: map (andb b) l) with (map (andb b) (b0 :: l)).
      rewrite nth_error_map. destruct (nth_error (b0 :: l) k) as [c|]; simpl; [|now destruct b].
      destruct b, c; reflexivity.
Qed.

Lemma abs_choice_build v pend p : abs (choice_build v) pend p = abs (Choice v) pend p.
Proof.
  destruct v as [a|a f]; simpl.
  - destruct a as [z|[|x l]]; try reflexivity.
    rewrite abs_empty. destruct (forallb is_index p); [|reflexivity].
    destruct (pend ++ idxs p); reflexivity.
  - destruct f as [[|] [|]|l]; try reflexivity.
    rewrite abs_empty. now destruct (forallb is_index p).
Qed.
Lemma wf_choice_build v : leaf_ok v -> wf (choice_build v) /\ vect (choice_build v).
Proof.
  destruct v as [a|a f]; simpl; intros Hok.
  - destruct a as [z|[|x l]]; simpl; repeat split; constructor.
  - destruct f as [[|] [|]|l]; simpl; repeat split; auto; constructor.
Qed.
Lemma mk_mask_ok a f v : mk_mask a f = OK v -> v = LMask a f /\ leaf_ok v.
Proof. unfold mk_mask. destruct (valid_init a f) eqn:E; [|discriminate]. intros H. injection H as <-. split; auto. Qed.
Lemma leaf_index_ok v i v' : leaf_index v i = OK v' -> leaf_ok v'.
Proof.
  destruct v as [a|a [s b|l]]; simpl; intros H.
  - inv_bind H. injection H as <-. exact I.
  - inv_bind H. now apply mk_mask_ok in H.
  - inv_bind H. destruct (nget l i); [|discriminate]. now apply mk_mask_ok in H.
Qed.
Lemma mask_build_ok v f v' : mask_build v f = OK v' -> leaf_ok v'.
Proof.
  destruct v as [a|a g]; simpl; intros H.
  - now apply mk_mask_ok in H.
  - destruct (flag_scalar f || opt_nat_eqb (flag_len f) (flag_len g)); [|discriminate].
    destruct (and_ f g); [|discriminate]. now apply mk_mask_ok in H.
Qed.
