(* Lookups against the denotation (C17): get_inner_map / get_submap / get_value
   observe exactly `amap`; filter by a selection; extend; Switch.build; set. *)
From Coq Require Import List Bool ZArith Arith Lia.
Import ListNotations.
From Gen Require Import SelGen.
From Model Require Import Sel Flag Chm ChmSpec.
From Proofs Require Import SelProofs ChmBasics ChmLaws.
Open Scope Z_scope.

Definition mask_law n := proj1 (mask_or n).
Definition or_law n := proj2 (mask_or n).

(* ---- addresses ---- *)
Lemma split_static_statics p :
  match split_static p with
  | Some (is, n, rest) => statics p = n :: statics rest /\ forallb is_index p = false
  | None => statics p = [] /\ forallb is_index p = true
  end.
Proof.
  induction p as [|[n|i] p IH]; simpl; auto.
  destruct (split_static p) as [[[is n] rest]|]; simpl; tauto.
Qed.
Lemma split_static_CI i p :
  split_static (CI i :: p) = match split_static p with Some (is, n, rest) => Some (lidx_z i :: is, n, rest) | None => None end.
Proof. reflexivity. Qed.

(* ---- filter by a selection keeps exactly the addresses whose static part is selected ---- *)
Lemma filter_sel_law : forall n s c z, filter_sel n s c = OK z -> wf c ->
  wf z /\ (vect c -> vect z) /\
  forall pend p, abs z pend p = if mem s (statics p) then abs c pend p else None.
Proof.
  induction n as [|n IH]; intros s c z H Hwf; [discriminate|].
  destruct c as [m|v|c a|i cs|a b]; cbn [filter_sel] in H.
  - (* Static *)
    inv_bind H. injection H as <-.
    apply wf_Static in Hwf. destruct Hwf as [ND Hall]. rewrite Forall_forall in Hall.
    apply mapM_OK in Ha.
    assert (Hrel : Forall2 (fun kv kv' => fst kv' = fst kv /\ filter_sel n (get_subselection s (fst kv)) (snd kv) = OK (snd kv')) m a).
    { clear -Ha. induction Ha as [|kv kv' m a H _ IH]; constructor; auto. inv_bind H. injection H as <-. simpl. auto. }
    assert (Hkeys : map fst a = map fst m).
    { clear -Hrel. induction Hrel as [|kv kv' m a [H _] _ IH]; simpl; congruence. }
    assert (Hassoc : forall k, match assoc k m, assoc k a with
                             | Some c, Some c' => filter_sel n (get_subselection s k) c = OK c'
                             | None, None => True | _, _ => False end).
    { clear -Hrel. induction Hrel as [|[k1 v1] [k2 v2] m a [H1 H2] _ IH]; intros k; simpl; [exact I|].
      simpl in H1, H2. subst k2. destruct (Nat.eqb k1 k) eqn:E; [|apply IH]. apply Nat.eqb_eq in E. now subst. }
    assert (Hsub : forall kv', In kv' a -> exists c, In (fst kv', c) m /\ filter_sel n (get_subselection s (fst kv')) c = OK (snd kv')).
    { clear -Hrel. induction Hrel as [|kv kv' m a [H1 H2] _ IH]; intros x Hin; [destruct Hin|].
      destruct Hin as [<-|Hin].
      - exists (snd kv). rewrite H1. split; [left; now destruct kv|exact H2].
      - destruct (IH x Hin) as [c [Hc1 Hc2]]. exists c. split; [now right|exact Hc2]. }
    assert (ND' : NoDup (map fst a)) by now rewrite Hkeys.
    split; [|split].
    + apply wf_static_build; auto. apply Forall_forall. intros kv' Hin.
      destruct (Hsub kv' Hin) as [c [Hc1 Hc2]]. apply (IH _ _ _ Hc2 (Hall _ Hc1)).
    + intros Hv. apply vect_static_build. apply Forall_forall. intros kv' Hin.
      destruct (Hsub kv' Hin) as [c [Hc1 Hc2]]. apply vect_Static in Hv. rewrite Forall_forall in Hv.
      apply (IH _ _ _ Hc2 (Hall _ Hc1)). apply (Hv _ Hc1).
    + intros pend p. rewrite abs_static_build by exact ND'. rewrite !abs_Static.
      pose proof (split_static_statics p) as Hs.
      destruct (split_static p) as [[[is k] rest]|]; [|now destruct (mem s (statics p))].
      destruct Hs as [-> _]. rewrite mem_cons.
      specialize (Hassoc k). destruct (assoc k m) as [c|] eqn:E1; destruct (assoc k a) as [c'|] eqn:E2; try tauto.
      * apply (IH _ _ _ Hassoc (Hall _ (assoc_In _ _ _ E1))).
      * now destruct (mem (get_subselection s k) (statics rest)).
  - (* Choice *)
    injection H as <-. split; [|split].
    + destruct (check s); [exact Hwf|]. apply wf_Static. split; constructor.
    + intros _. destruct (check s); [exact I|]. apply vect_Static. constructor.
    + intros pend p. pose proof (split_static_statics p) as Hs.
      destruct (split_static p) as [[[is k] rest]|].
      * destruct Hs as [_ Hf].
        assert (E : abs (Choice v) pend p = None) by (simpl; now rewrite Hf).
        rewrite E. destruct (check s); [rewrite E|rewrite abs_empty]; now destruct (mem s (statics p)).
      * destruct Hs as [-> _]. rewrite mem_nil. destruct (check s); [reflexivity|apply abs_empty].
  - (* Indexed *)
    inv_bind H. injection H as <-. simpl in Hwf. destruct Hwf as [Hc Ha'].
    destruct (IH _ _ _ Ha Hc) as [W [V A]].
    split; [|split].
    + apply wf_indexed_build; auto. destruct a as [| |l|]; auto.
    + intros [].
    + intros pend p. rewrite abs_indexed_build. simpl.
      destruct p as [|[k|j] rest]; try now destruct (mem s _).
      simpl statics.
      destruct a as [k|k|l|]; try now destruct (mem s _).
      * rewrite A. destruct (Z.eqb k (lidx_z j)), (mem s (statics rest)); reflexivity.
      * rewrite A. destruct (Z.eqb k (lidx_z j)), (mem s (statics rest)); reflexivity.
      * destruct pend as [|r pend'].
        -- destruct (find_index l (lidx_z j) 0); [apply A|now destruct (mem s _)].
        -- destruct (nget l r); [|now destruct (mem s _)]. rewrite A.
           destruct (Z.eqb z (lidx_z j)), (mem s (statics rest)); reflexivity.
  - (* Switch *)
    inv_bind H. unfold switch_mask in H. inv_bind H. injection H as <-.
    pose proof Hwf as Hwf0.
    apply wf_Switch in Hwf. destruct Hwf as [[k [-> [Hk Hinv]]] Hall].
    apply mapM_OK in Ha.
    assert (Hwa : Forall wf a).
    { apply Forall_forall. intros x Hin. apply In_nth_error in Hin. destruct Hin as [j Hj].
      destruct (Forall2_nth_r _ _ _ Ha j x Hj) as [c [Hc Hfc]].
      rewrite Forall_forall in Hall. apply (IH _ _ _ Hfc (Hall _ (nth_error_In _ _ Hc))). }
    assert (HLa : length a = length cs) by (symmetry; apply (Forall2_length _ _ _ Ha)).
    destruct (switch_rebuild n k a a0 (mask_law n) ltac:(lia) Hwa Ha0) as [W A].
    split; [exact W|split; [intros []|]].
    intros pend p. rewrite A.
    destruct (abs_Switch_wf _ _ pend p Hwf0) as [k' [ck [Ek [Eck ->]]]].
    injection Ek as Ek. apply Nat2Z.inj in Ek. subst k'.
    destruct (Forall2_nth _ _ _ Ha k ck Eck) as [y [Hy Hfy]]. rewrite Hy.
    rewrite Forall_forall in Hall. apply (IH _ _ _ Hfy (Hall _ (nth_error_In _ _ Eck))).
  - (* Or *)
    inv_bind H. inv_bind H. simpl in Hwf. destruct Hwf as [Wa [Wb Hnil]].
    destruct (IH _ _ _ Ha Wa) as [W1 [_ A1]]. destruct (IH _ _ _ Ha0 Wb) as [W2 [_ A2]].
    destruct (or_law n _ _ _ H W1 W2) as [W [_ A]].
    split; [exact W|split; [intros []|]].
    intros pend p. rewrite A, A1, A2, abs_Or. now destruct (mem s (statics p)).
Qed.

(* ---- jtu.tree_map(lambda v: v[i], ...) selects a row ---- *)
Lemma index_all_law : forall n c i z, index_all n c i = OK z -> wf c ->
  wf z /\ (vect c -> vect z) /\ forall pend p, abs z pend p = abs c (i :: pend) p.
Proof.
  induction n as [|n IH]; intros c i z H Hwf; [discriminate|].
  destruct c as [m|v|c a|ix cs|a b]; cbn [index_all] in H.
  - (* Static *)
    inv_bind H. injection H as <-.
    apply wf_Static in Hwf. destruct Hwf as [ND Hall]. rewrite Forall_forall in Hall.
    apply (Forall2_mapM_keys (fun c => index_all n c i)) in Ha.
    pose proof (Forall2_keys (fun c c' => index_all n c i = OK c') m a Ha) as [Hkeys Hassoc].
    assert (Hsub : forall kv', In kv' a -> exists c, In (fst kv', c) m /\ index_all n c i = OK (snd kv')).
    { clear -Ha. induction Ha as [|kv kv' m a [H1 H2] _ IH]; intros x Hin; [destruct Hin|].
      destruct Hin as [<-|Hin].
      - exists (snd kv). rewrite H1. split; [left; now destruct kv|exact H2].
      - destruct (IH x Hin) as [c [Hc1 Hc2]]. exists c. split; [now right|exact Hc2]. }
    split; [|split].
    + apply wf_Static. split; [now rewrite Hkeys|]. apply Forall_forall. intros kv' Hin.
      destruct (Hsub kv' Hin) as [c [Hc1 Hc2]]. apply (IH _ _ _ Hc2 (Hall _ Hc1)).
    + intros Hv. apply vect_Static. apply Forall_forall. intros kv' Hin.
      destruct (Hsub kv' Hin) as [c [Hc1 Hc2]]. apply vect_Static in Hv. rewrite Forall_forall in Hv.
      apply (IH _ _ _ Hc2 (Hall _ Hc1)). apply (Hv _ Hc1).
    + intros pend p. rewrite !abs_Static.
      destruct (split_static p) as [[[is k] rest]|]; [|reflexivity].
      specialize (Hassoc k). destruct (assoc k m) as [c|] eqn:E1; destruct (assoc k a) as [c'|] eqn:E2; try tauto.
      apply (IH _ _ _ Hassoc (Hall _ (assoc_In _ _ _ E1))).
  - (* Choice *)
    inv_bind H. injection H as <-. split; [|split].
    + simpl. eapply leaf_index_ok; eauto.
    + intros _. exact I.
    + intros pend p. simpl. destruct (forallb is_index p); [|reflexivity].
      apply (sview_index _ _ _ _ Ha).
  - (* Indexed *)
    inv_bind H. simpl in Hwf. destruct Hwf as [Hc Ha'].
    destruct (IH _ _ _ Ha Hc) as [W [V A]].
    destruct a as [k|k|l|]; try discriminate.
    destruct (nget l i) as [zk|] eqn:E; [|discriminate]. injection H as <-.
    split; [|split].
    + simpl. auto.
    + intros [].
    + intros pend p. simpl. destruct p as [|[k|j] rest]; try reflexivity.
      rewrite E. now rewrite A.
  - discriminate.
  - (* Or *)
    inv_bind H. inv_bind H. injection H as <-. simpl in Hwf. destruct Hwf as [Wa [Wb Hnil]].
    destruct (IH _ _ _ Ha Wa) as [W1 [_ A1]]. destruct (IH _ _ _ Ha0 Wb) as [W2 [_ A2]].
    split; [|split].
    + simpl. split; [exact W1|split; [exact W2|]]. intros pend. rewrite A1, A2. apply Hnil.
    + intros [].
    + intros pend p. rewrite !abs_Or. now rewrite A1, A2.
Qed.

(* Indexed.get_inner_map on an array-shaped address: row r, masked by whether the index was found *)
Lemma row_mask_law : forall n c r b z, row_mask n c r b = OK z -> vect c -> wf c ->
  vect z /\ wf z /\ forall pend p, abs z pend p = fmask b (abs c (r :: pend) p).
Proof.
  induction n as [|n IH]; intros c r b z H Hv Hwf; [discriminate|].
  destruct c as [m|v|c a|ix cs|c1 c2]; cbn [row_mask] in H; try (destruct Hv; fail).
  - inv_bind H. injection H as <-.
    apply wf_Static in Hwf. destruct Hwf as [ND Hall]. rewrite Forall_forall in Hall.
    apply vect_Static in Hv. rewrite Forall_forall in Hv.
    apply (Forall2_mapM_keys (fun c => row_mask n c r b)) in Ha.
    pose proof (Forall2_keys (fun c c' => row_mask n c r b = OK c') m a Ha) as [Hkeys Hassoc].
    assert (Hsub : forall kv', In kv' a -> exists c, In (fst kv', c) m /\ row_mask n c r b = OK (snd kv')).
    { clear -Ha. induction Ha as [|kv kv' m a [H1 H2] _ IH]; intros x Hin; [destruct Hin|].
      destruct Hin as [<-|Hin].
      - exists (snd kv). rewrite H1. split; [left; now destruct kv|exact H2].
      - destruct (IH x Hin) as [c [Hc1 Hc2]]. exists c. split; [now right|exact Hc2]. }
    split; [|split].
    + apply vect_Static. apply Forall_forall. intros kv' Hin.
      destruct (Hsub kv' Hin) as [c [Hc1 Hc2]]. apply (IH _ _ _ _ Hc2 (Hv _ Hc1) (Hall _ Hc1)).
    + apply wf_Static. split; [now rewrite Hkeys|]. apply Forall_forall. intros kv' Hin.
      destruct (Hsub kv' Hin) as [c [Hc1 Hc2]]. apply (IH _ _ _ _ Hc2 (Hv _ Hc1) (Hall _ Hc1)).
    + intros pend p. rewrite !abs_Static.
      destruct (split_static p) as [[[is k] rest]|]; [|now rewrite fmask_None].
      specialize (Hassoc k). destruct (assoc k m) as [c|] eqn:E1; destruct (assoc k a) as [c'|] eqn:E2; try tauto.
      * pose proof (assoc_In _ _ _ E1) as Hin. apply (IH _ _ _ _ Hassoc (Hv _ Hin) (Hall _ Hin)).
      * now rewrite fmask_None.
  - inv_bind H. inv_bind H. injection H as <-. split; [exact I|split].
    + simpl. eapply mask_build_ok; eauto.
    + intros pend p. simpl. destruct (forallb is_index p); [|now rewrite fmask_None].
      rewrite (mask_build_sview _ _ _ _ _ Ha0). f_equal. apply (sview_index _ _ _ _ Ha).
Qed.

Lemma find_index_spec : forall l z k r, find_index l z k = Some r ->
  (k <= r)%nat /\ nth_error l (r - k) = Some z.
Proof.
  induction l as [|x l IH]; intros z k r H; simpl in H; [discriminate|].
  destruct (Z.eqb x z) eqn:E.
  - injection H as <-. apply Z.eqb_eq in E. subst. rewrite Nat.sub_diag. split; [lia|reflexivity].
  - destruct (IH z (S k) r H) as [Hle Hn]. split; [lia|].
    replace (r - k)%nat with (S (r - S k)) by lia. exact Hn.
Qed.
Lemma find_index_nget l z r : find_index l z 0 = Some r -> nget l (Z.of_nat r) = Some z.
Proof.
  intros H. apply find_index_spec in H. destruct H as [_ H]. rewrite Nat.sub_0_r in H.
  assert (Hlt : (r < length l)%nat) by (apply nth_error_Some; congruence).
  unfold nget. destruct l as [|x l]; [destruct r; discriminate|].
  replace (norm_index (length (x :: l)) (Z.of_nat r)) with r; [exact H|].
  unfold norm_index. destruct (Z.of_nat r <? 0) eqn:E; [lia|]. lia.
Qed.

Definition dead (c : chm) : Prop := forall pend p, abs c pend p = None.

Lemma first_some_none_all l : first_some l = None -> forall x, In x l -> x = None.
Proof.
  induction l as [|y l IH]; simpl; intros H x Hin; [destruct Hin|].
  destruct y; [discriminate|]. simpl in H. destruct Hin as [<-|Hin]; auto.
Qed.

Lemma addr_eq_flag_true a i :
  match a with IPy k | IAr k => flag_scalar (addr_eq_flag a i) = true /\ flag_true (addr_eq_flag a i) = Z.eqb k (lidx_z i) | _ => True end.
Proof. destruct a as [k|k|l|], i as [z|z]; simpl; auto. Qed.

(* ---- get_inner_map consumes one address component ---- *)
Lemma gim_law : forall n c k z, gim n c k = OK z -> wf c ->
  wf z /\
  (forall p, abs z [] p = abs c [] (k :: p)) /\
  (dead c -> dead z).
Proof.
  induction n as [|n IH]; intros c k z H Hwf; [discriminate|].
  destruct c as [m|v|c a|ix cs|a b]; cbn [gim] in H.
  - (* Static *)
    destruct k as [k|i].
    + injection H as <-.
      apply wf_Static in Hwf. destruct Hwf as [ND Hall]. rewrite Forall_forall in Hall.
      split; [|split].
      * destruct (assoc k m) as [c|] eqn:E; [apply (Hall _ (assoc_In _ _ _ E))|apply wf_Static; split; constructor].
      * intros p. rewrite abs_Static. cbn [split_static app].
        destruct (assoc k m); [reflexivity|apply abs_empty].
      * intros Hd pend p. specialize (Hd pend (CS k :: p)). rewrite abs_Static in Hd. cbn [split_static] in Hd.
        rewrite app_nil_r in Hd. destruct (assoc k m); [exact Hd|apply abs_empty].
    + destruct (index_all_law _ _ _ _ H Hwf) as [W [_ A]].
      split; [exact W|split].
      * intros p. rewrite A. rewrite !abs_Static. rewrite split_static_CI.
        destruct (split_static p) as [[[is k] rest]|]; reflexivity.
      * intros Hd pend p. rewrite A. apply Hd.
  - (* Choice *)
    destruct k as [k|i].
    + injection H as <-. split; [apply wf_Static; split; constructor|split].
      * intros p. now rewrite abs_empty.
      * intros _ pend p. apply abs_empty.
    + inv_bind H. injection H as <-. split; [simpl; eapply leaf_index_ok; eauto|split].
      * intros p. simpl. destruct (forallb is_index p); [|reflexivity]. apply (sview_index _ _ _ _ Ha).
      * intros Hd pend p. specialize (Hd (lidx_z i :: pend) p). simpl in Hd. simpl.
        destruct (forallb is_index p); [|reflexivity]. rewrite <- Hd. apply (sview_index _ _ _ _ Ha).
  - (* Indexed *)
    simpl in Hwf. destruct Hwf as [Hc Ha'].
    destruct k as [k|i].
    + assert (z = empty) as -> by (destruct a; injection H as <-; reflexivity).
      split; [apply wf_Static; split; constructor|split].
      * intros p. now rewrite abs_empty.
      * intros _ pend p. apply abs_empty.
    + destruct a as [ka|ka|l|]; try (destruct Ha'; fail).
      * pose proof (addr_eq_flag_true (IPy ka) i) as [F1 F2].
        destruct (mask_law _ _ _ _ H F1 Hc) as [W [_ A]]. split; [exact W|split].
        -- intros p. rewrite A, F2. simpl. now destruct (Z.eqb ka (lidx_z i)).
        -- intros Hd pend p. rewrite A, F2. specialize (Hd pend (CI i :: p)). simpl in Hd.
           destruct (Z.eqb ka (lidx_z i)); [exact Hd|reflexivity].
      * pose proof (addr_eq_flag_true (IAr ka) i) as [F1 F2].
        destruct (mask_law _ _ _ _ H F1 Hc) as [W [_ A]]. split; [exact W|split].
        -- intros p. rewrite A, F2. simpl. now destruct (Z.eqb ka (lidx_z i)).
        -- intros Hd pend p. rewrite A, F2. specialize (Hd pend (CI i :: p)). simpl in Hd.
           destruct (Z.eqb ka (lidx_z i)); [exact Hd|reflexivity].
      * destruct (find_index l (lidx_z i) 0) as [r|] eqn:E.
        -- destruct (row_mask_law _ _ _ _ _ H Ha' Hc) as [_ [W A]]. split; [exact W|split].
           ++ intros p. rewrite A. simpl. now rewrite E.
           ++ intros Hd pend p. rewrite A. simpl.
              specialize (Hd (Z.of_nat r :: pend) (CI i :: p)). simpl in Hd.
              rewrite (find_index_nget _ _ _ E), Z.eqb_refl in Hd. exact Hd.
        -- destruct (row_mask_law _ _ _ _ _ H Ha' Hc) as [_ [W A]]. split; [exact W|split].
           ++ intros p. rewrite A. simpl. now rewrite E.
           ++ intros _ pend p. now rewrite A.
  - (* Switch *)
    inv_bind H. injection H as <-.
    pose proof Hwf as Hwf0. apply wf_Switch in Hwf. destruct Hwf as [[j [-> [Hj Hinv]]] Hall].
    rewrite Forall_forall in Hall. apply mapM_OK in Ha.
    assert (HL : length a = length cs) by (symmetry; apply (Forall2_length _ _ _ Ha)).
    assert (Hpt : forall t y, nth_error a t = Some y ->
              exists c, nth_error cs t = Some c /\ wf y /\ (forall p, abs y [] p = abs c [] (k :: p)) /\ (dead c -> dead y)).
    { intros t y Hy. destruct (Forall2_nth_r _ _ _ Ha t y Hy) as [c [Hc Hg]]. exists c. split; auto.
      apply (IH _ _ _ Hg (Hall _ (nth_error_In _ _ Hc))). }
    split; [|split].
    + apply wf_Switch. split.
      * exists j. split; [reflexivity|split; [lia|]].
        intros t y Hy Hne. destruct (Hpt t y Hy) as [c [Hc [_ [_ Hd]]]]. apply Hd. intros pend p. eapply Hinv; eauto.
      * apply Forall_forall. intros y Hin. apply In_nth_error in Hin. destruct Hin as [t Hy].
        destruct (Hpt t y Hy) as [c [_ [W _]]]. exact W.
    + intros p. rewrite !abs_Switch. f_equal.
      clear -Ha Hpt. revert Hpt. induction Ha as [|c y cs a Hcy _ IHa]; intros Hpt; [reflexivity|].
      simpl. f_equal.
      * destruct (Hpt 0%nat y eq_refl) as [c' [Hc' [_ [A _]]]]. simpl in Hc'. injection Hc' as <-. apply A.
      * apply IHa. intros t y' Hy'. apply (Hpt (S t) y' Hy').
    + intros Hd pend p. rewrite abs_Switch. apply first_some_all_none.
      intros t w Hw. rewrite nth_error_map in Hw. destruct (nth_error a t) as [y|] eqn:Ey; [|discriminate].
      injection Hw as <-. destruct (Hpt t y Ey) as [c [Hc [_ [_ Hdy]]]]. apply Hdy.
      intros pend' p'. specialize (Hd pend' p'). rewrite abs_Switch in Hd.
      apply (first_some_none_all _ Hd). apply in_map_iff. exists c. split; [reflexivity|apply (nth_error_In _ _ Hc)].
  - (* Or *)
    inv_bind H. inv_bind H. simpl in Hwf. destruct Hwf as [Wa [Wb Hnil]].
    destruct (IH _ _ _ Ha Wa) as [W1 [A1 D1]]. destruct (IH _ _ _ Ha0 Wb) as [W2 [A2 D2]].
    destruct (or_law _ _ _ _ H W1 W2) as [W [_ A]].
    split; [exact W|split].
    + intros p. rewrite A, A1, A2, abs_Or. reflexivity.
    + intros Hd pend p. rewrite A.
      assert (Da : dead a) by (intros pe pp; specialize (Hd pe pp); rewrite abs_Or in Hd; now destruct (abs a pe pp)).
      assert (Db : dead b) by (intros pe pp; specialize (Hd pe pp); rewrite abs_Or in Hd; destruct (abs a pe pp); [discriminate|exact Hd]).
      now rewrite (D1 Da), (D2 Db).
Qed.

(* ---- get_value at the root ---- *)
Lemma fold_mor_err r e0 : fold_left (fun acc x => do a <- acc; mor a x) r (Err e0) = Err e0.
Proof. induction r as [|x r IH]; simpl; auto. Qed.
Lemma fold_mor_view t : forall r e m,
  fold_left (fun acc x => do a <- acc; mor a x) r (OK e) = OK m ->
  pair_ok e -> Forall pair_ok r ->
  pair_ok m /\ pview m t = first_some (map (fun x => pview x t) (e :: r)).
Proof.
  induction r as [|x r IH]; intros e m H He Hr; simpl in H.
  - injection H as <-. split; [exact He|]. simpl. now rewrite funion_None_r.
  - destruct (mor e x) as [e'|er] eqn:E; simpl in H; [|rewrite fold_mor_err in H; discriminate].
    inversion Hr; subst.
    destruct (mor_pview _ _ _ t He H2 E) as [He' Hv].
    destruct (IH _ _ H He' H3) as [Hm Hm']. split; [exact Hm|].
    rewrite Hm'. simpl. rewrite Hv. now destruct (pview e t).
Qed.

Lemma get_value_law : forall n c v, get_value n c = OK v -> wf c ->
  (forall l, v = Some l -> leaf_ok l) /\ oview v [] = abs c [] [].
Proof.
  induction n as [|n IH]; intros c v H Hwf; [discriminate|].
  destruct c as [m|l|c a|ix cs|a b]; cbn [get_value] in H; try (injection H as <-; split; [intros ? E; discriminate|]).
  - now rewrite abs_Static.
  - injection H as <-. split; [intros l' E; injection E as <-; exact Hwf|reflexivity].
  - reflexivity.
  - (* Switch *)
    inv_bind H. apply wf_Switch in Hwf. destruct Hwf as [_ Hall]. rewrite Forall_forall in Hall.
    apply mapM_OK in Ha.
    set (entries := flat_map (fun o : option leaf => match o with Some v => [mask_of v] | None => [] end) a) in *.
    assert (Hent : Forall pair_ok entries /\
                   first_some (map (fun c => abs c [] []) cs) = first_some (map (fun x => pview x []) entries)).
    { unfold entries. clear H entries. induction Ha as [|c o cs a Hco _ IHa]; [split; [constructor|reflexivity]|].
      assert (Hall' : forall x, In x cs -> wf x) by (intros x Hx; apply Hall; now right).
      destruct (IHa Hall') as [F E]. destruct (IH _ _ Hco (Hall c (or_introl eq_refl))) as [Hok Hv].
      simpl. rewrite <- Hv. destruct o as [l|]; simpl.
      - split; [constructor; [apply pair_ok_mask_of; auto|exact F]|]. rewrite pview_mask_of. now rewrite E.
      - split; [exact F|exact E]. }
    destruct Hent as [F E]. rewrite abs_Switch, E.
    destruct entries as [|e r].
    + injection H as <-. split; [intros ? E'; discriminate|reflexivity].
    + inv_bind H. injection H as <-. inversion F; subst.
      destruct (fold_mor_view [] _ _ _ Ha0 H1 H2) as [Hm Hv].
      split; [intros l E'; injection E' as <-; exact Hm|]. exact Hv.
  - simpl in Hwf. destruct Hwf as [_ [_ Hnil]]. rewrite abs_Or. destruct (Hnil []) as [-> ->]. reflexivity.
Qed.

Lemma get_submap_law : forall n p c z, get_submap n c p = OK z -> wf c ->
  wf z /\ forall r, abs z [] r = abs c [] (p ++ r).
Proof.
  induction p as [|k p IH]; intros c z H Hwf; simpl in H.
  - injection H as <-. auto.
  - inv_bind H. destruct (gim_law _ _ _ _ Ha Hwf) as [W [A _]].
    destruct (IH _ _ H W) as [W' A']. split; [exact W'|]. intros r. rewrite A', A. reflexivity.
Qed.

(* C17, the central statement: whatever scalar a lookup returns is what the finite map holds *)
Theorem lookup_abs : forall n c p sub v,
  wf c -> get_submap n c p = OK sub -> get_value n sub = OK v ->
  oview v [] = amap c p.
Proof.
  intros n c p sub v Hwf Hs Hv.
  destruct (get_submap_law _ _ _ _ Hs Hwf) as [W A].
  destruct (get_value_law _ _ _ Hv W) as [_ E]. rewrite E, A, app_nil_r. reflexivity.
Qed.

(* array-valued lookups: every element of the returned leaf is the finite map's entry at the
   address extended by the element's indices *)
Lemma idxs_of_list t : idxs (map (fun z => CI (LPy z)) t) = t /\ forallb is_index (map (fun z => CI (LPy z)) t) = true.
Proof. induction t as [|z t [IH1 IH2]]; simpl; [auto|]. now rewrite IH1, IH2. Qed.
Theorem lookup_abs_elements : forall n c p l t,
  wf c -> get_submap n c p = OK (Choice l) ->
  sview l t = amap c (p ++ map (fun z => CI (LPy z)) t).
Proof.
  intros n c p l t Hwf Hs.
  destruct (get_submap_law _ _ _ _ Hs Hwf) as [_ A]. unfold amap. rewrite <- A. simpl.
  destruct (idxs_of_list t) as [-> ->]. reflexivity.
Qed.

(* ---- ChoiceMap.extend ---- *)
Lemma abs_extend1 acc b pend p :
  abs (extend1 acc b) pend p =
  match b with
  | BS n => match split_static p with
            | Some (is, k, rest) => if Nat.eqb n k then abs acc (pend ++ is) rest else None
            | None => None
            end
  | BI a => abs (Indexed acc a) pend p
  end.
Proof.
  destruct b as [n|a]; simpl extend1.
  - rewrite abs_static_build by (constructor; [intros []|constructor]).
    rewrite abs_Static. destruct (split_static p) as [[[is k] rest]|]; [|reflexivity]. simpl.
    destruct (Nat.eqb n k); reflexivity.
  - apply abs_indexed_build.
Qed.
Definition bcomp_ok (acc : chm) (b : bcomp) : Prop :=
  match b with BI (IVec _) => vect acc | BI IBad => False | _ => True end.
Lemma wf_extend1 acc b : wf acc -> bcomp_ok acc b -> wf (extend1 acc b).
Proof.
  intros W Hb. destruct b as [n|a]; simpl extend1.
  - apply wf_static_build; [constructor; [intros []|constructor]|]. constructor; [exact W|constructor].
  - apply wf_indexed_build; auto.
Qed.

Fixpoint comps_of_b (q : list bcomp) : option (list comp) :=
  match q with
  | [] => Some []
  | b :: r => match comp_of_b b, comps_of_b r with Some k, Some ks => Some (k :: ks) | _, _ => None end
  end.
Lemma wf_extend_scalar : forall q ks c, comps_of_b q = Some ks -> wf c -> wf (c_extend c q).
Proof.
  induction q as [|b q IH]; intros ks c H W; simpl; [exact W|].
  simpl in H. destruct (comp_of_b b) as [k|] eqn:Eb; [|discriminate].
  destruct (comps_of_b q) as [ks'|] eqn:Eq; [|discriminate].
  apply wf_extend1; [eapply IH; eauto|]. destruct b as [n|[z|z|l|]]; simpl in *; auto; discriminate.
Qed.

(* extend_prefix: the extended map holds at q ++ p exactly what the map held at p *)
Theorem extend_prefix : forall q ks c p, comps_of_b q = Some ks ->
  amap (c_extend c q) (ks ++ p) = amap c p.
Proof.
  unfold amap. induction q as [|b q IH]; intros ks c p H; simpl in H.
  - injection H as <-. reflexivity.
  - destruct (comp_of_b b) as [k|] eqn:Eb; [|discriminate].
    destruct (comps_of_b q) as [ks'|] eqn:Eq; [|discriminate]. injection H as <-.
    change (c_extend c (b :: q)) with (extend1 (c_extend c q) b). rewrite abs_extend1.
    destruct b as [n|[z|z|l|]]; simpl in Eb; try discriminate; injection Eb as <-; simpl.
    + rewrite Nat.eqb_refl. now apply IH.
    + rewrite Z.eqb_refl. now apply IH.
    + rewrite Z.eqb_refl. now apply IH.
Qed.
(* ... and nothing under a different first static component *)
Theorem extend_other : forall n q c k p, k <> n -> amap (c_extend c (BS n :: q)) (CS k :: p) = None.
Proof.
  intros n q c k p Hne. unfold amap. change (c_extend c (BS n :: q)) with (extend1 (c_extend c q) (BS n)).
  rewrite abs_extend1. simpl.
  destruct (Nat.eqb n k) eqn:E; [apply Nat.eqb_eq in E; congruence|reflexivity].
Qed.

(* ---- the builder: at[q].set(v) overrides, and keeps everything else ---- *)
Theorem set_overrides : forall n base q v z,
  builder_set n base q v = OK z -> wf (c_extend v q) -> wf base ->
  wf z /\ forall p, amap z p = funion (amap (c_extend v q) p) (amap base p).
Proof.
  intros n base q v z H W1 W2. unfold builder_set in H. destruct (validate_addr q); [|discriminate].
  destruct (or_law _ _ _ _ H W1 W2) as [W [_ A]]. split; [exact W|]. intros p. apply A.
Qed.
Corollary set_overrides_at : forall n base q ks v z p,
  builder_set n base q v = OK z -> comps_of_b q = Some ks -> wf v -> wf base ->
  amap z (ks ++ p) = funion (amap v p) (amap base (ks ++ p)).
Proof.
  intros n base q ks v z p H Hq Wv Wb.
  destruct (set_overrides _ _ _ _ _ H (wf_extend_scalar _ _ _ Hq Wv) Wb) as [_ A].
  rewrite A. now rewrite (extend_prefix _ _ _ _ Hq).
Qed.

(* ---- | is the left-biased union; mask is the conjunction with a flag ---- *)
Theorem or_left_biased : forall n x y z, or_build n x y = OK z -> wf x -> wf y ->
  wf z /\ forall p, amap z p = funion (amap x p) (amap y p).
Proof. intros n x y z H Wx Wy. destruct (or_law _ _ _ _ H Wx Wy) as [W [_ A]]. split; [exact W|]. intros p. apply A. Qed.

Theorem mask_flag : forall n f c z, filter_flag n f c = OK z -> flag_scalar f = true -> wf c ->
  wf z /\ forall p, amap z p = fmask (flag_true f) (amap c p).
Proof. intros n f c z H Hf W. destruct (mask_law _ _ _ _ H Hf W) as [W' [_ A]]. split; [exact W'|]. intros p. apply A. Qed.

(* mask(False): nothing valid is left, whatever the stage of the flag ... *)
Theorem mask_false_nothing_valid : forall n s c z, filter_flag n (FS s false) c = OK z -> wf c -> forall p, amap z p = None.
Proof. intros n s c z H W p. destruct (mask_flag _ _ _ _ H eq_refl W) as [_ A]. now rewrite A. Qed.

(* ... and with Python's False on a map without Mask leaves the result is Static({}) itself *)
Lemma plain_Static m : plain (Static m) <-> Forall (fun kv => plain (snd kv)) m.
Proof. simpl. induction m as [|kv m IH]; split; intros H; try constructor; try tauto; inversion H; subst; tauto. Qed.
Lemma or_build_empty n : or_build (S n) empty empty = OK empty.
Proof. reflexivity. Qed.
Theorem mask_false_empty : forall n c z, filter_flag n (FS Py false) c = OK z -> plain c -> z = empty.
Proof.
  induction n as [|n IH]; intros c z H Hp; [discriminate|].
  destruct c as [m|[a|a f]|c a|ix cs|a b]; cbn [filter_flag] in H; try (destruct Hp; fail).
  - inv_bind H. injection H as <-. apply plain_Static in Hp. rewrite Forall_forall in Hp.
    apply (Forall2_mapM_keys (filter_flag n (FS Py false))) in Ha.
    unfold static_build. replace (filter _ a) with (@nil (nat * chm)); [reflexivity|].
    symmetry. clear -Ha Hp IH. induction Ha as [|kv kv' m a [H1 H2] _ IHa]; [reflexivity|].
    simpl. rewrite (IH _ _ H2 (Hp kv (or_introl eq_refl))). simpl. apply IHa. intros x Hx. apply Hp. now right.
  - unfold choice_filter_flag in H. simpl in H. injection H as <-. reflexivity.
  - inv_bind H. injection H as <-. rewrite (IH _ _ Ha Hp). reflexivity.
  - inv_bind H. inv_bind H. destruct Hp as [Pa Pb]. rewrite (IH _ _ Ha Pa), (IH _ _ Ha0 Pb) in H.
    destruct n; [discriminate|]. now injection H as <-.
Qed.

(* ---- ChoiceMap.switch ---- *)
Theorem switch_selects : forall n k cs z, switch_build n (XArr (Z.of_nat k)) cs = OK z ->
  Forall wf cs -> (k < length cs)%nat ->
  wf z /\ forall p, amap z p = match nth_error cs k with Some c => amap c p | None => None end.
Proof.
  intros n k cs z H Hall Hk. unfold switch_build, switch_mask in H. inv_bind H. injection H as <-.
  destruct (switch_rebuild n k cs a (mask_law n) Hk Hall Ha) as [W A]. split; [exact W|]. intros p. apply A.
Qed.
Theorem switch_python_index : forall n z cs c, switch_build n (XPy z) cs = OK c ->
  exists j, nth_error cs j = Some c /\ Z.of_nat j = (if z <? 0 then z + Z.of_nat (length cs) else z).
Proof.
  intros n z cs c H. unfold switch_build in H.
  destruct ((z <? - Z.of_nat (length cs)) || (Z.of_nat (length cs) <=? z)) eqn:E; [discriminate|].
  apply orb_false_elim in E. destruct E as [E1 E2].
  set (j := Z.to_nat (if z <? 0 then z + Z.of_nat (length cs) else z)) in *.
  destruct (nth_error cs j) as [c'|] eqn:Ej; [|discriminate]. injection H as <-.
  exists j. split; [exact Ej|]. unfold j. destruct (z <? 0) eqn:E3; lia.
Qed.

(* filter keeps exactly the addresses whose static part is selected *)
Theorem filter_static_projection : forall n s c z, filter_sel n s c = OK z -> wf c ->
  wf z /\ forall p, amap z p = if mem s (statics p) then amap c p else None.
Proof. intros n s c z H W. destruct (filter_sel_law _ _ _ _ H W) as [W' [_ A]]. split; [exact W'|]. intros p. apply A. Qed.
