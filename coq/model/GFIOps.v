(* Derived GFI methods (generative_function.py): propose, importance. *)
From Coq Require Import List Bool ZArith NArith.
Import ListNotations.
From Model Require Import Key Sel GFI.
Definition propose (g : gf) (k : key) (a : list val) : res (chm * Z * val) :=
  do t <- simulate g k a; Ok (t_choices t, t_score t, t_retval t).
Definition importance (g : gf) (k : key) (c : chm) (a : list val) : res (trace * Z) := generate g k c a.
