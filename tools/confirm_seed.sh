#!/bin/bash
# tools/confirm_seed.sh <name> : confirm a sub-agent's seeded change in its scratch worktree
# (/tmp/wt/<name>, outputs in /tmp/seed_out/<name>), then keep it under /verif/seeded/<name>
# and remove the worktree.  Confirms: patch applies to /repo HEAD, demo exits 1 with the change
# and 0 without, full suite passes with the change (the two known-flaky tests aside).
set -u
name=$1
wt=/tmp/wt/$name; out=/tmp/seed_out/$name
export JAX_PLATFORMS=cpu PYTHONPATH=$wt/src
[ -d $wt ] || git -C /repo worktree add -q --detach $wt HEAD
cd $wt || exit 2
git -C $wt checkout -q -- . && git -C $wt apply $out/patch.diff || { echo "patch does not apply"; exit 2; }
/venv/bin/python $out/demo.py > /tmp/seed_out/$name.with.log 2>&1; with=$?
git -C $wt apply -R $out/patch.diff     # (no git stash: the stash is shared between worktrees)
/venv/bin/python $out/demo.py > /tmp/seed_out/$name.without.log 2>&1; without=$?
git -C $wt apply $out/patch.diff
suite=$(cd $wt && timeout 1500 /venv/bin/python -m pytest -q -p no:cacheprovider -n 6 --timeout=900 2>&1 | tail -1)
failed=$(cd $wt && echo "$suite")
echo "demo with change: $with ; without: $without ; suite: $suite"
ok=1
[ "$with" = "1" ] || ok=0
[ "$without" = "0" ] || ok=0
case "$suite" in *"235 passed"*|*"236 passed"*|*"237 passed"*) ;; *) ok=0;; esac
if [ $ok = 1 ]; then
  mkdir -p /verif/seeded/$name
  cp $out/patch.diff $out/demo.py /verif/seeded/$name/
  /venv/bin/python - "$name" "$with" "$without" "$suite" <<'PY'
import json,sys
name,w,wo,suite=sys.argv[1:5]
m=json.load(open(f"/tmp/seed_out/{name}/meta.json"))
m["confirmed"]={"demo_exit_with_change":int(w),"demo_exit_without_change":int(wo),"suite_with_change":suite,
  "ran":"tools/confirm_seed.sh: git apply patch.diff in a scratch worktree of /repo HEAD; demo.py with/without; pytest -n 6 full suite with the change"}
json.dump(m,open(f"/verif/seeded/{name}/meta.json","w"),indent=1)
PY
  echo "KEPT /verif/seeded/$name"
else
  echo "NOT CONFIRMED $name"
fi
git -C /repo worktree remove --force $wt
