(* C06 — backward requests undo edits.
   Proved in full for Update on every program built from distributions, the static language, vmap, scan and dimap
   (and what is derived from them: repeat, iterate, accumulate, reduce, map, contramap ...): applying the
   returned backward request to the new trace with the original arguments returns EXACTLY the original trace
   (choices, score, return value, stored arguments) with the negated weight (C06_update_roundtrip).
   PARTIAL elsewhere: Regenerate is proved at distribution sites; through mask and switch the implementation does
   not restore (known findings K25, K19) and a Regenerate on a scan cannot be undone (K24); those requests are
   decided on each run by the correspondence (the model's backward request is compared with the implementation's
   and applied) and by the direct oracle (apply the implementation's backward request, compare with the original). *)
From Coq Require Import List ZArith.
Import ListNotations.
From Model Require Import Key Sel GFI GFIEdit.
From Proofs Require Import GFIBase GFIWf GFIEditProofs GFIRoundtrip GFIRoundtripAll.
Open Scope Z_scope.

Theorem C06_update_roundtrip : forall g k t c a tg t' w b,
  wfg g -> simple g -> wft g t -> edit g k t (RUpdate c) a tg = Ok (t', w, b) ->
  exists bc, b = RUpdate bc /\ forall k' tg', exists b', edit g k' t' b (t_args t) tg' = Ok (t, - w, b').
Proof. exact update_roundtrip. Qed.
Print Assumptions C06_update_roundtrip.

Theorem C06_site_roundtrip_partial : forall d k k' t r a tg tg' t' w b,
  plain r -> wft (GDist d) t -> edit (GDist d) k t r a tg = Ok (t', w, b) ->
  exists b', edit (GDist d) k' t' b (t_args t) tg' = Ok (t, - w, b').
Proof. exact dist_roundtrip. Qed.
Print Assumptions C06_site_roundtrip_partial.

Theorem C06_backward_weight_negates_partial : forall g k k' t r r' a tg tg' t' w b t'' w' b',
  wfg g -> plain r -> plain r' -> wft g t ->
  edit g k t r a tg = Ok (t', w, b) -> edit g k' t' r' (t_args t) tg' = Ok (t'', w', b') ->
  t_score t'' = t_score t -> w' = - w.
Proof. exact backward_weight_negates. Qed.
Print Assumptions C06_backward_weight_negates_partial.
