"""known-finding witness: `estimate_logpdf(self, key, v, *args: tuple[Any, ...])` in
sp.py (Marginal) and smc.py (SMCAlgorithm) -- beartype applies the annotation to EACH
positional argument, so every argument after `v` must itself be a tuple (C25, C26):
 (a) Marginal.estimate_logpdf rejects a program argument that is not a tuple;
 (b) SMCAlgorithm.estimate_logpdf(key, v, target) rejects every Target (it also asserts
     isinstance(args[0], Target)): the density-estimation half of the stochastic
     probability interface cannot be called for any SMC algorithm;
 (c) Importance/ImportanceK.run_csmc with a Marginal proposal call
     q.estimate_logpdf(key, retained, target) and fail the same way.
exit 1 if present."""
import sys, jax, jax.numpy as jnp
from genjax import gen, normal, ChoiceMapBuilder as C
from genjax.inference import Target
from genjax.inference.smc import Importance

@gen
def model(mu):
    x = normal(mu, 1.0) @ "x"
    y = normal(x, 0.5) @ "y"
    return y
@gen
def q(target):
    return normal(0.0, 2.0) @ "x"

key = jax.random.key(0)
bad = []
w, chm = model.marginal().random_weighted(key, 0.3)              # random_weighted takes the argument
try:
    model.marginal().estimate_logpdf(key, chm, 0.3)              # ... estimate_logpdf of the same sample does not
except TypeError:
    bad.append("Marginal.estimate_logpdf(key, v, 0.3)")
tgt = Target(model, (0.3,), C["y"].set(1.0))
try:
    Importance(tgt).estimate_logpdf(key, C["x"].set(0.1), tgt)
except TypeError:
    bad.append("SMCAlgorithm.estimate_logpdf(key, v, target)")
try:
    Importance(tgt, q.marginal()).run_csmc(key, C["x"].set(0.1))
except TypeError:
    bad.append("Importance(target, q).run_csmc(key, retained)")
print("FAIL: TypeError from" if bad else "OK", bad)
sys.exit(1 if bad else 0)
