(* C19: the Mask algebra follows its truth tables, for every staging of the flags. *)
From Coq Require Import List Bool ZArith Lia Arith.
Import ListNotations.
From Model Require Import Flag MaskAlg.
From Proofs Require Import FlagProofs.
Open Scope Z_scope.

(* ---- ~ ---- *)
Lemma not_table a : mobs_flag (mnot a) = omap negb (mobs_flag a) /\ mval (mnot a) = mval a.
Proof. split; [apply not_bool|reflexivity]. Qed.

(* ---- build ---- *)
Lemma mk_some v f r : mk v f = Some r -> r = MkMask v f.
Proof. unfold mk. destruct (valid_init v f); intros H; now inversion H. Qed.

Lemma build_raw v f r : build (Raw v) f = Some r -> mval r = v /\ mflag r = f.
Proof. simpl. intros H. apply mk_some in H. subst. auto. Qed.

Lemma build_and m f r :
  build (Msk m) f = Some r ->
  mval r = mval m /\ Some (obs (mflag r)) = olift2 andb (obs f) (obs (mflag m)).
Proof.
  simpl. destruct (flag_scalar f || opt_nat_eqb (flag_len f) (flag_len (mflag m)))%bool; [|discriminate].
  destruct (and_ f (mflag m)) as [h|] eqn:E; [|discriminate].
  intros H. apply mk_some in H. subst r. simpl. split; [reflexivity|].
  unfold and_ in E. rewrite <- flagop_bool, E. reflexivity.
Qed.

(* ---- flatten ---- *)
Lemma flatten_cases m :
  (mflag m = FS Py false /\ flatten m = FlNone) \/
  (mflag m = FS Py true /\ flatten m = FlVal (mval m)) \/
  (concrete_true (mflag m) = false /\ concrete_false (mflag m) = false /\ flatten m = FlMask m).
Proof.
  unfold flatten. destruct (mflag m) as [[|] [|]|l]; simpl; auto 6.
Qed.

Lemma maybe_mask_raw v f :
  maybe_mask (Raw v) f =
  if valid_init v f then Some (if concrete_false f then FlNone else if concrete_true f then FlVal v else FlMask (MkMask v f)) else None.
Proof. unfold maybe_mask, build, mk. destruct (valid_init v f); reflexivity. Qed.

(* ---- values with the dtype erased ---- *)
Lemma tv_num_cast d v : tv_num (tv_cast d v) = tv_num v.
Proof. destruct v; reflexivity. Qed.

(* ---- unmask(default), scalar flag ---- *)
Lemma jwhere_scalar s b t e r : jwhere (FS s b) t e = Some r -> tv_num r = if b then tv_num t else tv_num e.
Proof.
  destruct t as [d x|d l], e as [d' y|d' m]; simpl; try discriminate.
  - intros H; inversion H; subst. destruct b; reflexivity.
  - destruct (Nat.eqb (length l) (length m)); [|discriminate]. intros H; inversion H; subst. destruct b; reflexivity.
Qed.
Lemma omap2_map {A B C D} (f : A -> B -> option C) (g : C -> D) (ga : A -> D) :
  forall l1 l2 r, (forall a b c, f a b = Some c -> g c = ga a) -> omap2 f l1 l2 = Some r -> map g r = map ga l1.
Proof.
  induction l1 as [|a l1 IH]; intros [|b l2] r Hf; simpl; try discriminate.
  - intros H; inversion H; reflexivity.
  - destruct (f a b) eqn:E1; [|discriminate]. destruct (omap2 f l1 l2) eqn:E2; [|discriminate].
    intros H; inversion H; subst. simpl. f_equal; [eapply Hf; eauto|]. eapply IH; eauto.
Qed.
Lemma omap2_map_r {A B C D} (f : A -> B -> option C) (g : C -> D) (gb : B -> D) :
  forall l1 l2 r, (forall a b c, f a b = Some c -> g c = gb b) -> omap2 f l1 l2 = Some r -> map g r = map gb l2.
Proof.
  induction l1 as [|a l1 IH]; intros [|b l2] r Hf; simpl; try discriminate.
  - intros H; inversion H; reflexivity.
  - destruct (f a b) eqn:E1; [|discriminate]. destruct (omap2 f l1 l2) eqn:E2; [|discriminate].
    intros H; inversion H; subst. simpl. f_equal; [eapply Hf; eauto|]. eapply IH; eauto.
Qed.

Theorem unmask_default_scalar m s b dflt r :
  mflag m = FS s b -> unmask_default m dflt = Some r ->
  map tv_num r = if b then map tv_num (mval m) else map tv_num dflt.
Proof.
  unfold unmask_default. intros -> H. destruct b.
  - eapply omap2_map; [|exact H]. intros a b0 c Hc. now apply jwhere_scalar in Hc.
  - eapply omap2_map_r; [|exact H]. intros a b0 c Hc. now apply jwhere_scalar in Hc.
Qed.

(* ---- choosing between two masks with a scalar index ---- *)
Lemma choose2_scalar z x y c :
  tree_choose (IArr z) [x; y] = Some c ->
  tv_num c = if Z.eqb (z mod 2) 0 then tv_num x else tv_num y.
Proof.
  intros H. apply tree_choose_mod in H as [v0 [-> Hlt]]. rewrite tv_num_cast.
  simpl length in *. change (Z.of_nat 2) with 2 in *.
  assert (Hm : z mod 2 = 0 \/ z mod 2 = 1) by (pose proof (Z.mod_pos_bound z 2); lia).
  destruct Hm as [E|E]; rewrite E; reflexivity.
Qed.
Lemma choose_leaves_scalar z a b v :
  choose_leaves (IArr z) a b = Some v ->
  map tv_num v = if Z.eqb (z mod 2) 0 then map tv_num a else map tv_num b.
Proof.
  unfold choose_leaves. intros H. destruct (Z.eqb (z mod 2) 0) eqn:E.
  - eapply omap2_map; [|exact H]. intros x y c Hc. apply choose2_scalar in Hc. now rewrite E in Hc.
  - eapply omap2_map_r; [|exact H]. intros x y c Hc. apply choose2_scalar in Hc. now rewrite E in Hc.
Qed.

(* ---- | : scalar flags, every staging ---- *)
Theorem or_table_scalar a b r s1 x s2 y :
  mflag a = FS s1 x -> mflag b = FS s2 y -> mor a b = Some r ->
  obs (mflag r) = OS (x || y) /\ mobs_val r = if x then mobs_val a else mobs_val b.
Proof.
  intros Ha Hb. unfold mor. destruct (negb (validate_shapes a b)); [discriminate|].
  rewrite Ha. destruct s1.
  - destruct x; intros H; inversion H; subst; simpl.
    + rewrite Ha. auto.
    + rewrite Hb. auto.
  - rewrite Hb. cbn [or_idx].
    destruct (choose_leaves (IArr (oi x y)) (mval a) (mval b)) as [v|] eqn:Ev; [|discriminate].
    destruct (tree_choose (IArr (oi x y)) [flag_tv (FS Ar x); flag_tv (FS s2 y)]) as [fl|] eqn:Ef; [|discriminate].
    intros H; inversion H; subst; clear H. simpl mflag. unfold mobs_val. simpl mval.
    apply choose_leaves_scalar in Ev. split.
    + destruct x, y; vm_compute in Ef; inversion Ef; reflexivity.
    + rewrite Ev. destruct x, y; reflexivity.
Qed.

(* ---- ^ : scalar flags, every staging ---- *)
Theorem xor_table_scalar a b r s1 x s2 y :
  mflag a = FS s1 x -> mflag b = FS s2 y -> mxor a b = Some r ->
  obs (mflag r) = OS (xorb x y) /\ (xorb x y = true -> mobs_val r = if x then mobs_val a else mobs_val b).
Proof.
  intros Ha Hb. unfold mxor. destruct (negb (validate_shapes a b)); [discriminate|].
  rewrite Ha, Hb.
  assert (G : forall i fx, or_idx (FS s1 x) (FS s2 y) = Some i -> xor_ (FS s1 x) (FS s2 y) = Some fx ->
              match choose_leaves i (mval a) (mval b) with Some v => mk v fx | None => None end = Some r ->
              obs (mflag r) = OS (xorb x y) /\ (xorb x y = true -> mobs_val r = if x then mobs_val a else mobs_val b)).
  { intros i fx Hi Hx. cbn [or_idx] in Hi. inversion Hi; subst i; clear Hi.
    destruct (choose_leaves (IArr (oi x y)) (mval a) (mval b)) as [v|] eqn:Ev; [|discriminate].
    intros H. apply mk_some in H. subst r. simpl mflag. unfold mobs_val. simpl mval.
    apply choose_leaves_scalar in Ev. split.
    - assert (E := flagop_bool xorb (FS s1 x) (FS s2 y)). unfold xor_ in Hx. rewrite Hx in E. simpl in E. now inversion E.
    - intros _. rewrite Ev. destruct x, y; reflexivity. }
  assert (B : build (Msk a) (FS Py false) = Some r -> obs (mflag r) = OS false).
  { intros H. apply build_and in H as [_ H]. rewrite Ha in H. simpl in H. now inversion H. }
  destruct s1, s2.
  - destruct x, y; intros H.
    + split; [now apply B|discriminate].
    + inversion H; subst. rewrite Ha. auto.
    + inversion H; subst. rewrite Hb. auto.
    + split; [now apply B|discriminate].
  - destruct x; intros H; (eapply G; [reflexivity| |exact H]); reflexivity.
  - intros H; (eapply G; [reflexivity| |exact H]); reflexivity.
  - intros H; (eapply G; [reflexivity| |exact H]); reflexivity.
Qed.

(* ---- staging erasure for | and ^ on scalar flags: same observed flags and same
   values give the same observed result, whatever mix of Python bools and arrays ---- *)
Theorem or_stage_erasure a a' b b' r r' x y s1 s2 s1' s2' :
  mflag a = FS s1 x -> mflag a' = FS s1' x -> mflag b = FS s2 y -> mflag b' = FS s2' y ->
  mobs_val a = mobs_val a' -> mobs_val b = mobs_val b' ->
  mor a b = Some r -> mor a' b' = Some r' ->
  obs (mflag r) = obs (mflag r') /\ mobs_val r = mobs_val r'.
Proof.
  intros Ha Ha' Hb Hb' Va Vb H H'.
  destruct (or_table_scalar _ _ _ _ _ _ _ Ha Hb H) as [F V].
  destruct (or_table_scalar _ _ _ _ _ _ _ Ha' Hb' H') as [F' V'].
  split; [congruence|]. rewrite V, V'. destruct x; congruence.
Qed.
Theorem xor_stage_erasure a a' b b' r r' x y s1 s2 s1' s2' :
  mflag a = FS s1 x -> mflag a' = FS s1' x -> mflag b = FS s2 y -> mflag b' = FS s2' y ->
  mobs_val a = mobs_val a' -> mobs_val b = mobs_val b' ->
  mxor a b = Some r -> mxor a' b' = Some r' ->
  obs (mflag r) = obs (mflag r') /\ (xorb x y = true -> mobs_val r = mobs_val r').
Proof.
  intros Ha Ha' Hb Hb' Va Vb H H'.
  destruct (xor_table_scalar _ _ _ _ _ _ _ Ha Hb H) as [F V].
  destruct (xor_table_scalar _ _ _ _ _ _ _ Ha' Hb' H') as [F' V'].
  split; [congruence|]. intros E. rewrite (V E), (V' E). destruct x; congruence.
Qed.

Example or_nonvacuous :
  mor (MkMask [TS DFloat 1] (FS Ar false)) (MkMask [TS DInt 2] (FS Py true)) = Some (MkMask [TS DFloat 2] (FS Ar true)).
Proof. reflexivity. Qed.
Example xor_nonvacuous :
  mxor (MkMask [TVec DFloat [1; 2]] (FV [true; false])) (MkMask [TVec DFloat [3; 4]] (FV [false; true]))
  = Some (MkMask [TVec DFloat [1; 4]] (FV [true; true])).
Proof. reflexivity. Qed.
