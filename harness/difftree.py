"""Engine A-diff: pytrees as canonical terms, realised as real GenJAX / JAX objects and
printed as Coq literals of coq/model/DiffTree.v.

Canonical (JSON-able) form
  leaf  ["L", "py"|"ar"|"tr", z]   scalar: Python int / array / tracer
        ["V", "ar"|"tr", [z..]]    1-d array
        ["F", k]                   harness callable number k
  node  ["N", kind, [children]]
  kind  ["none"] ["tuple"] ["list"] ["dict", [keys]] ["rec", cls, [s|None ..]]
        ["diff"] ["tan", "N"|"U"] ["const", leaf] ["closure", k]
  def   "*"  |  ["D", kind, [defs]]

The canonicaliser reads objects with isinstance/getattr and the harness's own class
table; it never calls jax.tree_util, so it stays an independent observer of
tree_flatten / tree_unflatten."""
import dataclasses
import numpy as np

from .core import clist, cz, cnat

DYN_LO, DYN_HI = -9, 9          # values of dynamic leaves
STAT_LO, STAT_HI = 100, 120     # values of static fields (disjoint on purpose)
STATIC_DEFAULT = 111            # default of a trailing `Pytree.static(default=...)` field
NFN = 4


class CanonError(Exception):
    pass


# ----------------------------------------------------------------------------
# harness callables and runtime-generated Pytree dataclasses
# ----------------------------------------------------------------------------
def _mkfn(k):
    def fn(*a):
        return (k,) + tuple(a)
    fn.__name__ = f"fn{k}"
    return fn


FN = [_mkfn(k) for k in range(NFN)]
_CLASSES = {}      # (cls id, pattern) -> class
_CLASS_OF = {}     # class -> (cls id, pattern)


def get_class(c, pattern):
    """pattern: string over d (bare dynamic field), f (Pytree.field()), s (Pytree.static()),
    S (trailing Pytree.static(default=STATIC_DEFAULT))"""
    from typing import Any
    from genjax._src.core.pytree import Pytree
    key = (c, pattern)
    if key in _CLASSES:
        return _CLASSES[key]
    ns, ann = {}, {}
    for i, ch in enumerate(pattern):
        ann[f"f{i}"] = Any
        if ch == "s":
            ns[f"f{i}"] = Pytree.static()
        elif ch == "S":
            ns[f"f{i}"] = Pytree.static(default=STATIC_DEFAULT)
        elif ch == "f":
            ns[f"f{i}"] = Pytree.field()
    ns["__annotations__"] = ann
    ns["__module__"] = __name__
    cls = Pytree.dataclass(type(f"Rec{c}_{pattern}", (Pytree,), ns))
    _CLASSES[key] = cls
    _CLASS_OF[cls] = key
    return cls


def pattern_of_layout(c, layout, table):
    return table[c]


# ----------------------------------------------------------------------------
# canonical term -> object
# ----------------------------------------------------------------------------
def build_leaf(l):
    import jax.numpy as jnp
    if l[0] == "L":
        if l[1] == "py":
            return int(l[2])
        if l[1] == "ar":
            return jnp.array(int(l[2]), dtype=jnp.int32)
        raise CanonError("cannot realise a tracer leaf outside a trace")
    if l[0] == "V":
        return jnp.array([int(x) for x in l[2]], dtype=jnp.int32)
    if l[0] == "F":
        return FN[l[1]]
    raise CanonError(f"bad leaf {l}")


def build(t, table):
    """table: {cls id: pattern}"""
    from genjax._src.core.compiler.interpreters.incremental import Diff, NoChange, UnknownChange
    from genjax._src.core.pytree import Const, Closure
    if t[0] != "N":
        return build_leaf(t)
    kind, cs = t[1], t[2]
    k = kind[0]
    if k == "none":
        return None
    if k == "tuple":
        return tuple(build(c, table) for c in cs)
    if k == "list":
        return [build(c, table) for c in cs]
    if k == "dict":
        return {f"k{key}": build(c, table) for key, c in zip(kind[1], cs)}
    if k == "tan":
        return NoChange if kind[1] == "N" else UnknownChange
    if k == "diff":
        # through the checked constructor, like user code
        return Diff(build(cs[0], table), build(cs[1], table))
    if k == "const":
        return Const(build_leaf(kind[1]))
    if k == "closure":
        return Closure(build(cs[0], table), FN[kind[1]])
    if k == "rec":
        c, layout = kind[1], kind[2]
        pattern = table[str(c)] if str(c) in table else table[c]
        cls = get_class(c, pattern)
        kw, it = {}, iter(cs)
        for i, (ch, s) in enumerate(zip(pattern, layout)):
            if ch in "sS":
                if ch == "S" and s == STATIC_DEFAULT:
                    continue           # let the declared default supply it
                kw[f"f{i}"] = int(s)
            else:
                kw[f"f{i}"] = build(next(it), table)
        return cls(**kw)
    raise CanonError(f"bad kind {kind}")


# ----------------------------------------------------------------------------
# object -> canonical term (no jax.tree_util)
# ----------------------------------------------------------------------------
def canon_leaf(x):
    import jax
    if isinstance(x, jax.core.Tracer):
        raise CanonError("a tracer escaped")
    if type(x) is int:
        return ["L", "py", x]
    if callable(x) and x in FN:
        return ["F", FN.index(x)]
    if isinstance(x, (jax.Array, np.ndarray, np.integer)):
        a = np.asarray(x)
        if not np.issubdtype(a.dtype, np.integer):
            raise CanonError(f"non-integer array {a.dtype}")
        if a.ndim == 0:
            return ["L", "ar", int(a)]
        if a.ndim == 1:
            return ["V", "ar", [int(v) for v in a]]
        raise CanonError(f"array of rank {a.ndim}")
    raise CanonError(f"unexpected leaf {type(x).__name__}: {x!r}"[:200])


def canon(x):
    from genjax._src.core.compiler.interpreters.incremental import Diff, _NoChange, _UnknownChange
    from genjax._src.core.pytree import Const, Closure
    if x is None:
        return ["N", ["none"], []]
    if type(x) is tuple:
        return ["N", ["tuple"], [canon(c) for c in x]]
    if type(x) is list:
        return ["N", ["list"], [canon(c) for c in x]]
    if type(x) is dict:
        keys = sorted(x.keys())
        return ["N", ["dict", [int(k[1:]) for k in keys]], [canon(x[k]) for k in keys]]
    if isinstance(x, _NoChange):
        return ["N", ["tan", "N"], []]
    if isinstance(x, _UnknownChange):
        return ["N", ["tan", "U"], []]
    if isinstance(x, Diff):
        return ["N", ["diff"], [canon(x.primal), canon(x.tangent)]]
    if isinstance(x, Const):
        return ["N", ["const", canon_leaf(x.val)], []]
    if isinstance(x, Closure):
        if x.fn not in FN:
            raise CanonError("closure over a foreign callable")
        return ["N", ["closure", FN.index(x.fn)], [canon(x.dyn_args)]]
    if type(x) in _CLASS_OF:
        c, pattern = _CLASS_OF[type(x)]
        layout, cs = [], []
        for i, ch in enumerate(pattern):
            v = getattr(x, f"f{i}")
            if ch in "sS":
                if type(v) is not int:
                    raise CanonError(f"static field f{i} of class {c} holds {type(v).__name__}, not the Python int it was given")
                layout.append(v)
            else:
                layout.append(None)
                cs.append(canon(v))
        return ["N", ["rec", c, layout], cs]
    return canon_leaf(x)


def canon_def(td):
    """PyTreeDef -> canonical def, through the public node_data()/children() API"""
    from genjax._src.core.compiler.interpreters.incremental import Diff, _NoChange, _UnknownChange
    from genjax._src.core.pytree import Const, Closure
    nd = td.node_data()
    if nd is None:
        if td.num_leaves != 1:
            raise CanonError("treedef without node data is not a leaf")
        return "*"
    ty, aux = nd
    ds = [canon_def(c) for c in td.children()]
    if ty is type(None):
        return ["D", ["none"], ds]
    if ty is tuple:
        return ["D", ["tuple"], ds]
    if ty is list:
        return ["D", ["list"], ds]
    if ty is dict:
        return ["D", ["dict", [int(k[1:]) for k in aux]], ds]
    names, statics = list(aux.child_field_names), dict(aux.static_fields)
    if ty is _NoChange or ty is _UnknownChange:
        if names or statics:
            raise CanonError("tangent object with fields")
        return ["D", ["tan", "N" if ty is _NoChange else "U"], ds]
    if ty is Diff:
        if names != ["primal", "tangent"] or statics:
            raise CanonError(f"Diff flattens as children {names}, statics {sorted(statics)}")
        return ["D", ["diff"], ds]
    if ty is Const:
        if names or list(statics) != ["val"]:
            raise CanonError(f"Const flattens as children {names}, statics {sorted(statics)}")
        return ["D", ["const", canon_leaf(statics["val"])], ds]
    if ty is Closure:
        if names != ["dyn_args"] or list(statics) != ["fn"] or statics["fn"] not in FN:
            raise CanonError(f"Closure flattens as children {names}, statics {sorted(statics)}")
        return ["D", ["closure", FN.index(statics["fn"])], ds]
    if ty in _CLASS_OF:
        c, pattern = _CLASS_OF[ty]
        layout, seen = [], []
        for i in range(len(pattern)):
            n = f"f{i}"
            if n in statics:
                v = statics[n]
                layout.append(v if type(v) is int else "?")
            elif n in names:
                layout.append(None)
                seen.append(n)
            else:
                raise CanonError(f"field {n} of class {c} is neither child nor static")
        if seen != names:
            raise CanonError(f"children of class {c} out of declaration order: {names}")
        return ["D", ["rec", c, layout], ds]
    raise CanonError(f"unknown node type {ty}")


# ----------------------------------------------------------------------------
# Coq literals
# ----------------------------------------------------------------------------
ST = {"py": "Py", "ar": "Ar", "tr": "Tr"}


def c_leaf(l):
    if l[0] == "L":
        return f"(LS {ST[l[1]]} {cz(l[2])})"
    if l[0] == "V":
        return f"(LV {ST[l[1]]} {clist([cz(z) for z in l[2]])})"
    return f"(LFn {cz(l[1])})"


def c_kind(k):
    n = k[0]
    if n == "none": return "KNone"
    if n == "tuple": return "KTuple"
    if n == "list": return "KList"
    if n == "dict": return f"(KDict {clist([cz(z) for z in k[1]])})"
    if n == "rec":
        lay = ["None" if s is None else ("(Some (-1))" if s == "?" else f"(Some {cz(s)})") for s in k[2]]
        return f"(KRec {cnat(k[1])} {clist(lay)})"
    if n == "diff": return "KDiff"
    if n == "tan": return "(KTan NoChange)" if k[1] == "N" else "(KTan UnknownChange)"
    if n == "const": return f"(KConst {c_leaf(k[1])})"
    if n == "closure": return f"(KClosure {cz(k[1])})"
    raise CanonError(f"bad kind {k}")


def c_tree(t):
    if t[0] != "N":
        return f"(Leaf {c_leaf(t)})"
    return f"(Node {c_kind(t[1])} {clist([c_tree(c) for c in t[2]])})"


def c_def(d):
    if d == "*":
        return "DLeaf"
    return f"(DNode {c_kind(d[1])} {clist([c_def(c) for c in d[2]])})"


def c_otree(t):
    return "None" if t is None else f"(Some {c_tree(t)})"


# ----------------------------------------------------------------------------
# pure-Python readings of a canonical term, used by the direct oracle (these are the
# *specification* side: what the docstrings promise, written on the data itself)
# ----------------------------------------------------------------------------
def is_node(t, name=None):
    return t[0] == "N" and (name is None or t[1][0] == name)


def spec_primal(t):
    """outermost Diff -> its primal"""
    if not is_node(t):
        return t
    if is_node(t, "diff"):
        return t[2][0]
    return ["N", t[1], [spec_primal(c) for c in t[2]]]


def spec_tangent(t):
    """outermost Diff -> its tangent, any other leaf -> NoChange"""
    if not is_node(t):
        return ["N", ["tan", "N"], []]
    if is_node(t, "diff"):
        return t[2][1]
    return ["N", t[1], [spec_tangent(c) for c in t[2]]]


def spec_tangents(t):
    """the change tags a tree carries, left to right: of its Diffs, and of bare tangent objects"""
    if not is_node(t):
        return []
    if is_node(t, "tan"):
        return [t[1][1]]
    if is_node(t, "diff"):
        return spec_tangents(t[2][1])
    return [x for c in t[2] for x in spec_tangents(c)]


def spec_raw_leaves(t):
    """number of leaves that are not inside a Diff"""
    if not is_node(t):
        return 1
    if is_node(t, "diff"):
        return 0
    return sum(spec_raw_leaves(c) for c in t[2])


def dyn_leaves(t):
    """the leaves in dynamic positions, left to right"""
    if not is_node(t):
        return [t]
    return [x for c in t[2] for x in dyn_leaves(c)]


def statics(t):
    """all static data, in order"""
    if not is_node(t):
        return []
    k = t[1]
    own = []
    if k[0] == "rec": own = [("s", s) for s in k[2] if s is not None]
    if k[0] == "const": own = [("c", tuple(map(repr, k[1])))]
    if k[0] == "closure": own = [("fn", k[1])]
    if k[0] == "dict": own = [("keys", tuple(k[1]))]
    return own + [x for c in t[2] for x in statics(c)]


def has(t, name):
    if not is_node(t):
        return False
    return t[1][0] == name or any(has(c, name) for c in t[2])


def nested_diff(t, inside=False):
    if not is_node(t):
        return False
    if is_node(t, "diff"):
        return inside or nested_diff(t[2][0], True)
    return any(nested_diff(c, inside) for c in t[2])


def map_leaves(t, g):
    if not is_node(t):
        return g(t)
    return ["N", t[1], [map_leaves(c, g) for c in t[2]]]


def as_array(l):
    return l if l[0] == "F" else [l[0], "ar", l[2]]


def structure(t):
    if not is_node(t):
        return "*"
    return ["D", t[1], [structure(c) for c in t[2]]]


# ----------------------------------------------------------------------------
# generators (ctx.rng only)
# ----------------------------------------------------------------------------
PATTERNS = ["d", "s", "ds", "sd", "fd", "dsd", "sfs", "ddS", "fsdS", "", "ss", "dfd"]


def gen_table(rng, n=6):
    """this run's class table: n runtime-generated dataclasses with random field patterns"""
    table = {}
    for c in range(n):
        if rng.random() < 0.5:
            table[c] = rng.choice(PATTERNS)
        else:
            k = rng.randint(1, 4)
            p = "".join(rng.choice("dfs") for _ in range(k))
            if rng.random() < 0.3:
                p += "S"
            table[c] = p
    return table


class Gen:
    def __init__(self, rng, table, vec=None, diffs=0.18, consts=0.05, closures=0.04, fns=0.0,
                 tans=0.0, nested=0.0, py=0.5, vecs=0.08):
        self.rng, self.table = rng, table
        self.vec, self.diffs, self.consts, self.closures, self.fns = vec, diffs, consts, closures, fns
        self.tans, self.nested, self.py, self.vecs = tans, nested, py, vecs

    def leaf(self):
        r = self.rng
        if self.vec is not None:
            return ["V", "ar", [r.randint(DYN_LO, DYN_HI) for _ in range(self.vec)]]
        if r.random() < self.fns:
            return ["F", r.randrange(NFN)]
        if r.random() < self.vecs:
            return ["V", "ar", [r.randint(DYN_LO, DYN_HI) for _ in range(r.randint(1, 3))]]
        return ["L", "py" if r.random() < self.py else "ar", r.randint(DYN_LO, DYN_HI)]

    def const(self):
        r = self.rng
        if r.random() < 0.7:
            return ["N", ["const", ["L", "py", r.randint(STAT_LO, STAT_HI)]], []]
        if r.random() < 0.5:
            return ["N", ["const", ["L", "ar", r.randint(STAT_LO, STAT_HI)]], []]
        return ["N", ["const", ["F", r.randrange(NFN)]], []]

    def tree(self, depth, in_diff=False):
        r = self.rng
        x = r.random()
        diffs = 0.0 if (in_diff and r.random() >= self.nested) else self.diffs
        if x < diffs:
            if self.nested and r.random() < 0.5 * self.nested:
                p = ["N", ["diff"], [self.leaf(), ["N", ["tan", r.choice("NU")], []]]]
            elif r.random() < 0.75 or depth == 0:
                p = self.leaf() if r.random() < 0.9 else ["N", ["none"], []]
            else:
                p = self.tree(depth - 1, in_diff=True)
            return ["N", ["diff"], [p, ["N", ["tan", r.choice("NU")], []]]]
        x = r.random()
        if x < self.consts:
            return self.const()
        if x < self.consts + self.tans:
            return ["N", ["tan", r.choice("NU")], []]
        if depth == 0 or r.random() < 0.15:
            return self.leaf() if r.random() < 0.93 else ["N", ["none"], []]
        x = r.random()
        w = lambda: r.choice([0, 1, 1, 2, 2, 2, 3])
        if x < 0.30:
            return ["N", ["tuple"], [self.tree(depth - 1, in_diff) for _ in range(w())]]
        if x < 0.42:
            return ["N", ["list"], [self.tree(depth - 1, in_diff) for _ in range(w())]]
        if x < 0.60:
            keys = sorted(r.sample(range(6), w()))
            return ["N", ["dict", keys], [self.tree(depth - 1, in_diff) for _ in keys]]
        if x < 0.60 + self.closures:
            return ["N", ["closure", r.randrange(NFN)],
                    [["N", ["tuple"], [self.tree(depth - 1, in_diff) for _ in range(w())]]]]
        c = r.randrange(len(self.table))
        pattern = self.table[c]
        layout, cs = [], []
        for ch in pattern:
            if ch in "sS":
                layout.append(STATIC_DEFAULT if (ch == "S" and r.random() < 0.5) else r.randint(STAT_LO, STAT_HI))
            else:
                layout.append(None)
                cs.append(self.tree(depth - 1, in_diff))
        return ["N", ["rec", c, layout], cs]


def tangent_tree_for(rng, p):
    """a tangent tree of exactly the shape Diff.tree_diff wants for the primal tree p"""
    if not is_node(p):
        return ["N", ["tan", rng.choice("NU")], []]
    return ["N", p[1], [tangent_tree_for(rng, c) for c in p[2]]]


def subterms(t, path=()):
    yield path, t
    if is_node(t):
        for i, c in enumerate(t[2]):
            yield from subterms(c, path + (i,))


def replace_at(t, path, new):
    if not path:
        return new
    cs = list(t[2])
    cs[path[0]] = replace_at(cs[path[0]], path[1:], new)
    return ["N", t[1], cs]


def damage(rng, t):
    """one structural change somewhere in t (for the malformed stream)"""
    subs = list(subterms(t))
    path, s = rng.choice(subs)
    x = rng.random()
    if is_node(s) and s[2] and x < 0.3:
        new = ["N", s[1], s[2][:-1]] if s[1][0] in ("tuple", "list") else ["N", ["tuple"], s[2]]
    elif is_node(s) and s[1][0] == "rec" and any(v is not None for v in s[1][2]) and x < 0.7:
        lay = list(s[1][2])
        i = [j for j, v in enumerate(lay) if v is not None][0]
        lay[i] = lay[i] + 1 if lay[i] < STAT_HI else lay[i] - 1
        new = ["N", ["rec", s[1][1], lay], s[2]]
    elif is_node(s) and s[1][0] == "dict" and s[1][1] and x < 0.7:
        keys = list(s[1][1])
        free = [k for k in range(7) if k not in keys]
        keys[-1] = free[-1]
        new = ["N", ["dict", sorted(keys)], s[2]] if sorted(keys) == keys else ["N", ["list"], s[2]]
    elif is_node(s, "tan"):
        new = rng.choice([["L", "py", 1], ["N", ["tuple"], [s]], ["N", ["none"], []]])
    elif is_node(s, "none"):
        new = ["N", ["tan", "N"], []]
    elif is_node(s, "tuple"):
        new = ["N", ["list"], s[2]]
    else:
        new = ["N", ["tuple"], [s, s]]
    return replace_at(t, path, new)
