(* C27: Rejuvenate.edit returns the Metropolis-Hastings log acceptance ratio, for every flat
   static model p, every flat static proposal q and every argument_mapping. *)
From Coq Require Import List Bool ZArith NArith QArith Lia Arith.
Import ListNotations.
From Model Require Import Key FlatQ Rejuv.
From Proofs Require Import FlatQProofs.
Open Scope Q_scope.

(* the weight, for whatever well-formed proposal trace pt was drawn from q(. ; amap(choices t)) *)
Lemma rejuvenate_from_weight p q amap pt t nt w bwd :
  wf_trace p t -> wf_trace q pt -> t_args pt = amap (choices t) ->
  rejuvenate_from p q amap pt t = Ok (nt, w, bwd) ->
  exists lpx lpx' lqf lqb,
    choices nt = override (choices t) (choices pt) /\
    bwd = discard (choices t) (choices pt) /\
    assess p (choices t) (t_args t) = Ok lpx /\
    assess p (choices nt) (t_args t) = Ok lpx' /\
    assess q (choices pt) (amap (choices t)) = Ok lqf /\
    assess q bwd (amap (choices nt)) = Ok lqb /\
    w == lpx' + lqb - lpx - lqf /\
    wf_trace p nt.
Proof.
  intros WF WFq Hargs R. unfold rejuvenate_from in R.
  destruct (update p t (choices pt)) as [[[nt' w0] bwd0]|] eqn:EU; simpl in R; [|discriminate].
  destruct (assess q bwd0 (amap (choices nt'))) as [bs|] eqn:EA; simpl in R; [|discriminate].
  inversion R; subst; clear R.
  destruct (assess_wf q pt WFq) as (lqf & Hqf & Hqf'). rewrite Hargs in Hqf.
  destruct (update_spec p t (choices pt) nt w0 bwd WF EU) as (WFn & Ha & Hw & Hc & Hb).
  destruct (assess_wf p t WF) as (lpx & Hpx & Hpx').
  destruct (assess_wf p nt WFn) as (lpx' & Hpn & Hpn'). rewrite Ha in Hpn.
  exists lpx, lpx', lqf, bs.
  do 6 (split; [assumption|]).
  split; [|exact WFn]. rewrite Hw, Hpx', Hpn', Hqf'. ring.
Qed.

Lemma rejuvenate_weight p q amap k t nt w bwd :
  wf_trace p t ->
  rejuvenate p q amap k t = Ok (nt, w, bwd) ->
  exists pt lpx lpx' lqf lqb,
    simulate q (fold_in k 1) (amap (choices t)) = Ok pt /\
    choices nt = override (choices t) (choices pt) /\
    bwd = discard (choices t) (choices pt) /\
    assess p (choices t) (t_args t) = Ok lpx /\
    assess p (choices nt) (t_args t) = Ok lpx' /\
    assess q (choices pt) (amap (choices t)) = Ok lqf /\
    assess q bwd (amap (choices nt)) = Ok lqb /\
    w == lpx' + lqb - lpx - lqf /\
    wf_trace p nt.
Proof.
  intros WF R. unfold rejuvenate in R.
  destruct (simulate q (fold_in k 1) (amap (choices t))) as [pt|] eqn:ES; simpl in R; [|discriminate].
  pose proof (simulate_wf _ _ _ _ ES) as [WFq Hargs].
  destruct (rejuvenate_from_weight p q amap pt t nt w bwd WF WFq Hargs R)
    as (lpx & lpx' & lqf & lqb & H).
  exists pt, lpx, lpx', lqf, lqb. split; [reflexivity|exact H].
Qed.

Lemma lookup_of_In {A} (l : list (nat * A)) a : In a (keys l) -> exists v, lookup l a = Some v.
Proof.
  induction l as [|[b v] l IH]; simpl; [tauto|]. intros [H|H].
  - subst. rewrite Nat.eqb_refl. eauto.
  - destruct (Nat.eqb a b); eauto.
Qed.

(* the new trace holds the proposed choices, the other choices are untouched *)
Lemma rejuvenate_choices p q amap k t nt w bwd :
  wf_trace p t ->
  rejuvenate p q amap k t = Ok (nt, w, bwd) ->
  exists pt, simulate q (fold_in k 1) (amap (choices t)) = Ok pt /\
    forall a, In a (addrs p) ->
      get (choices nt) a = match get (choices pt) a with
                           | Some v => Some v
                           | None => get (choices t) a
                           end.
Proof.
  intros WF R. destruct (rejuvenate_weight _ _ _ _ _ _ _ _ WF R) as (pt & ? & ? & ? & ? & HS & Hc & _).
  exists pt. split; auto. intros a Hin. rewrite Hc, get_override.
  destruct WF as [_ WF]. apply wf_keys in WF. unfold choices.
  assert (Hk : In a (keys (choices_of (t_subs t)))) by (rewrite keys_choices_of, WF; exact Hin).
  apply lookup_of_In in Hk as [v0 Hv]. unfold get. rewrite Hv.
  destruct (lookup (choices_of (t_subs pt)) a); reflexivity.
Qed.

(* the backward constraint holds the old values of exactly the proposed addresses *)
Lemma rejuvenate_discard p q amap k t nt w bwd :
  wf_trace p t ->
  rejuvenate p q amap k t = Ok (nt, w, bwd) ->
  exists pt, simulate q (fold_in k 1) (amap (choices t)) = Ok pt /\
    forall a, get bwd a = if is_some (get (choices pt) a) then get (choices t) a else None.
Proof.
  intros WF R. destruct (rejuvenate_weight _ _ _ _ _ _ _ _ WF R) as (pt & ? & ? & ? & ? & HS & _ & Hb & _).
  exists pt. split; auto. intros a. rewrite Hb. apply get_discard.
  destruct WF as [ND WF]. apply wf_keys in WF. unfold choices. rewrite keys_choices_of, WF.
  now apply nodupb_NoDup.
Qed.

(* ---- a concrete instance: non-vacuity, and why "arguments from the new trace" matters ---- *)
(* p: m ~ P0(), c ~ P1(m); lp0 = -1/2 v^2, lp1 = -1/2 (v - a)^2.
   q: proposes m with a state-dependent density  -1/4 (v - a)^2 * ... here -(1/4)(v-a)^2 - (1/4) a^2 v *)
Definition V (i : nat) := PVar i.
Definition C (n : Z) (d : positive) := PConst (Qmake n d).
Definition ex_p : list psite :=
  [ {| ps_addr := 0; ps_args := []; ps_lp := PMul (C (-1) 2) (PMul (V 0) (V 0)); ps_shift := 0 |};
    {| ps_addr := 1; ps_args := [V 0];
       ps_lp := PMul (C (-1) 2) (PMul (PAdd (V 0) (PMul (C (-1) 1) (V 1))) (PAdd (V 0) (PMul (C (-1) 1) (V 1))));
       ps_shift := 3 |} ].
Definition ex_q : list psite :=
  [ {| ps_addr := 0; ps_args := [V 0];
       ps_lp := PAdd (PMul (C (-1) 4) (PMul (PAdd (V 0) (PMul (C (-1) 1) (V 1))) (PAdd (V 0) (PMul (C (-1) 1) (V 1)))))
                     (PMul (C (-1) 4) (PMul (PMul (V 1) (V 1)) (V 0)));
       ps_shift := 5 |} ].
Definition ex_amap := amap_of ex_p [V 0].
Definition ex_k0 : key := (0, 3)%N.
Definition ex_k1 : key := (0, 11)%N.
Definition ex_t : strace :=
  match simulate (prog_of ex_p) ex_k0 [] with Ok t => t | Err _ => {| t_args := []; t_subs := [] |} end.
Lemma ex_t_sim : simulate (prog_of ex_p) ex_k0 [] = Ok ex_t.
Proof. vm_compute. reflexivity. Qed.
Lemma ex_t_wf : wf_trace (prog_of ex_p) ex_t.
Proof. apply (simulate_wf _ _ _ _ ex_t_sim). Qed.

Lemma rejuvenate_nonvacuous :
  wf_trace (prog_of ex_p) ex_t /\
  exists nt w bwd, rejuvenate (prog_of ex_p) (prog_of ex_q) ex_amap ex_k1 ex_t = Ok (nt, w, bwd)
                   /\ chm_eqb (choices nt) (choices ex_t) = false /\ bwd <> [].
Proof.
  split; [exact ex_t_wf|]. do 3 eexists. split; [vm_compute; reflexivity|].
  split; [vm_compute; reflexivity|discriminate].
Qed.

(* backward arguments computed from the discarded values (the defect repaired by 155c8d3, F07)
   give a different weight on this instance: by rejuvenate_weight the weight of `rejuvenate` is the
   MH ratio, so the variant's is not *)
Lemma rejuvenate_bwd_args_matter :
  exists p q amap k t nt w w' bwd,
    wf_trace p t /\
    rejuvenate p q amap k t = Ok (nt, w, bwd) /\
    rejuvenate_bwd_args_from_discard p q amap k t = Ok (nt, w', bwd) /\
    ~ w == w'.
Proof.
  exists (prog_of ex_p), (prog_of ex_q), ex_amap, ex_k1, ex_t. do 4 eexists.
  split; [exact ex_t_wf|]. split; [vm_compute; reflexivity|]. split; [vm_compute; reflexivity|].
  intros H. vm_compute in H. discriminate H.
Qed.

(* ---- Rejuvenate applied with NEW arguments (argdiffs that change the model's arguments) ---- *)
Lemma update_args_spec p t a c nt w bwd :
  wf_trace p t -> update_args p t a c = Ok (nt, w, bwd) ->
  wf_trace p nt /\ t_args nt = a /\ w == score nt - score t
  /\ choices nt = override (choices t) c /\ bwd = discard (choices t) c.
Proof.
  intros [ND H] U. unfold update_args in U. rewrite ND in U.
  destruct (upd_sites p (t_subs t) c a) as [[[ns w'] b']|] eqn:E; simpl in U; [|discriminate].
  inversion U; subst; clear U.
  destruct (upd_sites_spec p (t_subs t) [] c (t_args t) a ns w bwd H) as (W & Hw & Hc & Hb); auto.
  { simpl. now apply nodupb_NoDup. }
  unfold wf_trace, score, choices. simpl. repeat split; auto.
Qed.
Lemma update_args_same p t c : update_args p t (t_args t) c = update p t c.
Proof. reflexivity. Qed.

(* the weight is log p(x'; new arguments) + log q(x | x') - log p(x; old arguments) - log q(x' | x), and the new trace
   holds the new arguments *)
Lemma rejuvenate_args_weight p q amap k t a nt w bwd :
  wf_trace p t ->
  rejuvenate_args p q amap k t a = Ok (nt, w, bwd) ->
  exists pt lpx lpx' lqf lqb,
    simulate q (fold_in k 1) (amap (choices t)) = Ok pt /\
    choices nt = override (choices t) (choices pt) /\
    bwd = discard (choices t) (choices pt) /\
    t_args nt = a /\
    assess p (choices t) (t_args t) = Ok lpx /\
    assess p (choices nt) a = Ok lpx' /\
    assess q (choices pt) (amap (choices t)) = Ok lqf /\
    assess q bwd (amap (choices nt)) = Ok lqb /\
    w == lpx' + lqb - lpx - lqf /\
    wf_trace p nt.
Proof.
  intros WF R. unfold rejuvenate_args in R.
  destruct (simulate q (fold_in k 1) (amap (choices t))) as [pt|] eqn:ES; simpl in R; [|discriminate].
  pose proof (simulate_wf _ _ _ _ ES) as [WFq Hargs].
  destruct (update_args p t a (choices pt)) as [[[nt' w0] bwd0]|] eqn:EU; simpl in R; [|discriminate].
  destruct (assess q bwd0 (amap (choices nt'))) as [bs|] eqn:EA; simpl in R; [|discriminate].
  inversion R; subst; clear R.
  destruct (assess_wf q pt WFq) as (lqf & Hqf & Hqf'). rewrite Hargs in Hqf.
  destruct (update_args_spec p t a (choices pt) nt w0 bwd WF EU) as (WFn & Ha & Hw & Hc & Hb).
  destruct (assess_wf p t WF) as (lpx & Hpx & Hpx').
  destruct (assess_wf p nt WFn) as (lpx' & Hpn & Hpn'). rewrite Ha in Hpn.
  exists pt, lpx, lpx', lqf, bs.
  split; [reflexivity|]. do 7 (split; [assumption|]).
  split; [|exact WFn]. rewrite Hw, Hpx', Hpn', Hqf'. ring.
Qed.
Lemma rejuvenate_args_same p q amap k t : rejuvenate_args p q amap k t (t_args t) = rejuvenate p q amap k t.
Proof.
  unfold rejuvenate_args, rejuvenate, rejuvenate_from.
  destruct (simulate q (fold_in k 1) (amap (choices t))) as [pt|]; simpl; [|reflexivity].
  rewrite update_args_same. destruct (update p t (choices pt)) as [[[nt w] b]|]; simpl; reflexivity.
Qed.

(* a model with one argument: the edit changes it, the new trace holds the new argument and the weight differs from the
   weight under the old argument *)
Definition ex_pa : list psite :=
  [ {| ps_addr := 0; ps_args := [V 0]; ps_lp := PMul (C (-1) 2) (PMul (PAdd (V 0) (PMul (C (-1) 1) (V 1))) (PAdd (V 0) (PMul (C (-1) 1) (V 1)))); ps_shift := 0 |};
    {| ps_addr := 1; ps_args := [V 1];
       ps_lp := PMul (C (-1) 2) (PMul (PAdd (V 0) (PMul (C (-1) 1) (V 1))) (PAdd (V 0) (PMul (C (-1) 1) (V 1))));
       ps_shift := 3 |} ].
Definition ex_ta : strace :=
  match simulate (prog_of ex_pa) ex_k0 [1#2] with Ok t => t | Err _ => {| t_args := []; t_subs := [] |} end.
Lemma ex_ta_wf : wf_trace (prog_of ex_pa) ex_ta.
Proof. apply (simulate_wf (prog_of ex_pa) ex_k0 [1#2] ex_ta). vm_compute. reflexivity. Qed.
Lemma rejuvenate_args_nonvacuous :
  wf_trace (prog_of ex_pa) ex_ta /\
  exists nt w w0 bwd bwd0 nt0,
    rejuvenate_args (prog_of ex_pa) (prog_of ex_q) (amap_of ex_pa [V 1]) ex_k1 ex_ta [3#2] = Ok (nt, w, bwd) /\
    rejuvenate (prog_of ex_pa) (prog_of ex_q) (amap_of ex_pa [V 1]) ex_k1 ex_ta = Ok (nt0, w0, bwd0) /\
    t_args nt = [3#2] /\ ~ w == w0.
Proof.
  split; [exact ex_ta_wf|]. do 6 eexists. split; [vm_compute; reflexivity|]. split; [vm_compute; reflexivity|].
  split; [reflexivity|]. intros H. vm_compute in H. discriminate H.
Qed.
