"""C34 — engine B-gfi (harness/bgfi.py); theorems in coq/props/C34.v."""
from . import bgfi


def run(ctx):
    bgfi.run_property(ctx, "C34", oracles=bgfi.PROP_ORACLES.get("C34"))


def replay(case):
    return bgfi.replay(case)
