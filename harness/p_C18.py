"""C18 — selections form a Boolean algebra over static addresses.
Tie: translator (gen/SelGen.v regenerated from choice_map.py) + engine A-sel."""
import itertools
from . import core
from .core import clist, cnat, cbool

NAMES = ["a", "b", "c", "d"]
ID = {n: i + 1 for i, n in enumerate(NAMES)}


# ---- term generation --------------------------------------------------------
def gen_q(rng, allow_ellipsis=True, maxlen=3, minlen=0):
    n = rng.randint(minlen, maxlen)
    return [("..." if allow_ellipsis and rng.random() < 0.2 else rng.choice(NAMES[:3])) for _ in range(n)]


def gen_term(rng, depth):
    if depth == 0 or rng.random() < 0.25:
        k = rng.random()
        if k < 0.15: return ("all",)
        if k < 0.3: return ("none",)
        if k < 0.45: return ("leaf",)
        return ("at", gen_q(rng))
    k = rng.random()
    if k < 0.25: return ("or", gen_term(rng, depth - 1), gen_term(rng, depth - 1))
    if k < 0.5: return ("and", gen_term(rng, depth - 1), gen_term(rng, depth - 1))
    if k < 0.7: return ("not", gen_term(rng, depth - 1))
    if k < 0.85: return ("sub", gen_term(rng, depth - 1), [rng.choice(NAMES) for _ in range(rng.randint(0, 2))])
    return ("ext", gen_term(rng, depth - 1), gen_q(rng, maxlen=2))


def all_terms(depth, qs):
    base = [("all",), ("none",), ("leaf",)] + [("at", q) for q in qs]
    if depth == 0:
        return base
    sub = all_terms(depth - 1, qs)
    out = list(base)
    for a in sub:
        out.append(("not", a))
        out.append(("sub", a, ["a"]))
        out.append(("ext", a, ["a"]))
        out.append(("ext", a, ["..."]))
    for a, b in itertools.product(sub, sub):
        out.append(("or", a, b))
        out.append(("and", a, b))
    return out


# ---- implementation ----------------------------------------------------------
def realise(t):
    from genjax import Selection as S
    k = t[0]
    if k == "all": return S.all()
    if k == "none": return S.none()
    if k == "leaf": return S.leaf()
    if k == "at":
        q = tuple(Ellipsis if c == "..." else c for c in t[1])
        return S.at[q]
    if k == "or": return realise(t[1]) | realise(t[2])
    if k == "and": return realise(t[1]) & realise(t[2])
    if k == "not": return ~realise(t[1])
    if k == "sub": return realise(t[1])(tuple(t[2]))
    if k == "ext": return realise(t[1]).extend(*[Ellipsis if c == "..." else c for c in t[2]])
    raise ValueError(t)


def impl_mem(t, p):
    s = realise(t)
    r = s[tuple(p)]
    assert isinstance(r, bool), type(r)
    return r


# ---- direct oracle: the Boolean combination, no model, no selection objects ----
def under(q, k, p):
    if not q:
        return k(p)
    if not p:
        return False
    return (q[0] == "..." or q[0] == p[0]) and under(q[1:], k, p[1:])


def spec(t, p):
    k = t[0]
    if k == "all": return True
    if k == "none": return False
    if k == "leaf": return len(p) == 0
    if k == "at": return (len(p) == 0) if not t[1] else under(t[1], lambda _: True, p)
    if k == "or": return spec(t[1], p) or spec(t[2], p)
    if k == "and": return spec(t[1], p) and spec(t[2], p)
    if k == "not": return not spec(t[1], p)
    if k == "sub": return spec(t[1], list(t[2]) + list(p))
    if k == "ext": return under(t[2], lambda r: spec(t[1], r), p)


# ---- Coq literals -----------------------------------------------------------
def c_ecomp(c):
    return "CEllipsis" if c == "..." else f"(CName {ID[c]})"


def c_term(t):
    k = t[0]
    if k == "all": return "TAll"
    if k == "none": return "TNone"
    if k == "leaf": return "TLeaf"
    if k == "at": return f"(TAt {clist([c_ecomp(c) for c in t[1]])})"
    if k == "or": return f"(TOr {c_term(t[1])} {c_term(t[2])})"
    if k == "and": return f"(TAnd {c_term(t[1])} {c_term(t[2])})"
    if k == "not": return f"(TNot {c_term(t[1])})"
    if k == "sub": return f"(TSub {c_term(t[1])} {clist([str(ID[c]) for c in t[2]])})"
    if k == "ext": return f"(TExt {c_term(t[1])} {clist([c_ecomp(c) for c in t[2]])})"


def c_case(t, p, want):
    return f"({c_term(t)}, {clist([str(ID[c]) for c in p])}, {cbool(want)})"


def size(t):
    return 1 + sum(size(x) for x in t[1:] if isinstance(x, tuple))


def run(ctx):
    ctx.proofs()
    if not ctx.regen_ok:
        ctx.fail("tie", "translator refused choice_map.py (selection classes or pinned glue changed): " + ctx.regen_log[-600:])
    rng = ctx.rng
    cases = []
    if ctx.quick:
        for _ in range(3000):
            t = gen_term(rng, rng.randint(1, 4))
            p = [rng.choice(NAMES) for _ in range(rng.randint(0, 4))]
            cases.append((t, p))
        exhaustive = False
    else:
        qs = [[], ["a"], ["b"], ["..."], ["a", "b"], ["...", "b"], ["a", "..."]]
        terms = all_terms(1, qs)
        addrs = [list(p) for n in range(0, 4) for p in itertools.product(["a", "b", "c"], repeat=n)]
        cases = [(t, p) for t in terms for p in addrs]
        for _ in range(20000):
            t = gen_term(rng, rng.randint(2, 5))
            p = [rng.choice(NAMES) for _ in range(rng.randint(0, 5))]
            cases.append((t, p))
        exhaustive = True
    outs, oracle_bad = [], []
    for (t, p) in cases:
        try:
            got = impl_mem(t, p)
        except Exception as e:  # the selection algebra never raises on these inputs
            got = None
            oracle_bad.append((t, p, f"raises {type(e).__name__}: {e}"))
            outs.append(None)
            continue
        outs.append(got)
        want = spec(t, p)
        if got != want:
            oracle_bad.append((t, p, f"S[{p}] = {got}, Boolean combination of operand memberships = {want}"))
    for (t, p, why) in oracle_bad[:3]:
        ctx.fail("oracle", f"selection term {t} at address {p}: {why}", case={"term": t, "addr": p})
    # correspondence, evaluated inside Coq against the generated definitions
    keep = [(t, p, o) for (t, p), o in zip(cases, outs) if o is not None]
    if ctx.build_ok or (core.COQ / "model" / "Sel.vo").exists():
        terms = [c_case(t, p, o) for (t, p, o) in keep]
        mism, errs = core.coq_mismatches("C18", "From Coq Require Import List Bool Arith.\nFrom Gen Require Import SelGen.\nFrom Model Require Import Sel.", terms, "sel_case", shard=1000)
        for e in errs[:2]:
            ctx.fail("correspondence", "A-sel case file did not evaluate: " + e)
        for i in mism[:3]:
            t, p, o = keep[i]
            if not any(b[0] == t and b[1] == p for b in oracle_bad):
                ctx.fail("correspondence", f"generated model and implementation disagree on {t} at {p}: implementation says {o}",
                         case={"term": t, "addr": p})
        ctx.cov["traces_validated_against_impl"] = len(keep) - len(mism)
    else:
        ctx.fail("correspondence", "model does not build, A-sel not evaluated")
    distinct = {(repr(t), tuple(p)) for (t, p) in cases if size(t) >= 2 and 0 < sum(outs[i] is True for i in [0]) + 1}
    ctx.cov["evaluations"] = len(cases)
    nontriv = {(repr(t), tuple(p)) for (t, p) in cases if size(t) >= 3}
    ctx.cov["distinct_nontrivial"] = len(nontriv)
    ctx.cov["rule"] = ("random selection terms (depth<=4, names a,b,c + `...`) x addresses (len<=4); thorough adds all terms of depth<=1 over 7 at-paths "
                      "x all addresses of length<=3 over {a,b,c}; non-trivial = term with >= 3 constructors; distinct by (term,address)")
    ctx.cov["exhaustive"] = exhaustive
    ctx.cov["answers_true"] = sum(1 for o in outs if o is True)
    ctx.cov["answers_false"] = sum(1 for o in outs if o is False)
    ctx.add_samples([{"term": t, "addr": p, "impl": o} for (t, p, o) in keep[:3]])


def replay(case):
    t = tuple_ify(case["term"])
    p = case["addr"]
    got = impl_mem(t, p)
    want = spec(t, p)
    print(f"term={t} addr={p}: implementation {got}, Boolean combination {want}")
    return got == want


def tuple_ify(x):
    if isinstance(x, list) and x and isinstance(x[0], str) and x[0] in ("all", "none", "leaf", "at", "or", "and", "not", "sub", "ext"):
        head = x[0]
        if head in ("at",):
            return (head, list(x[1]))
        if head in ("sub", "ext"):
            return (head, tuple_ify(x[1]), list(x[2]))
        return tuple([head] + [tuple_ify(y) for y in x[1:]])
    return x
