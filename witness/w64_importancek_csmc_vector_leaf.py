"""known-finding witness: ImportanceK.run_csmc stacks the retained particle under the
others with stack_to_first_dim, which reshapes every leaf of rank <= 1 to a column:
a trace that holds any non-scalar leaf (here the logits argument of a categorical
site) cannot be stacked and run_csmc raises (C26).  exit 1 if present."""
import sys, jax, jax.numpy as jnp
from genjax import gen, categorical, flip, ChoiceMapBuilder as C
from genjax.inference import Target
from genjax.inference.smc import ImportanceK

@gen
def model():
    x = categorical(jnp.log(jnp.array([0.5, 0.25, 0.25]))) @ "x"
    y = flip(jnp.array([0.25, 0.5, 0.75])[x]) @ "y"
    return y

tgt = Target(model, (), C["y"].set(True))
try:
    pc = ImportanceK(tgt, None, 3).run_csmc(jax.random.key(0), C["x"].set(1))
    print("OK", pc.get_log_weights())
    sys.exit(0)
except TypeError as e:
    print("FAIL: ImportanceK.run_csmc raised", str(e).splitlines()[0][:160])
    sys.exit(1)
