(* C21: Diff utilities and Pytree flatten/unflatten are structure-preserving round trips.
   Lemmas about coq/model/DiffTree.v, for all trees (structural induction on rose trees). *)
From Coq Require Import List Bool ZArith Lia Arith.
Import ListNotations.
From Model Require Import DiffTree.
Open Scope Z_scope.

(* ------------------------------------------------------------------------ *)
(* induction principles for the nested types                                  *)
(* ------------------------------------------------------------------------ *)
Section TreeInd.
  Variable P : tree -> Prop.
  Hypothesis HL : forall l, P (Leaf l).
  Hypothesis HN : forall k cs, Forall P cs -> P (Node k cs).
  Fixpoint tree_ind' (t : tree) : P t :=
    match t with
    | Leaf l => HL l
    | Node k cs =>
        HN k cs ((fix go (cs : list tree) : Forall P cs :=
                    match cs with
                    | [] => Forall_nil P
                    | c :: r => Forall_cons c (tree_ind' c) (go r)
                    end) cs)
    end.
End TreeInd.
Section DefInd.
  Variable P : def -> Prop.
  Hypothesis HL : P DLeaf.
  Hypothesis HN : forall k ds, Forall P ds -> P (DNode k ds).
  Fixpoint def_ind' (d : def) : P d :=
    match d with
    | DLeaf => HL
    | DNode k ds =>
        HN k ds ((fix go (ds : list def) : Forall P ds :=
                    match ds with
                    | [] => Forall_nil P
                    | c :: r => Forall_cons c (def_ind' c) (go r)
                    end) ds)
    end.
End DefInd.

(* ------------------------------------------------------------------------ *)
(* the boolean equalities decide equality                                     *)
(* ------------------------------------------------------------------------ *)
Lemma list_eqb_eq {A} (eq : A -> A -> bool) :
  (forall x y, eq x y = true -> x = y) -> forall a b, list_eqb eq a b = true -> a = b.
Proof.
  intros H a; induction a as [|x a IH]; intros [|y b] E; simpl in E; try discriminate; auto.
  apply andb_prop in E as [E1 E2]. f_equal; auto.
Qed.
Lemma list_eqb_refl {A} (eq : A -> A -> bool) : (forall x, eq x x = true) -> forall a, list_eqb eq a a = true.
Proof. intros H a; induction a; simpl; auto. rewrite H, IHa. reflexivity. Qed.
Lemma stage_eqb_eq a b : stage_eqb a b = true -> a = b.
Proof. destruct a, b; simpl; intros; congruence. Qed.
Lemma leaf_eqb_eq a b : leaf_eqb a b = true -> a = b.
Proof.
  destruct a, b; simpl; intros E; try discriminate.
  - apply andb_prop in E as [E1 E2]. apply stage_eqb_eq in E1. apply Z.eqb_eq in E2. congruence.
  - apply andb_prop in E as [E1 E2]. apply stage_eqb_eq in E1.
    apply (list_eqb_eq Z.eqb) in E2; [congruence|]. intros x y; apply Z.eqb_eq.
  - apply Z.eqb_eq in E. congruence.
Qed.
Lemma leaf_eqb_refl a : leaf_eqb a a = true.
Proof.
  destruct a as [s z|s l|k]; simpl.
  - destruct s; simpl; apply Z.eqb_refl.
  - assert (list_eqb Z.eqb l l = true) by (apply list_eqb_refl, Z.eqb_refl). destruct s; simpl; auto.
  - apply Z.eqb_refl.
Qed.
Lemma opt_eqb_eq {A} (eq : A -> A -> bool) :
  (forall x y, eq x y = true -> x = y) -> forall a b, opt_eqb eq a b = true -> a = b.
Proof. intros H [x|] [y|] E; simpl in E; try discriminate; auto. f_equal; auto. Qed.
Lemma kind_eqb_eq a b : kind_eqb a b = true -> a = b.
Proof.
  destruct a, b; simpl; intros E; try discriminate; auto.
  - apply (list_eqb_eq Z.eqb) in E; [congruence|]. intros x y; apply Z.eqb_eq.
  - apply andb_prop in E as [E1 E2]. apply Nat.eqb_eq in E1.
    apply (list_eqb_eq (opt_eqb Z.eqb)) in E2; [congruence|].
    apply opt_eqb_eq. intros x y; apply Z.eqb_eq.
  - destruct t, t0; simpl in E; congruence.
  - apply leaf_eqb_eq in E. congruence.
  - apply Z.eqb_eq in E. congruence.
Qed.
Lemma kind_eqb_refl a : kind_eqb a a = true.
Proof.
  destruct a; simpl; auto.
  - apply list_eqb_refl, Z.eqb_refl.
  - rewrite Nat.eqb_refl. apply list_eqb_refl. intros [x|]; simpl; auto. apply Z.eqb_refl.
  - destruct t; reflexivity.
  - apply leaf_eqb_refl.
  - apply Z.eqb_refl.
Qed.
Lemma def_eqb_refl d : def_eqb d d = true.
Proof.
  induction d as [|k ds IH] using def_ind'; simpl; auto.
  rewrite kind_eqb_refl. simpl. induction IH; simpl; auto. rewrite H, IHIH. reflexivity.
Qed.

(* ------------------------------------------------------------------------ *)
(* list helpers                                                               *)
(* ------------------------------------------------------------------------ *)
Lemma forallb_flat_map {A B} (p : B -> bool) (f : A -> list B) l :
  forallb p (flat_map f l) = forallb (fun a => forallb p (f a)) l.
Proof. induction l; simpl; auto. rewrite forallb_app, IHl. reflexivity. Qed.
Lemma map_ext_Forall {A B} (f g : A -> B) l : Forall (fun a => f a = g a) l -> map f l = map g l.
Proof. induction 1; simpl; congruence. Qed.
Lemma flat_map_ext_Forall {A B} (f g : A -> list B) l :
  Forall (fun a => f a = g a) l -> flat_map f l = flat_map g l.
Proof. induction 1; simpl; congruence. Qed.
Lemma forallb_ext_Forall {A} (f g : A -> bool) l : Forall (fun a => f a = g a) l -> forallb f l = forallb g l.
Proof. induction 1; simpl; congruence. Qed.
Lemma Forall_forallb {A} (p : A -> bool) l : forallb p l = true -> Forall (fun a => p a = true) l.
Proof. induction l; simpl; intros H; constructor; apply andb_prop in H as [H1 H2]; auto. Qed.
Lemma Forall_impl2 {A} (P Q R : A -> Prop) l :
  Forall P l -> Forall Q l -> (forall a, P a -> Q a -> R a) -> Forall R l.
Proof. induction 1; intros HQ H'; inversion HQ; subst; constructor; auto. Qed.

(* ------------------------------------------------------------------------ *)
(* regions                                                                    *)
(* ------------------------------------------------------------------------ *)
(* a tree of plain values: no Diff and no tangent object anywhere *)
Fixpoint plain (t : tree) : bool :=
  match t with
  | Leaf _ => true
  | Node KDiff _ | Node (KTan _) _ => false
  | Node _ cs => forallb plain cs
  end.
(* every Diff is Diff(primal, <tangent object>) *)
Fixpoint wfd (t : tree) : bool :=
  match t with
  | Leaf _ => true
  | Node k cs =>
      forallb wfd cs &&
      match k, cs with
      | KDiff, [_; Node (KTan _) _] => true
      | KDiff, _ => false
      | _, _ => true
      end
  end.
(* the documented contract of Diff ("only as leaves of an outer pytree, no nested Diff"):
   every Diff wraps a plain value, tangent objects occur only inside Diffs *)
Fixpoint argdiff (t : tree) : bool :=
  match t with
  | Leaf _ => true
  | Node KDiff cs => match cs with [p; Node (KTan _) []] => plain p | _ => false end
  | Node (KTan _) _ => false
  | Node _ cs => forallb argdiff cs
  end.
(* no Const anywhere *)
Fixpoint const_free (t : tree) : bool :=
  match t with
  | Leaf _ => true
  | Node (KConst _) _ => false
  | Node _ cs => forallb const_free cs
  end.

(* what Diff.no_change / unknown_change build: every leaf wrapped *)
Fixpoint wrap_leaves (tg : tan) (p : tree) : tree :=
  match p with
  | Leaf l => Node KDiff [Leaf l; TanT tg]
  | Node k cs => Node k (map (wrap_leaves tg) cs)
  end.
(* the change tags a tree carries, left to right: those of its (outermost) Diffs and of
   bare tangent objects; a leaf that is not a Diff carries none *)
Fixpoint tangents (t : tree) : list tan :=
  match t with
  | Leaf _ => []
  | Node (KTan tg) _ => [tg]
  | Node KDiff cs => match cs with [_; Node (KTan tg) _] => [tg] | _ => [] end
  | Node _ cs => flat_map tangents cs
  end.
(* leaves that are not inside a Diff *)
Fixpoint raw_leaves (t : tree) : list leaf :=
  match t with
  | Leaf l => [l]
  | Node KDiff _ => []
  | Node _ cs => flat_map raw_leaves cs
  end.
Definition tan_is_nochange (g : tan) : bool := match g with NoChange => true | UnknownChange => false end.

Lemma plain_argdiff t : plain t = true -> argdiff t = true.
Proof.
  induction t as [l|k cs IH] using tree_ind'; simpl; auto.
  destruct k; try discriminate; intros H;
    (apply Forall_forallb in H; rewrite forallb_forall; rewrite Forall_forall in *; auto).
Qed.
Lemma plain_wfd t : plain t = true -> wfd t = true.
Proof.
  induction t as [l|k cs IH] using tree_ind'; simpl; auto.
  destruct k; try discriminate; intros H; rewrite andb_true_r;
    (apply Forall_forallb in H; rewrite forallb_forall; rewrite Forall_forall in *; auto).
Qed.
Lemma argdiff_diff_inv cs : argdiff (Node KDiff cs) = true ->
  exists p tg, cs = [p; Node (KTan tg) []] /\ plain p = true.
Proof.
  simpl. destruct cs as [|p cs]; [discriminate|]. destruct cs as [|q cs]; [discriminate|].
  destruct cs; [|destruct q as [?|[] ?]; try discriminate; destruct cs0; discriminate].
  destruct q as [l|k ts]; [discriminate|]. destruct k; try discriminate.
  destruct ts; [|discriminate]. intros H. eauto.
Qed.
Lemma wfd_diff_inv cs : wfd (Node KDiff cs) = true ->
  exists p tg ts, cs = [p; Node (KTan tg) ts].
Proof.
  simpl. intros H. apply andb_prop in H as [_ H].
  destruct cs as [|p cs]; [discriminate|]. destruct cs as [|q cs]; [discriminate|].
  destruct cs; [|destruct q as [?|[] ?]; discriminate].
  destruct q as [l|k ts]; [discriminate|]. destruct k; try discriminate. eauto.
Qed.
Lemma argdiff_wfd t : argdiff t = true -> wfd t = true.
Proof.
  induction t as [l|k cs IH] using tree_ind'; auto.
  destruct k; try discriminate; intros H;
    try (simpl in *; rewrite andb_true_r; apply Forall_forallb in H; rewrite forallb_forall; rewrite Forall_forall in *; auto; fail).
  destruct (argdiff_diff_inv cs H) as [p [tg [-> Hp]]]. simpl. rewrite (plain_wfd p Hp). reflexivity.
Qed.

(* ------------------------------------------------------------------------ *)
(* tree_primal / tree_tangent on the node forms                               *)
(* ------------------------------------------------------------------------ *)
Definition not_diff (k : kind) : Prop := k <> KDiff.
Lemma tree_primal_node k cs : k <> KDiff -> tree_primal (Node k cs) = Node k (map tree_primal cs).
Proof. intros H. unfold tree_primal. destruct k; try congruence; reflexivity. Qed.
Lemma tree_tangent_node k cs : k <> KDiff -> tree_tangent (Node k cs) = Node k (map tree_tangent cs).
Proof. intros H. unfold tree_tangent. destruct k; try congruence; reflexivity. Qed.
Lemma tree_primal_leaf l : tree_primal (Leaf l) = Leaf l.
Proof. reflexivity. Qed.
Lemma tree_primal_diff p tg : tree_primal (Node KDiff [p; tg]) = p.
Proof. reflexivity. Qed.
Lemma tree_tangent_diff p tg : tree_tangent (Node KDiff [p; tg]) = tg.
Proof. reflexivity. Qed.

Lemma plain_kind k cs : plain (Node k cs) = true ->
  k <> KDiff /\ (forall g, k <> KTan g) /\ forallb plain cs = true.
Proof. destruct k; simpl; intros H; try discriminate; repeat split; auto; discriminate. Qed.

(* ------------------------------------------------------------------------ *)
(* tree_diff                                                                  *)
(* ------------------------------------------------------------------------ *)
Lemma map2o_Forall {A B C} (f : A -> B -> option C) (Q : A -> C -> Prop) l1 :
  Forall (fun a => forall b c, f a b = Some c -> Q a c) l1 ->
  forall l2 out, map2o f l1 l2 = Some out -> Forall2 Q l1 out.
Proof.
  induction 1 as [|a l1 Ha _ IH]; intros [|b l2] out E; simpl in E; try discriminate.
  - inversion E; constructor.
  - destruct (f a b) eqn:E1; [|discriminate]. destruct (map2o f l1 l2) eqn:E2; [|discriminate].
    inversion E; subst. constructor; eauto.
Qed.
Lemma map2o_Forall_r {A B C} (f : A -> B -> option C) (Q : B -> C -> Prop) l1 :
  Forall (fun a => forall b c, f a b = Some c -> Q b c) l1 ->
  forall l2 out, map2o f l1 l2 = Some out -> Forall2 Q l2 out.
Proof.
  induction 1 as [|a l1 Ha _ IH]; intros [|b l2] out E; simpl in E; try discriminate.
  - inversion E; constructor.
  - destruct (f a b) eqn:E1; [|discriminate]. destruct (map2o f l1 l2) eqn:E2; [|discriminate].
    inversion E; subst. constructor; eauto.
Qed.
Lemma Forall2_map_eq {A B} (f : B -> A) l out : Forall2 (fun a c => f c = a) l out -> map f out = l.
Proof. induction 1; simpl; congruence. Qed.
Lemma Forall2_forallb {A B} (p : B -> bool) (l : list A) out :
  Forall2 (fun _ c => p c = true) l out -> forallb p out = true.
Proof. induction 1; simpl; auto. rewrite H, IHForall2. reflexivity. Qed.

(* tree_primal(tree_diff(v, t)) = v and tree_tangent(tree_diff(v, t)) = t, and the result
   meets Diff's contract, whenever tree_diff succeeds on a plain primal tree *)
Lemma tree_diff_roundtrip t : plain t = true -> forall tn r, tree_diff t tn = Some r ->
  tree_primal r = t /\ tree_tangent r = tn /\ static_check_tree_diff r = true.
Proof.
  unfold tree_diff.
  induction t as [l|k cs IH] using tree_ind'; intros Hp tn r E.
  - simpl in E. unfold mkDiff in E. destruct (is_change_tangent tn) eqn:Ht; [|discriminate].
    inversion E; subst. repeat split; reflexivity.
  - apply plain_kind in Hp as [Hk [Hkt Hcs]]. simpl in E.
    destruct tn as [l'|k' rs]; [discriminate|].
    destruct (kind_eqb k k') eqn:Ek; [|discriminate]. apply kind_eqb_eq in Ek; subst k'.
    destruct (map2o (tmap2 mkDiff) cs rs) as [out|] eqn:Em; [|discriminate].
    inversion E; subst r; clear E.
    apply Forall_forallb in Hcs.
    assert (H := Forall_impl2 _ _ (fun a => forall b c, tmap2 mkDiff a b = Some c ->
               tree_primal c = a /\ tree_tangent c = b /\ static_check_tree_diff c = true) cs IH Hcs
               (fun a Ha Hpa => Ha Hpa)).
    rewrite tree_primal_node, tree_tangent_node by assumption.
    repeat split.
    + f_equal. apply Forall2_map_eq.
      eapply map2o_Forall; [|exact Em]. eapply Forall_impl; [|exact H]. intros a Ha b c Hc. apply (Ha b c Hc).
    + f_equal. apply Forall2_map_eq.
      eapply map2o_Forall_r; [|exact Em]. eapply Forall_impl; [|exact H]. intros a Ha b c Hc. apply (Ha b c Hc).
    + unfold static_check_tree_diff.
      assert (tleaves is_diff (Node k out) = flat_map (tleaves is_diff) out) as ->
          by (destruct k; try congruence; reflexivity).
      rewrite forallb_flat_map.
      eapply (Forall2_forallb (fun c => forallb is_diff (tleaves is_diff c)) cs).
      eapply map2o_Forall; [|exact Em]. eapply Forall_impl; [|exact H]. intros a Ha b c Hc. apply (Ha b c Hc).
Qed.

(* the shape condition the code needs: success forces tn to mirror t node for node *)
Lemma tree_diff_shape t : plain t = true -> forall tn r, tree_diff t tn = Some r ->
  structure (tree_primal r) = structure t.
Proof. intros Hp tn r E. destruct (tree_diff_roundtrip t Hp tn r E) as [H _]. now rewrite H. Qed.

(* ------------------------------------------------------------------------ *)
(* no_change / unknown_change                                                 *)
(* ------------------------------------------------------------------------ *)
Lemma map2o_map {A B C} (f : A -> B -> option C) (g : A -> B) (h : A -> C) l :
  Forall (fun a => f a (g a) = Some (h a)) l -> map2o f l (map g l) = Some (map h l).
Proof. induction 1; simpl; auto. rewrite H, IHForall. reflexivity. Qed.

Lemma tree_diff_const tg p :
  tree_diff p (tmap no_is_leaf (fun _ => TanT tg) p) = Some (wrap_leaves tg p).
Proof.
  unfold tree_diff. induction p as [l|k cs IH] using tree_ind'; simpl; auto.
  rewrite kind_eqb_refl. rewrite (map2o_map _ _ (wrap_leaves tg) cs IH). reflexivity.
Qed.
(* never raises, and is a function of the primal tree only *)
Lemma change_eq tg t : change tg t = Some (wrap_leaves tg (tree_primal t)).
Proof. unfold change. apply tree_diff_const. Qed.

Lemma tree_primal_wrap tg p : plain p = true -> tree_primal (wrap_leaves tg p) = p.
Proof.
  induction p as [l|k cs IH] using tree_ind'; intros Hp; simpl; auto.
  apply plain_kind in Hp as [Hk [Hkt Hcs]]. rewrite tree_primal_node by assumption. f_equal.
  rewrite map_map. rewrite <- (map_id cs) at 2. apply map_ext_Forall.
  apply Forall_forallb in Hcs. eapply Forall_impl2; [exact IH|exact Hcs|]. auto.
Qed.
Lemma tree_tangent_wrap tg p : plain p = true ->
  tree_tangent (wrap_leaves tg p) = tmap no_is_leaf (fun _ => TanT tg) p.
Proof.
  induction p as [l|k cs IH] using tree_ind'; intros Hp; simpl; auto.
  apply plain_kind in Hp as [Hk [Hkt Hcs]]. rewrite tree_tangent_node by assumption. f_equal.
  rewrite map_map. apply map_ext_Forall.
  apply Forall_forallb in Hcs. eapply Forall_impl2; [exact IH|exact Hcs|]. auto.
Qed.
Lemma argdiff_wrap tg p : plain p = true -> argdiff (wrap_leaves tg p) = true.
Proof.
  induction p as [l|k cs IH] using tree_ind'; intros Hp; simpl; auto.
  apply plain_kind in Hp as [Hk [Hkt Hcs]].
  apply Forall_forallb in Hcs.
  assert (forallb argdiff (map (wrap_leaves tg) cs) = true).
  { rewrite forallb_forall. intros x Hx. apply in_map_iff in Hx as [y [<- Hy]].
    rewrite Forall_forall in IH, Hcs. auto. }
  destruct k; simpl in *; try congruence.
Qed.

Lemma tree_primal_plain t : argdiff t = true -> plain (tree_primal t) = true.
Proof.
  induction t as [l|k cs IH] using tree_ind'; intros H; auto.
  destruct k; simpl in H; try discriminate;
    try (rewrite tree_primal_node by discriminate; simpl; rewrite forallb_forall; intros x Hx;
         apply in_map_iff in Hx as [y [<- Hy]]; apply Forall_forallb in H; rewrite Forall_forall in *; auto; fail).
  destruct (argdiff_diff_inv cs H) as [p [tg [-> Hp]]].
  rewrite tree_primal_diff. exact Hp.
Qed.

Lemma change_total tg t : exists r, change tg t = Some r.
Proof. eexists. apply change_eq. Qed.
Lemma primal_of_change tg t r : argdiff t = true -> change tg t = Some r -> tree_primal r = tree_primal t.
Proof. intros H E. rewrite change_eq in E. inversion E. apply tree_primal_wrap, tree_primal_plain, H. Qed.
Lemma change_argdiff tg t r : argdiff t = true -> change tg t = Some r -> argdiff r = true.
Proof. intros H E. rewrite change_eq in E. inversion E. apply argdiff_wrap, tree_primal_plain, H. Qed.
(* retagging forgets the previous tags: idempotence and absorption *)
Lemma change_change tg tg' t r : argdiff t = true -> change tg t = Some r -> change tg' r = change tg' t.
Proof. intros H E. rewrite !change_eq. now rewrite (primal_of_change tg t r H E). Qed.
Lemma change_idem tg t r : argdiff t = true -> change tg t = Some r -> change tg r = Some r.
Proof. intros H E. rewrite (change_change tg tg t r H E). exact E. Qed.
Lemma change_shape tg t r : argdiff t = true -> change tg t = Some r ->
  structure (tree_primal r) = structure (tree_primal t).
Proof. intros H E. now rewrite (primal_of_change tg t r H E). Qed.

(* ------------------------------------------------------------------------ *)
(* the static checks                                                          *)
(* ------------------------------------------------------------------------ *)
Lemma static_check_no_change_spec t : wfd t = true ->
  static_check_no_change t = forallb tan_is_nochange (tangents t).
Proof.
  unfold static_check_no_change.
  induction t as [l|k cs IH] using tree_ind'; intros H; auto.
  pose proof H as Hw.
  simpl in H. apply andb_prop in H as [Hcs Hk]. apply Forall_forallb in Hcs.
  assert (G : forallb is_nochange (flat_map (tleaves is_change_tangent) (map tree_tangent cs))
              = forallb tan_is_nochange (flat_map tangents cs)).
  { rewrite flat_map_concat_map, map_map, <- flat_map_concat_map. rewrite !forallb_flat_map.
    apply forallb_ext_Forall. eapply Forall_impl2; [exact IH|exact Hcs|]. auto. }
  destruct k; try (rewrite tree_tangent_node by discriminate; simpl; exact G).
  - (* Diff *)
    destruct (wfd_diff_inv cs Hw) as [p [tg [ts ->]]].
    rewrite tree_tangent_diff. simpl. destruct tg; reflexivity.
  - (* bare tangent object *)
    rewrite tree_tangent_node by discriminate. simpl. destruct t; reflexivity.
Qed.
Lemma static_check_no_change_iff t : wfd t = true ->
  (static_check_no_change t = true <-> Forall (fun g => g = NoChange) (tangents t)).
Proof.
  intros H. rewrite (static_check_no_change_spec t H). rewrite forallb_forall, Forall_forall.
  split; intros G x Hx; specialize (G x Hx); destruct x; simpl in *; congruence.
Qed.
Lemma static_check_tree_diff_spec t :
  static_check_tree_diff t = match raw_leaves t with [] => true | _ => false end.
Proof.
  unfold static_check_tree_diff.
  induction t as [l|k cs IH] using tree_ind'; auto.
  assert (G : forallb is_diff (flat_map (tleaves is_diff) cs)
              = match flat_map raw_leaves cs with [] => true | _ => false end).
  { induction IH as [|c cs Hc _ IHcs]; simpl; auto.
    rewrite forallb_app, Hc, IHcs. destruct (raw_leaves c); reflexivity. }
  destruct k; simpl; auto.
Qed.

Lemma tangents_wrap tg p : plain p = true -> tangents (wrap_leaves tg p) = map (fun _ => tg) (leaves p).
Proof.
  induction p as [l|k cs IH] using tree_ind'; intros Hp; simpl; auto.
  apply plain_kind in Hp as [Hk [Hkt Hcs]]. apply Forall_forallb in Hcs.
  assert (G : flat_map tangents (map (wrap_leaves tg) cs) = map (fun _ => tg) (flat_map leaves cs)).
  { clear Hk. induction IH as [|c cs Hc _ IHcs]; simpl; auto. inversion Hcs; subst.
    rewrite map_app, Hc, IHcs; auto. }
  destruct k; simpl in *; try congruence.
Qed.
Lemma raw_leaves_wrap tg p : raw_leaves (wrap_leaves tg p) = [].
Proof.
  induction p as [l|k cs IH] using tree_ind'; simpl; auto.
  assert (G : flat_map raw_leaves (map (wrap_leaves tg) cs) = []).
  { induction IH; simpl; auto. rewrite H, IHIH. reflexivity. }
  destruct k; simpl; auto.
Qed.
(* the checks on what no_change / unknown_change return *)
Lemma checks_of_change tg t r : argdiff t = true -> change tg t = Some r ->
  static_check_tree_diff r = true /\
  static_check_no_change r = match tg with NoChange => true
                                       | UnknownChange => match leaves (tree_primal t) with [] => true | _ => false end end.
Proof.
  intros H E. rewrite change_eq in E. inversion E; subst r; clear E.
  pose proof (tree_primal_plain t H) as Hp. split.
  - rewrite static_check_tree_diff_spec, raw_leaves_wrap. reflexivity.
  - rewrite static_check_no_change_spec by (apply argdiff_wfd, argdiff_wrap, Hp).
    rewrite tangents_wrap by exact Hp.
    destruct tg.
    + induction (leaves (tree_primal t)); simpl; auto.
    + destruct (leaves (tree_primal t)); reflexivity.
Qed.

(* ------------------------------------------------------------------------ *)
(* the Diff helpers never look at a leaf: they commute with any relabelling   *)
(* of leaves (tracing, batching)                                              *)
(* ------------------------------------------------------------------------ *)
Lemma tree_primal_map_leaves g t : tree_primal (map_leaves g t) = map_leaves g (tree_primal t).
Proof.
  induction t as [l|k cs IH] using tree_ind'; auto.
  destruct k; try (simpl map_leaves; rewrite !tree_primal_node by discriminate; simpl; f_equal;
                   rewrite !map_map; apply map_ext_Forall; exact IH).
  destruct cs as [|p cs]; reflexivity.
Qed.
Lemma tree_tangent_map_leaves g t : tree_tangent (map_leaves g t) = map_leaves g (tree_tangent t).
Proof.
  induction t as [l|k cs IH] using tree_ind'; auto.
  destruct k; try (simpl map_leaves; rewrite !tree_tangent_node by discriminate; simpl; f_equal;
                   rewrite !map_map; apply map_ext_Forall; exact IH).
  destruct cs as [|p [|q cs]]; reflexivity.
Qed.
Lemma wrap_leaves_map_leaves tg g p : wrap_leaves tg (map_leaves g p) = map_leaves g (wrap_leaves tg p).
Proof.
  induction p as [l|k cs IH] using tree_ind'; simpl; auto.
  f_equal. rewrite !map_map. apply map_ext_Forall. exact IH.
Qed.
Lemma change_map_leaves tg g t : change tg (map_leaves g t) = option_map (map_leaves g) (change tg t).
Proof. rewrite !change_eq. simpl. now rewrite tree_primal_map_leaves, wrap_leaves_map_leaves. Qed.
Lemma tangents_map_leaves g t : tangents (map_leaves g t) = tangents t.
Proof.
  induction t as [l|k cs IH] using tree_ind'; auto.
  assert (G : flat_map tangents (map (map_leaves g) cs) = flat_map tangents cs).
  { induction IH; simpl; auto. rewrite H, IHIH. reflexivity. }
  destruct k; simpl; auto.
  destruct cs as [|p [|[l|k ts] [|]]]; simpl; auto; try (destruct k; auto).
Qed.
Lemma forallb_map' {A B} (p : B -> bool) (f : A -> B) l : forallb p (map f l) = forallb (fun a => p (f a)) l.
Proof. induction l; simpl; congruence. Qed.
Lemma wfd_map_leaves g t : wfd (map_leaves g t) = wfd t.
Proof.
  induction t as [l|k cs IH] using tree_ind'; auto.
  simpl. f_equal.
  - rewrite forallb_map'. apply forallb_ext_Forall. exact IH.
  - destruct k; auto. destruct cs as [|p [|[l|k ts] [|]]]; simpl; auto.
Qed.
Lemma static_checks_map_leaves g t : wfd t = true ->
  static_check_no_change (map_leaves g t) = static_check_no_change t /\
  static_check_tree_diff (map_leaves g t) = static_check_tree_diff t.
Proof.
  intros H. split.
  - rewrite !static_check_no_change_spec by (rewrite ?wfd_map_leaves; exact H). now rewrite tangents_map_leaves.
  - rewrite !static_check_tree_diff_spec.
    assert (G : forall u, raw_leaves (map_leaves g u) = map g (raw_leaves u)).
    { induction u as [l|k cs IH] using tree_ind'; auto.
      assert (flat_map raw_leaves (map (map_leaves g) cs) = map g (flat_map raw_leaves cs)).
      { induction IH; simpl; auto. rewrite map_app, H0, IHIH. reflexivity. }
      destruct k; simpl; auto. }
    rewrite G. destruct (raw_leaves t); reflexivity.
Qed.

(* ------------------------------------------------------------------------ *)
(* flatten / unflatten                                                        *)
(* ------------------------------------------------------------------------ *)
Lemma leaves_map_leaves g t : leaves (map_leaves g t) = map g (leaves t).
Proof.
  induction t as [l|k cs IH] using tree_ind'; simpl; auto.
  induction IH; simpl; auto. rewrite map_app, H, IHIH. reflexivity.
Qed.
Lemma structure_map_leaves g t : structure (map_leaves g t) = structure t.
Proof.
  induction t as [l|k cs IH] using tree_ind'; simpl; auto.
  f_equal. rewrite map_map. apply map_ext_Forall. exact IH.
Qed.
(* rebuilding with relabelled leaves: the general form of the round trip *)
Lemma unflat_map_leaves g t : forall rest,
  unflat (structure t) (map g (leaves t) ++ rest) = Some (map_leaves g t, rest).
Proof.
  induction t as [l|k cs IH] using tree_ind'; intros rest; simpl; auto.
  assert (G : forall rest, unflat_list unflat (map structure cs) (map g (flat_map leaves cs) ++ rest)
                           = Some (map (map_leaves g) cs, rest)).
  { clear rest. induction IH as [|c cs Hc _ IHcs]; intros rest; simpl; auto.
    rewrite map_app, <- app_assoc, Hc, IHcs. reflexivity. }
  rewrite G. reflexivity.
Qed.
Lemma map_leaves_id t : map_leaves (fun l => l) t = t.
Proof.
  induction t as [l|k cs IH] using tree_ind'; simpl; auto.
  f_equal. rewrite <- (map_id cs) at 2. apply map_ext_Forall. exact IH.
Qed.
Lemma unflatten_map_leaves g t : unflatten (structure t) (map g (leaves t)) = Some (map_leaves g t).
Proof.
  unfold unflatten. rewrite <- (app_nil_r (map g (leaves t))), unflat_map_leaves. reflexivity.
Qed.
Lemma unflatten_flatten t : unflatten (structure t) (leaves t) = Some t.
Proof.
  rewrite <- (map_id (leaves t)), unflatten_map_leaves, map_leaves_id. reflexivity.
Qed.
(* conversely, whatever unflatten builds has that treedef and those leaves *)
Lemma unflat_sound d : forall ls t rest, unflat d ls = Some (t, rest) ->
  structure t = d /\ ls = leaves t ++ rest.
Proof.
  induction d as [|k ds IH] using def_ind'; intros ls t rest E; simpl in E.
  - destruct ls as [|l r]; [discriminate|]. inversion E; subst. auto.
  - destruct (unflat_list unflat ds ls) as [[ts r]|] eqn:El; [|discriminate].
    inversion E; subst; clear E.
    assert (G : map structure ts = ds /\ ls = flat_map leaves ts ++ rest).
    { revert ls ts El. induction IH as [|d ds Hd _ IHds]; intros ls ts El; simpl in El.
      - inversion El; subst. auto.
      - destruct (unflat d ls) as [[t1 l1]|] eqn:E1; [|discriminate].
        destruct (unflat_list unflat ds l1) as [[ts1 l2]|] eqn:E2; [|discriminate].
        inversion El; subst; clear El.
        destruct (Hd _ _ _ E1) as [S1 L1]. destruct (IHds _ _ E2) as [S2 L2].
        simpl. subst. rewrite <- app_assoc. auto. }
    destruct G as [G1 G2]. simpl. subst. auto.
Qed.
Lemma unflatten_sound d ls t : unflatten d ls = Some t -> structure t = d /\ leaves t = ls.
Proof.
  unfold unflatten. destruct (unflat d ls) as [[u r]|] eqn:E; [|discriminate].
  destruct r; [|discriminate]. intros H; inversion H; subst.
  destruct (unflat_sound _ _ _ _ E) as [S L]. rewrite app_nil_r in L. auto.
Qed.
(* any list of the right length can be put in place of the leaves; node data stay *)
Fixpoint num_leaves (d : def) : nat :=
  match d with DLeaf => 1%nat | DNode _ ds => fold_right (fun d n => (num_leaves d + n)%nat) 0%nat ds end.
Lemma num_leaves_structure t : num_leaves (structure t) = length (leaves t).
Proof.
  induction t as [l|k cs IH] using tree_ind'; simpl; auto.
  induction IH; simpl; auto. rewrite app_length, H, IHIH. reflexivity.
Qed.
Lemma unflat_enough d : forall ls, (num_leaves d <= length ls)%nat ->
  exists t rest, unflat d ls = Some (t, rest).
Proof.
  induction d as [|k ds IH] using def_ind'; intros ls Hn; simpl in *.
  - destruct ls; simpl in Hn; [lia|]. eauto.
  - assert (G : exists ts rest, unflat_list unflat ds ls = Some (ts, rest)).
    { revert ls Hn. induction IH as [|d ds Hd _ IHds]; intros ls Hn; simpl in *; eauto.
      destruct (Hd ls) as [t1 [r1 E1]]; [lia|]. rewrite E1.
      destruct (unflat_sound _ _ _ _ E1) as [S1 L1].
      destruct (IHds r1) as [ts [r2 E2]].
      { subst ls. rewrite app_length in Hn. rewrite <- S1, num_leaves_structure in Hn. lia. }
      rewrite E2. eauto. }
    destruct G as [ts [rest ->]]. eauto.
Qed.
Lemma unflatten_replace t ls : length ls = length (leaves t) ->
  exists t', unflatten (structure t) ls = Some t' /\ structure t' = structure t /\ leaves t' = ls.
Proof.
  intros Hl. destruct (unflat_enough (structure t) ls) as [u [rest E]].
  { rewrite num_leaves_structure. lia. }
  destruct (unflat_sound _ _ _ _ E) as [S L].
  assert (rest = []).
  { assert (length ls = (length (leaves u) + length rest)%nat) by (rewrite L at 1; apply app_length).
    rewrite <- num_leaves_structure, S, num_leaves_structure in H. destruct rest; auto. simpl in H. lia. }
  subst rest. exists u. unfold unflatten. rewrite E. rewrite app_nil_r in L. auto.
Qed.
Lemma unflatten_wrong_count d ls t : unflatten d ls = Some t -> length ls = num_leaves d.
Proof. intros E. destruct (unflatten_sound _ _ _ E) as [<- <-]. now rewrite num_leaves_structure. Qed.

(* node data (static fields, dict keys, Const values, closure callables) never reach the
   leaves: rewrite every node's data arbitrarily, the leaves do not move *)
Fixpoint map_kinds (h : kind -> kind) (t : tree) : tree :=
  match t with Leaf l => Leaf l | Node k cs => Node (h k) (map (map_kinds h) cs) end.
Lemma leaves_map_kinds h t : leaves (map_kinds h t) = leaves t.
Proof.
  induction t as [l|k cs IH] using tree_ind'; simpl; auto.
  induction IH; simpl; auto. rewrite H, IHIH. reflexivity.
Qed.

(* ------------------------------------------------------------------------ *)
(* Const / Closure                                                            *)
(* ------------------------------------------------------------------------ *)
(* a Const has no dynamic field *)
Fixpoint wfc (t : tree) : bool :=
  match t with
  | Leaf _ => true
  | Node k cs => forallb wfc cs && match k, cs with KConst _, _ :: _ => false | _, _ => true end
  end.
Lemma tree_const_node k cs : (forall v, k <> KConst v) -> tree_const (Node k cs) = Node k (map tree_const cs).
Proof. intros H. unfold tree_const. destruct k; try reflexivity. exfalso; eapply H; reflexivity. Qed.
Lemma tree_const_unwrap_node k cs : (forall v, k <> KConst v) ->
  tree_const_unwrap (Node k cs) = Node k (map tree_const_unwrap cs).
Proof. intros H. unfold tree_const_unwrap. destruct k; try reflexivity. exfalso; eapply H; reflexivity. Qed.
Lemma const_free_kind k cs : const_free (Node k cs) = true -> (forall v, k <> KConst v) /\ forallb const_free cs = true.
Proof. destruct k; simpl; intros H; try discriminate; split; auto; discriminate. Qed.

Lemma const_unwrap_roundtrip t : const_free t = true -> tree_const_unwrap (tree_const t) = t.
Proof.
  induction t as [l|k cs IH] using tree_ind'; intros H.
  - unfold tree_const; simpl. destruct (concrete_leaf l); reflexivity.
  - apply const_free_kind in H as [Hk Hcs]. rewrite tree_const_node, tree_const_unwrap_node by assumption.
    f_equal. rewrite map_map. rewrite <- (map_id cs) at 2. apply map_ext_Forall.
    apply Forall_forallb in Hcs. eapply Forall_impl2; [exact IH|exact Hcs|]. auto.
Qed.
Lemma tree_const_idem t : tree_const (tree_const t) = tree_const t.
Proof.
  induction t as [l|k cs IH] using tree_ind'.
  - unfold tree_const; simpl. destruct (concrete_leaf l) eqn:E; simpl; rewrite ?E; reflexivity.
  - destruct k; try (rewrite !tree_const_node by discriminate; f_equal; rewrite map_map;
                     apply map_ext_Forall; exact IH).
    reflexivity.
Qed.
(* after tree_const only tracers are left among the leaves *)
Lemma tree_const_leaves t : wfc t = true ->
  leaves (tree_const t) = filter (fun l => negb (concrete_leaf l)) (leaves t).
Proof.
  induction t as [l|k cs IH] using tree_ind'; intros H.
  - unfold tree_const; simpl. destruct (concrete_leaf l); reflexivity.
  - simpl in H. apply andb_prop in H as [Hcs Hk]. apply Forall_forallb in Hcs.
    assert (G : flat_map leaves (map tree_const cs) = filter (fun l => negb (concrete_leaf l)) (flat_map leaves cs)).
    { clear Hk. induction IH as [|c cs Hc _ IHcs]; simpl; auto. inversion Hcs; subst.
      rewrite filter_app, Hc, IHcs; auto. }
    destruct k; try (rewrite tree_const_node by discriminate; simpl; exact G).
    destruct cs; [reflexivity|discriminate].
Qed.
Lemma const_idem v c : const_ v = Some c -> const_ c = Some c.
Proof.
  destruct v as [l|k cs]; simpl.
  - destruct (concrete_leaf l); [|discriminate]. intros H; inversion H; reflexivity.
  - destruct k; try discriminate. intros H; inversion H; reflexivity.
Qed.
Lemma const_unwrap_leaf l c : const_ (Leaf l) = Some c -> unwrap c = Leaf l /\ leaves c = [].
Proof. simpl. destruct (concrete_leaf l); [|discriminate]. intros H; inversion H; auto. Qed.
(* Closure: fn( *dyn_args, *args); only dyn_args are leaves; the callable is node data *)
Lemma closure_call_partial dyn k args : closure_call (partial dyn k) args = Some (apply_fn k (dyn ++ args)).
Proof. reflexivity. Qed.
Lemma closure_leaves dyn k : leaves (partial dyn k) = flat_map leaves dyn.
Proof. simpl. apply app_nil_r. Qed.
Lemma closure_rebuild dyn k ls : length ls = length (flat_map leaves dyn) ->
  exists dyn', unflatten (structure (partial dyn k)) ls = Some (partial dyn' k) /\ flat_map leaves dyn' = ls
               /\ map structure dyn' = map structure dyn.
Proof.
  intros Hl. destruct (unflatten_replace (partial dyn k) ls) as [t' [E [S L]]].
  { rewrite closure_leaves. exact Hl. }
  destruct t' as [l|k' cs]; [discriminate|]. simpl in S. inversion S; subst k'.
  destruct cs as [|c [|]]; try discriminate. destruct c as [l|k2 dyn']; [discriminate|].
  simpl in H1. inversion H1; subst k2. exists dyn'. rewrite E. repeat split; auto.
  simpl in L. rewrite app_nil_r in L. exact L.
Qed.

(* ------------------------------------------------------------------------ *)
(* jit and vmap of leaf-parametric functions                                  *)
(* ------------------------------------------------------------------------ *)
Definition parametric (f : tree -> option tree) : Prop :=
  forall g u, f (map_leaves g u) = option_map (map_leaves g) (f u).
Lemma map_leaves_ext g h t : (forall l, g l = h l) -> map_leaves g t = map_leaves h t.
Proof.
  intros E. induction t as [l|k cs IH] using tree_ind'; simpl; [now rewrite E|].
  f_equal. apply map_ext_Forall. exact IH.
Qed.
Lemma map_leaves_comp g h t : map_leaves g (map_leaves h t) = map_leaves (fun l => g (h l)) t.
Proof.
  induction t as [l|k cs IH] using tree_ind'; simpl; auto.
  f_equal. rewrite map_map. apply map_ext_Forall. exact IH.
Qed.
Lemma existsb_fn_map g ls : (forall l, is_fn_leaf (g l) = is_fn_leaf l) ->
  existsb is_fn_leaf (map g ls) = existsb is_fn_leaf ls.
Proof. intros H. induction ls; simpl; auto. rewrite H, IHls. reflexivity. Qed.

Lemma jit_with_parametric tr b f t r :
  (forall l, is_fn_leaf (tr l) = is_fn_leaf l) -> (forall l, to_array (tr l) = to_array l) ->
  parametric f ->
  (b && existsb is_fn_leaf (leaves t) = false) ->
  f t = Some r -> existsb is_fn_leaf (leaves r) = false ->
  jit_with tr b f t = Some (map_leaves to_array r).
Proof.
  intros Htr Hta Hf Hb E Hr. unfold jit_with, flatten. rewrite Hb.
  rewrite unflatten_map_leaves, Hf, E. simpl.
  rewrite leaves_map_leaves, existsb_fn_map, Hr by exact Htr.
  rewrite structure_map_leaves, map_map.
  rewrite unflatten_map_leaves. f_equal. apply map_leaves_ext. exact Hta.
Qed.
Lemma jit_with_raises tr b f t : parametric f -> f t = None -> jit_with tr b f t = None.
Proof.
  intros Hf E. unfold jit_with, flatten. destruct (b && existsb is_fn_leaf (leaves t)); auto.
  rewrite unflatten_map_leaves, Hf, E. reflexivity.
Qed.
Lemma to_tracer_fn l : is_fn_leaf (to_tracer l) = is_fn_leaf l.
Proof. destruct l; reflexivity. Qed.
Lemma to_tracer_arr l : to_array (to_tracer l) = to_array l.
Proof. destruct l; reflexivity. Qed.
Lemma to_tracer_nonpy_fn l : is_fn_leaf (to_tracer_nonpy l) = is_fn_leaf l.
Proof. destruct l as [[]| |]; reflexivity. Qed.
Lemma to_tracer_nonpy_arr l : to_array (to_tracer_nonpy l) = to_array l.
Proof. destruct l as [[]| |]; reflexivity. Qed.
(* jit(f)(t) = f(t) with every leaf returned as an array; all node data (static fields) intact *)
Lemma jit_parametric f t r : parametric f ->
  existsb is_fn_leaf (leaves t) = false -> f t = Some r -> existsb is_fn_leaf (leaves r) = false ->
  jit_apply f t = Some (map_leaves to_array r) /\ jit_closed_apply f t = Some (map_leaves to_array r).
Proof.
  intros Hf Ht E Hr. split.
  - apply jit_with_parametric; auto using to_tracer_fn, to_tracer_arr.
  - apply jit_with_parametric; auto using to_tracer_nonpy_fn, to_tracer_nonpy_arr.
Qed.
Lemma parametric_id : parametric (fun x => Some x).
Proof. intros g u. reflexivity. Qed.
Lemma jit_identity t : existsb is_fn_leaf (leaves t) = false ->
  jit_apply (fun x => Some x) t = Some (map_leaves to_array t) /\
  structure (map_leaves to_array t) = structure t.
Proof.
  intros H. split; [|apply structure_map_leaves].
  apply (jit_parametric _ t t parametric_id H eq_refl H).
Qed.
Lemma parametric_change tg : parametric (change tg).
Proof. intros g u. apply change_map_leaves. Qed.
Lemma parametric_primal : parametric (fun t => Some (tree_primal t)).
Proof. intros g u. simpl. now rewrite tree_primal_map_leaves. Qed.
Lemma parametric_tangent : parametric (fun t => Some (tree_tangent t)).
Proof. intros g u. simpl. now rewrite tree_tangent_map_leaves. Qed.
Lemma parametric_roundtrip : parametric (fun t => let (ls, d) := flatten t in unflatten d ls).
Proof.
  intros g u. unfold flatten. rewrite unflatten_flatten, unflatten_flatten. reflexivity.
Qed.

(* vmap *)
Lemma all_some_map_Some {A B} (h : A -> B) l : all_some (map (fun a => Some (h a)) l) = Some (map h l).
Proof. induction l; simpl; auto. rewrite IHl. reflexivity. Qed.
Lemma map_nth_seq {A B} (h : A -> B) (l : list A) d :
  map (fun j => h (nth j l d)) (seq 0 (length l)) = map h l.
Proof.
  induction l as [|a l IH]; simpl; auto. f_equal.
  rewrite <- seq_shift, map_map. exact IH.
Qed.
Lemma batch_size_spec ls n : batch_size ls = Some n ->
  (0 < n)%nat /\ Forall (fun l => vec_len l = Some n) ls.
Proof.
  unfold batch_size. destruct ls as [|l ls]; [discriminate|].
  destruct (vec_len l) as [m|] eqn:El; [|discriminate].
  destruct ((0 <? m)%nat && forallb (fun x => match vec_len x with Some k => Nat.eqb k m | None => false end) (l :: ls)) eqn:E; [|discriminate].
  intros H; inversion H; subst m. apply andb_prop in E as [E1 E2]. apply Nat.ltb_lt in E1. split; auto.
  apply Forall_forallb in E2. eapply Forall_impl; [|exact E2]. intros a Ha. simpl in Ha.
  destruct (vec_len a); [|discriminate]. apply Nat.eqb_eq in Ha. congruence.
Qed.
Lemma stack_col_slices n lr j d : (j < length lr)%nat ->
  Forall (fun l => vec_len l = Some n) lr ->
  stack_col (map (fun i => map (slice_leaf i) lr) (seq 0 n)) j = Some (to_array (nth j lr d)).
Proof.
  intros Hj Hb. unfold stack_col. rewrite map_map.
  assert (Hl : vec_len (nth j lr d) = Some n).
  { rewrite Forall_forall in Hb. apply Hb. apply nth_In. exact Hj. }
  destruct (nth j lr d) as [s z|s v|k] eqn:En; try discriminate. simpl in Hl. inversion Hl; subst n.
  rewrite (map_ext _ (fun i => Some (nth i v 0))).
  - rewrite all_some_map_Some. simpl. do 2 f_equal.
    rewrite (map_nth_seq (fun x => x) v 0). apply map_id.
  - intros i. rewrite nth_error_map, (nth_error_nth' lr d Hj), En. reflexivity.
Qed.
(* vmap(f)(t) for a leaf-parametric f whose result is batched like its argument:
   slicing, applying f per slice and stacking gives f(t) itself (leaves as arrays) *)
Lemma vmap_parametric f t r n : parametric f ->
  batch_size (leaves t) = Some n -> f t = Some r ->
  Forall (fun l => vec_len l = Some n) (leaves r) ->
  vmap_apply f t = Some (map_leaves to_array r).
Proof.
  intros Hf Hb E Hr. unfold vmap_apply, flatten. rewrite Hb.
  destruct (batch_size_spec _ _ Hb) as [Hn _].
  rewrite (map_ext _ (fun i => Some (map_leaves (slice_leaf i) r))).
  2:{ intros i. rewrite unflatten_map_leaves, Hf, E. reflexivity. }
  rewrite all_some_map_Some.
  destruct n as [|n]; [lia|]. cbn [seq map].
  assert (S0 : forall i, structure (map_leaves (slice_leaf i) r) = structure r) by (intros; apply structure_map_leaves).
  assert (Hall : forallb (fun r1 => def_eqb (structure r1) (structure (map_leaves (slice_leaf 0) r)))
                   (map_leaves (slice_leaf 0) r :: map (fun i => map_leaves (slice_leaf i) r) (seq 1 n)) = true).
  { rewrite forallb_forall. intros x Hx.
    assert (exists i, x = map_leaves (slice_leaf i) r) as [i ->].
    { destruct Hx as [<-|Hx]; eauto. apply in_map_iff in Hx as [i [<- _]]. eauto. }
    rewrite !S0. apply def_eqb_refl. }
  rewrite Hall. rewrite leaves_map_leaves, map_length.
  change (map_leaves (slice_leaf 0) r :: map (fun i => map_leaves (slice_leaf i) r) (seq 1 n))
    with (map (fun i => map_leaves (slice_leaf i) r) (seq 0 (S n))).
  rewrite map_map.
  rewrite (map_ext _ (fun i => map (slice_leaf i) (leaves r))) by (intros; apply leaves_map_leaves).
  rewrite (map_ext_in _ (fun j => Some (to_array (nth j (leaves r) (LFn 0))))).
  2:{ intros j Hj. apply in_seq in Hj. assert (Hj' : (j < length (leaves r))%nat) by lia.
      exact (stack_col_slices (S n) (leaves r) j (LFn 0) Hj' Hr). }
  rewrite all_some_map_Some, (map_nth_seq to_array (leaves r) (LFn 0)).
  rewrite S0. apply unflatten_map_leaves.
Qed.
Lemma vmap_identity t n : batch_size (leaves t) = Some n ->
  vmap_apply (fun x => Some x) t = Some (map_leaves to_array t).
Proof.
  intros Hb. apply (vmap_parametric _ t t n parametric_id Hb eq_refl).
  apply (batch_size_spec _ _ Hb).
Qed.
(* the leaves of what the Diff helpers return are the argument's leaves *)
Lemma leaves_wrap tg p : leaves (wrap_leaves tg p) = leaves p.
Proof.
  induction p as [l|k cs IH] using tree_ind'; simpl; auto.
  induction IH; simpl; auto. rewrite H, IHIH. reflexivity.
Qed.
Lemma leaves_primal t : argdiff t = true -> leaves (tree_primal t) = leaves t.
Proof.
  induction t as [l|k cs IH] using tree_ind'; intros H; auto.
  destruct k; try discriminate;
    try (rewrite tree_primal_node by discriminate; simpl in *; apply Forall_forallb in H;
         induction IH as [|c cs Hc _ IHcs]; simpl; auto; inversion H; subst; rewrite Hc, IHcs; auto; fail).
  destruct (argdiff_diff_inv cs H) as [p [tg [-> Hp]]]. rewrite tree_primal_diff. simpl.
  now rewrite app_nil_r.
Qed.
Lemma vmap_change tg t n r : argdiff t = true -> batch_size (leaves t) = Some n -> change tg t = Some r ->
  vmap_apply (change tg) t = Some (map_leaves to_array r).
Proof.
  intros Ha Hb E. apply (vmap_parametric _ t r n (parametric_change tg) Hb E).
  rewrite change_eq in E. inversion E. rewrite leaves_wrap, leaves_primal by exact Ha.
  apply (batch_size_spec _ _ Hb).
Qed.

(* ------------------------------------------------------------------------ *)
(* outside the contract: a nested Diff                                        *)
(* ------------------------------------------------------------------------ *)
Definition nested_witness : tree := DiffT (DiffT (Leaf (LS Py 1)) UnknownChange) NoChange.
Lemma no_change_nested_refuted :
  exists t r, wfd t = true /\ no_change t = Some r /\
              static_check_no_change r = false /\ tree_primal r <> tree_primal t.
Proof.
  exists nested_witness, (DiffT (DiffT (Leaf (LS Py 1)) NoChange) UnknownChange).
  split; [reflexivity|]. split; [reflexivity|]. split; [reflexivity|].
  vm_compute. discriminate.
Qed.

(* ------------------------------------------------------------------------ *)
(* the statements of props/C21.v                                              *)
(* ------------------------------------------------------------------------ *)
Lemma change_preserves tg t r : argdiff t = true -> change tg t = Some r ->
  tree_primal r = tree_primal t /\ structure (tree_primal r) = structure (tree_primal t) /\ argdiff r = true.
Proof.
  intros H E. repeat split; eauto using primal_of_change, change_shape, change_argdiff.
Qed.
Lemma change_idem_absorb tg t r : argdiff t = true -> change tg t = Some r ->
  change tg r = Some r /\ forall tg', change tg' r = change tg' t.
Proof. intros H E. split; [eapply change_idem; eauto|intros; eapply change_change; eauto]. Qed.
Lemma static_check_tree_diff_iff t : static_check_tree_diff t = true <-> raw_leaves t = [].
Proof. rewrite static_check_tree_diff_spec. destruct (raw_leaves t); split; congruence. Qed.
Lemma diff_helpers_leaf_parametric g t :
  tree_primal (map_leaves g t) = map_leaves g (tree_primal t) /\
  tree_tangent (map_leaves g t) = map_leaves g (tree_tangent t) /\
  (forall tg, change tg (map_leaves g t) = option_map (map_leaves g) (change tg t)) /\
  (wfd t = true -> static_check_no_change (map_leaves g t) = static_check_no_change t) /\
  static_check_tree_diff (map_leaves g t) = static_check_tree_diff t.
Proof.
  repeat split; auto using tree_primal_map_leaves, tree_tangent_map_leaves, change_map_leaves.
  - intros H. apply (static_checks_map_leaves g t H).
  - rewrite !static_check_tree_diff_spec.
    assert (G : forall u, raw_leaves (map_leaves g u) = map g (raw_leaves u)).
    { induction u as [l|k cs IH] using tree_ind'; auto.
      assert (flat_map raw_leaves (map (map_leaves g) cs) = map g (flat_map raw_leaves cs)).
      { induction IH; simpl; auto. rewrite map_app, H, IHIH. reflexivity. }
      destruct k; simpl; auto. }
    rewrite G. destruct (raw_leaves t); reflexivity.
Qed.
Lemma static_fields_not_leaves :
  (forall h t, leaves (map_kinds h t) = leaves t) /\
  (forall g t, structure (map_leaves g t) = structure t) /\
  (forall t ls, length ls = length (leaves t) ->
     exists t', unflatten (structure t) ls = Some t' /\ structure t' = structure t /\ leaves t' = ls).
Proof. repeat split; auto using leaves_map_kinds, structure_map_leaves. apply unflatten_replace. Qed.
Lemma const_roundtrip :
  (forall t, const_free t = true -> tree_const_unwrap (tree_const t) = t) /\
  (forall t, tree_const (tree_const t) = tree_const t) /\
  (forall t, wfc t = true -> leaves (tree_const t) = filter (fun l => negb (concrete_leaf l)) (leaves t)) /\
  (forall v c, const_ v = Some c -> const_ c = Some c) /\
  (forall l c, const_ (Leaf l) = Some c -> unwrap c = Leaf l /\ leaves c = []).
Proof.
  repeat split; eauto using const_unwrap_roundtrip, tree_const_idem, tree_const_leaves, const_idem;
    eapply const_unwrap_leaf; eauto.
Qed.
Lemma closure_roundtrip dyn k :
  (forall args, closure_call (partial dyn k) args = Some (apply_fn k (dyn ++ args))) /\
  leaves (partial dyn k) = flat_map leaves dyn /\
  unflatten (structure (partial dyn k)) (leaves (partial dyn k)) = Some (partial dyn k) /\
  (forall ls, length ls = length (flat_map leaves dyn) ->
     exists dyn', unflatten (structure (partial dyn k)) ls = Some (partial dyn' k) /\ flat_map leaves dyn' = ls
                  /\ map structure dyn' = map structure dyn).
Proof.
  repeat split; auto using closure_call_partial, closure_leaves, unflatten_flatten. apply closure_rebuild.
Qed.
Lemma jit_roundtrip t : existsb is_fn_leaf (leaves t) = false ->
  jit_apply (fun x => Some x) t = Some (map_leaves to_array t) /\
  jit_closed_apply (fun x => Some x) t = Some (map_leaves to_array t) /\
  structure (map_leaves to_array t) = structure t.
Proof.
  intros H. destruct (jit_parametric _ t t parametric_id H eq_refl H) as [J1 J2].
  repeat split; auto using structure_map_leaves.
Qed.
Lemma jit_change tg t r : argdiff t = true -> existsb is_fn_leaf (leaves t) = false ->
  change tg t = Some r -> jit_apply (change tg) t = Some (map_leaves to_array r).
Proof.
  intros Ha H E. apply (jit_parametric _ t r (parametric_change tg) H E).
  rewrite change_eq in E. inversion E. rewrite leaves_wrap, leaves_primal by exact Ha. exact H.
Qed.
Lemma vmap_roundtrip t n : batch_size (leaves t) = Some n ->
  vmap_apply (fun x => Some x) t = Some (map_leaves to_array t) /\
  structure (map_leaves to_array t) = structure t /\
  (forall tg r, argdiff t = true -> change tg t = Some r ->
     vmap_apply (change tg) t = Some (map_leaves to_array r)).
Proof.
  intros Hb. repeat split; auto using structure_map_leaves.
  - eapply vmap_identity; eauto.
  - intros tg r Ha E. eapply vmap_change; eauto.
Qed.
