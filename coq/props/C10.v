(* C10 — project splits the score along a selection.  `selected s tm`: the static part of the
   address of the random choice tm (index levels are transparent) is a member of s. *)
From Coq Require Import List ZArith.
Import ListNotations.
From Gen Require Import SelGen.
From Model Require Import Key Sel GFI.
From Proofs Require Import GFIBase GFIRef GFIWf GFIConsistent GFIProject GFISim.

Theorem C10_project_is_sum_of_selected : forall g t s w,
  wft g t -> project t s = Ok w -> w = tsum (filter (selected s) (t_terms t)).
Proof. exact project_is_selected_sum. Qed.
Print Assumptions C10_project_is_sum_of_selected.

Theorem C10_project_all_is_score : forall g t w, wft g t -> project t AllSel = Ok w -> w = t_score t.
Proof. exact project_all. Qed.
Print Assumptions C10_project_all_is_score.

Theorem C10_project_none_is_zero : forall g t w, wft g t -> project t NoneSel = Ok w -> w = 0%Z.
Proof. exact project_none. Qed.
Print Assumptions C10_project_none_is_zero.

Theorem C10_project_complement_splits_score : forall g t s w1 w2,
  wft g t -> project t s = Ok w1 -> project t (ComplementSel_build s) = Ok w2 -> (w1 + w2 = t_score t)%Z.
Proof. exact project_split. Qed.
Print Assumptions C10_project_complement_splits_score.

(* simulate and importance produce traces the theorems above apply to *)
Theorem C10_traces_are_wellformed : forall g k c a,
  (forall t, simulate g k a = Ok t -> wft g t) /\ (forall t w, generate g k c a = Ok (t, w) -> wft g t).
Proof.
  intros g k c a. split.
  - intros t H. apply (proj1 simulate_wft_all g k a t H).
  - intros t w H. apply (proj1 (proj1 generate_wft_all g k c a (t, w) H)).
Qed.
Print Assumptions C10_traces_are_wellformed.

(* ---- non-vacuity: concrete non-trivial programs and traces meeting the hypotheses above (proofs/GFIWitness.v) ---- *)
From Proofs Require Import GFIWitness.
Example C10_hypotheses_met : wft ex_g ex_t /\ length (t_choices ex_t) = 7%nat.
Proof. exact (conj ex_wft ex_nontrivial). Qed.
Print Assumptions C10_hypotheses_met.
