"""C12 — engine B-gfi (harness/bgfi.py); theorems in coq/props/C12.v."""
from . import bgfi


def run(ctx):
    bgfi.run_property(ctx, "C12", oracles=bgfi.PROP_ORACLES.get("C12"))


def replay(case):
    return bgfi.replay(case)
