"""Engine A-chm (properties C17, C33): choice-map construction expressions x queries.

An expression is a JSON-able nested list/tuple (grammar below).  It is
 * realised on the implementation (`realise`), queries answered through the public
   API only (`observe`): `chm(p).static_is_empty()`, `p in chm`, `chm[p]`, Mask flags,
   `chm.get_selection()[q]`, exceptions as an enum;
 * printed as a Coq term (`c_expr`, `c_case`) for coq/model/Chm.v, which evaluates the
   same expression and compares inside Coq;
 * given an independent meaning as a finite map (`Ref`), a Python dict from element
   addresses to values, which is the direct oracle.

Grammar (tuples):
  leaf   := (aspec, fspec|None)   aspec := ("c", data, "py"|"arr") | ("hole",)
                                  fspec := ("py",b) | ("ar",b) | ("v",[b..]) | ("hole",)
  xcomp  := ("s",name) | ("py",z) | ("ar",z) | ("vec",[z..]) | ("hole",)
  comp   := ("s",name) | ("py",z) | ("ar",z)
  expr   := ("empty",) | ("choice",leaf) | ("entry",expr,[xcomp]) | ("setc",[xcomp],expr)
          | ("d",[([xcomp],expr)],style) | ("set",expr,[xcomp],expr) | ("updid",expr,[xcomp])
          | ("updconst",expr,[xcomp],leaf) | ("or",expr,expr) | ("mask",fspec,expr)
          | ("filter",sterm,expr) | ("extend",expr,[xcomp]) | ("switch",("py"|"ar",z),[expr])
          | ("sub",expr,[comp]) | ("vmap",[z],[data],[b],expr)
"""
import numpy as np
from . import core
from .core import clist, cz, cbool, copt
from . import p_C18 as selmod

NAMES = ["a", "b", "c", "d"]
ID = {n: i + 1 for i, n in enumerate(NAMES)}

ERRS = ["EIndex", "EOrChoice", "EOrSwitch", "EAddr", "EAssert", "EShape", "EList", "EUnsup"]
ERR_CLASS = {"EIndex": 0, "EOrChoice": 1, "EOrSwitch": 1, "EShape": 1, "EAddr": 2, "EAssert": 3, "EList": 4, "EUnsup": 5}


class Unknown(Exception):
    """an exception of the implementation that the enum does not know"""


def classify(e):
    from genjax._src.core.generative.choice_map import ChoiceMapNoValueAtAddress
    msg = str(e)
    t = type(e)
    if t is IndexError:
        return "EList" if "list index out of range" in msg else "EIndex"
    if t is TypeError and "not subscriptable" in msg:
        return "EIndex"
    if t is AssertionError:
        return "EAssert"
    if t is ValueError:
        if "Address must consist" in msg: return "EAddr"
        if "Vectorized flag" in msg or "Cannot combine masks" in msg or "different tree structures" in msg: return "EShape"
        if "Incompatible shapes for broadcasting" in msg: return "EUnsup"
    if t is Exception:
        if "Choice and non-Choice" in msg: return "EOrChoice"
        if "two switches" in msg: return "EOrSwitch"
    if isinstance(e, ChoiceMapNoValueAtAddress):
        raise Unknown("NoValue after a positive `in`")
    raise Unknown(f"{t.__name__}: {msg[:200]}")


# ----------------------------------------------------------------------------
# implementation side
# ----------------------------------------------------------------------------
class Tape:
    """array constants of an expression: used as they are (eager), recorded, or replaced by the
    arguments of a jitted function (so that every array flag / index / leaf is a tracer)"""

    def __init__(self, mode="eager", vals=None):
        self.mode, self.vals, self.i = mode, list(vals or []), 0

    def const(self, x):
        if self.mode == "eager":
            return x
        if self.mode == "record":
            self.vals.append(x)
            return x
        v = self.vals[self.i]
        self.i += 1
        return v


TAPE = Tape()


def r_flag(f, env):
    import jax.numpy as jnp
    k = f[0]
    if k == "py": return bool(f[1])
    if k == "ar": return TAPE.const(jnp.array(bool(f[1])))
    if k == "v": return TAPE.const(jnp.array([bool(b) for b in f[1]]))
    if k == "hole": return env["f"]
    raise ValueError(f)


def r_leaf(l, env):
    import jax.numpy as jnp
    from genjax import Mask
    a, f = l
    if a[0] == "hole":
        v = env["v"]
    elif a[2] == "py":
        v = float(a[1])
    else:
        v = TAPE.const(jnp.array(a[1], dtype=jnp.float32))
    if f is None:
        return v
    return Mask(v, r_flag(f, env))


def r_xcomp(c, env):
    import jax.numpy as jnp
    k = c[0]
    if k == "s": return c[1]
    if k == "py": return int(c[1])
    if k == "ar": return TAPE.const(jnp.array(int(c[1])))
    if k == "vec": return TAPE.const(jnp.array([int(z) for z in c[1]]))
    if k == "hole": return env["i"]
    raise ValueError(c)


def r_value(e, env, allow_dict=False):
    """what a user passes to set/entry/d: a bare value for ("choice", leaf), a dict for a
    nested ("d", .., "d"), otherwise a choice map"""
    if e[0] == "choice":
        return r_leaf(e[1], env)
    if allow_dict and e[0] == "d" and e[2] == "d":
        return r_dict(e[1], env)
    return realise(e, env)


def r_dict(pairs, env):
    d = {}
    for q, v in pairs:
        key = r_xcomp(q[0], env) if len(q) == 1 else tuple(r_xcomp(c, env) for c in q)
        assert key not in d
        d[key] = r_value(v, env, allow_dict=True)
    return d


def realise(e, env=None):
    import jax, jax.numpy as jnp
    from genjax import ChoiceMap, ChoiceMapBuilder as C
    k = e[0]
    if k == "empty": return ChoiceMap.empty()
    if k == "choice": return ChoiceMap.choice(r_leaf(e[1], env))
    if k == "entry": return ChoiceMap.entry(r_value(e[1], env, allow_dict=True), *[r_xcomp(c, env) for c in e[2]])
    if k == "setc": return C[tuple(r_xcomp(c, env) for c in e[1])].set(r_value(e[2], env))
    if k == "d":
        style = e[2]
        if style == "d": return ChoiceMap.d(r_dict(e[1], env))
        if style == "kw": return ChoiceMap.kw(**r_dict(e[1], env))
        pairs = [((r_xcomp(q[0], env) if len(q) == 1 else tuple(r_xcomp(c, env) for c in q)), r_value(v, env, allow_dict=True)) for q, v in e[1]]
        return ChoiceMap.from_mapping(pairs)
    if k == "set": return realise(e[1], env).at[tuple(r_xcomp(c, env) for c in e[2])].set(r_value(e[3], env))
    if k == "updid": return realise(e[1], env).at[tuple(r_xcomp(c, env) for c in e[2])].update(lambda x: x)
    if k == "updconst":
        v = r_leaf(e[3], env)
        return realise(e[1], env).at[tuple(r_xcomp(c, env) for c in e[2])].update(lambda _: v)
    if k == "or": return realise(e[1], env) | realise(e[2], env)
    if k == "mask":
        x = realise(e[2], env)
        return x.mask(r_flag(e[1], env))
    if k == "filter":
        x = realise(e[2], env)
        return x.filter(selmod.realise(tup(e[1])))
    if k == "extend": return realise(e[1], env).extend(*[r_xcomp(c, env) for c in e[2]])
    if k == "switch":
        cs = [realise(x, env) for x in e[2]]
        idx = int(e[1][1]) if e[1][0] == "py" else TAPE.const(jnp.array(int(e[1][1])))
        return ChoiceMap.switch(idx, cs)
    if k == "sub": return realise(e[1], env)(tuple(r_xcomp(c, env) for c in e[2]))
    if k == "vmap":
        assert env is None
        idx, vals, flags, body = e[1], e[2], e[3], e[4]
        return jax.vmap(lambda i, v, f: realise(body, {"i": i, "v": v, "f": f}))(
            TAPE.const(jnp.array(idx)), TAPE.const(jnp.array(vals, dtype=jnp.float32)), TAPE.const(jnp.array(flags)))
    raise ValueError(e)


def tup(t):
    return selmod.tuple_ify(t) if isinstance(t, list) else t


def canon_value(v):
    """(is_mask, nested list of [value, valid]) with values under a false flag erased"""
    from genjax import Mask
    if isinstance(v, Mask):
        val = np.asarray(v.value)
        flag = v.primal_flag()
        flag = np.asarray(flag)
        is_mask = True
    else:
        val, flag, is_mask = np.asarray(v), np.asarray(True), False
    assert flag.dtype == np.bool_ and flag.ndim <= val.ndim, (flag, val)
    assert np.all(val == np.round(val)) and np.all(np.abs(val) < 2 ** 24)
    ok = flag.reshape(flag.shape + (1,) * (val.ndim - flag.ndim)) & np.ones(val.shape, dtype=bool)

    def go(a, o):
        if a.ndim == 0:
            return [int(a) if bool(o) else 0, bool(o)]
        return ["N"] + [go(a[i], o[i]) for i in range(a.shape[0])]
    return [is_mask, go(val, ok)]


def observe(chm, q):
    """answer of one query, canonical"""
    try:
        if q[0] == "look":
            p = tuple(r_xcomp(c, None) for c in q[1])
            sub = chm(p)
            is_empty = bool(sub.static_is_empty())
            has = p in chm
            assert isinstance(has, bool)
            val = canon_value(chm[p]) if has else None
            return ["look", is_empty, val]
        if q[0] == "sel":
            r = chm.get_selection()[tuple(q[1])]
            assert isinstance(r, bool)
            return ["sel", r]
    except Unknown:
        raise
    except Exception as e:
        return ["err", classify(e)]
    raise ValueError(q)


def run_expr(e, queries):
    """-> (built_error|None, [answers])"""
    try:
        chm = realise(e)
    except Unknown:
        raise
    except Exception as ex:
        return classify(ex), []
    return None, [observe(chm, q) for q in queries]


def run_expr_jit(e, queries):
    """the same construction and queries inside one jax.jit trace: array constants are tracers,
    Python literals stay Python.  -> (built_error|None, [answers]) in the eager format"""
    import jax
    from genjax import Mask
    global TAPE
    TAPE = Tape("record")
    try:
        try:
            chm0 = realise(e)
            for q in queries:
                if q[0] == "look":
                    [r_xcomp(c, None) for c in q[1]]
        except Unknown:
            raise
        except Exception as ex:
            return classify(ex), []
        vals = TAPE.vals
        static = {}

        def f(vals):
            global TAPE
            TAPE = Tape("replay", vals)
            chm = realise(e)
            ans, arrays = [], []
            for q in queries:
                try:
                    if q[0] == "look":
                        p = tuple(r_xcomp(c, None) for c in q[1])
                        sub = chm(p)
                        is_empty = bool(sub.static_is_empty())
                        has = p in chm
                        if has:
                            v = chm[p]
                            if isinstance(v, Mask):
                                arrays.append((v.value, v.primal_flag()))
                                ans.append(["look", is_empty, ("mask", len(arrays) - 1)])
                            else:
                                arrays.append((v,))
                                ans.append(["look", is_empty, ("raw", len(arrays) - 1)])
                        else:
                            ans.append(["look", is_empty, None])
                    else:
                        ans.append(["sel", bool(chm.get_selection()[tuple(q[1])])])
                except Unknown:
                    raise
                except Exception as ex:
                    ans.append(["err", classify(ex)])
            static["ans"] = ans
            return arrays
        try:
            arrays = jax.jit(f)(vals)
        except Unknown:
            raise
        except Exception as ex:
            return classify(ex), []
        out = []
        for a in static["ans"]:
            if a[0] == "look" and a[2] is not None:
                kind, i = a[2]
                v = Mask(arrays[i][0], arrays[i][1]) if kind == "mask" else arrays[i][0]
                out.append(["look", a[1], canon_value(v)])
            else:
                out.append(a)
        return None, out
    finally:
        TAPE = Tape()


# ----------------------------------------------------------------------------
# Coq literals
# ----------------------------------------------------------------------------
def c_arr(d):
    if isinstance(d, (list, tuple)):
        return f"(AN {clist([c_arr(x) for x in d])})"
    assert float(d) == int(d)
    return f"(A0 {cz(int(d))})"


def c_flag(f):
    k = f[0]
    if k == "py": return f"(FS Py {cbool(f[1])})"
    if k == "ar": return f"(FS Ar {cbool(f[1])})"
    return f"(FV {clist([cbool(b) for b in f[1]])})"


def c_fspec(f):
    return "FHole" if f[0] == "hole" else f"(FConst {c_flag(f)})"


def c_leaf(l):
    a, f = l
    ca = "AHole" if a[0] == "hole" else f"(AConst {c_arr(a[1])})"
    return f"(LS {ca} {copt(None if f is None else c_fspec(f))})"


def c_xcomp(c):
    k = c[0]
    if k == "s": return f"(XS {ID[c[1]]})"
    if k == "py": return f"(XI (IPy {cz(c[1])}))"
    if k == "ar": return f"(XI (IAr {cz(c[1])}))"
    if k == "vec": return f"(XI (IVec {clist([cz(z) for z in c[1]])}))"
    return "XHole"


def c_comp(c):
    k = c[0]
    if k == "s": return f"(CS {ID[c[1]]})"
    if k == "py": return f"(CI (LPy {cz(c[1])}))"
    return f"(CI (LAr {cz(c[1])}))"


def c_q(q):
    return clist([c_xcomp(c) for c in q])


def c_expr(e):
    k = e[0]
    if k == "empty": return "EEmpty"
    if k == "choice": return f"(EChoice {c_leaf(e[1])})"
    if k == "entry": return f"(EEntry {c_expr(e[1])} {c_q(e[2])})"
    if k == "setc": return f"(ESetC {c_q(e[1])} {c_expr(e[2])})"
    if k == "d": return "(ED " + clist([f"({c_q(q)}, {c_expr(v)})" for q, v in e[1]]) + ")"
    if k == "set": return f"(ESet {c_expr(e[1])} {c_q(e[2])} {c_expr(e[3])})"
    if k == "updid": return f"(EUpdId {c_expr(e[1])} {c_q(e[2])})"
    if k == "updconst": return f"(EUpdConst {c_expr(e[1])} {c_q(e[2])} {c_leaf(e[3])})"
    if k == "or": return f"(EOr {c_expr(e[1])} {c_expr(e[2])})"
    if k == "mask": return f"(EMask {c_fspec(e[1])} {c_expr(e[2])})"
    if k == "filter": return f"(EFilter {c_sterm(tup(e[1]))} {c_expr(e[2])})"
    if k == "extend": return f"(EExtend {c_expr(e[1])} {c_q(e[2])})"
    if k == "switch":
        i = f"(XPy {cz(e[1][1])})" if e[1][0] == "py" else f"(XArr {cz(e[1][1])})"
        return f"(ESwitch {i} {clist([c_expr(x) for x in e[2]])})"
    if k == "sub": return f"(ESub {c_expr(e[1])} {clist([c_comp(c) for c in e[2]])})"
    if k == "vmap":
        return f"(EVmap {clist([cz(z) for z in e[1]])} {clist([c_arr(v) for v in e[2]])} {clist([cbool(b) for b in e[3]])} {c_expr(e[4])})"
    raise ValueError(e)


def c_sterm(t):
    """selection term as coq/model/Sel.v's sterm (nat literals marked, the case files open Z_scope)"""
    k = t[0]
    ce = lambda c: "CEllipsis" if c == "..." else f"(CName {ID[c]})"
    if k == "all": return "TAll"
    if k == "none": return "TNone"
    if k == "leaf": return "TLeaf"
    if k == "at": return f"(TAt {clist([ce(c) for c in t[1]])})"
    if k == "or": return f"(TOr {c_sterm(t[1])} {c_sterm(t[2])})"
    if k == "and": return f"(TAnd {c_sterm(t[1])} {c_sterm(t[2])})"
    if k == "not": return f"(TNot {c_sterm(t[1])})"
    if k == "sub": return f"(TSub {c_sterm(t[1])} {clist([core.cnat(ID[c]) for c in t[2]])})"
    if k == "ext": return f"(TExt {c_sterm(t[1])} {clist([ce(c) for c in t[2]])})"
    raise ValueError(t)


def c_oarr(o):
    if o[0] == "N":
        return f"(ON {clist([c_oarr(x) for x in o[1:]])})"
    return f"(O0 {cz(o[0])} {cbool(o[1])})"


def c_query(q):
    if q[0] == "look": return f"(QLook {clist([c_comp(c) for c in q[1]])})"
    return f"(QSel {clist([core.cnat(ID[n]) for n in q[1]])})"


def c_ans(a):
    if a[0] == "err": return f"(AErr {a[1]})"
    if a[0] == "sel": return f"(ASel {cbool(a[1])})"
    v = a[2]
    cv = "None" if v is None else f"(Some ({cbool(v[0])}, {c_oarr(v[1])}))"
    return f"(ALook {cbool(a[1])} {cv})"


def c_qas(queries, answers):
    return clist([f"({c_query(q)}, {c_ans(a)})" for q, a in zip(queries, answers)])


def c_case_expr(e, built, queries, answers):
    return f"CExpr {c_expr(e)} {copt(built)} {c_qas(queries, answers)}"


COQ_HEADER = "From Coq Require Import List Bool ZArith.\nFrom Gen Require Import SelGen.\nFrom Model Require Import Sel Flag Chm."


# ----------------------------------------------------------------------------
# the reference: a finite map as a Python dict (the direct oracle)
# ----------------------------------------------------------------------------
class OutOfRegion(Exception):
    """the expression / address is outside the region where the property is claimed"""


class Ref:
    """keys: (trie path, element index tuple); trie path components are ("s",name) or
    ("i",k) (an index *level*); values: numbers.  Only valid entries are stored;
    `shape[trie path]` remembers leaf shapes (for jnp's index clamping)."""

    def __init__(self, e=None, shape=None):
        self.e = dict(e or {})
        self.shape = dict(shape or {})

    @staticmethod
    def leaf(vals, valid):
        vals, valid = np.asarray(vals, dtype=float), np.asarray(valid)
        valid = valid.reshape(valid.shape + (1,) * (vals.ndim - valid.ndim)) & np.ones(vals.shape, dtype=bool)
        r = Ref(shape={(): vals.shape})
        for ix in np.ndindex(*vals.shape):
            if valid[ix]:
                r.e[((), ix)] = float(vals[ix])
        return r

    def union(self, other):                       # left-biased; insertion order = priority
        e = dict(self.e)
        for k_, v_ in other.e.items():
            e.setdefault(k_, v_)
        for t in set(self.shape) & set(other.shape):
            if self.shape[t] != other.shape[t]:
                raise OutOfRegion("leaves of different shapes at one address")
        for t in self.shape:
            for u in other.shape:
                if t != u and (t[:len(u)] == u or u[:len(t)] == t):
                    raise OutOfRegion("a leaf above another leaf")
        sh = dict(other.shape); sh.update(self.shape)
        return Ref(e, sh)

    def mask(self, b):
        return Ref(self.e if b else {}, self.shape)

    def restrict(self, pred):
        keep = lambda t: pred([c[1] for c in t if c[0] == "s"])
        return Ref({k: v for k, v in self.e.items() if keep(k[0])}, {t: s for t, s in self.shape.items() if keep(t)})

    def prefix(self, comps):
        r = self
        for c in reversed(comps):
            if c[0] in ("s", "i"):
                r = Ref({((c,) + t, ix): v for (t, ix), v in r.e.items()}, {(c,) + t: s for t, s in r.shape.items()})
            else:                                   # ("vec", [k...]): the leading element axis becomes the index level
                ks = c[1]
                for t, s in r.shape.items():
                    if len(s) == 0 or s[0] != len(ks):
                        raise OutOfRegion("array-shaped index over a leaf without a matching leading axis")
                    if any(x[0] == "i" for x in t):
                        raise OutOfRegion("index level beneath an array-shaped index level")
                e = {}
                for (t, ix), v in r.e.items():
                    key = ((("i", ks[ix[0]]),) + t, ix[1:])
                    if ks.index(ks[ix[0]]) == ix[0]:      # first occurrence wins
                        e[key] = v
                sh = {}
                for t, s in r.shape.items():
                    for kk in ks:
                        sh[(("i", kk),) + t] = s[1:]
                r = Ref(e, sh)
        return r

    def lookup(self, p):
        """sub-map at address p: keys are (remaining trie path, remaining element indices)"""
        e, sh = {}, {}
        for t, s in self.shape.items():
            m = self._match(t, s, p)
            if m is not None:
                sh[m[0]] = s[len(m[1]):]
        for (t, ix), v in self.e.items():
            m = self._match(t, self.shape[t], p)
            if m is None:
                continue
            rest, pend = m
            if tuple(ix[:len(pend)]) == tuple(pend):
                e.setdefault((rest, ix[len(pend):]), v)      # two entries can answer one address (index before / after a name): the earlier wins
        return Ref(e, sh)

    @staticmethod
    def _match(t, shape, p):
        ti, pend = 0, []
        for c in p:
            if c[0] == "s":
                if ti < len(t) and t[ti] == ("s", c[1]):
                    ti += 1
                else:
                    return None
            else:
                z = c[1]
                if ti < len(t) and t[ti][0] == "i":
                    if pend:
                        raise OutOfRegion("index component above an index level")
                    if t[ti][1] != z:
                        return None
                    ti += 1
                else:
                    pend.append(z)
        if any(x[0] == "i" for x in t[ti:]) and pend:
            raise OutOfRegion("index component above an index level")
        if len(pend) > len(shape):
            raise OutOfRegion("more index components than the leaf has axes")
        norm = []
        for z, n in zip(pend, shape):
            if n == 0:
                raise OutOfRegion("empty axis")
            z = z + n if z < 0 else z
            norm.append(min(max(z, 0), n - 1))
        return t[ti:], norm

    def value(self):
        """valid elements of the value stored at the root: {element index: number}"""
        return {ix: v for (t, ix), v in self.e.items() if t == ()}


def sel_pred(term):
    return lambda names: selmod.spec(term, list(names))


def ref_leaf(l, env):
    a, f = l
    vals = env["v"] if a[0] == "hole" else a[1]
    if f is None: valid = True
    elif f[0] == "hole": valid = env["f"]
    else: valid = f[1]
    if np.ndim(valid) and (np.ndim(vals) == 0 or np.shape(vals)[0] != len(valid)):
        raise OutOfRegion("ill-shaped mask")
    return Ref.leaf(vals, valid)


def ref_comps(q, env):
    out = []
    for c in q:
        if c[0] == "s": out.append(("s", c[1]))
        elif c[0] in ("py", "ar"): out.append(("i", int(c[1])))
        elif c[0] == "hole": out.append(("i", int(env["i"])))
        else: out.append(("vec", [int(z) for z in c[1]]))
    return out


def ref_validate(q):
    dyn = [c for c in q if c[0] != "s"]
    while dyn and dyn[0][0] in ("py", "ar", "hole"):
        dyn = dyn[1:]
    if dyn and dyn[0][0] == "vec":
        dyn = dyn[1:]
    if dyn:
        raise OutOfRegion("address rejected by the builder")


def ref_eval(e, env=None):
    k = e[0]
    if k == "empty": return Ref()
    if k == "choice": return ref_leaf(e[1], env)
    if k == "entry": return ref_eval(e[1], env).prefix(ref_comps(e[2], env))
    if k == "setc":
        ref_validate(e[1])
        return ref_eval(e[2], env).prefix(ref_comps(e[1], env))
    if k == "d":
        acc = Ref()
        for q, v in e[1]:
            acc = acc.union(ref_eval(v, env).prefix(ref_comps(q, env)))      # earlier pairs win
        return acc
    if k == "set":
        ref_validate(e[2])
        return ref_eval(e[3], env).prefix(ref_comps(e[2], env)).union(ref_eval(e[1], env))
    if k == "updid":
        base = ref_eval(e[1], env)
        ref_validate(e[2])
        q = ref_comps(e[2], env)
        return base.lookup(q).prefix(q).union(base)
    if k == "updconst":
        ref_validate(e[2])
        return ref_leaf(e[3], env).prefix(ref_comps(e[2], env)).union(ref_eval(e[1], env))
    if k == "or": return ref_eval(e[1], env).union(ref_eval(e[2], env))
    if k == "mask":
        f = e[1]
        b = env["f"] if f[0] == "hole" else f[1]
        if isinstance(b, (list, tuple)):
            raise OutOfRegion("vector flag")
        return ref_eval(e[2], env).mask(bool(b))
    if k == "filter": return ref_eval(e[2], env).restrict(sel_pred(tup(e[1])))
    if k == "extend": return ref_eval(e[1], env).prefix(ref_comps(e[2], env))
    if k == "switch":
        ms = [ref_eval(x, env) for x in e[2]]
        z = int(e[1][1])
        if e[1][0] == "py":
            if not -len(ms) <= z < len(ms):
                raise OutOfRegion("Python switch index out of range")
            return ms[z]
        if not 0 <= z < len(ms):
            raise OutOfRegion("array switch index out of range")
        sh = {}
        for m in ms:
            sh.update(m.shape)
        return Ref(ms[z].e, sh)
    if k == "sub": return ref_eval(e[1], env).lookup(ref_comps(e[2], env))
    if k == "vmap":
        idx, vals, flags, body = e[1], e[2], e[3], e[4]
        n = len(idx)
        rows = [ref_eval(body, {"i": idx[r], "v": vals[r], "f": flags[r]}) for r in range(n)]
        sh = {}
        abstract = lambda m: {tuple(("i", None) if c[0] == "i" else c for c in t): s for t, s in m.shape.items()}
        shapes0 = abstract(rows[0])
        for m in rows:
            if abstract(m) != shapes0:
                raise OutOfRegion("rows of different structure")
            for t, s in m.shape.items():
                levels = sum(1 for c in t if c[0] == "i")
                if levels >= 2:
                    raise OutOfRegion("index level beneath an array-shaped index level")
                if levels == 1:
                    sh.setdefault(t, s)         # the index level consumes the row axis
                else:
                    sh[t] = (n,) + tuple(s)     # otherwise the leaf gains a leading axis
        return _vmap_fix(rows, sh)
    raise ValueError(e)


def _vmap_fix(rows, sh):
    """entries of a shadowed row (same index value as an earlier row) are invisible:
    rebuild the entry table taking, per (path, index value), only the first row"""
    out = {}
    owner = {}
    for r, m in enumerate(rows):
        for t in m.shape:
            lv = [c for c in t if c[0] == "i"]
            if lv:
                owner.setdefault(t, r)
    for r, m in enumerate(rows):
        for (t, ix), v in m.e.items():
            lv = [c for c in t if c[0] == "i"]
            if lv:
                if owner[t] == r:
                    out[(t, ix)] = v
            else:
                out[(t, (r,) + tuple(ix))] = v
    return Ref(out, sh)


def valid_view(val):
    """{element index: number} of a canonical value"""
    out = {}

    def go(o, ix):
        if o[0] == "N":
            for i, x in enumerate(o[1:]):
                go(x, ix + (i,))
        elif o[1]:
            out[ix] = float(o[0])
    go(val[1], ())
    return out


def oracle_look(ref, q, ans):
    """None if the implementation's answer agrees with the finite map (or the address is
    outside the claimed region / the implementation raised), else a description"""
    if ans[0] == "err":
        return None
    p = ref_comps(q[1], None)
    try:
        want = ref.lookup(p).value()
    except OutOfRegion:
        return None
    got = {} if ans[2] is None else valid_view(ans[2])
    if got != want:
        return f"lookup {q[1]}: implementation has valid elements {got}, the finite map has {want}"
    return None


# ----------------------------------------------------------------------------
# region predicates on expressions (where the oracle / the theorems apply)
# ----------------------------------------------------------------------------
def subexprs(e):
    yield e
    k = e[0]
    kids = {"entry": [e[1]] if k == "entry" else [], "setc": [e[2]] if k == "setc" else [], "d": [v for _, v in e[1]] if k == "d" else [],
            "set": [e[1], e[3]] if k == "set" else [], "updid": [e[1]] if k == "updid" else [], "updconst": [e[1]] if k == "updconst" else [],
            "or": [e[1], e[2]] if k == "or" else [], "mask": [e[2]] if k == "mask" else [], "filter": [e[2]] if k == "filter" else [],
            "extend": [e[1]] if k == "extend" else [], "switch": list(e[2]) if k == "switch" else [], "sub": [e[1]] if k == "sub" else [],
            "vmap": [e[4]] if k == "vmap" else []}.get(k, [])
    for x in kids:
        yield from subexprs(x)


def has_index_level(e):
    for x in subexprs(e):
        qs = []
        if x[0] in ("entry", "extend"): qs = [x[2]]
        elif x[0] == "setc": qs = [x[1]]
        elif x[0] in ("set", "updid", "updconst"): qs = [x[2]]
        elif x[0] == "d": qs = [q for q, _ in x[1]]
        if any(c[0] != "s" for q in qs for c in q):
            return True
    return False


def has_array_switch(e):
    return any(x[0] == "switch" and x[1][0] == "ar" for x in subexprs(e))


def size(e):
    return sum(1 for _ in subexprs(e))


# ----------------------------------------------------------------------------
# generation (structured, mostly valid; `rng` is the only source of randomness)
# ----------------------------------------------------------------------------
VECS = [[0, 1, 2], [2, 0, 1], [4, 5, 6], [1, 1, 0], [0, 2, 1]]


class Gen:
    def __init__(self, rng):
        self.rng = rng
        self.counter = 0
        self.paths = []          # (builder path, leaf shape) mentioned so far, for query generation

    def val(self):
        self.counter += 1
        return self.counter

    def data(self, shape):
        if len(shape) == 0:
            return self.val()
        return [self.data(shape[1:]) for _ in range(shape[0])]

    # -- schema: a prefix-free set of leaf paths with shapes -------------------
    def schema(self):
        rng = self.rng
        paths = []
        for n in rng.sample(NAMES[:3], rng.randint(1, 3)):
            if rng.random() < 0.55:
                paths.append([n])
            else:
                for m in rng.sample(NAMES[:3], rng.randint(1, 2)):
                    paths.append([n, m] if rng.random() < 0.75 else [n, m, rng.choice(NAMES[:3])])
        leaves = []
        for p in paths:
            q = [("s", n) for n in p]
            r = rng.random()
            shape = () if r < 0.55 else (3,) if r < 0.85 else (2,) if r < 0.9 else (3, 2)
            if rng.random() < 0.35:
                pos = rng.randint(0, len(q))
                k = rng.random()
                if k < 0.3 and len(shape) >= 1 and shape[0] == 3:
                    q = q[:pos] + [("vec", rng.choice(VECS))] + q[pos:]
                    # the level consumes the leading axis of the leaf
                else:
                    q = q[:pos] + [(rng.choice(["py", "ar"]), rng.randint(0, 2))] + q[pos:]
            leaves.append({"q": q, "shape": shape})
        return leaves

    def flag(self, shape=None, allow_vec=True):
        rng = self.rng
        r = rng.random()
        if allow_vec and shape and r < 0.25:
            return ("v", [rng.random() < 0.6 for _ in range(shape[0])])
        if r < 0.75:
            return ("ar", rng.random() < 0.6)
        return ("py", rng.random() < 0.6)

    def leaf(self, shape):
        rng = self.rng
        kind = "py" if (len(shape) == 0 and rng.random() < 0.5) else "arr"
        f = self.flag(shape, allow_vec=(len(shape) == 1 or (len(shape) == 2 and rng.random() < 0.3))) if rng.random() < 0.25 else None
        return (("c", self.data(shape), kind), f)

    def instance(self, sl):
        """(path, leaf) of a schema leaf, index values possibly varied"""
        rng = self.rng
        q = []
        for c in sl["q"]:
            if c[0] in ("py", "ar") and rng.random() < 0.3:
                q.append((rng.choice(["py", "ar"]), rng.randint(0, 2)))
            else:
                q.append(c)
        self.paths.append((q, sl["shape"]))
        return q, self.leaf(sl["shape"])

    def nest(self, items):
        """[(path of s/py comps, leaf)] -> nested ("d", ...) with one-component keys"""
        groups, order = {}, []
        for q, l in items:
            if q[0] not in groups:
                groups[q[0]] = []; order.append(q[0])
            groups[q[0]].append((q[1:], l))
        pairs = []
        for k in order:
            sub = groups[k]
            if any(len(q) == 0 for q, _ in sub):
                pairs.append(([k], ("choice", sub[0][1])))
            else:
                pairs.append(([k], self.nest(sub)))
        style = "kw" if all(k[0] == "s" for k in order) and self.rng.random() < 0.5 else "d"
        return ("d", pairs, style)

    def base(self, schema):
        rng = self.rng
        items = [self.instance(sl) for sl in rng.sample(schema, rng.randint(1, min(3, len(schema))))]
        r = rng.random()
        hashable = all(c[0] in ("s", "py") for q, _ in items for c in q)
        distinct = len({repr(q) for q, _ in items}) == len(items)
        if r < 0.3 and hashable and distinct:
            return self.nest(items)
        if r < 0.45 and hashable and distinct:
            return ("d", [(q, ("choice", l)) for q, l in items], "d")
        if r < 0.55:
            return ("d", [(q, ("choice", l)) for q, l in items], "fm")
        if r < 0.65:
            q, l = items[0]
            return ("entry", ("choice", l), q)
        acc = None
        for q, l in items:
            if acc is None:
                acc = ("setc", q, ("choice", l))
            elif rng.random() < 0.5:
                acc = ("or", acc, ("setc", q, ("choice", l)))
            else:
                acc = ("set", acc, q, ("choice", l))
        return acc

    def sel_term(self, schema):
        rng = self.rng
        names = lambda q: [c[1] for c in q if c[0] == "s"]

        def atom():
            r = rng.random()
            sl = rng.choice(schema)
            p = names(sl["q"])
            if r < 0.45 and p: return ("at", p[:rng.randint(1, len(p))])
            if r < 0.55 and p: return ("at", ["..."] + p[1:]) if len(p) > 1 else ("at", p)
            if r < 0.65: return ("all",)
            if r < 0.7: return ("none",)
            if r < 0.75: return ("leaf",)
            return selmod.gen_term(rng, 1)
        r = rng.random()
        if r < 0.45: return atom()
        if r < 0.65: return ("not", atom())
        if r < 0.85: return ("or", atom(), atom())
        return ("and", atom(), ("not", atom()))

    def lookup_of(self, q, shape, exact=True):
        """a lookup address derived from a builder path"""
        rng = self.rng
        p = []
        for c in q:
            if c[0] == "s": p.append(("s", c[1]))
            elif c[0] in ("py", "ar"):
                z = c[1] if (exact or rng.random() < 0.6) else rng.randint(0, 3)
                p.append((rng.choice(["py", "ar"]), z))
            elif c[0] == "vec":
                z = rng.choice(c[1]) if (exact or rng.random() < 0.7) else rng.randint(0, 7)
                p.append((rng.choice(["py", "ar"]), z))
            else:
                p.append((rng.choice(["py", "ar"]), rng.randint(0, 2)))
        return p

    def queries(self, k=6, ksel=2):
        rng = self.rng
        out = []
        paths = self.paths or [([("s", "a")], ())]
        for _ in range(k):
            q, shape = rng.choice(paths)
            rest = shape[1:] if any(c[0] == "vec" for c in q) else shape
            r = rng.random()
            if r < 0.3:
                p = self.lookup_of(q, shape, exact=True)
            elif r < 0.45:
                p = self.lookup_of(q, shape, exact=False)
            elif r < 0.6:
                p = self.lookup_of(q, shape, exact=True)
                for n in rest[:rng.randint(0, len(rest))] if rest else []:
                    p.append((rng.choice(["py", "ar"]), rng.randint(0, n - 1) if rng.random() < 0.8 else rng.randint(-4, 4)))
                if not rest and rng.random() < 0.3:
                    p.append(("py", 0))
            elif r < 0.7:
                p = self.lookup_of(q, shape, exact=True)
                p = p[:rng.randint(0, len(p))]
            elif r < 0.8 and rest and all(c[0] == "s" for c in q):
                p = [("py", rng.randint(0, rest[0] - 1))] + self.lookup_of(q, shape)
                if rng.random() < 0.5 and len(p) > 2:
                    p[0], p[1] = p[1], p[0]
            elif r < 0.9:
                p = self.lookup_of(q, shape, exact=True)
                if p and rng.random() < 0.5:
                    i = rng.randrange(len(p))
                    p[i] = ("s", "d") if p[i][0] == "s" else ("s", "a")
                else:
                    p.append(("s", rng.choice(NAMES)))
            else:
                p = [rng.choice([("s", rng.choice(NAMES)), ("py", rng.randint(0, 2)), ("ar", rng.randint(0, 2))]) for _ in range(rng.randint(0, 3))]
            out.append(("look", p))
        for _ in range(ksel):
            q, shape = rng.choice(paths)
            names = [c[1] for c in q if c[0] == "s"]
            r = rng.random()
            if r < 0.5: s = names
            elif r < 0.7: s = names[:rng.randint(0, len(names))]
            elif r < 0.85: s = names + [rng.choice(NAMES)]
            else: s = [rng.choice(NAMES) for _ in range(rng.randint(0, 2))]
            out.append(("sel", s))
        return out

    def vmap(self):
        rng = self.rng
        n = 3
        idx = list(rng.choice(VECS))
        rowshape = () if rng.random() < 0.7 else (2,)
        vals = [self.data(rowshape) for _ in range(n)]
        flags = [rng.random() < 0.6 for _ in range(n)]
        r = rng.random()
        s1, s2 = ("s", rng.choice(NAMES[:3])), ("s", rng.choice(NAMES[:3]))
        if r < 0.25: q = [("hole",)]
        elif r < 0.45: q = [s1, ("hole",)]
        elif r < 0.65: q = [("hole",), s1]
        elif r < 0.75: q = [s1, ("hole",), s2]
        elif r < 0.9: q = [s1]
        elif r < 0.95: q = [("hole",), (rng.choice(["py", "ar"]), rng.randint(0, 1))]
        else: q = [(rng.choice(["py", "ar"]), rng.randint(0, 1)), ("hole",)]
        r = rng.random()
        f = None if r < 0.6 else ("hole",) if r < 0.85 else ("ar", rng.random() < 0.5) if r < 0.95 else ("py", rng.random() < 0.5)
        body = ("setc", q, ("choice", (("hole",), f)))
        full = [("vec", idx) if c[0] == "hole" else c for c in q]
        self.paths.append((full, ((n,) + rowshape)))
        for _ in range(rng.randint(0, 2)):
            r = rng.random()
            if r < 0.35:
                s3 = ("s", rng.choice(NAMES[:3]))
                other = ("setc", [s3], ("choice", (("c", self.val(), rng.choice(["py", "arr"])), None)))
                self.paths.append(([s3], (n,)))
                body = ("or", body, other) if rng.random() < 0.5 else ("or", other, body)
            elif r < 0.6:
                body = ("mask", rng.choice([("hole",), ("ar", rng.random() < 0.5), ("py", rng.random() < 0.7)]), body)
            elif r < 0.8:
                s3 = ("s", rng.choice(NAMES[:3]))
                body = ("extend", body, [s3])
                self.paths[-1] = ([s3] + self.paths[-1][0], self.paths[-1][1])
            else:
                body = ("filter", ("not", ("at", [rng.choice(NAMES[:3])])), body)
        return ("vmap", idx, vals, flags, body)

    def expr(self, schema, depth):
        rng = self.rng
        if depth == 0:
            return self.base(schema)
        r = rng.random()
        sub = lambda: self.expr(schema, rng.randint(0, depth - 1))
        if r < 0.24:
            return ("or", sub(), sub())
        if r < 0.36:
            q, l = self.instance(rng.choice(schema))
            if rng.random() < 0.25 and len(q) > 1:
                k = rng.randint(1, len(q) - 1)
                return ("set", sub(), q[:k], ("setc", q[k:], ("choice", l)))
            return ("set", sub(), q, ("choice", l))
        if r < 0.48:
            f = self.flag(None, allow_vec=False) if rng.random() < 0.95 else ("v", [rng.random() < 0.5 for _ in range(3)])
            return ("mask", f, sub())
        if r < 0.6:
            return ("filter", self.sel_term(schema), sub())
        if r < 0.66:
            k = rng.random()
            q = [("s", rng.choice(NAMES[:3]))] if k < 0.6 else [(rng.choice(["py", "ar"]), rng.randint(0, 2))] if k < 0.85 else [("s", rng.choice(NAMES[:3])), (rng.choice(["py", "ar"]), rng.randint(0, 2))]
            x = sub()
            self.paths = [(q + p, s) for p, s in self.paths[-3:]] + self.paths
            return ("extend", x, q)
        if r < 0.76:
            n = rng.randint(2, 3)
            r2 = rng.random()
            idx = ("ar", rng.randint(0, n - 1)) if r2 < 0.55 else ("py", rng.randint(-n, n - 1)) if r2 < 0.85 else (rng.choice(["ar", "py"]), rng.randint(-n - 1, n + 1))
            return ("switch", idx, [sub() for _ in range(n)])
        if r < 0.82:
            x = sub()
            q, shape = rng.choice(self.paths) if self.paths else ([("s", "a")], ())
            p = self.lookup_of(q, shape, exact=rng.random() < 0.8)
            p = p[:rng.randint(1, len(p))] if p else p
            self.paths = [(pp[len(p):], s) for pp, s in self.paths if len(pp) >= len(p)] + self.paths
            return ("sub", x, p)
        if r < 0.88:
            x = sub()
            q, l = self.instance(rng.choice(schema))
            q = [c for c in q if c[0] != "vec"] or [("s", "a")]
            if rng.random() < 0.5:
                return ("updid", x, q[:rng.randint(1, len(q))])
            return ("updconst", x, q, (("c", self.val(), "py"), None))
        if r < 0.96:
            v = self.vmap()
            if rng.random() < 0.4:
                return ("or", v, sub()) if rng.random() < 0.5 else ("or", sub(), v)
            return v
        q, l = self.instance(rng.choice(schema))
        return ("entry", sub(), q[:1])


def gen_case(rng, maxdepth=3, nlook=6, nsel=2):
    g = Gen(rng)
    schema = g.schema()
    r = rng.random()
    depth = 0 if r < 0.15 else 1 if r < 0.45 else 2 if r < 0.8 else maxdepth
    e = g.expr(schema, depth)
    qs = g.queries(nlook, nsel)
    if rng.random() < 0.06:
        # "mask(False) empties the map": observed at the root and at the usual addresses
        e = ("mask", ("py", False), e)
        qs = [("look", [])] + qs
    return e, qs


def gen_malformed(rng):
    """small stream of ill-formed constructions: exceptions are compared as the enum"""
    g = Gen(rng)
    leaf = lambda shape=(): g.leaf(shape)
    s = lambda: ("s", rng.choice(NAMES[:3]))
    k = rng.randrange(9)
    if k == 0: e = ("setc", [("vec", [0, 1, 2]), ("py", 0)], ("choice", (("c", g.data((3,)), "arr"), None)))
    elif k == 1: e = ("setc", [("vec", [0, 1, 2]), s(), ("vec", [0, 1, 2])], ("choice", (("c", g.data((3,)), "arr"), None)))
    elif k == 2: e = ("or", ("choice", leaf()), ("setc", [s()], ("choice", leaf())))
    elif k == 3:
        a = s()
        e = ("or", ("setc", [a], ("choice", leaf())), ("setc", [a, s()], ("choice", leaf())))
    elif k == 4:
        sw = lambda: ("switch", ("ar", rng.randint(0, 1)), [("setc", [s()], ("choice", leaf())), ("setc", [s()], ("choice", leaf()))])
        e = ("or", sw(), sw())
    elif k == 5: e = ("setc", [s()], ("choice", (("c", g.data((3,)), "arr"), ("v", [True, False]))))
    elif k == 6: e = ("switch", ("py", rng.choice([-3, 2, 5])), [("setc", [s()], ("choice", leaf())), ("setc", [s()], ("choice", leaf()))])
    elif k == 7: e = ("mask", ("v", [True, False]), ("setc", [s()], ("choice", (("c", g.data((3,)), "arr"), None))))
    else:
        a = s()
        e = ("or", ("setc", [a], ("choice", (("c", g.data((3,)), "arr"), ("ar", True)))), ("setc", [a], ("choice", leaf())))
    if rng.random() < 0.5:
        e = rng.choice([("extend", e, [s()]), ("mask", ("ar", True), e), ("or", ("setc", [("s", "d")], ("choice", leaf())), e)])
    return e, [("look", [("s", "a")]), ("look", [])]


# fixed expressions outside the region in which C17 is claimed (see notes/C17.md); the model
# reproduces them, the finite map does not
OUTSIDE = {
    "nested_index_under_vmap": (("vmap", [0, 1, 2], [10, 20, 30], [True, True, True],
                                 ("setc", [("hole",), ("py", 0)], ("choice", (("hole",), None)))),
                                [("look", [("py", 1), ("py", 0)]), ("look", [("py", 1)])]),
    "nested_vector_index": (("setc", [("vec", [0, 1, 2])], ("setc", [("vec", [5, 6, 7])], ("choice", (("c", [10, 20, 30], "arr"), None)))),
                            [("look", [("py", 1), ("py", 6)])]),
    "get_selection_under_index": (("setc", [("py", 0), ("s", "a")], ("choice", (("c", 1, "py"), None))),
                                  [("sel", ["a"]), ("look", [("py", 0), ("s", "a")])]),
    "mask_false_keeps_array_masked": (("mask", ("py", False), ("setc", [("s", "a")], ("choice", (("c", 1, "py"), ("ar", True))))),
                                      [("look", [("s", "a")]), ("look", [])]),
    "switch_out_of_range_or": (("or", ("switch", ("ar", 5), [("setc", [("s", "a")], ("choice", (("c", 1, "py"), None))),
                                                            ("setc", [("s", "a")], ("choice", (("c", 2, "py"), None)))]),
                                ("setc", [("s", "b")], ("choice", (("c", 7, "py"), None)))),
                               [("look", [("s", "b")])]),
}
