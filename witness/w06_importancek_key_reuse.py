"""fixed-defect witness: ImportanceK.run_smc gave each particle's proposal and
that particle's target.importance call the same PRNG key (C26).
exit 1 if a proposal site and a model site of one particle share a key."""
import sys, jax, jax.numpy as jnp
import genjax
from genjax import gen, ChoiceMap as C, Selection as S
from genjax._src.generative_functions.distributions.distribution import exact_density
from genjax.inference import Target
from genjax.inference.smc import ImportanceK, Importance

def _sample(key):
    kd = jax.random.key_data(key)
    return (kd % (2**20)).astype(jnp.float32)
echo = exact_density(_sample, lambda v: jnp.zeros(()), "echo")

@gen
def inner():
    return echo() @ "y"

@gen
def model():
    y = inner() @ "in"
    x = echo() @ "x"
    o = echo() @ "obs"
    return x

@gen
def qf(target):
    x = echo() @ "x"
    return x

bad = []
for seed in range(3):
    key = jax.random.key(seed)
    target = Target(model, (), C.d({"obs": jnp.zeros(2)}))
    for name, alg in [("ImportanceK", ImportanceK(target, qf.marginal(), 3)), ("Importance", Importance(target, qf.marginal()))]:
        pc = alg.run_smc(key)
        chm = pc.get_particles().get_choices()
        xs = chm[..., "x"] if False else jax.vmap(lambda t: t.get_choices()["x"])(pc.get_particles())
        ys = jax.vmap(lambda t: t.get_choices()["in", "y"])(pc.get_particles())
        for i in range(xs.shape[0]):
            if bool(jnp.all(xs[i] == ys[i])):
                bad.append((name, seed, i, [int(t) for t in xs[i]]))
print("FAIL" if bad else "OK", bad[:3])
sys.exit(1 if bad else 0)
