#!/bin/bash
# tools/prep_agent.sh <name> : private copy of /verif for a modelling sub-agent + its brief
name=$1; w=/tmp/agents/$name/verif
mkdir -p /tmp/agents/$name
rsync -a --exclude .git --exclude 'coq/cases/*' --exclude out --exclude .cache /verif/ $w/
sed "s|{WORK}|$w|g" /verif/tools/AGENT_BRIEF.md > /tmp/agents/$name/BRIEF.md
echo $w
