"""candidate finding (C32): keyword arguments given to a generative function that is not a static
function or an exact_density distribution (every combinator: vmap, repeat, scan, switch, mask, dimap, ...)
are dropped without an error by the default handle_kwargs (IgnoreKwargs); the Python default is used.
exit 1 if the keyword argument is ignored."""
import sys, warnings
warnings.filterwarnings("ignore")
import jax, jax.numpy as jnp
from genjax import gen, normal

@gen
def f(x, scale=1.0):
    y = normal(x, 1.0) @ "y"
    return y * scale

key = jax.random.key(0)
xs = jnp.arange(3.0)
via_kw = f.vmap(in_axes=(0,))(xs, scale=5.0).simulate(key, ()).get_retval()                        # scale silently 1
ys = f.vmap(in_axes=(0,)).simulate(key, (xs,)).get_retval()                                        # scale = 1 (default)
ignored = bool(jnp.all(via_kw == ys)) and not bool(jnp.all(via_kw == 5.0 * ys))
print("FAIL keyword argument scale=5.0 ignored by the vmapped function" if ignored else "OK", via_kw, ys)
sys.exit(1 if ignored else 0)
