"""C13, the `mix` clause.  genjax.mix(g_1 .. g_n) is realised on /repo with components built from the integer-exact
probes; per case: simulate, assess on own choices, two importance runs (component index constrained; index and some
of the component's choices constrained).

Two ties:
 (a) to the Coq model (coq/model/Derived.v g_mix, GFIRun.v mix_mismatches): the "component_sample" sub-execution must be
     exactly what the model's switch computes with the key of the static function's second site
     (fold_in key 2), the component index read from "mixture_component", and the component arguments — score,
     return value, every address, importance weight (integers, compared inside Coq by vm_compute);
 (b) direct oracle (floats, tolerance 1e-5): score = log_softmax(logits)[index] + component score; return value and
     choices are the component's; importance weight = log_softmax(logits)[j] + the component's importance weight.
"""
import math
import random
from . import core, gfi, gfi_run, bgfi

TOL = 1e-5


def make(seed):
    rng = random.Random(seed)
    G = gfi.Gen(rng)
    nb = rng.choice([2, 2, 3])
    bs, bats = [], []
    for _ in range(nb):
        g, gat, grt = G.static(1, ["S"] * rng.randint(0, 2), "S")
        bs.append(g); bats.append(("T", gat))
    prog = ("switch", bs)
    corep = gfi.desugar(prog)
    argt = ["I"] + bats
    lens = gfi_run.lens_of(corep, argt, None)
    univ = []
    for p in gfi.addresses_n(corep, list(lens)):
        if p not in univ:
            univ.append(p)
    bargs = [[rng.randint(-3, 3) for _ in t[1]] for t in bats]
    logits = [rng.randint(-4, 4) / 4.0 for _ in range(nb)]
    return {"seed": seed, "prog": prog, "core": corep, "argt": argt, "rett": "S", "univ": univ[:40], "junk": [],
            "bargs": bargs, "bats": bats, "logits": logits, "keyseed": rng.randint(0, 10 ** 6), "rngseed": rng.randint(0, 10 ** 9)}


def lsm(logits):
    m = max(logits)
    z = m + math.log(sum(math.exp(x - m) for x in logits))
    return [x - z for x in logits]


def run(case):
    import jax
    import jax.numpy as jnp
    import numpy as np
    import genjax
    from genjax import ChoiceMapBuilder as C
    gfi_run.worker_init()
    rng = random.Random(case["rngseed"])
    comps = [gfi.realise(b) for b in case["prog"][1]]
    mix = genjax.mix(*comps)
    jb = tuple(gfi.to_jax(v, t) for v, t in zip(case["bargs"], case["bats"]))
    args = (jnp.array(case["logits"], dtype=jnp.float32),) + jb
    lp = lsm(case["logits"])
    nb = len(comps)
    out = {"fails": [], "gens": []}

    def close(a, b):
        return abs(float(a) - float(b)) <= TOL * max(1.0, abs(float(a)), abs(float(b)))

    def sub_obs(tr):
        return gfi_run.observe(tr.get_subtrace("component_sample"), case)

    key = jax.random.key(case["keyseed"])
    tr = mix.simulate(key, args)
    idx = int(np.asarray(tr.get_choices()["mixture_component"]))
    o = sub_obs(tr)
    out["sim"] = {"idx": idx, "obs": o}
    if not (0 <= idx < nb):
        out["fails"].append(f"mixture_component = {idx} is not a component index")
    else:
        if not close(tr.get_score(), lp[idx] + o["score"]):
            out["fails"].append(f"score {float(tr.get_score())} != log_softmax(logits)[{idx}] + component score = {lp[idx] + o['score']}")
        if not close(tr.get_retval(), o["ret"]):
            out["fails"].append(f"return value {float(tr.get_retval())} is not the component's {o['ret']}")
        chm = tr.get_choices()("component_sample")
        for p, v in o["look"]:
            pv = gfi.lookup(chm, list(p))
            if pv != v:
                out["fails"].append(f"choice at component_sample/{p}: {pv}, the component's subtrace holds {v}")
                break
        sc, rv = mix.assess(tr.get_choices(), args)
        if not (close(sc, tr.get_score()) and close(rv, tr.get_retval())):
            out["fails"].append(f"assess on the trace's own choices gives ({float(sc)}, {float(rv)}), trace has ({float(tr.get_score())}, {float(tr.get_retval())})")
    # importance: the component index constrained, then also some of that component's choices
    for gi in range(2):
        j = rng.randrange(nb)
        ents = []
        if gi == 1 and out["gens"]:
            j = out["gens"][0]["j"]
            present = [(p, v) for p, v in out["gens"][0]["obs"]["look"] if v is not None]
            ents = [(p, rng.randint(-3, 3)) for p, v in present if rng.random() < 0.6]
        c = C["mixture_component"].set(jnp.array(j, dtype=jnp.int32))
        for p, v in ents:
            c = c | C["component_sample", *gfi.path_key(p)].set(jnp.array(float(v), dtype=jnp.float32))
        kseed = case["keyseed"] + 17 * (gi + 1)
        tg, w = mix.importance(jax.random.key(kseed), c, args)
        og = sub_obs(tg)
        jj = int(np.asarray(tg.get_choices()["mixture_component"]))
        rec = {"j": j, "seed": kseed, "entries": ents, "obs": og, "w": float(w)}
        # the component's part of the weight is an integer (probes): read it off, the model recomputes it exactly
        wc = int(round(float(w) - lp[j]))
        rec["wc"] = wc
        if jj != j:
            out["fails"].append(f"importance with mixture_component constrained to {j} returned component {jj}")
        elif not close(w, lp[j] + wc):
            out["fails"].append(f"importance weight {float(w)} is not log_softmax(logits)[{j}] = {lp[j]} plus the (integer) weight of a component")
        elif not close(tg.get_score(), lp[j] + og["score"]):
            out["fails"].append(f"importance: score {float(tg.get_score())} != log_softmax(logits)[{j}] + component score {og['score']}")
        out["gens"].append(rec)
    return out


def c_case(case, out):
    """Coq term of type mixcase"""
    def args_of(idx):
        vals = [idx] + case["bargs"]
        return core.clist([gfi.c_val(v, t) for v, t in zip(vals, case["argt"])])
    gens = []
    for g in out["gens"]:
        ents = gfi.c_entries(g["entries"])
        gens.append(f"({g['seed']}%N, {args_of(g['j'])}, {ents}, ({gfi_run.c_tobs(g['obs'], case)}, {core.cz(g['wc'])}))")
    return (f"{{| mx_prog := {gfi.c_dgf(case['prog'])}; mx_seed := {case['keyseed']}%N; mx_args := {args_of(out['sim']['idx'])}; "
            f"mx_sim := {gfi_run.c_tobs(out['sim']['obs'], case)}; mx_gen := {core.clist(gens)} |}}")


def worker(seed):
    case = make(seed)
    try:
        out = run(case)
    except AssertionError as e:
        return case, {"skip": f"inexact: {e}"}
    except Exception as e:
        return case, {"error": f"{type(e).__name__}: {str(e)[:300]}"}
    return case, out


def check(ctx):
    """called by p_C13 after the engine part"""
    import multiprocessing as mp
    n = ctx.n(12, 60)
    seeds = [ctx.seed * 100000 + 70000 + i for i in range(n)]
    res = core.run_pool(worker, seeds, procs=8, on_dead=lambda sd: (make(sd), {"skip": "worker died"}))
    terms, kept = [], []
    nfail = 0
    for case, out in res:
        if "skip" in out:
            continue
        if "error" in out:
            nfail += 1
            if nfail <= 3:
                ctx.fail("oracle", f"mix: an operation raised on a mixture of probe components: {out['error']} (components {str(case['prog'])[:300]})",
                         case={"mix_seed": case["seed"]})
            continue
        for f in out["fails"][:1]:
            nfail += 1
            if nfail <= 3:
                ctx.fail("oracle", f"mix: {f} (logits {case['logits']}, component arguments {case['bargs']}, components {str(case['prog'])[:300]})",
                         case={"mix_seed": case["seed"]})
        terms.append(c_case(case, out)); kept.append(case)
    mism, errors = core.coq_mismatches("C13mix", bgfi.HDR, terms, "mixcase", fn="mix_mismatches", shard=30)
    for e in errors[:2]:
        ctx.fail("correspondence", "mix case file did not evaluate: " + e)
    for i in mism[:3]:
        ctx.fail("correspondence", f"model (coq/model/Derived.v g_mix: the switch at the second site's key) and implementation disagree on the "
                 f"component sub-execution of mix case seed={kept[i]['seed']}: components {str(kept[i]['prog'])[:300]}", case=None)
    ctx.cov["mix"] = {"cases": len(res), "compared_with_model": len(terms) - len(mism), "operations": "simulate, assess on own choices, 2 importance runs",
                      "components": "2-3 static functions over the probes (depth 1), dyadic logits"}
    ctx.cov["evaluations"] += 4 * len(terms)
    ctx.cov["traces_validated_against_impl"] += 4 * (len(terms) - len(mism))


def replay(seed):
    case, out = worker(seed)
    if "error" in out:
        print("raised:", out["error"]); return False
    if "skip" in out:
        print("skipped:", out["skip"]); return True
    for f in out["fails"]:
        print("mix:", f)
    print("components:", str(case["prog"])[:600], "logits", case["logits"], "arguments", case["bargs"])
    return not out["fails"]
