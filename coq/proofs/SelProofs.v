(* Proofs about the *generated* selection classes (C18). *)
From Coq Require Import List Bool Arith Lia.
Import ListNotations.
From Gen Require Import SelGen.
From Model Require Import Sel.

Lemma ecomp_eqb_true a b : ecomp_eqb a b = true -> a = b.
Proof. destruct a, b; simpl; intros H; try discriminate; auto.
  apply Nat.eqb_eq in H; subst; auto. Qed.

Lemma sel_eqb_true : forall a b, sel_eqb a b = true -> a = b.
Proof.
  induction a; destruct b; simpl; intros H; try discriminate; auto;
    repeat match goal with
           | H : _ && _ = true |- _ => apply andb_prop in H; destruct H
           end;
    repeat match goal with
           | IH : forall b, sel_eqb ?a b = true -> ?a = b, H : sel_eqb ?a _ = true |- _ =>
               apply IH in H; subst
           | H : ecomp_eqb _ _ = true |- _ => apply ecomp_eqb_true in H; subst
           end; auto.
Qed.

Lemma mem_cons s a p : mem s (a :: p) = mem (get_subselection s a) p.
Proof. reflexivity. Qed.
Lemma mem_nil s : mem s [] = check s.
Proof. reflexivity. Qed.

Lemma mem_all p : mem AllSel p = true.
Proof. induction p as [|a p IH]; [reflexivity|]. rewrite mem_cons. exact IH. Qed.
Lemma mem_none p : mem NoneSel p = false.
Proof. induction p as [|a p IH]; [reflexivity|]. rewrite mem_cons. exact IH. Qed.
Lemma mem_leaf p : mem LeafSel p = is_nil p.
Proof. destruct p as [|a p]; [reflexivity|]. rewrite mem_cons. simpl. apply mem_none. Qed.

(* ---- complement ---- *)
Lemma mem_compl_both : forall p s,
  mem (ComplementSel s) p = negb (mem s p) /\
  mem (ComplementSel_build s) p = negb (mem s p).
Proof.
  induction p as [|a p IH]; intros s.
  - split; [reflexivity|].
    destruct s; cbn [ComplementSel_build]; try reflexivity.
    rewrite !mem_nil. cbn [check]. now rewrite negb_involutive.
  - assert (H1 : forall s0, mem (ComplementSel s0) (a :: p) = negb (mem s0 (a :: p))).
    { intros s0. rewrite !mem_cons. cbn [get_subselection]. apply (proj2 (IH _)). }
    split; [apply H1|].
    destruct s; cbn [ComplementSel_build]; try apply H1.
    + now rewrite mem_none, mem_all.
    + now rewrite mem_none, mem_all.
    + rewrite H1. now rewrite negb_involutive.
Qed.
Lemma mem_compl s p : mem (ComplementSel s) p = negb (mem s p).
Proof. apply mem_compl_both. Qed.
Lemma mem_compl_build s p : mem (ComplementSel_build s) p = negb (mem s p).
Proof. apply mem_compl_both. Qed.

(* ---- and / or ---- *)
Lemma and_build_cases a b :
  AndSel_build a b = b /\ a = AllSel \/
  AndSel_build a b = a /\ b = AllSel \/
  AndSel_build a b = a /\ a = NoneSel \/
  AndSel_build a b = b /\ b = NoneSel \/
  AndSel_build a b = a /\ a = b \/
  AndSel_build a b = AndSel a b.
Proof.
  unfold AndSel_build.
  destruct a; try (left; split; reflexivity);
  destruct b; try (right; left; split; reflexivity);
    try (right; right; left; split; reflexivity);
    try (right; right; right; left; split; reflexivity);
    match goal with
    | |- context [sel_eqb ?x ?y] =>
        destruct (sel_eqb x y) eqn:E;
        [ apply sel_eqb_true in E; right; right; right; right; left; split; [reflexivity|exact E]
        | right; right; right; right; right; reflexivity ]
    end.
Qed.

Lemma or_build_cases a b :
  OrSel_build a b = a /\ a = AllSel \/
  OrSel_build a b = b /\ b = AllSel \/
  OrSel_build a b = b /\ a = NoneSel \/
  OrSel_build a b = a /\ b = NoneSel \/
  OrSel_build a b = a /\ a = b \/
  OrSel_build a b = OrSel a b.
Proof.
  unfold OrSel_build.
  destruct a; try (left; split; reflexivity);
  destruct b; try (right; left; split; reflexivity);
    try (right; right; left; split; reflexivity);
    try (right; right; right; left; split; reflexivity);
    match goal with
    | |- context [sel_eqb ?x ?y] =>
        destruct (sel_eqb x y) eqn:E;
        [ apply sel_eqb_true in E; right; right; right; right; left; split; [reflexivity|exact E]
        | right; right; right; right; right; reflexivity ]
    end.
Qed.

Lemma mem_and_both : forall p a b,
  mem (AndSel a b) p = mem a p && mem b p /\
  mem (AndSel_build a b) p = mem a p && mem b p.
Proof.
  induction p as [|x p IH]; intros a b.
  - assert (H1 : mem (AndSel a b) [] = mem a [] && mem b []) by reflexivity.
    split; [exact H1|].
    destruct (and_build_cases a b) as [[E ->]|[[E ->]|[[E ->]|[[E ->]|[[E ->]|E]]]]]; rewrite E;
      rewrite ?mem_all, ?mem_none, ?andb_true_r, ?andb_false_r, ?andb_diag; auto.
  - assert (H1 : mem (AndSel a b) (x :: p) = mem a (x :: p) && mem b (x :: p)).
    { rewrite !mem_cons. simpl. apply (proj2 (IH _ _)). }
    split; [exact H1|].
    destruct (and_build_cases a b) as [[E ->]|[[E ->]|[[E ->]|[[E ->]|[[E ->]|E]]]]]; rewrite E;
      rewrite ?mem_all, ?mem_none, ?andb_true_r, ?andb_false_r, ?andb_diag; auto.
Qed.
Lemma mem_and a b p : mem (AndSel a b) p = mem a p && mem b p.
Proof. apply mem_and_both. Qed.
Lemma mem_and_build a b p : mem (AndSel_build a b) p = mem a p && mem b p.
Proof. apply mem_and_both. Qed.

Lemma mem_or_both : forall p a b,
  mem (OrSel a b) p = mem a p || mem b p /\
  mem (OrSel_build a b) p = mem a p || mem b p.
Proof.
  induction p as [|x p IH]; intros a b.
  - assert (H1 : mem (OrSel a b) [] = mem a [] || mem b []) by reflexivity.
    split; [exact H1|].
    destruct (or_build_cases a b) as [[E ->]|[[E ->]|[[E ->]|[[E ->]|[[E ->]|E]]]]]; rewrite E;
      rewrite ?mem_all, ?mem_none, ?orb_true_r, ?orb_false_r, ?orb_diag; auto.
  - assert (H1 : mem (OrSel a b) (x :: p) = mem a (x :: p) || mem b (x :: p)).
    { rewrite !mem_cons. simpl. apply (proj2 (IH _ _)). }
    split; [exact H1|].
    destruct (or_build_cases a b) as [[E ->]|[[E ->]|[[E ->]|[[E ->]|[[E ->]|E]]]]]; rewrite E;
      rewrite ?mem_all, ?mem_none, ?orb_true_r, ?orb_false_r, ?orb_diag; auto.
Qed.
Lemma mem_or a b p : mem (OrSel a b) p = mem a p || mem b p.
Proof. apply mem_or_both. Qed.
Lemma mem_or_build a b p : mem (OrSel_build a b) p = mem a p || mem b p.
Proof. apply mem_or_both. Qed.

(* ---- static / extend / at ---- *)
Lemma get_sub_static s c a :
  get_subselection (StaticSel s c) a = if comp_matches c a then s else NoneSel.
Proof. destruct c; simpl; [destruct (Nat.eqb a n)|]; reflexivity. Qed.

Lemma mem_static s c p :
  mem (StaticSel s c) p = match p with [] => false | a :: p' => comp_matches c a && mem s p' end.
Proof.
  destruct p as [|a p]; [reflexivity|].
  rewrite mem_cons, get_sub_static. destruct (comp_matches c a); simpl; [reflexivity|apply mem_none].
Qed.
Lemma mem_static_build s c p : mem (StaticSel_build s c) p = mem (StaticSel s c) p.
Proof.
  unfold StaticSel_build. destruct s; try reflexivity.
  rewrite mem_static, mem_none. destruct p as [|a p]; [reflexivity|].
  rewrite mem_none. now rewrite andb_false_r.
Qed.

Lemma mem_extend : forall q s p, mem (extend s q) p = under q (mem s) p.
Proof.
  induction q as [|c q IH]; intros s p; [reflexivity|].
  simpl. rewrite mem_static_build, mem_static.
  destruct p as [|a p]; [reflexivity|]. now rewrite IH.
Qed.

Lemma under_ext q k1 k2 p : (forall r, k1 r = k2 r) -> under q k1 p = under q k2 p.
Proof.
  revert p; induction q as [|c q IH]; intros p H; simpl; [apply H|].
  destruct p as [|a p]; [reflexivity|]. now rewrite (IH p H).
Qed.

Lemma mem_at q p :
  mem (at_ q) p = match q with [] => is_nil p | _ => under q (fun _ => true) p end.
Proof.
  destruct q as [|c q]; [apply mem_leaf|].
  unfold at_. rewrite mem_extend. apply under_ext. apply mem_all.
Qed.

(* ---- sub-selection commutes with membership ---- *)
Lemma call_app s q p : call s (q ++ p) = call (call s q) p.
Proof. unfold call. apply fold_left_app. Qed.
Lemma mem_call s q p : mem (call s q) p = mem s (q ++ p).
Proof. unfold mem. now rewrite call_app. Qed.

(* ---- the main theorem: membership is the Boolean combination ---- *)
Theorem mem_build_spec : forall t p, mem (build t) p = spec t p.
Proof.
  induction t as [| | |q|a IHa b IHb|a IHa b IHb|a IHa|a IHa q|a IHa q]; intros p; simpl.
  - apply mem_all.
  - apply mem_none.
  - apply mem_leaf.
  - apply mem_at.
  - now rewrite mem_or_build, IHa, IHb.
  - now rewrite mem_and_build, IHa, IHb.
  - now rewrite mem_compl_build, IHa.
  - now rewrite mem_call, IHa.
  - rewrite mem_extend. apply under_ext. apply IHa.
Qed.

(* the simplifying constructors never change which addresses are selected *)
Theorem builds_preserve : forall a b c p,
  mem (ComplementSel_build a) p = mem (ComplementSel a) p /\
  mem (StaticSel_build a c) p = mem (StaticSel a c) p /\
  mem (AndSel_build a b) p = mem (AndSel a b) p /\
  mem (OrSel_build a b) p = mem (OrSel a b) p.
Proof.
  intros. repeat split.
  - now rewrite mem_compl_build, mem_compl.
  - apply mem_static_build.
  - now rewrite mem_and_build, mem_and.
  - now rewrite mem_or_build, mem_or.
Qed.

(* Boolean-algebra laws, as corollaries *)
Theorem de_morgan a b p :
  mem (ComplementSel_build (OrSel_build a b)) p =
  mem (AndSel_build (ComplementSel_build a) (ComplementSel_build b)) p.
Proof. rewrite mem_compl_build, mem_or_build, mem_and_build, !mem_compl_build. apply negb_orb. Qed.
Theorem excluded_middle_sel a p : mem (OrSel_build a (ComplementSel_build a)) p = true.
Proof. rewrite mem_or_build, mem_compl_build. apply orb_negb_r. Qed.
Theorem non_contradiction_sel a p : mem (AndSel_build a (ComplementSel_build a)) p = false.
Proof. rewrite mem_and_build, mem_compl_build. apply andb_negb_r. Qed.
