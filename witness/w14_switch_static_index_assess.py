"""fixed-defect witness: with a Python int index a Switch trace exposes only
the selected branch's choices, but Switch.assess evaluated every branch and
raised MissingAddress on the trace's own choices (C01).  exit 1 if present."""
import sys, jax, jax.numpy as jnp
import genjax
from genjax import gen, normal

@gen
def b0(x):
    return normal(x, 1.0) @ "a"
@gen
def b1(x):
    return normal(x, 2.0) @ "b"

sw = genjax.switch(b0, b1)
key = jax.random.key(0)
bad = []
for idx in (0, 1):
    args = (idx, (1.0,), (1.0,))
    tr = sw.simulate(key, args)
    try:
        s, r = sw.assess(tr.get_choices(), tr.get_args())
        if float(s) != float(tr.get_score()) or float(r) != float(tr.get_retval()):
            bad.append((idx, float(s), float(tr.get_score())))
    except Exception as e:
        bad.append((idx, "raises", type(e).__name__))
print("FAIL" if bad else "OK", bad[:3])
sys.exit(1 if bad else 0)
