"""fixed-defect witness: Scan handed iteration i's kernel the same key it then
derived iteration i+1's key from, so a nested call at the first site of
iteration i and the sites of iteration i+1 drew with identical keys (C04, C07).
Uses a key-echo distribution: the sampled value is the key's own words.
exit 1 if two different sites of one trace received the same key."""
import sys, jax, jax.numpy as jnp
import genjax
from genjax import gen, ChoiceMap as C, Selection as S, Diff, Regenerate
from genjax._src.generative_functions.distributions.distribution import exact_density

def _sample(key):
    kd = jax.random.key_data(key)
    return (kd % (2**20)).astype(jnp.float32)
echo = exact_density(_sample, lambda v: jnp.zeros(()), "echo")

@gen
def h():
    return echo() @ "u"

@gen
def kernel(c, x):
    b = echo() @ "a"
    a = h() @ "h"
    return c, None

def dup(chm, n):
    seen = {}
    bad = []
    for i in range(n):
        for addr in (("h", "u"), ("a",)):
            v = tuple(int(t) for t in chm[(i,) + addr])
            if v in seen:
                bad.append((seen[v], (i,) + addr, v))
            seen[v] = (i,) + addr
    return bad

n = 4
g = kernel.scan(n=n)
bad = []
for seed in range(3):
    key = jax.random.key(seed)
    args = (jnp.array(0.0), None)
    tr = g.simulate(key, args)
    bad += [("simulate",) + b for b in dup(tr.get_choices(), n)]
    tr2, w = g.importance(key, C.empty(), args)
    bad += [("generate",) + b for b in dup(tr2.get_choices(), n)]
    tr3, w, rd, bwd = Regenerate(S.all()).edit(jax.random.key(seed + 100), tr, Diff.no_change(args))
    bad += [("regenerate",) + b for b in dup(tr3.get_choices(), n)]
print("FAIL" if bad else "OK", bad[:4])
sys.exit(1 if bad else 0)
