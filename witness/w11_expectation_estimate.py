"""fixed-defect witness: Expectation.estimate passed a tree of tangents where a
dual tree is required and raised (C29).  exit 1 if present."""
import sys, jax, jax.numpy as jnp
from genjax.adev import expectation, flip_enum, Dual

@expectation
def loss(p):
    b = flip_enum(p)
    return jax.lax.cond(b, lambda _: 0.0, lambda p: -p / 2.0, p)

bad = []
key = jax.random.key(0)
try:
    for p in (0.25, 0.5):
        v = loss.estimate(key, (p,))
        want = (1 - p) * (-p / 2.0)
        if abs(float(v) - want) > 1e-6:
            bad.append((p, float(v), want))
        d = loss.jvp_estimate(key, (Dual(p, 1.0),))
        if abs(float(d.primal) - float(v)) > 1e-6:
            bad.append(("jvp primal", float(d.primal), float(v)))
except Exception as e:
    bad.append(("raises", type(e).__name__))
print("FAIL" if bad else "OK", bad[:3])
sys.exit(1 if bad else 0)
