(* Layer C, probability space: finite distributions as association lists over the
   rationals.  Weights live in Qc (= Q in canonical form, Coq.QArith.Qcanon), so that
   equality of weights is Leibniz equality and `ring`/`field` apply directly.
   Dictionary with the log-space code: `+` of log-weights is `*`, `-` is `/`,
   `logsumexp` is a finite sum, `- log n` is `/ n`, `exp(score)` is a density.
   No proofs here (coq/proofs/ProbProofs.v). *)
From Coq Require Import List ZArith QArith Qcanon Bool.
Import ListNotations.
Open Scope Qc_scope.

Definition dist (A : Type) := list (A * Qc).

Definition sumQ (l : list Qc) : Qc := fold_right Qcplus 0 l.

(* expectation of f; for a sub-probability list this is sum_a f a * P a *)
Definition E {A} (f : A -> Qc) (d : dist A) : Qc := sumQ (map (fun ap => f (fst ap) * snd ap) d).
Definition mass {A} (d : dist A) : Qc := E (fun _ => 1) d.

Definition ret {A} (a : A) : dist A := [(a, 1)].
Definition scale {A} (p : Qc) (d : dist A) : dist A := map (fun bq => (fst bq, p * snd bq)) d.
Definition bind {A B} (d : dist A) (k : A -> dist B) : dist B :=
  flat_map (fun ap => scale (snd ap) (k (fst ap))) d.
Definition dmap {A B} (f : A -> B) (d : dist A) : dist B := map (fun ap => (f (fst ap), snd ap)) d.

(* K independent draws (jax.vmap over K distinct keys, idealisation (i) of DESIGN section 4) *)
Fixpoint iid {A} (K : nat) (d : dist A) : dist (list A) :=
  match K with
  | O => ret []
  | S k => bind d (fun a => dmap (cons a) (iid k d))
  end.
(* independent draws, one per element of a list (jax.vmap of a randomised function) *)
Fixpoint mapM {A B} (k : A -> dist B) (l : list A) : dist (list B) :=
  match l with
  | [] => ret []
  | a :: r => bind (k a) (fun b => dmap (cons b) (mapM k r))
  end.

Definition Qc_of_nat (n : nat) : Qc := Q2Qc (inject_Z (Z.of_nat n)).

(* ---- the two GenSP notions (Lew et al. 2023), for a sampler of (output, weight) pairs ---- *)
(* Defn 3.2 unbiased density sampler: E[1/w | out = x] = 1 / P(out = x), i.e.
   sum over the runs r with out r = x of P r / w r = 1, for every x the sampler can produce
   (and, for the support to be right, for every x it is supposed to produce: `xs`). *)
Definition inv_on {X} (eqb : X -> X -> bool) (x : X) (ow : X * Qc) : Qc :=
  if eqb (fst ow) x then / snd ow else 0.
Definition ind_on {X} (eqb : X -> X -> bool) (x : X) (ow : X * Qc) : Qc :=
  if eqb (fst ow) x then 1 else 0.
Definition uds {X} (eqb : X -> X -> bool) (xs : list X) (d : dist (X * Qc)) : Prop :=
  forall x, In x xs -> E (inv_on eqb x) d = 1.
(* P(out = x) and E[1/w | out = x] *)
Definition prob_out {X} (eqb : X -> X -> bool) (d : dist (X * Qc)) (x : X) : Qc := E (ind_on eqb x) d.
Definition cond_inv_w {X} (eqb : X -> X -> bool) (d : dist (X * Qc)) (x : X) : Qc :=
  E (inv_on eqb x) d / prob_out eqb d x.
