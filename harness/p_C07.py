"""C07 — engine B-gfi (harness/bgfi.py); theorems in coq/props/C07.v."""
from . import bgfi


def run(ctx):
    bgfi.run_property(ctx, "C07", oracles=bgfi.PROP_ORACLES.get("C07"))


def replay(case):
    return bgfi.replay(case)
