"""C32 — generative function closures and keyword handling are transparent.  Closure engine.

Cases: closures `g(*stored, **kw)` (and `g.partial_apply(*dyn)(*stored, **kw)`) over the integer-exact
probe distributions and over four small @genjax.gen functions, 0-3 stored arguments, keyword arguments
in any order, every GFI method (simulate, assess, generate, importance, project, edit with Update and
Regenerate, update, propose), call syntax with call-site keywords and use as a callee.

 * direct oracle (no model): the closure's observables (choices by lookup, score, weight, return value,
   change tags, backward request, recorded arguments) equal those of the underlying function called with
   the stored arguments prepended and the keyword arguments merged;
 * correspondence: for distributions coq/model/Closure.v composed with Dist.v predicts every number;
   for @gen functions the underlying function is shipped as the table of what it returned for the
   correct call AND for the calls a wrong closure would make (stored arguments dropped / reordered /
   tagged NoChange, keywords dropped / tagged NoChange / merged with the wrong precedence), and the
   model chooses the entry (`cmismatches`).
"""
import os
import time
import numpy as np
from . import core
from . import tfp_engine as E
from . import closure_engine as CE

HEADER = "From Coq Require Import List Bool ZArith NArith.\nFrom Model Require Import Kwargs Dist Closure."
METHODS = {0: "simulate", 1: "assess", 2: "generate", 3: "project", 4: "edit", 5: "importance", 6: "update",
           7: "propose", 8: "call", 9: "callee"}


# =============================================================================
# generators
# =============================================================================
def split_args(rng, sig, malformed=None):
    """sig: [(name id, default or None)].  Returns (stored, args, kw) values/names: the first j parameters
    positionally (the first s of them stored in the closure), a subset of the others by keyword."""
    n = len(sig)
    nreq = sum(1 for s in sig if s[1] is None)
    vals = [rng.randint(-3, 3) for _ in range(n)]
    j = rng.randint(0, n)
    s = rng.randint(0, j)
    rest = list(range(j, n))
    if rest and rest[-1] >= nreq and rng.random() < 0.5:
        rest = rest[:-1]
    if j >= nreq and rng.random() < 0.4:
        rest = []                               # no keyword arguments at all (when the positional ones suffice)
    rng.shuffle(rest)
    stored, args = vals[:s], vals[s:j]
    kw = [(sig[i][0], vals[i]) for i in rest]
    if malformed == "too_many":
        args = args + [1] if not kw else args + vals[j:] + [1]
    elif malformed == "unknown_kw":
        kw = kw + [(7 if all(sg[0] != 7 for sg in sig) else 5, 2)]
    elif malformed == "multiple" and j > 0:
        kw = kw + [(sig[0][0], 1)]
    elif malformed == "missing" and nreq > 0:
        stored, args, kw = [], [], [(sig[i][0], vals[i]) for i in range(1, n)]
    return stored, args, kw


def new_ad(rng, args):
    """argdiffs for the non-stored arguments: NoChange only for unchanged values (honest tagging)"""
    ad = []
    for v in args:
        k = rng.randrange(3)
        if k == 0: ad.append((v, False))
        elif k == 1: ad.append((v, True))
        else: ad.append((rng.randint(-3, 3), True))
    return ad


def gen_dist_case(rng):
    d = rng.randrange(len(E.PSPECS))
    mal = rng.choice(["too_many", "unknown_kw", "multiple", "missing"]) if rng.random() < 0.08 else None
    stored, args, kw = split_args(rng, E.PSPECS[d][0], mal)
    kind = rng.choice(["sim", "propose", "assess", "gen", "imp", "project", "edit", "edit", "update", "update", "call", "call"])
    v = [rng.randint(-2, 4) for _ in range(E.vlen(d))]
    cons = rng.choice([("none",), ("val", v), ("val", v), ("mask", True, v), ("mask", False, v)])
    if kind in ("sim", "propose"): op = (kind,)
    elif kind == "assess": op = (kind, cons if cons[0] != "none" or rng.random() < 0.3 else ("val", v))
    elif kind in ("gen", "imp"): op = (kind, cons)
    elif kind == "project": op = (kind, rng.random() < 0.5)
    elif kind == "edit":
        r = ("upd", cons) if rng.random() < 0.6 else ("regen", rng.random() < 0.5)
        op = (kind, r, new_ad(rng, args))
    elif kind == "update": op = (kind, cons, new_ad(rng, args))
    else:
        # call-site keywords: override a stored keyword, or supply a parameter still missing
        sig = E.PSPECS[d][0]
        kw2 = []
        if kw and rng.random() < 0.6:
            kw2.append((rng.choice(kw)[0], rng.randint(-3, 3)))
        if kw and rng.random() < 0.4:          # move one keyword from the closure to the call site
            moved = kw.pop(rng.randrange(len(kw)))
            if all(n != moved[0] for n, _ in kw2):
                kw2.append(moved)
        op = (kind, kw2)
    return {"kind": "dist", "d": d, "stored": stored, "kw": kw, "args0": args,
            "k0": [rng.getrandbits(32), rng.getrandbits(32)], "k": [rng.getrandbits(32), rng.getrandbits(32)],
            "op": op, "malformed": mal}


FUN_SIGS = [[(0, None), (1, None), (2, 1)], [(0, None)], [(0, None), (1, None), (2, None), (7, 2)], []]
FUN_ADDR_SHAPES = [[1, 1, None], [1, None], [3, 1, None, None], [1, None]]     # leaves per address of the universe (None: junk)


def gen_static_case(rng):
    fi = rng.choice([0, 0, 1, 2, 2, 3])
    sig = FUN_SIGS[fi]
    mal = rng.choice(["too_many", "unknown_kw", "multiple", "missing"]) if rng.random() < 0.08 else None
    stored, args, kw = split_args(rng, sig, mal)
    dyn = []
    if stored and rng.random() < 0.4:          # the first stored argument(s) enter through partial_apply,
        nd = 2 if len(stored) >= 2 and rng.random() < 0.6 else 1        # two of them through two partial_apply calls
        dyn, stored = stored[:nd], stored[nd:]
    m = rng.choice([0, 1, 2, 3, 4, 4, 4, 5, 6, 6, 7, 8, 8, 9])
    shapes = FUN_ADDR_SHAPES[fi]
    real = [i for i, sh in enumerate(shapes) if sh]
    def cons(full=False):
        pick = real if full else [i for i in real if rng.random() < 0.6]
        if rng.random() < 0.15 and not full:
            pick = pick + [i for i, sh in enumerate(shapes) if sh is None][:1]       # a foreign address
        return [(i, [rng.randint(-2, 4) for _ in range(shapes[i] or 1)]) for i in pick]
    extra, ad, kw2, args0 = None, [(v, False) for v in args], [], list(args)
    if m == 1: extra = cons(full=rng.random() < 0.85)
    elif m in (2, 5, 6): extra = cons()
    elif m == 3: extra = rng.choice(["all", "none"] + real)
    elif m == 4: extra = ("upd", cons()) if rng.random() < 0.65 else ("regen", rng.choice(["all", "none"] + real))
    if m in (4, 6):
        ad = new_ad(rng, args)
    if m == 8:
        if kw and rng.random() < 0.6:
            kw2.append((rng.choice(kw)[0], rng.randint(-3, 3)))
        if kw and rng.random() < 0.4:
            moved = kw.pop(rng.randrange(len(kw)))
            if all(n != moved[0] for n, _ in kw2):
                kw2.append(moved)
    if m == 9:                                  # as a callee everything is stored
        stored, args0, ad = stored + args, [], []
    return {"kind": "static", "fi": fi, "dyn": dyn, "stored": stored, "kw": kw, "args0": args0, "ad": ad, "kw2": kw2,
            "m": m, "extra": extra, "k0": [rng.getrandbits(32), rng.getrandbits(32)],
            "k": [rng.getrandbits(32), rng.getrandbits(32)], "malformed": mal}


def corpus():
    """fixed cases that run first on every seed: two chained partial_apply calls with distinct values,
    closures with stored arguments and keywords through edit / update (the shape of the repaired F09)"""
    K0, K = [11, 22], [33, 44]
    def st(fi, dyn, stored, kw, args0, ad, m, extra=None, kw2=()):
        return {"kind": "static", "fi": fi, "dyn": dyn, "stored": stored, "kw": kw, "args0": args0, "ad": ad, "kw2": list(kw2),
                "m": m, "extra": extra, "k0": K0, "k": K, "malformed": None}
    out = [
        st(0, [3, -2], [], [], [], [], 0),
        st(0, [3, -2], [], [(2, 2)], [], [], 2, [(0, [1])]),
        st(2, [1, -3], [2], [], [], [], 4, ("upd", [(1, [2])])),
        st(2, [1, -3], [], [(7, 3)], [2], [(0, True)], 6, [(0, [1, 2, 3])]),
        st(0, [], [1], [], [2], [(3, True)], 4, ("upd", [(0, [2])])),
        st(0, [], [1], [(2, 3)], [2], [(3, True)], 6, [(0, [2])]),
        st(0, [], [1, 2], [], [], [], 4, ("upd", [])),
        st(0, [], [1], [(2, 3)], [2], [(2, False)], 8, None, [(2, -1)]),
        st(2, [], [1], [(2, -3), (1, 1)], [], [], 9),
    ]
    for d, stored, kw, args0, op in [
            (1, [1], [], [2], ("edit", ("upd", ("val", [3])), [(0, True)])),
            (1, [1], [], [2], ("update", ("val", [3]), [(2, False)])),
            (5, [1], [(2, 3)], [2], ("update", ("none",), [(0, True)])),
            (2, [], [(1, 2), (0, 1)], [], ("edit", ("regen", False), [])),
            (1, [], [(1, -1), (0, 0)], [], ("call", [(1, 3)]))]:
        out.append({"kind": "dist", "d": d, "stored": stored, "kw": kw, "args0": args0, "k0": K0, "k": K, "op": op, "malformed": None})
    return out


# =============================================================================
# running a static case: the closure, the reference, the table
# =============================================================================
def _tagged(vals, unknown):
    return [(v, unknown) for v in vals]


def spec_call(c):
    """the property: which call on the underlying function the closure must be equivalent to"""
    m = c["m"]
    if m == 3:          # project: `self.gen_fn.project(key, trace, selection)`, no arguments involved
        return (3, [], None)
    editlike = m in (4, 6)
    pos = (_tagged(c["dyn"], False) + _tagged(c["stored"], editlike) + ([(v, u) for v, u in c["ad"]] if editlike else _tagged([v for v, _ in c["ad"]], False)))
    kw = list(c["kw"])
    if m == 8:
        over = dict(c["kw2"])
        kw = [(n, over.get(n, v)) for n, v in kw] + [(n, v) for n, v in c["kw2"] if n not in dict(c["kw"])]
    kwt = [(n, v, editlike) for n, v in kw] if kw else None
    return (m, pos, kwt)


def variants(c):
    """the correct call and the calls a wrong closure would make (deduplicated, the order is not meaningful)"""
    m = c["m"]
    if m == 3:
        return [spec_call(c)]
    editlike = m in (4, 6)
    argt = [(v, u) for v, u in c["ad"]] if editlike else _tagged([v for v, _ in c["ad"]], False)
    dyn, st, kw = c["dyn"], c["stored"], list(c["kw"])
    out = [spec_call(c)]
    def add(pos, kwt):
        call = (m, pos, kwt)
        if call not in out:
            out.append(call)
    kwU = [(n, v, editlike) for n, v in kw] if kw else None
    if kw and m == 8:
        kwU = spec_call(c)[2]
    add(_tagged(dyn, False) + argt, kwU)                                             # stored arguments dropped
    add(argt + _tagged(dyn, False) + _tagged(st, editlike), kwU)                     # appended instead of prepended
    if editlike:
        add(_tagged(dyn, False) + _tagged(st, False) + argt, kwU)                    # stored tagged NoChange
        add(_tagged(dyn, True) + _tagged(st, True) + argt, kwU)                      # constants tagged Unknown
        if kw:
            add(_tagged(dyn, False) + _tagged(st, True) + argt, [(n, v, False) for n, v in kw])   # kwargs tagged NoChange
    if kw or c["kw2"]:
        add(_tagged(dyn, False) + _tagged(st, editlike) + argt, None)                # keyword arguments dropped
    if m == 8 and c["kw2"]:
        stored_wins = dict(c["kw"])
        kws = [(n, v, False) for n, v in c["kw"]] + [(n, v, False) for n, v in c["kw2"] if n not in stored_wins]
        add(_tagged(dyn, False) + _tagged(st, False) + argt, kws or None)            # stored keywords win
        add(_tagged(dyn, False) + _tagged(st, False) + argt, [(n, v, False) for n, v in c["kw"]] or None)   # call-site keywords dropped
    return out


def callee_obs(outer, key, uni):
    tr = outer.simulate(key, ())
    chm = tr.get_choices()
    out = []
    for a in uni:
        addr = ("in",) + (a if isinstance(a, tuple) else (a,))
        if addr in chm:
            out += [1] + E.ints(chm[addr])
        else:
            out += [0]
    return out + E.ints(tr.get_score()) + E.flat_leaves(tr.get_retval()) + CE.args_tail(None)


def run_underlying(c, call, tr0s):
    """one table entry: the underlying function (its handle_kwargs() form for a packaged call)"""
    import genjax
    from genjax._src.generative_functions.static import trace as static_trace
    f, names, dflt, uni = CE.funs()[c["fi"]]
    m, pos, kwt = call
    key0, key = E.mk_key(c["k0"]), E.mk_key(c["k"])
    try:
        g = f if kwt is None else f.handle_kwargs()
        prim = tuple(E.F(v) for v, _ in pos)
        if kwt is None:
            x, xd = prim, CE.mk_argdiffs(pos)
        else:
            x = (prim, {E.NAMES[n]: E.F(v) for n, v, _ in kwt})
            xd = (CE.mk_argdiffs(pos), CE.mk_kwdiffs(kwt))
        if m == 8:
            return E.flat_leaves(g.simulate(key, x).get_retval()) + CE.args_tail(None)
        if m == 9:
            outer = genjax.gen(lambda: static_trace("in", g, x))
            return callee_obs(outer, key, uni)
        tr0 = None
        if m in (3, 4, 6):
            tr0 = tr0s()
            if tr0 is None:
                return None
        return CE.run_st_method(g, c["fi"], key0, None, key, m, xd if m in (4, 6) else x, c["extra"], tr0=tr0, skip=len(c["dyn"]))
    except E.Inexact:
        raise
    except CE.ERRORS:
        return None


def run_static_case(c):
    """returns (closure observation, reference observation, table)"""
    import genjax
    f, names, dflt, uni = CE.funs()[c["fi"]]
    m = c["m"]
    key0, key = E.mk_key(c["k0"]), E.mk_key(c["k"])
    Fv = lambda vs: [E.F(v) for v in vs]
    # ---- the closure --------------------------------------------------------------------------------
    tr0_box = {}
    try:
        base = f
        for v in c["dyn"]:                      # one partial_apply per closed-over argument
            base = base.partial_apply(E.F(v))
        clo = base(*Fv(c["stored"]), **CE.kwdict(c["kw"]))
        args0 = tuple(Fv(c["args0"]))
        if m == 8:
            got = E.flat_leaves(clo(key, *args0, **CE.kwdict(c["kw2"]))) + CE.args_tail(None)
        elif m == 9:
            outer = genjax.gen(lambda: clo @ "in")
            got = callee_obs(outer, key, uni)
        else:
            tr0 = None
            if m in (3, 4, 6):
                tr0 = clo.simulate(key0, args0)
                tr0_box["tr"] = tr0
            x = CE.mk_argdiffs(c["ad"]) if m in (4, 6) else tuple(Fv([v for v, _ in c["ad"]]))
            got = CE.run_st_method(clo, c["fi"], key0, args0, key, m, x, c["extra"], tr0=tr0)
    except E.Inexact:
        raise
    except CE.ERRORS:
        got = None

    # ---- the underlying function: the initial trace is its own, from the prepended arguments ---------
    cache = {}
    def tr0s():
        if "tr" not in cache:
            try:
                full = tuple(Fv(c["dyn"] + c["stored"] + c["args0"]))
                if c["kw"]:
                    cache["tr"] = f.handle_kwargs().simulate(key0, (full, CE.kwdict(c["kw"])))
                else:
                    cache["tr"] = f.simulate(key0, full)
            except CE.ERRORS:
                cache["tr"] = None
        return cache["tr"]

    table = []
    for call in variants(c):
        table.append((call, run_underlying(c, call, tr0s)))
    ref = table[0][1]
    pos = positional_reference(c, got)
    if pos != "n/a" and CE.strip_args(got) != pos:
        ref = ("positional", pos)        # reported by the oracle: keyword form differs from the positional call
    return got, ref, table


def py_bind(sig, pos, kw):
    """Python's own binding of positional items and keyword items [(name, item)] against a signature
    [(name, default or None)]; None = TypeError.  Trailing defaulted parameters are left out."""
    names = [n for n, _ in sig]
    if len(pos) > len(sig):
        return None
    kwd = dict(kw)
    if len(kwd) != len(kw) or any(n not in names for n in kwd) or any(n in names[:len(pos)] for n in kwd):
        return None
    out = list(pos)
    for n, dflt in sig[len(pos):]:
        if n in kwd:
            out.append(kwd[n])
        elif dflt is not None:
            out.append(("default", dflt))
        else:
            return None
    while out and isinstance(out[-1], tuple) and out[-1][0] == "default":
        out.pop()
    return [(o[1], False) if (isinstance(o, tuple) and o[0] == "default") else o for o in out]


def positional_reference(c, got):
    """`handle_kwargs wrappers are equivalent to the corresponding positional calls`: the same method of the
    underlying function with every parameter passed positionally in signature order.  Returns None when the
    case has no keyword arguments, else (expected observation without the recorded arguments)."""
    m = c["m"]
    call = spec_call(c)
    if m == 3 or call[2] is None:
        return "n/a"
    sig = FUN_SIGS[c["fi"]]
    full = py_bind(sig, list(call[1]), [(n, (v, u)) for n, v, u in call[2]])
    if full is None:
        return None
    c0 = dict(c, kw=[], kw2=[])
    def tr0s():
        f = CE.funs()[c["fi"]][0]
        full0 = py_bind(sig, [(v, False) for v in c["dyn"] + c["stored"] + c["args0"]], [(n, (v, False)) for n, v in c["kw"]])
        try:
            return f.simulate(E.mk_key(c["k0"]), tuple(E.F(v) for v, _ in full0))
        except CE.ERRORS:
            return None
    return CE.strip_args(run_underlying(dict(c, dyn=[]), (m, full, None), tr0s))


def run_dist_case(c):
    got = CE.run_cdist(c["d"], c["stored"], c["kw"], tuple(c["k0"]), c["args0"], tuple(c["k"]), c["op"])
    ref = CE.ref_cdist(c["d"], c["stored"], c["kw"], tuple(c["k0"]), c["args0"], tuple(c["k"]), c["op"])
    return got, ref, None


def run_case(c):
    try:
        return run_dist_case(c) if c["kind"] == "dist" else run_static_case(c)
    except E.Inexact:
        return "INEXACT"


def _init_worker():
    os.environ["XLA_FLAGS"] = (os.environ.get("XLA_FLAGS", "") + " --xla_cpu_multi_thread_eigen=false "
                               "intra_op_parallelism_threads=1 --xla_force_host_platform_device_count=1")
    os.environ["OMP_NUM_THREADS"] = "1"
    import warnings
    warnings.filterwarnings("ignore")


def _worker(cases):
    import warnings
    warnings.filterwarnings("ignore")
    return [run_case(c) for c in cases]


def c_case(c, got, table):
    if c["kind"] == "dist":
        return CE.c_ccdist(c["d"], c["stored"], c["kw"], tuple(c["k0"]), c["args0"], tuple(c["k"]), c["op"], got)
    tab = [((m, pos, kwt), o) for (m, pos, kwt), o in table]
    return CE.c_cctab(tab, c["dyn"], c["stored"], c["kw"], c["m"], c["ad"], c["kw2"], got)


def describe(c):
    if c["kind"] == "dist":
        return f"closure probe{c['d']}(*{c['stored']}, **{c['kw']}).{c['op'][0]} args {c['args0']} op {c['op']}"
    pa = f".partial_apply(*{c['dyn']})" if c["dyn"] else ""
    return (f"closure f{c['fi']}{pa}(*{c['stored']}, **{c['kw']}).{METHODS[c['m']]} args/argdiffs {c['ad']}"
            f"{' call-site kwargs ' + str(c['kw2']) if c['kw2'] else ''} {c['extra'] if c['extra'] is not None else ''}")


# =============================================================================
def run(ctx):
    import multiprocessing as mp
    import genjax
    rng = ctx.rng
    cases = corpus() + [gen_dist_case(rng) for _ in range(ctx.n(220, 6000))]
    cases += [gen_static_case(rng) for _ in range(ctx.n(90, 3000))]
    nproc = int(os.environ.get("VERIF_PROCS", "8"))
    order = list(range(len(cases)))
    rng.shuffle(order)                 # mix cheap and expensive cases in every chunk
    chunks = [order[i::2 * nproc] for i in range(2 * nproc)]
    pool = mp.get_context("spawn").Pool(nproc, initializer=_init_worker)
    asyncs = [pool.apply_async(_worker, ([cases[i] for i in ch],)) for ch in chunks]
    t0 = time.time()
    ctx.proofs()
    t_proofs = time.time() - t0
    ctx.cov["genjax_file"] = genjax.__file__
    t0 = time.time()
    results = [None] * len(cases)
    try:
        for ch, a in zip(chunks, asyncs):
            for i, r in zip(ch, a.get(timeout=3000)):
                results[i] = r
    finally:
        pool.terminate()
    t_impl = time.time() - t0

    kept, terms, inexact, nbad = [], [], 0, 0
    for c, r in zip(cases, results):
        if r == "INEXACT":
            inexact += 1
            continue
        got, ref, table = r
        if isinstance(ref, tuple) and ref[0] == "positional":
            nbad += 1
            if nbad <= 3:
                ctx.fail("oracle", f"{describe(c)}: the keyword form gives {CE.strip_args(got)} (recorded arguments cut off), the underlying "
                                   f"function called positionally with the bound parameters gives {ref[1]}", case={"case": c})
        elif got != ref:
            nbad += 1
            if nbad <= 3:
                ctx.fail("oracle", f"{describe(c)}: the closure gives {got}, the underlying function called with the stored "
                                   f"arguments prepended and the keyword arguments merged gives {ref}", case={"case": c})
        kept.append((c, got, ref, table))
        terms.append(c_case(c, got, table))
    mism, errs = core.coq_mismatches("C32", HEADER, terms, "ccase", fn="cmismatches", shard=200)
    for e in errs[:2]:
        ctx.fail("correspondence", "closure case file did not evaluate: " + e)
    for i in mism[:3]:
        c, got, ref, table = kept[i]
        ctx.fail("correspondence", f"coq/model/Closure.v and the implementation disagree on {describe(c)}: implementation gives {got}",
                 case={"case": c})

    def decoys_differ(table):
        return any(o != table[0][1] for _, o in table[1:])
    st = [(c, g, r, t) for c, g, r, t in kept if c["kind"] == "static"]
    ds = [(c, g, r, t) for c, g, r, t in kept if c["kind"] == "dist"]
    ctx.cov["evaluations"] = len(kept)
    ctx.cov["traces_validated_against_impl"] = len(kept) - len(mism)
    ctx.cov["distinct_nontrivial"] = (len({repr(c) for c, g, r, t in ds if g is not None and (c["stored"] or c["kw"])})
                                      + len({repr(c) for c, g, r, t in st if g is not None and decoys_differ(t)}))
    ctx.cov["inexact_skipped"] = inexact
    ctx.cov["errors_compared"] = sum(1 for c, g, r, t in kept if g is None)
    ctx.cov["by_kind"] = {"dist": {k: sum(1 for c, g, r, t in ds if c["op"][0] == k) for k in sorted({c["op"][0] for c, _, _, _ in ds})},
                          "static": {METHODS[m]: sum(1 for c, g, r, t in st if c["m"] == m) for m in sorted({c["m"] for c, _, _, _ in st})}}
    ctx.cov["stored_args"] = {str(n): sum(1 for c, g, r, t in kept if len(c["stored"]) + len(c.get("dyn", [])) == n) for n in range(5)}
    ctx.cov["with_kwargs"] = sum(1 for c, g, r, t in kept if c["kw"])
    ctx.cov["with_partial_apply"] = sum(1 for c, g, r, t in st if c["dyn"])
    ctx.cov["static_table_entries"] = sum(len(t) for c, g, r, t in st)
    ctx.cov["static_cases_where_a_wrong_call_is_observable"] = sum(1 for c, g, r, t in st if decoys_differ(t))
    ctx.cov["timing_s"] = {"proofs": round(t_proofs, 1), "implementation_wait_after_proofs": round(t_impl, 1)}
    ctx.cov["rule"] = ("closures over 6 probe distributions (fully predicted by Closure.v o Dist.v) and over 4 @gen functions "
                       "(1 with a default, 1 with a tuple address and a vector site, 1 without parameters), 0-3 stored arguments, "
                       "optionally the first one through partial_apply, keyword subsets in random order, 8% malformed invocations "
                       "(compared as errors); methods simulate/assess/generate/importance/project/edit(Update|Regenerate)/update/"
                       "propose/call/callee; argdiffs per argument in {same NoChange, same Unknown, new Unknown}; non-trivial = the "
                       "implementation returned a value and (dist) something is stored or (static) at least one wrong call in the "
                       "table is observably different from the right one")
    ctx.add_samples([{"case": kept[i][0], "closure": kept[i][1]} for i in (0, len(ds) // 2, len(ds) + 1) if i < len(kept)])


def replay(case):
    import warnings
    warnings.filterwarnings("ignore")
    c = fix_case(case["case"])
    got, ref, table = run_case(c)
    ok = got == ref
    why = "ok"
    if isinstance(ref, tuple) and ref[0] == "positional":
        why = f"keyword form gives {CE.strip_args(got)}, positional call with the bound parameters gives {ref[1]}"
    elif not ok:
        why = f"closure gives {got}, underlying with stored arguments prepended gives {ref}"
    else:
        mism, errs = core.coq_mismatches("C32replay", HEADER, [c_case(c, got, table)], "ccase", fn="cmismatches")
        if mism or errs:
            ok, why = False, f"coq/model/Closure.v predicts something else than {got}"
    print(f"{describe(c)}: {why}")
    return ok


def fix_case(c):
    """JSON round trip: lists back to the tuples the engine pattern-matches on"""
    c = dict(c)
    tup = lambda x: tuple(tup(y) for y in x) if isinstance(x, list) else x
    c["kw"] = [tuple(p) for p in c["kw"]]
    if c["kind"] == "dist":
        op = c["op"]
        k = op[0]
        if k in ("assess", "gen", "imp"): c["op"] = (k, tuple(op[1]))
        elif k == "edit": c["op"] = (k, (op[1][0], tuple(op[1][1]) if op[1][0] == "upd" else op[1][1]), [tuple(p) for p in op[2]])
        elif k == "update": c["op"] = (k, tuple(op[1]), [tuple(p) for p in op[2]])
        elif k == "call": c["op"] = (k, [tuple(p) for p in op[1]])
        else: c["op"] = tuple(op)
        return c
    c["ad"] = [tuple(p) for p in c["ad"]]
    c["kw2"] = [tuple(p) for p in c["kw2"]]
    e = c["extra"]
    if c["m"] in (1, 2, 5, 6) and e is not None:
        c["extra"] = [(i, list(v)) for i, v in e]
    elif c["m"] == 4:
        c["extra"] = ("upd", [(i, list(v)) for i, v in e[1]]) if e[0] == "upd" else ("regen", e[1])
    return c
