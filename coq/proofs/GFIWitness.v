(* Non-vacuity of the hypotheses used by the B-gfi theorems: a concrete, non-trivial program (static body with a
   distribution site, a vmap site and a scan site whose kernel is itself a static function, all under a dimap)
   satisfies wfg / simple, its simulated trace satisfies wft, and Update / Regenerate edits of it succeed. *)
From Coq Require Import List Bool ZArith NArith Lia Arith.
Import ListNotations.
From Gen Require Import SelGen.
From Model Require Import Key Sel GFI GFIEdit.
From Proofs Require Import GFIBase GFIRef GFIWf GFIConsistent GFISim GFIEditProofs GFIRoundtripAll GFIRoundtripRegen GFIRegenIdentity GFITags.
Open Scope Z_scope.

Definition ex_kernel : gf :=
  GStatic (SSite [0%nat] (GDist 2) [EAdd (EVar 0) (EVar 1)] (SRet (ETup [EVar 2; EVar 2]))).
Definition ex_body : sbody :=
  SSite [0%nat] (GDist 0) [EVar 0]
  (SSite [1%nat] (GVmap [Some 0%nat] (GDist 1)) [EVar 1]
  (SSite [2%nat; 5%nat] (GScan None ex_kernel) [EVar 2; EVar 1]
  (SRet (ETup [EVar 2; EVar 4])))).
Definition ex_g : gf := GDimap [EVar 0; EVar 1] (GStatic ex_body) (EVar 2).
Definition ex_k : key := (11%N, 22%N).
Definition ex_a : list val := [VZ 1; VA [VZ 2; VZ 3; VZ 5]].
Definition ex_t : trace := match simulate ex_g ex_k ex_a with Ok t => t | Err _ => TDist 0 [] 0 0 end.

Lemma ex_simulate : simulate ex_g ex_k ex_a = Ok ex_t.
Proof. vm_compute. reflexivity. Qed.
Lemma ex_wfg : wfg ex_g.
Proof.
  simpl. unfold heads_ok. simpl. repeat split; try (repeat constructor; simpl; intuition congruence); try (intros E; discriminate).
Qed.
Lemma ex_simple : simple ex_g.
Proof. simpl. tauto. Qed.
Lemma ex_no_switch : no_switch ex_g.
Proof. simpl. tauto. Qed.
Lemma ex_wft : wft ex_g ex_t.
Proof. apply (proj1 simulate_wft_all ex_g ex_k ex_a ex_t ex_simulate). Qed.
Lemma ex_nontrivial : length (t_choices ex_t) = 7%nat.
Proof. vm_compute. reflexivity. Qed.

(* an Update that constrains the distribution site, one vmap element and one scan iteration, with a changed argument *)
Definition ex_c : chm := [([KS 0%nat], VZ 4); ([KS 1%nat; KI 1%nat], VZ 6); ([KS 2%nat; KS 5%nat; KI 0%nat; KS 0%nat], VZ 9)].
Definition ex_a' : list val := [VZ 2; VA [VZ 2; VZ 7; VZ 5]].
Definition ex_tg : list tagt := [tg_unknown; tg_unknown].
Definition ex_k2 : key := (33%N, 44%N).
Lemma ex_update_succeeds : exists t' w b, edit ex_g ex_k2 ex_t (RUpdate ex_c) ex_a' ex_tg = Ok (t', w, b) /\ t' <> ex_t /\ w <> 0.
Proof. vm_compute. eexists _, _, _. split; [reflexivity|]. split; [intros E; discriminate | intros E; discriminate]. Qed.

(* Regenerate: distributions, nested static functions and dimap *)
Definition ex_inner : gf :=
  GStatic (SSite [0%nat] (GDist 1) [EVar 0] (SSite [1%nat] (GDist 3) [EVar 1] (SRet (EAdd (EVar 1) (EVar 2))))).
Definition ex_r : gf :=
  GDimap [EVar 0] (GStatic (SSite [0%nat] (GDist 0) [EVar 0] (SSite [1%nat] ex_inner [EVar 1] (SRet (EVar 2))))) (EVar 2).
Definition ex_ra : list val := [VZ 3].
Definition ex_rt : trace := match simulate ex_r ex_k ex_ra with Ok t => t | Err _ => TDist 0 [] 0 0 end.
Definition ex_s : sel := OrSel (StaticSel AllSel (CName 0%nat)) (StaticSel (StaticSel AllSel (CName 1%nat)) (CName 1%nat)).
Lemma ex_r_simulate : simulate ex_r ex_k ex_ra = Ok ex_rt.
Proof. vm_compute. reflexivity. Qed.
Lemma ex_r_wfg : wfg ex_r.
Proof.
  simpl. unfold heads_ok. simpl. repeat split; try (repeat constructor; simpl; intuition congruence); try (intros E; discriminate).
Qed.
Lemma ex_r_rsimple : rsimple ex_r.
Proof. simpl. tauto. Qed.
Lemma ex_r_wft : wft ex_r ex_rt.
Proof. apply (proj1 simulate_wft_all ex_r ex_k ex_ra ex_rt ex_r_simulate). Qed.
Lemma ex_regenerate_succeeds :
  exists t' w b, edit ex_r ex_k2 ex_rt (RRegen ex_s) [VZ 5] [tg_unknown] = Ok (t', w, b) /\ t' <> ex_rt /\ w <> 0.
Proof. vm_compute. eexists _, _, _. split; [reflexivity|]. split; [intros E; discriminate | intros E; discriminate]. Qed.

Lemma ex_sites_live : sites_live ex_t.
Proof. vm_compute. repeat split; intros E; discriminate. Qed.
Lemma ex_r_sites_live : sites_live ex_rt.
Proof. vm_compute. repeat split; intros E; discriminate. Qed.

(* one witness per combinator: a simulated trace of a program with that combinator at the root *)
Lemma sim_wft g k a t : simulate g k a = Ok t -> wft g t.
Proof. intros H. apply (proj1 simulate_wft_all g k a t H). Qed.
Definition tr_of (g : gf) (a : list val) : trace := match simulate g ex_k a with Ok t => t | Err _ => TDist 0 [] 0 0 end.

Definition ex_vmap : gf := GVmap [None; Some 0%nat] ex_kernel.
Definition ex_vmap_a : list val := [VZ 1; VA [VZ 2; VZ 3; VZ 5]].
Lemma ex_vmap_wft : wft ex_vmap (tr_of ex_vmap ex_vmap_a) /\ length (t_choices (tr_of ex_vmap ex_vmap_a)) = 3%nat.
Proof. split; [apply (sim_wft _ ex_k ex_vmap_a); vm_compute; reflexivity | vm_compute; reflexivity]. Qed.

Definition ex_scan : gf := GScan None ex_kernel.
Definition ex_scan_a : list val := [VZ 1; VA [VZ 2; VZ 3; VZ 5]].
Lemma ex_scan_wft : wft ex_scan (tr_of ex_scan ex_scan_a) /\ length (t_choices (tr_of ex_scan ex_scan_a)) = 3%nat.
Proof. split; [apply (sim_wft _ ex_k ex_scan_a); vm_compute; reflexivity | vm_compute; reflexivity]. Qed.

Definition ex_switch : gf := GSwitch (GCons (GDist 0) (GCons ex_kernel GNil)).
Definition ex_switch_a : list val := [VZ 1; VT [VZ 4]; VT [VZ 2; VZ 3]].
Lemma ex_switch_wft : wft ex_switch (tr_of ex_switch ex_switch_a) /\ length (t_choices (tr_of ex_switch ex_switch_a)) = 1%nat.
Proof. split; [apply (sim_wft _ ex_k ex_switch_a); vm_compute; reflexivity | vm_compute; reflexivity]. Qed.

Definition ex_mask : gf := GMask ex_kernel.
Definition ex_mask_a : list val := [VB true; VZ 2; VZ 3].
Lemma ex_mask_wft : wft ex_mask (tr_of ex_mask ex_mask_a) /\ length (t_choices (tr_of ex_mask ex_mask_a)) = 1%nat.
Proof. split; [apply (sim_wft _ ex_k ex_mask_a); vm_compute; reflexivity | vm_compute; reflexivity]. Qed.

(* derived combinators (coq/model/Derived.v) *)
From Model Require Import Derived.
Definition ex_step : gf := GStatic (SSite [0%nat] (GDist 1) [EVar 0] (SRet (EVar 1))).     (* x -> x' ~ probe1(x) *)
Definition ex_step2 : gf := GStatic (SSite [0%nat] (GDist 2) [EAdd (EVar 0) (EVar 1)] (SRet (EVar 2))).   (* (c, x) -> c' *)
Ltac sim_witness a := split; [apply (sim_wft _ ex_k a); vm_compute; reflexivity | vm_compute; reflexivity].
Lemma ex_repeat_wft : let t := tr_of (g_repeat 3 ex_step 1) [VZ 2] in
  wft (g_repeat 3 ex_step (length (t_args t))) t /\ length (t_choices t) = 3%nat.
Proof. sim_witness [VZ 2]. Qed.
Lemma ex_iterate_wft : let t := tr_of (g_iterate 3 ex_step) [VZ 2] in wft (g_iterate 3 ex_step) t /\ length (t_choices t) = 3%nat.
Proof. sim_witness [VZ 2]. Qed.
Lemma ex_iterate_final_wft : let t := tr_of (g_iterate_final 3 ex_step) [VZ 2] in wft (g_iterate_final 3 ex_step) t /\ length (t_choices t) = 3%nat.
Proof. sim_witness [VZ 2]. Qed.
Lemma ex_accumulate_wft : let t := tr_of (g_accumulate ex_step2) ex_scan_a in wft (g_accumulate ex_step2) t /\ length (t_choices t) = 3%nat.
Proof. sim_witness ex_scan_a. Qed.
Lemma ex_reduce_wft : let t := tr_of (g_reduce ex_step2) ex_scan_a in wft (g_reduce ex_step2) t /\ length (t_choices t) = 3%nat.
Proof. sim_witness ex_scan_a. Qed.
Lemma ex_or_else_wft : let t := tr_of (g_or_else (GDist 0) ex_kernel) [VB false; VT [VZ 4]; VT [VZ 2; VZ 3]] in
  wft (g_or_else (GDist 0) ex_kernel) t /\ length (t_choices t) = 1%nat.
Proof. sim_witness [VB false; VT [VZ 4]; VT [VZ 2; VZ 3]]. Qed.
Lemma ex_masked_iterate_wft : let t := tr_of (g_masked_iterate ex_step) [VZ 2; VA [VB true; VB false; VB true]] in
  wft (g_masked_iterate ex_step) t /\ length (t_choices t) = 3%nat.
Proof. sim_witness [VZ 2; VA [VB true; VB false; VB true]]. Qed.
Lemma ex_masked_iterate_final_wft : let t := tr_of (g_masked_iterate_final ex_step) [VZ 2; VA [VB true; VB false; VB true]] in
  wft (g_masked_iterate_final ex_step) t /\ length (t_choices t) = 3%nat.
Proof. sim_witness [VZ 2; VA [VB true; VB false; VB true]]. Qed.

(* Regenerate with nothing selected: programs with a scan qualify too *)
Lemma ex_r_rssimple : rssimple ex_r.
Proof. simpl. tauto. Qed.
Lemma ex_scan_rssimple : rssimple ex_scan /\ wfg ex_scan.
Proof. simpl. unfold heads_ok. simpl. repeat split; try (repeat constructor; simpl; intuition congruence); try (intros E; discriminate). Qed.

(* mix over two components; index distribution probe 0 with parameter 0 draws an index in 0..3 (clamped by the switch) *)
Definition ex_mix : gf := g_mix 0 (GCons (GDist 1) (GCons ex_kernel GNil)).
Definition ex_mix_a : list val := [VZ 0; VT [VZ 4]; VT [VZ 2; VZ 3]].
Lemma ex_mix_wft : let t := tr_of ex_mix ex_mix_a in
  wft ex_mix t /\ length (t_args t) = S (gfs_len (GCons (GDist 1) (GCons ex_kernel GNil))) /\ length (t_choices t) = 2%nat.
Proof. split; [apply (sim_wft _ ex_k ex_mix_a); vm_compute; reflexivity | split; vm_compute; reflexivity]. Qed.

(* an IndexRequest on the vmap witness: element 1 alone is updated *)
Lemma ex_vmap_index_edit_succeeds :
  exists t' w b, edit ex_vmap ex_k2 (tr_of ex_vmap ex_vmap_a) (RIndex 1 (RUpdate [([KS 0%nat], VZ 9)])) (t_args (tr_of ex_vmap ex_vmap_a)) [TgLeaf false; TgLeaf false]
                 = Ok (t', w, b) /\ t' <> tr_of ex_vmap ex_vmap_a /\ w <> 0.
Proof. vm_compute. eexists _, _, _. split; [reflexivity|]. split; [intros E; discriminate | intros E; discriminate]. Qed.
