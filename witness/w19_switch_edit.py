"""C05/C06/C13: Switch.edit.  (a) an update whose constraint touches the address of only one branch raises
ValueError (the branches' return diffs carry different change tags and cannot be selected between);
(b) an update that changes the index AND constrains the new branch returns weight != new score - old score
(the constrained choice is counted twice).   exit 0 = property holds, exit 1 = a defect shows."""
import sys, os
os.environ.setdefault("JAX_PLATFORMS", "cpu")
import jax, jax.numpy as jnp, genjax
from genjax import ChoiceMapBuilder as C, Diff

@genjax.gen
def b0():
    return genjax.normal(0.0, 1.0) @ "x"

@genjax.gen
def b1():
    return genjax.normal(0.0, 2.0) @ "y"

sw = genjax.switch(b0, b1)
bad = []
tr = sw.simulate(jax.random.key(0), (jnp.array(0), (), ()))
try:
    new, w, rd, bwd = tr.update(jax.random.key(1), C["x"].set(0.5), Diff.no_change((jnp.array(0), (), ())))
    if not bool(jnp.allclose(w, new.get_score() - tr.get_score())):
        bad.append(f"(a) weight {float(w)} != score change {float(new.get_score() - tr.get_score())}")
except Exception as e:
    bad.append(f"(a) update constraining one branch raised {type(e).__name__}")
try:
    args = (Diff.unknown_change(jnp.array(1)), Diff.no_change(()), Diff.no_change(()))
    new, w, rd, bwd = tr.update(jax.random.key(1), C["y"].set(0.5), args)
    if not bool(jnp.allclose(w, new.get_score() - tr.get_score(), atol=1e-5)):
        bad.append(f"(b) index change: weight {float(w)} != score change {float(new.get_score() - tr.get_score())}")
except Exception as e:
    bad.append(f"(b) index change raised {type(e).__name__}")
print("; ".join(bad) if bad else "OK")
sys.exit(1 if bad else 0)
