"""C13 — engine B-gfi (harness/bgfi.py); theorems in coq/props/C13.v."""
from . import bgfi


def run(ctx):
    bgfi.run_property(ctx, "C13", oracles=bgfi.PROP_ORACLES.get("C13"))


def replay(case):
    return bgfi.replay(case)
