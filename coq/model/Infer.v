(* Model of genjax/_src/inference/sp.py (Target, Marginal) and smc.py
   (ParticleCollection, SMCAlgorithm, Importance, ImportanceK, ChangeTarget) in
   probability space (Prob.v), over flat discrete generative functions:
   a model is a list of sites (address = position), each with a finite support and a
   conditional pmf given the values of the earlier sites -- the fragment of the static
   language whose densities can be enumerated.  Written to mirror the source method by
   method; file:function cited at each definition.  No proofs here.

   log-space code                      probability-space model
     tr.get_score()                      dens m [] t
     tr.project(key, selection)          projb true  m [] sel t
     tr.project(key, ~selection)         projb false m [] sel t
     a - b, a + b                        a / b, a * b
     logsumexp(lw) - log(len(lw))        sumQ ws / len ws
     categorical(lw - logsumexp(lw))     index i with probability w_i / sumQ ws        *)
From Coq Require Import List ZArith QArith Qcanon Bool.
From Model Require Import Prob.
Import ListNotations.
Open Scope Qc_scope.

(* ---- flat discrete generative functions ---- *)
(* env = values of the earlier sites, most recent first *)
Record site := mkSite { supp : list Z; pmf : list Z -> Z -> Qc }.
Definition model := list site.
(* a choice map over the model's addresses, positional; None = address absent *)
Definition cmap := list (option Z).
Definition chd (c : cmap) : option Z := match c with [] => None | o :: _ => o end.
Definition ctl (c : cmap) : cmap := tl c.
Definition is_some {A} (o : option A) : bool := match o with Some _ => true | None => false end.
Definition dom (c : cmap) : list bool := map is_some c.

(* exp(score): the product of the conditionals (StaticTrace.get_score = sum of subtrace scores) *)
Fixpoint dens (m : model) (env t : list Z) : Qc :=
  match m with
  | [] => 1
  | s :: m' => match t with
               | [] => 0
               | v :: t' => pmf s env v * dens m' (v :: env) t'
               end
  end.
(* StaticTrace.project(key, selection): sum over sites of subtrace.project(selection(addr));
   Distribution trace: score if () in selection else 0.   pol = true: the selection b itself,
   pol = false: its complement ~b (ComplementSel), relative to the model's sites. *)
Fixpoint projb (pol : bool) (m : model) (env : list Z) (b : list bool) (t : list Z) : Qc :=
  match m with
  | [] => 1
  | s :: m' => match t with
               | [] => 0
               | v :: t' => (if Bool.eqb (hd false b) pol then pmf s env v else 1)
                            * projb pol m' (v :: env) (tl b) t'
               end
  end.
(* choices.filter(selection) / choices.filter(~selection) *)
Fixpoint fselb (pol : bool) (b : list bool) (t : list Z) : cmap :=
  match t with
  | [] => []
  | v :: t' => (if Bool.eqb (hd false b) pol then Some v else None) :: fselb pol (tl b) t'
  end.
(* Target.filter_to_unconstrained: choice_map.filter(~constraint.get_selection()) *)
Definition unconstrained (c : cmap) (t : list Z) : cmap := fselb false (dom c) t.
(* ChoiceMap.merge = `self | other`: left-biased *)
Fixpoint merge (a b : cmap) : cmap :=
  match a, b with
  | [], _ => b
  | _, [] => a
  | x :: a', y :: b' => (match x with Some _ => x | None => y end) :: merge a' b'
  end.

Definition prior (s : site) (env : list Z) : dist Z := map (fun v => (v, pmf s env v)) (supp s).

(* StaticGenerativeFunction.simulate: ancestral sampling, site by site *)
Fixpoint simulate (m : model) (env : list Z) : dist (list Z) :=
  match m with
  | [] => ret []
  | s :: m' => bind (prior s env) (fun v => dmap (cons v) (simulate m' (v :: env)))
  end.
(* StaticGenerativeFunction.generate (GenerateHandler): a constrained site takes the
   constraint's value and adds its log-density to the weight; an unconstrained site is sampled. *)
Fixpoint generate (m : model) (env : list Z) (c : cmap) : dist (list Z * Qc) :=
  match m with
  | [] => ret ([], 1)
  | s :: m' =>
      match chd c with
      | Some v => dmap (fun tw => (v :: fst tw, pmf s env v * snd tw)) (generate m' (v :: env) (ctl c))
      | None => bind (prior s env) (fun v => dmap (fun tw => (v :: fst tw, snd tw)) (generate m' (v :: env) (ctl c)))
      end
  end.

(* the traces consistent with a constraint, and the unnormalised target measure *)
Fixpoint ctraces (m : model) (c : cmap) : list (list Z) :=
  match m with
  | [] => [[]]
  | s :: m' => match chd c with
               | Some v => map (cons v) (ctraces m' (ctl c))
               | None => flat_map (fun v => map (cons v) (ctraces m' (ctl c))) (supp s)
               end
  end.
Definition tsum (m : model) (c : cmap) (h : list Z -> Qc) : Qc := sumQ (map h (ctraces m c)).
(* normalising constant Z of Target(m, c) = marginal probability of c *)
Definition evidence (m : model) (c : cmap) : Qc := tsum m c (dens m []).
(* the outputs of a sampler over the sites b: every assignment of supported values to them *)
Fixpoint outs (m : model) (b : list bool) : list cmap :=
  match m with
  | [] => [[]]
  | s :: m' => if hd false b
               then flat_map (fun v => map (cons (Some v)) (outs m' (tl b))) (supp s)
               else map (cons None) (outs m' (tl b))
  end.

(* hypotheses used by the theorems *)
Definition wf_site (s : site) : Prop := NoDup (supp s).
Definition normed_site (s : site) : Prop := forall env, sumQ (map (pmf s env) (supp s)) = 1.
Definition pos_site (s : site) : Prop := forall env v, In v (supp s) -> 0 < pmf s env v.
Definition m_wf (m : model) := Forall wf_site m.
Definition m_normed (m : model) := Forall normed_site m.
Definition m_pos (m : model) := Forall pos_site m.

Definition Zlist_eqb (a b : list Z) : bool :=
  Nat.eqb (length a) (length b) && forallb (fun p => Z.eqb (fst p) (snd p)) (combine a b).
Definition oZ_eqb (a b : option Z) : bool :=
  match a, b with Some x, Some y => Z.eqb x y | None, None => true | _, _ => false end.
Fixpoint cmap_eqb (a b : cmap) : bool :=
  match a, b with
  | [], [] => true
  | x :: a', y :: b' => oZ_eqb x y && cmap_eqb a' b'
  | _, _ => false
  end.

(* ---- sp.py ---- *)
Record target := mkTarget { tm : model; tc : cmap }.

(* Marginal.random_weighted, algorithm = None:
     tr = gen_fn.simulate(sub_key, args); latent_choices = choices.filter(selection)
     weight = tr.project(sub_key, ~selection); return tr.get_score() - weight, latent_choices *)
Definition marg_rw (m : model) (b : list bool) : dist (cmap * Qc) :=
  dmap (fun t => (fselb true b t, dens m [] t / projb false m [] b t)) (simulate m []).
(* Marginal.estimate_logpdf, algorithm = None: _, weight = gen_fn.importance(key, v, args) *)
Definition marg_est (m : model) (v : cmap) : dist Qc := dmap snd (generate m [] v).

(* a SampleDistribution used as a proposal: what random_weighted and estimate_logpdf return *)
Record proposal := mkProp { q_rw : dist (cmap * Qc); q_est : cmap -> dist Qc }.

(* ---- smc.py ---- *)
Definition particle := (list Z * Qc)%type.          (* trace, exp(log-weight) *)
Definition weights (ps : list particle) : list Qc := map snd ps.
(* ParticleCollection.get_log_marginal_likelihood_estimate *)
Definition lml (ps : list particle) : Qc := sumQ (weights ps) / Qc_of_nat (length ps).
(* ParticleCollection.sample_particle *)
Definition resample (ps : list particle) : dist particle :=
  map (fun tw => (tw, snd tw / sumQ (weights ps))) ps.

Inductive alg :=
| AImp (tg : target) (q : option proposal)
| AImpK (tg : target) (q : option proposal) (K : nat)
| AChange (prev : alg) (tg : target).
Fixpoint num_particles (a : alg) : nat :=
  match a with AImp _ _ => 1%nat | AImpK _ _ K => K | AChange p _ => num_particles p end.
Definition final_target (a : alg) : target :=
  match a with AImp tg _ => tg | AImpK tg _ _ => tg | AChange _ tg => tg end.

(* one particle of Importance.run_smc / ImportanceK.run_smc:
     q is None : log_weight = 0;  tr, target_score = target.importance(key, empty)
     otherwise : log_weight, choice = q.random_weighted(sub_key, target)
                 tr, target_score = target.importance(key, choice)   [constraint.merge(choice)]
     log-weight of the particle = target_score - log_weight *)
Definition imp_particle (tg : target) (q : option proposal) : dist particle :=
  match q with
  | None => generate (tm tg) [] (tc tg)
  | Some q => bind (q_rw q) (fun cw =>
                dmap (fun tw => (fst tw, snd tw / snd cw)) (generate (tm tg) [] (merge (tc tg) (fst cw))))
  end.
(* the retained particle of run_csmc:
     q_score = q.estimate_logpdf(sub_key, retained, target) (0 without q)
     trace, target_score = target.importance(key, retained); weight target_score - q_score *)
Definition csmc_retained (tg : target) (q : option proposal) (r : cmap) : dist particle :=
  match q with
  | None => generate (tm tg) [] (merge (tc tg) r)
  | Some q => bind (q_est q r) (fun qs =>
                dmap (fun tw => (fst tw, snd tw / qs)) (generate (tm tg) [] (merge (tc tg) r)))
  end.
(* ChangeTarget._reweight:
     latents = prev.get_final_target().filter_to_unconstrained(particle.get_choices())
     new_trace, new_weight = target.importance(key, latents)
     this_weight = new_weight - particle.get_score() + weight *)
Definition reweight (ptg tg : target) (p : particle) : dist particle :=
  dmap (fun tw => (fst tw, snd tw / dens (tm ptg) [] (fst p) * snd p))
       (generate (tm tg) [] (merge (tc tg) (unconstrained (tc ptg) (fst p)))).

Fixpoint run_smc (a : alg) : dist (list particle) :=
  match a with
  | AImp tg q => dmap (fun p => [p]) (imp_particle tg q)
  | AImpK tg q K => iid K (imp_particle tg q)
  | AChange prev tg => bind (run_smc prev) (mapM (reweight (final_target prev) tg))
  end.
(* run_csmc: the retained particle is the last one (stack_to_first_dim(others, retained)) *)
Fixpoint run_csmc (a : alg) (r : cmap) : dist (list particle) :=
  match a with
  | AImp tg q => dmap (fun p => [p]) (csmc_retained tg q r)
  | AImpK tg q K => bind (iid (K - 1) (imp_particle tg q))
                         (fun ps => dmap (fun p => ps ++ [p]) (csmc_retained tg q r))
  | AChange prev tg => bind (run_csmc prev r) (mapM (reweight (final_target prev) tg))
  end.

(* the law of one particle of run_smc (the particles of a collection are independent) *)
Fixpoint particle_dist (a : alg) : dist particle :=
  match a with
  | AImp tg q => imp_particle tg q
  | AImpK tg q _ => imp_particle tg q
  | AChange prev tg => bind (particle_dist prev) (reweight (final_target prev) tg)
  end.

(* SMCAlgorithm.random_weighted(key, target):
     algorithm = ChangeTarget(self, target); collection = algorithm.run_smc(key)
     particle = collection.sample_particle(sub_key)
     particle.get_score() - collection.get_log_marginal_likelihood_estimate(),
     target.filter_to_unconstrained(particle.get_choices()) *)
Definition smc_rw (a : alg) (tg : target) : dist (cmap * Qc) :=
  bind (run_smc (AChange a tg)) (fun ps =>
    bind (resample ps) (fun tw =>
      ret (unconstrained (tc tg) (fst tw), dens (tm tg) [] (fst tw) / lml ps))).
(* SMCAlgorithm.log_marginal_likelihood_estimate / estimate_normalizing_constant *)
Definition smc_lml (a : alg) (tg : option target) : dist Qc :=
  dmap lml (run_smc (match tg with Some t => AChange a t | None => a end)).

(* ChangeTarget.run_csmc_for_normalizing_constant(key, latent_choices, w), reached from
   SMCAlgorithm.estimate_reciprocal_normalizing_constant:
     collection = prev.run_csmc(sub_key, latent_choices)
     new_rejected_weights = vmap(_reweight)(.., particles[:-1], log_weights[:-1])
     retained_score = collection.get_particle(-1).get_score(); retained_weight = log_weights[-1]
     all_weights = stack(new_rejected_weights, w - retained_score + retained_weight)
     return retained_score - (logsumexp(all_weights) - log(num_particles)) *)
Definition recip (prev : alg) (tg : target) (u : cmap) (w : Qc) : dist Qc :=
  let ptg := final_target prev in
  bind (run_csmc prev u) (fun ps =>
    let r := last ps ([], 0) in
    bind (mapM (fun p => dmap snd (reweight ptg tg p)) (removelast ps)) (fun ws =>
      let allw := ws ++ [w / dens (tm ptg) [] (fst r) * snd r] in
      ret (dens (tm ptg) [] (fst r) / (sumQ allw / Qc_of_nat (num_particles prev))))).

(* Marginal.random_weighted with an algorithm:
     weight = tr.project(sub_key, ~selection); target = Target(gen_fn, args, latent_choices)
     other_choices = choices.filter(~selection)
     Z = algorithm.estimate_reciprocal_normalizing_constant(key, target, other_choices, weight)
     return Z, latent_choices *)
Definition marg_rw_alg (m : model) (b : list bool) (a : alg) : dist (cmap * Qc) :=
  bind (simulate m []) (fun t =>
    let s := fselb true b t in
    dmap (fun z => (s, z)) (recip a (mkTarget m s) (fselb false b t) (projb false m [] b t))).
(* Marginal.estimate_logpdf with an algorithm: algorithm.estimate_normalizing_constant(key, Target(gen_fn, args, v)) *)
Definition marg_est_alg (m : model) (a : alg) (v : cmap) : dist Qc :=
  smc_lml a (Some (mkTarget m v)).

(* ---- table-driven sites, for the case files: support {0..n-1}; the conditional pmf is
   a flat table indexed (C order) by the values of all earlier sites, then the own value;
   cards = cardinalities of the earlier sites, in site order ---- *)
Definition tab_index (cards : list nat) (vals : list Z) : Z :=
  fold_left (fun acc cv => (acc * Z.of_nat (fst cv) + snd cv)%Z) (combine cards vals) 0%Z.
Definition in_range (cards : list nat) (vals : list Z) : bool :=
  Nat.eqb (length cards) (length vals)
  && forallb (fun cv => (Z.leb 0 (snd cv) && Z.ltb (snd cv) (Z.of_nat (fst cv)))%bool) (combine cards vals).
Definition tsite (cards : list nat) (n : nat) (tab : list Qc) : site :=
  mkSite (map Z.of_nat (seq 0 n))
         (fun env v => let vals := rev env ++ [v] in
                       if in_range (cards ++ [n]) vals
                       then nth (Z.to_nat (tab_index (cards ++ [n]) vals)) tab 0 else 0).
(* a model from (cardinality, table) pairs *)
Fixpoint tmodel_from (cards : list nat) (l : list (nat * list Qc)) : model :=
  match l with
  | [] => []
  | (n, tab) :: r => tsite cards n tab :: tmodel_from (cards ++ [n]) r
  end.
Definition tmodel := tmodel_from [].

(* ---- correspondence cases (engine C-inf) ---- *)
(* relative tolerance 1e-5 on probability-space weights (float32 log-densities) *)
Definition tol : Qc := Q2Qc (1 # 100000).
Definition Qc_leb (a b : Qc) : bool := Qle_bool (this a) (this b).
Definition close (a b : Qc) : bool := Qc_leb (b * (1 - tol)) a && Qc_leb a (b * (1 + tol)).
Fixpoint particles_close (a b : list particle) : bool :=
  match a, b with
  | [], [] => true
  | (t, w) :: a', (t', w') :: b' => Zlist_eqb t t' && close w w' && particles_close a' b'
  | _, _ => false
  end.
(* is x an outcome of positive probability of d, up to `same` *)
Definition in_support {A} (same : A -> A -> bool) (x : A) (d : dist A) : bool :=
  existsb (fun ap => same x (fst ap) && negb (Qc_eq_bool (snd ap) 0)) d.
Definition ow_close (a b : cmap * Qc) : bool := cmap_eqb (fst a) (fst b) && close (snd a) (snd b).

(* a proposal given extensionally: the outcomes of random_weighted, and estimate_logpdf as a
   finite table from choice maps to outcome lists *)
Definition tprop (rw : dist (cmap * Qc)) (est : list (cmap * dist Qc)) : proposal :=
  mkProp rw (fun v => match find (fun e => cmap_eqb (fst e) v) est with Some e => snd e | None => [] end).

(* proposals built from a flat generative function mq whose site j has the address of the
   target's site (nth j idx); n = number of sites of the target *)
Fixpoint find_pos (i : nat) (idx : list nat) (j : nat) : option nat :=
  match idx with [] => None | x :: r => if Nat.eqb x i then Some j else find_pos i r (S j) end.
Definition embed (idx : list nat) (n : nat) (c : cmap) : cmap :=
  map (fun i => match find_pos i idx 0 with Some j => nth j c None | None => None end) (seq 0 n).
Definition extract (idx : list nat) (v : cmap) : list Z :=
  map (fun i => match nth i v None with Some z => z | None => 0%Z end) idx.
(* Marginal(mq, bq) used as a proposal; its estimate_logpdf(key, retained, target) is rejected by
   the type checker (never reached): empty *)
Definition mprop (mq : model) (bq : list bool) (idx : list nat) (n : nat) : proposal :=
  mkProp (dmap (fun ow => (embed idx n (fst ow), snd ow)) (marg_rw mq bq)) (fun _ => []).
(* a SampleDistribution defined by simulate/assess of mq: exact density *)
Definition gprop (mq : model) (idx : list nat) (n : nat) : proposal :=
  mkProp (dmap (fun t => (embed idx n (map Some t), dens mq [] t)) (simulate mq []))
         (fun v => ret (dens mq [] (extract idx v))).

Inductive icase :=
(* Marginal(m, b).random_weighted returned choices o and log-weight with exp = w;
   t = the trace it simulated, when the harness could recover it *)
| CMargRW (m : model) (b : list bool) (t : option (list Z)) (o : cmap) (w : Qc)
(* Marginal(m, _).estimate_logpdf(key, v) = log w; t = the trace importance built *)
| CMargEst (m : model) (v : cmap) (t : option (list Z)) (w : Qc)
| CMargRWAlg (m : model) (b : list bool) (a : alg) (o : cmap) (w : Qc)
| CMargEstAlg (m : model) (a : alg) (v : cmap) (w : Qc)
(* a.run_smc(key): particle traces, exp(log_weights), exp(log marginal likelihood estimate) *)
| CSmc (a : alg) (ps : list particle) (z : Qc)
| CCsmc (a : alg) (r : cmap) (ps : list particle)
(* a.random_weighted(key, tg) = (log w, o) *)
| CSmcRW (a : alg) (tg : target) (o : cmap) (w : Qc)
(* a.log_marginal_likelihood_estimate(key, tg) = log z *)
| CSmcLml (a : alg) (tg : option target) (z : Qc).

Definition icase_ok (c : icase) : bool :=
  match c with
  | CMargRW m b t o w =>
      in_support ow_close (o, w) (marg_rw m b)
      && match t with
         | Some t => cmap_eqb o (fselb true b t) && close w (dens m [] t / projb false m [] b t)
         | None => true
         end
  | CMargEst m v t w =>
      in_support close w (marg_est m v)
      && match t with
         | Some t => cmap_eqb (merge v (map Some t)) (map Some t) && close w (projb true m [] (dom v) t)
         | None => true
         end
  | CMargRWAlg m b a o w => in_support ow_close (o, w) (marg_rw_alg m b a)
  | CMargEstAlg m a v w => in_support close w (marg_est_alg m a v)
  | CSmc a ps z =>
      Nat.eqb (length ps) (num_particles a)
      && forallb (fun p => in_support (fun x y => particles_close [x] [y]) p (particle_dist a)) ps
      && close z (lml ps)
  | CCsmc a r ps => in_support particles_close ps (run_csmc a r)
  | CSmcRW a tg o w => in_support ow_close (o, w) (smc_rw a tg)
  | CSmcLml a tg z => in_support close z (smc_lml a tg)
  end.
Fixpoint imismatches_from (n : nat) (cs : list icase) : list nat :=
  match cs with
  | [] => []
  | c :: r => if icase_ok c then imismatches_from (S n) r else n :: imismatches_from (S n) r
  end.
Definition imismatches := imismatches_from 0.
