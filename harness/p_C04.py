"""C04 — engine B-gfi (harness/bgfi.py); theorems in coq/props/C04.v."""
from . import bgfi


def run(ctx):
    bgfi.run_property(ctx, "C04", oracles=bgfi.PROP_ORACLES.get("C04"))


def replay(case):
    return bgfi.replay(case)
