(* C22 — the static language traces exactly the visited addresses, once each.
   live_paths c: the addresses at which the choice map c holds a valid value, in order. *)
From Coq Require Import List ZArith.
Import ListNotations.
From Gen Require Import SelGen.
From Model Require Import Key Sel GFI GFIEdit GFIOps.
From Proofs Require Import GFIBase GFIRef GFIWf GFIConsistent GFIProject GFISim GFIGen GFIEditProofs GFIStatic.
Open Scope Z_scope.

Theorem C22_choices_are_exactly_the_visited_addresses : forall g t,
  wft g t -> live_paths (t_choices t) = map tm_path (t_terms t).
Proof. exact choices_are_visited. Qed.
Print Assumptions C22_choices_are_exactly_the_visited_addresses.

(* simulate / importance succeed only if no address is traced twice (AddressReuse otherwise) *)
Theorem C22_address_reuse_is_reported : forall b k c a,
  (forall t, simulate (GStatic b) k a = Ok t -> NoDup (body_addrs b)) /\
  (forall x, generate (GStatic b) k c a = Ok x -> NoDup (body_addrs b)).
Proof.
  intros b k c a. split; [intros t; apply simulate_static_addresses_distinct | intros x; apply generate_static_addresses_distinct].
Qed.
Print Assumptions C22_address_reuse_is_reported.
Theorem C22_second_visit_raises : forall a g es rest k cnt env acc av t,
  eval_list env es = Ok av -> simulate g (fold_in k cnt) av = Ok t -> In a (map fst acc) ->
  sim_body (SSite a g es rest) k cnt env acc = Err EAddressReuse.
Proof.
  intros a g es rest k cnt env acc av t Hav Ht Hin. simpl. rewrite Hav. simpl. rewrite Ht. simpl.
  rewrite (existsb_addr acc a Hin). reflexivity.
Qed.
Print Assumptions C22_second_visit_raises.

(* assess: MissingAddress exactly at a visited address without a value *)
Theorem C22_missing_address : forall a g es rest c env s av,
  eval_list env es = Ok av ->
  (csub_addr c a = [] -> assess_body (SSite a g es rest) c env s = Err EMissingAddress) /\
  (csub_addr c a <> [] -> assess_body (SSite a g es rest) c env s =
      (do x <- assess g (csub_addr c a) av; assess_body rest c (env ++ [snd x]) (s + fst x))).
Proof.
  intros a g es rest c env s av Hav. split; [apply (assess_missing_address a g es rest c env s av Hav) | apply (assess_present_address a g es rest c env s av Hav)].
Qed.
Print Assumptions C22_missing_address.

(* ---- non-vacuity: concrete non-trivial programs and traces meeting the hypotheses above (proofs/GFIWitness.v) ---- *)
From Proofs Require Import GFIWitness.
Example C22_hypotheses_met : wft ex_g ex_t /\ length (t_choices ex_t) = 7%nat.
Proof. exact (conj ex_wft ex_nontrivial). Qed.
Print Assumptions C22_hypotheses_met.
