"""C15/C05: a contramap / dimap whose argument mapping returns a constant (a literal in the traced function)
handed the inner generative function an untagged argument on every edit, which its type check rejects, so
update / edit raised; likewise a `post` returning a literal leaf produced an untagged return diff.
exit 0 = property holds, exit 1 = defect shows."""
import sys, os
os.environ.setdefault("JAX_PLATFORMS", "cpu")
import jax, jax.numpy as jnp, genjax
from genjax import ChoiceMapBuilder as C, Diff

inner = genjax.normal.contramap(lambda x: (2.0, 1.0))          # the mapped arguments are literals
post = genjax.normal.dimap(pre=lambda x: (x, 1.0), post=lambda args, xf, r: (r, 3.0))
ok = True
for name, g in (("contramap-const", inner), ("dimap-post-literal", post)):
    tr = g.simulate(jax.random.key(0), (0.5,))
    try:
        new, w, rd, bwd = tr.update(jax.random.key(1), C.v(0.25), Diff.unknown_change((0.7,)))
        good = bool(jnp.allclose(new.get_choices().get_value(), 0.25)) and bool(jnp.allclose(w, new.get_score() - tr.get_score()))
        good = good and Diff.static_check_tree_diff(rd)
        print(name, "update ->", float(w), "OK" if good else "WRONG")
        ok = ok and good
    except Exception as e:
        print(name, "update raised", type(e).__name__, str(e)[:100].replace("\n", " "))
        ok = False
sys.exit(0 if ok else 1)
