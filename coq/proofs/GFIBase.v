(* Base lemmas for the GFI model: the error monad, mapM / scanM, finite-map choice maps,
   and the mutual induction scheme over programs. *)
From Coq Require Import List Bool ZArith NArith Lia Arith.
Import ListNotations.
From Gen Require Import SelGen.
From Model Require Import Key Sel GFI.
Open Scope Z_scope.

Scheme gf_mut := Induction for gf Sort Prop
  with sbody_mut := Induction for sbody Sort Prop
  with gfs_mut := Induction for gfs Sort Prop.
Combined Scheme gf_sbody_gfs_ind from gf_mut, sbody_mut, gfs_mut.

(* ---------- monad ---------- *)
Lemma bind_ok {A B} (r : res A) (f : A -> res B) b :
  bind r f = Ok b -> exists a, r = Ok a /\ f a = Ok b.
Proof. destruct r; simpl; [eauto | discriminate]. Qed.

Ltac inv_bind H :=
  let a := fresh "x" in let Ha := fresh "Hx" in
  apply bind_ok in H; destruct H as [a [Ha H]].

Tactic Notation "bind_inv" hyp(H) "as" ident(a) ident(Ha) :=
  apply bind_ok in H; destruct H as [a [Ha H]].

Lemma mapM_nil {A B} (f : A -> res B) : mapM f [] = Ok [].
Proof. reflexivity. Qed.
Lemma mapM_cons {A B} (f : A -> res B) x r :
  mapM f (x :: r) = (do y <- f x; do ys <- mapM f r; Ok (y :: ys)).
Proof. reflexivity. Qed.

Lemma mapM_ok_Forall2 {A B} (f : A -> res B) l ys :
  mapM f l = Ok ys -> Forall2 (fun x y => f x = Ok y) l ys.
Proof.
  revert ys; induction l as [|x r IH]; intros ys H.
  - rewrite mapM_nil in H. inversion H. constructor.
  - rewrite mapM_cons in H. inv_bind H. inv_bind H. inversion H; subst. constructor; auto.
Qed.
Lemma Forall2_mapM_ok {A B} (f : A -> res B) l ys :
  Forall2 (fun x y => f x = Ok y) l ys -> mapM f l = Ok ys.
Proof.
  induction 1 as [|x y l ys Hxy _ IH]; [reflexivity|].
  rewrite mapM_cons, Hxy. simpl. rewrite IH. reflexivity.
Qed.
Lemma mapM_ext {A B} (f g : A -> res B) l :
  (forall x, In x l -> f x = g x) -> mapM f l = mapM g l.
Proof.
  induction l as [|x r IH]; intros H; [reflexivity|].
  rewrite !mapM_cons, (H x (or_introl eq_refl)), IH; [reflexivity|]. intros; apply H; now right.
Qed.
Lemma mapM_length {A B} (f : A -> res B) l ys : mapM f l = Ok ys -> length ys = length l.
Proof. intros H. apply mapM_ok_Forall2 in H. induction H; simpl; congruence. Qed.

(* mapM of a function that post-processes another *)
Lemma mapM_map_res {A B C} (f : A -> res B) (h : B -> C) l :
  mapM (fun x => do y <- f x; Ok (h y)) l = (do ys <- mapM f l; Ok (map h ys)).
Proof.
  induction l as [|x r IH]; [reflexivity|].
  rewrite !mapM_cons, IH. destruct (f x); simpl; [|reflexivity]. destruct (mapM f r); reflexivity.
Qed.

Lemma scanM_nil {T} (step : nat -> val -> res (T * val * val)) c : scanM step [] c = Ok ([], c, []).
Proof. reflexivity. Qed.
Lemma scanM_cons {T} (step : nat -> val -> res (T * val * val)) i r c :
  scanM step (i :: r) c =
  (do x <- step i c; let '(t, c', y) := x in
   do rr <- scanM step r c'; let '(ts, cf, ys) := rr in Ok (t :: ts, cf, y :: ys)).
Proof. reflexivity. Qed.

Lemma zsum_app a b : zsum (a ++ b) = zsum a + zsum b.
Proof. induction a; simpl; lia. Qed.
Lemma zsum_concat_map {A} (f : A -> list Z) l : zsum (concat (map f l)) = zsum (map (fun x => zsum (f x)) l).
Proof. induction l; simpl; [reflexivity|]. rewrite zsum_app. lia. Qed.

(* ---------- keys of choice maps ---------- *)
Lemma ckey_eqb_refl k : ckey_eqb k k = true.
Proof. destruct k; simpl; apply Nat.eqb_refl. Qed.
Lemma ckey_eqb_eq a b : ckey_eqb a b = true <-> a = b.
Proof.
  destruct a, b; simpl; rewrite ?Nat.eqb_eq; split; intros H; try congruence; try discriminate; inversion H; reflexivity.
Qed.
Lemma path_eqb_eq a b : path_eqb a b = true <-> a = b.
Proof.
  revert b; induction a as [|x r IH]; destruct b as [|y s]; simpl; try (split; [discriminate|congruence]); [tauto|].
  rewrite andb_true_iff, ckey_eqb_eq, IH. split; [intros [-> ->]; reflexivity | intros H; inversion H; auto].
Qed.
Lemma path_eqb_refl a : path_eqb a a = true.
Proof. apply path_eqb_eq; reflexivity. Qed.

Lemma csub_app c1 c2 k : csub (c1 ++ c2) k = csub c1 k ++ csub c2 k.
Proof.
  induction c1 as [|[[|k' q] v] r IH]; simpl; auto.
  destruct (ckey_eqb k k'); simpl; rewrite IH; reflexivity.
Qed.
Lemma csub_path_app c1 c2 p : csub_path (c1 ++ c2) p = csub_path c1 p ++ csub_path c2 p.
Proof. revert c1 c2; induction p as [|k r IH]; intros; simpl; [reflexivity|]. rewrite csub_app. apply IH. Qed.
Lemma csub_path_nil p : csub_path [] p = [].
Proof. induction p; simpl; auto. Qed.

Lemma csub_cprefix_same k q c : csub (cprefix (k :: q) c) k = cprefix q c.
Proof.
  induction c as [|[p v] r IH]; simpl; [reflexivity|]. rewrite ckey_eqb_refl. simpl. f_equal. apply IH.
Qed.
Lemma csub_cprefix_other k k' q c : k <> k' -> csub (cprefix (k' :: q) c) k = [].
Proof.
  intros Hne. induction c as [|[p v] r IH]; simpl; [reflexivity|].
  destruct (ckey_eqb k k') eqn:E; [apply ckey_eqb_eq in E; contradiction | apply IH].
Qed.
Lemma cprefix_nil c : cprefix [] c = c.
Proof. unfold cprefix. induction c as [|[p v] r IH]; simpl; [reflexivity|]. f_equal. apply IH. Qed.
Lemma csub_path_cprefix q c : csub_path (cprefix q c) q = c.
Proof.
  induction q as [|k r IH]; simpl; [apply cprefix_nil|]. rewrite csub_cprefix_same. apply IH.
Qed.
Lemma csub_path_cprefix_other_head k k' q q' c : k <> k' -> csub_path (cprefix (k' :: q') c) (k :: q) = [].
Proof. intros Hne. simpl. rewrite csub_cprefix_other by assumption. apply csub_path_nil. Qed.

Lemma cget_csub c k q : cget (csub c k) q = cget c (k :: q).
Proof.
  induction c as [|[[|k' p] v] r IH]; simpl; auto.
  destruct (ckey_eqb k k') eqn:E.
  - apply ckey_eqb_eq in E; subst. simpl. rewrite ckey_eqb_refl. simpl. destruct (path_eqb p q); auto.
  - rewrite IH. simpl. replace (ckey_eqb k' k) with false; [reflexivity|].
    destruct (ckey_eqb k' k) eqn:E2; [apply ckey_eqb_eq in E2; subst; rewrite ckey_eqb_refl in E; discriminate | reflexivity].
Qed.
Lemma cget_csub_path c p q : cget (csub_path c p) q = cget c (p ++ q).
Proof. revert c; induction p as [|k r IH]; intros c; simpl; [reflexivity|]. rewrite IH. apply cget_csub. Qed.

Lemma csub_cmask f c k : csub (cmask f c) k = cmask f (csub c k).
Proof.
  induction c as [|[[|k' q] v] r IH]; simpl; auto.
  destruct (ckey_eqb k k'); simpl; rewrite IH; reflexivity.
Qed.
Lemma csub_path_cmask f c p : csub_path (cmask f c) p = cmask f (csub_path c p).
Proof. revert c; induction p as [|k r IH]; intros; simpl; [reflexivity|]. rewrite csub_cmask. apply IH. Qed.
Lemma cis_empty_cmask f c : cis_empty (cmask f c) = cis_empty c.
Proof. destruct c; reflexivity. Qed.
Lemma cget_cmask f c p : cget (cmask f c) p = option_map (vmask f) (cget c p).
Proof.
  induction c as [|[q v] r IH]; simpl; [reflexivity|]. destruct (path_eqb q p); [reflexivity | apply IH].
Qed.
Lemma cmask_true c : cmask true c = c.
Proof. unfold cmask, vmask. induction c as [|[q v] r IH]; simpl; [reflexivity|]. f_equal; apply IH. Qed.
Lemma leaf_Z_vmask f v : leaf_Z (vmask f v) = leaf_Z v.
Proof. unfold vmask. destruct f; [reflexivity|]. destruct v; try reflexivity. Qed.

(* seq helpers *)
Lemma seq_S_shift start len : seq (S start) len = map S (seq start len).
Proof. symmetry. apply seq_shift. Qed.
