(* What each combinator's traces look like (C11 vmap, C12 scan, C13 switch, C14 mask, C15 dimap),
   read off the well-formedness invariant that simulate / importance / edit establish. *)
From Coq Require Import List Bool ZArith NArith Lia Arith.
Import ListNotations.
From Gen Require Import SelGen.
From Model Require Import Key Sel GFI GFIEdit Derived.
From Proofs Require Import GFIBase GFIRef GFIWf GFIConsistent GFIProject GFISim GFIGen GFIEditProofs GFIEditChoices.
Open Scope Z_scope.

(* every operation of the interface yields a trace that records an execution *)
Definition produced (g : gf) (t : trace) : Prop :=
  (exists k a, simulate g k a = Ok t) \/
  (exists k c a w, generate g k c a = Ok (t, w)) \/
  (exists k t0 r a tg w b, wfg g /\ plain r /\ wft g t0 /\ edit g k t0 r a tg = Ok (t, w, b)).
Theorem produced_wft g t : produced g t -> wft g t.
Proof.
  intros [[k [a H]] | [[k [c [a [w H]]]] | [k [t0 [r [a [tg [w [b [Hg [Hp [Hw H]]]]]]]]]]]].
  - apply (proj1 simulate_wft_all g k a t H).
  - apply (proj1 (proj1 generate_wft_all g k c a (t, w) H)).
  - apply (edit_ok _ _ _ _ _ _ _ _ _ Hg Hp Hw H).
Qed.

(* ---------------- vmap ---------------- *)
Theorem vmap_trace_shape axes g t :
  wft (GVmap axes g) t ->
  exists inner n, t = TVmap inner (t_args t) /\ vmap_len axes (t_args t) = Some n /\ length inner = n /\
    (forall i t', nth_error inner i = Some t' ->
        wft g t' /\ t_args t' = slice_args axes (t_args t) i /\ csub (t_choices t) (KI i) = t_choices t') /\
    t_score t = zsum (map t_score inner) /\ t_retval t = VA (map t_retval inner).
Proof.
  intros H. destruct t; simpl in H; try contradiction. destruct H as [n [Hlen [Hn Hall]]].
  exists inner, n. simpl. repeat split; auto; try apply (Hall i t' H).
  fold (ichoices 0 inner). rewrite <- (Nat.add_0_l i). apply csub_ichoices. exact H.
Qed.

Theorem vmap_generate_elementwise axes g k c a t w :
  generate (GVmap axes g) k c a = Ok (t, w) ->
  exists n rs, vmap_len axes a = Some n /\ length rs = n /\
    (forall i x, nth_error rs i = Some x ->
        generate g (fold_in k (N.of_nat i)) (csub c (KI i)) (slice_args axes a i) = Ok x) /\
    t = TVmap (map fst rs) a /\ w = zsum (map snd rs).
Proof.
  intros H. simpl in H. destruct (vmap_len axes a) as [n|] eqn:Hn; [|discriminate].
  bind_inv H as rs Hrs. inversion H; subst. exists n, rs. pose proof (mapM_ok_Forall2 _ _ _ Hrs) as HF.
  split; [reflexivity|]. split; [apply Forall2_length' in HF; rewrite seq_length in HF; congruence|].
  split; [|auto]. intros i x Hi. apply (Forall2_seq_nth _ _ _ _ _ _ HF Hi).
Qed.
Theorem vmap_simulate_elementwise axes g k a t :
  simulate (GVmap axes g) k a = Ok t ->
  exists n inner, vmap_len axes a = Some n /\ length inner = n /\
    (forall i t', nth_error inner i = Some t' -> simulate g (fold_in k (N.of_nat i)) (slice_args axes a i) = Ok t') /\
    t = TVmap inner a.
Proof.
  intros H. simpl in H. destruct (vmap_len axes a) as [n|] eqn:Hn; [|discriminate].
  bind_inv H as rs Hrs. inversion H; subst. exists n, rs. pose proof (mapM_ok_Forall2 _ _ _ Hrs) as HF.
  split; [reflexivity|]. split; [apply Forall2_length' in HF; rewrite seq_length in HF; congruence|].
  split; [|auto]. intros i x Hi. apply (Forall2_seq_nth _ _ _ _ _ _ HF Hi).
Qed.
Theorem vmap_zero_length axes g k a :
  vmap_len axes a = Some 0%nat ->
  simulate (GVmap axes g) k a = Ok (TVmap [] a) /\ t_score (TVmap [] a) = 0 /\ t_choices (TVmap [] a) = [] /\
  generate (GVmap axes g) k [] a = Ok (TVmap [] a, 0).
Proof. intros H. simpl. rewrite H. simpl. auto. Qed.

(* ---------------- scan ---------------- *)
Theorem scan_trace_is_the_loop n g t :
  wft (GScan n g) t ->
  exists inner carry xs cf ys,
    t = TScan inner [carry; xs] (VT [cf; stack_vals ys]) (zsum (map t_score inner)) /\
    scan_len n xs = Some (length inner) /\
    scan_ok (wft g) xs 0 carry inner cf ys /\
    (forall i t', nth_error inner i = Some t' -> csub (t_choices t) (KI i) = t_choices t').
Proof.
  intros H. destruct t; simpl in H; try contradiction.
  destruct H as [carry [xs [len [cf [ys [-> [Hlen [Hn [Hok [-> ->]]]]]]]]]].
  exists inner, carry, xs, cf, ys. split; [reflexivity|]. split; [congruence|]. split; [exact Hok|].
  intros i t' Hi. simpl. fold (ichoices 0 inner). rewrite <- (Nat.add_0_l i). apply csub_ichoices. exact Hi.
Qed.

(* ---------------- switch ---------------- *)
Theorem switch_trace_is_the_branch bs t :
  wft (GSwitch bs) t ->
  exists idx bargs sub a,
    t_args t = VZ idx :: bargs /\ nth_error bargs (clampZ idx (gfs_len bs)) = Some (VT a) /\
    wf_branch bs (clampZ idx (gfs_len bs)) sub /\ t_args sub = a /\
    t_score t = t_score sub /\ t_retval t = t_retval sub /\ t_choices t = t_choices sub /\ t_terms t = t_terms sub.
Proof.
  intros H. destruct t; simpl in H; try contradiction.
  destruct H as [idx [bargs [a [-> [-> [Hnth [Hbr [Ha [-> ->]]]]]]]]]. exists idx, bargs, t, a. simpl. auto 10.
Qed.
Lemma clampZ_range idx n : (0 < n)%nat -> (clampZ idx n < n)%nat.
Proof. unfold clampZ. lia. Qed.
Lemma clampZ_in_range idx n : 0 <= idx < Z.of_nat n -> clampZ idx n = Z.to_nat idx.
Proof. unfold clampZ. lia. Qed.
Lemma clampZ_below idx n : idx < 0 -> clampZ idx n = 0%nat.
Proof. unfold clampZ. lia. Qed.
Lemma clampZ_above idx n : (0 < n)%nat -> Z.of_nat n <= idx -> clampZ idx n = (n - 1)%nat.
Proof. unfold clampZ. lia. Qed.
Theorem switch_generate_is_branch bs k c idx bargs t w :
  generate (GSwitch bs) k c (VZ idx :: bargs) = Ok (t, w) ->
  exists a sub, nth_error bargs (clampZ idx (gfs_len bs)) = Some (VT a) /\
    gen_branch bs (clampZ idx (gfs_len bs)) k c a = Ok (sub, w) /\
    t = TSwitch (VZ idx :: bargs) (clampZ idx (gfs_len bs)) sub (t_retval sub) (t_score sub).
Proof.
  intros H. simpl in H. destruct (nth_error bargs (clampZ idx (gfs_len bs))) as [[| |a| | |]|] eqn:E; try discriminate.
  bind_inv H as x Hx. destruct x as [sub w']. inversion H; subst. exists a, sub. auto.
Qed.

(* ---------------- mask ---------------- *)
Theorem mask_true_transparent g k a :
  simulate (GMask g) k (VB true :: a) =
    match simulate g k a with Ok t' => Ok (TMask t' true (VB true :: a)) | Err e => Err e end /\
  (forall c, generate (GMask g) k c (VB true :: a) =
    match generate g k c a with Ok x => Ok (TMask (fst x) true (VB true :: a), snd x) | Err e => Err e end) /\
  (forall c, assess (GMask g) c (VB true :: a) =
    match assess g c a with Ok x => Ok (fst x, mbuild true (snd x)) | Err e => Err e end) /\
  (forall t', t_score (TMask t' true (VB true :: a)) = t_score t' /\
              t_choices (TMask t' true (VB true :: a)) = t_choices t' /\
              t_terms (TMask t' true (VB true :: a)) = t_terms t' /\
              t_retval (TMask t' true (VB true :: a)) = mbuild true (t_retval t')).
Proof.
  simpl. repeat split; try (intros c); try (destruct (simulate g k a); reflexivity);
    try (destruct (generate g k c a) as [[? ?]|]; reflexivity); try (destruct (assess g c a) as [[? ?]|]; reflexivity).
  apply cmask_true.
Qed.
Theorem mask_false_inert g t' a :
  let t := TMask t' false (VB false :: a) in
  t_score t = 0 /\ t_terms t = [] /\ (forall p, constrained (t_choices t) p = false) /\
  (exists v, t_retval t = VM false v) /\
  (forall k c x, generate (GMask g) k c (VB false :: a) = Ok x -> snd x = 0).
Proof.
  simpl. repeat split.
  - intros p. unfold constrained. rewrite cget_cmask. destruct (cget (t_choices t') p) as [v|]; [|reflexivity].
    simpl. unfold vmask. destruct v; reflexivity.
  - unfold mbuild. destruct (t_retval t'); eauto.
  - intros k c x H. bind_inv H as y Hy. inversion H; subst. reflexivity.
Qed.
Theorem mask_flip_weight g k t c a tg t' w b :
  wfg g -> wft (GMask g) t -> edit (GMask g) k t (RUpdate c) a tg = Ok (t', w, b) -> w = t_score t' - t_score t.
Proof. intros Hg Hw H. apply (edit_ok (GMask g) k t (RUpdate c) a tg t' w b Hg I Hw H). Qed.

(* ---------------- dimap ---------------- *)
Theorem dimap_is_inner pre g post k a :
  simulate (GDimap pre g post) k a =
    (do ia <- eval_list a pre; do t' <- simulate g k ia; do r <- eval [VT a; VT ia; t_retval t'] post; Ok (TDimap t' a r)) /\
  (forall c, generate (GDimap pre g post) k c a =
    (do ia <- eval_list a pre; do x <- generate g k c ia; do r <- eval [VT a; VT ia; t_retval (fst x)] post; Ok (TDimap (fst x) a r, snd x))) /\
  (forall c, assess (GDimap pre g post) c a =
    (do ia <- eval_list a pre; do x <- assess g c ia; do r <- eval [VT a; VT ia; snd x] post; Ok (fst x, r))) /\
  (forall t' r, t_score (TDimap t' a r) = t_score t' /\ t_choices (TDimap t' a r) = t_choices t' /\ t_terms (TDimap t' a r) = t_terms t').
Proof. simpl. repeat split; reflexivity. Qed.
Theorem dimap_edit_recomputes pre g post k t r a tg t' w b :
  wfg g -> plain r -> wft (GDimap pre g post) t -> edit (GDimap pre g post) k t r a tg = Ok (t', w, b) ->
  exists inner' ia, t' = TDimap inner' a (t_retval t') /\ eval_list a pre = Ok ia /\ t_args inner' = ia /\ wft g inner' /\
                    eval [VT a; VT ia; t_retval inner'] post = Ok (t_retval t') /\ w = t_score inner' - t_score t.
Proof.
  intros Hg Hp Hw H. destruct (edit_ok (GDimap pre g post) k t r a tg t' w b Hg Hp Hw H) as [Hw' [Ha Hwt]].
  destruct t'; simpl in Hw'; try contradiction. destruct Hw' as [H1 [H2 H3]]. simpl in Ha. subst.
  exists t', (t_args t'). simpl. auto 10.
Qed.
