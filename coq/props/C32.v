(* C32 — generative function closures and keyword handling are transparent.
   Model: coq/model/Closure.v (GenerativeFunctionClosure, IgnoreKwargs, partial_apply,
   handle_kwargs, Closure.__call__), coq/model/Kwargs.v (Python keyword binding, dict union).
   The underlying generative function `g` (and its handle_kwargs() form `gk`) is an arbitrary
   record of GFI methods over arbitrary key / constraint / selection / request / trace / result /
   argument types: the statements hold for every program, stored/extra split and keyword dict. *)
From Coq Require Import List Bool ZArith NArith.
Import ListNotations.
From Model Require Import Kwargs Dist Closure.
From Proofs Require Import DistProofs ClosureProofs.

Theorem C32_closure_is_prepend : forall (K C S Rq T O A : Type) (mk_update : C -> Rq) (un_update to_propose : O -> O)
    (g : pos_gfi K C S Rq T O A) (gk : kw_gfi K C S Rq T O A) (stored : list A) (kw : kwd A),
  let clo := closure g gk stored kw in
  (forall k args, gsim clo k args = und_sim K C S Rq T O A g gk (stored ++ args) kw k) /\
  (forall c args, gassess clo c args = und_assess K C S Rq T O A g gk (stored ++ args) kw c) /\
  (forall k c args, ggen clo k c args = und_gen K C S Rq T O A g gk (stored ++ args) kw k c) /\
  (forall k c args, gimportance clo k c args = und_gen K C S Rq T O A g gk (stored ++ args) kw k c) /\
  (forall k t s, gproject clo k t s = gproject g k t s) /\
  (forall k t r ad, gedit clo k t r ad = und_edit K C S Rq T O A g gk (unknown_change stored ++ ad) kw k t r) /\
  (forall k t c ad, gupdate mk_update un_update clo k t c ad
                    = un_update (und_edit K C S Rq T O A g gk (unknown_change stored ++ ad) kw k t (mk_update c))) /\
  (forall k args, gpropose to_propose clo k args = to_propose (und_sim K C S Rq T O A g gk (stored ++ args) kw k)).
Proof. exact closure_is_prepend. Qed.
Print Assumptions C32_closure_is_prepend.

Theorem C32_closure_no_kwargs : forall (K C S Rq T O A : Type) (mk_update : C -> Rq) (un_update : O -> O)
    (g : pos_gfi K C S Rq T O A) (gk : kw_gfi K C S Rq T O A) (stored : list A),
  let clo := closure g gk stored [] in
  (forall k args, gsim clo k args = gsim g k (stored ++ args)) /\
  (forall c args, gassess clo c args = gassess g c (stored ++ args)) /\
  (forall k c args, ggen clo k c args = ggen g k c (stored ++ args)) /\
  (forall k t s, gproject clo k t s = gproject g k t s) /\
  (forall k t r ad, gedit clo k t r ad = gedit g k t r (unknown_change stored ++ ad)) /\
  (forall k t c ad, gupdate mk_update un_update clo k t c ad
                    = gupdate mk_update un_update g k t c (unknown_change stored ++ ad)).
Proof. exact closure_no_kwargs. Qed.
Print Assumptions C32_closure_no_kwargs.

(* closing twice = closing once on the concatenation *)
Theorem C32_closure_assoc : forall (K C S Rq T O A : Type) (g : pos_gfi K C S Rq T O A) (gk : kw_gfi K C S Rq T O A) (s1 s2 : list A),
  let c2 := closure (closure g gk s1 []) (ignore_kwargs (closure g gk s1 [])) s2 [] in
  let c1 := closure g gk (s1 ++ s2) [] in
  (forall k args, gsim c2 k args = gsim c1 k args) /\
  (forall c args, gassess c2 c args = gassess c1 c args) /\
  (forall k c args, ggen c2 k c args = ggen c1 k c args) /\
  (forall k t s, gproject c2 k t s = gproject c1 k t s) /\
  (forall k t r ad, gedit c2 k t r ad = gedit c1 k t r ad).
Proof. exact closure_assoc. Qed.
Print Assumptions C32_closure_assoc.

Theorem C32_partial_apply_assoc : forall (K C S Rq T O A : Type) (g : pos_gfi K C S Rq T O A) (d1 d2 : list A),
  let p2 := papply_pos (papply_pos g d1) d2 in
  let p1 := papply_pos g (d1 ++ d2) in
  (forall k args, gsim p2 k args = gsim p1 k args) /\
  (forall c args, gassess p2 c args = gassess p1 c args) /\
  (forall k c args, ggen p2 k c args = ggen p1 k c args) /\
  (forall k t s, gproject p2 k t s = gproject p1 k t s) /\
  (forall k t r ad, gedit p2 k t r ad = gedit p1 k t r ad).
Proof. exact partial_apply_assoc. Qed.
Print Assumptions C32_partial_apply_assoc.

(* closure and partial_apply with the same stored arguments: identical except for the change tag edit
   gives the stored arguments (UnknownChange vs constants) *)
Theorem C32_closure_vs_partial_apply : forall (K C S Rq T O A : Type) (g : pos_gfi K C S Rq T O A) (gk : kw_gfi K C S Rq T O A) (stored : list A),
  let clo := closure g gk stored [] in
  let pa := papply_pos g stored in
  (forall k args, gsim clo k args = gsim pa k args) /\
  (forall c args, gassess clo c args = gassess pa c args) /\
  (forall k c args, ggen clo k c args = ggen pa k c args) /\
  (forall k t s, gproject clo k t s = gproject pa k t s) /\
  (forall k t r ad, gedit clo k t r ad = gedit g k t r (unknown_change stored ++ ad) /\
                    gedit pa k t r ad = gedit g k t r (no_change stored ++ ad)).
Proof. exact closure_vs_partial_apply. Qed.
Print Assumptions C32_closure_vs_partial_apply.

(* call syntax closure(key, *args, **kw2): keyword dicts merged, the call site wins *)
Theorem C32_closure_call_merges : forall (K C S Rq T O A : Type) (to_retval : O -> O)
    (g : pos_gfi K C S Rq T O A) (gk : kw_gfi K C S Rq T O A) stored kw k args kw2,
  closure_call to_retval g gk stored kw k args kw2
  = to_retval (und_sim K C S Rq T O A g gk (stored ++ args) (merge kw kw2) k).
Proof. exact closure_call_merges. Qed.
Print Assumptions C32_closure_call_merges.
Theorem C32_merge_call_site_wins : forall (V : Type) (a b : kwd V) n,
  kw_lookup (merge a b) n = match kw_lookup b n with Some v => Some v | None => kw_lookup a n end.
Proof. exact merge_lookup. Qed.
Print Assumptions C32_merge_call_site_wins.

Theorem C32_closure_callee_is_closure : forall (K C S Rq T O A : Type) (g : pos_gfi K C S Rq T O A) (gk : kw_gfi K C S Rq T O A) stored kw k,
  callee_sim (closure_callee g gk stored kw) k = gsim (closure g gk stored kw) k [].
Proof. exact closure_callee_is_closure. Qed.
Print Assumptions C32_closure_callee_is_closure.

(* a generative function that does not override handle_kwargs drops keyword arguments (IgnoreKwargs) *)
Theorem C32_ignore_kwargs_drops : forall (K C S Rq T O A : Type) (g : pos_gfi K C S Rq T O A) (stored : list A) (kw : kwd A),
  let clo := closure g (ignore_kwargs g) stored kw in
  let clo0 := closure g (ignore_kwargs g) stored [] in
  (forall k args, gsim clo k args = gsim clo0 k args) /\
  (forall c args, gassess clo c args = gassess clo0 c args) /\
  (forall k c args, ggen clo k c args = ggen clo0 k c args) /\
  (forall k t r ad, gedit clo k t r ad = gedit clo0 k t r ad).
Proof. exact ignore_kwargs_drops. Qed.
Print Assumptions C32_ignore_kwargs_drops.

(* static language, source level *)
Theorem C32_source_partial_apply_is_prepend : forall (V B : Type) (sig : sigt V) (fn : list V -> B) (type_error : B) dyn extra args kw,
  src_call sig fn type_error (partial_apply dyn extra) args kw = src_call sig fn type_error dyn (extra ++ args) kw.
Proof. exact source_partial_apply_is_prepend. Qed.
Print Assumptions C32_source_partial_apply_is_prepend.

Theorem C32_source_kwargs_equiv : forall (V B : Type) (sig : sigt V) (fn : list V -> B) (type_error : B) dyn args kw full,
  bind sig (dyn ++ args) kw = Some full ->
  kwarged_source sig fn type_error dyn (args, kw) = src_call sig fn type_error [] full [].
Proof. exact source_kwargs_equiv. Qed.
Print Assumptions C32_source_kwargs_equiv.
Example C32_source_kwargs_equiv_nonvacuous :
  bind [(0%nat, None); (1%nat, None); (2%nat, Some 1%Z)] ([5%Z] ++ []) [(1%nat, 7%Z)] = Some [5%Z; 7%Z; 1%Z].
Proof. vm_compute. reflexivity. Qed.

(* a closure with keyword arguments over a distribution wrapper = the positional call *)
Theorem C32_dist_closure_kwargs_equiv : forall d stored kw args full k,
  bind (ps_sig (probe d)) (stored ++ args) kw = Some full -> kw <> [] ->
  option_map (fun o => match o with OTr t => (t_value t, t_score t) | _ => ([], 0%Z) end)
             (gsim (closure (dist_pos d) (dist_kw d) stored kw) k args)
  = option_map (fun o => match o with OTr t => (t_value t, t_score t) | _ => ([], 0%Z) end)
               (gsim (dist_pos d) k full).
Proof. exact dist_closure_kwargs_equiv. Qed.
Print Assumptions C32_dist_closure_kwargs_equiv.
Example C32_dist_closure_kwargs_equiv_nonvacuous :
  bind (ps_sig (probe 5)) ([4%Z] ++ [2%Z]) [(2%nat, 3%Z)] = Some [4%Z; 2%Z; 3%Z] /\
  option_map flat_dobs (gsim (closure (dist_pos 5) (dist_kw 5) [4%Z] [(2%nat, 3%Z)]) (0%N, 7%N) [2%Z])
  = Some [10; 76; 4; 2; 3]%Z.
Proof. vm_compute. split; reflexivity. Qed.
