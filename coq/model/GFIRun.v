(* Correspondence driver for the GFI model: a case is a program and a history of
   operations, each with the implementation's canonical observation. *)
From Coq Require Import List Bool ZArith NArith.
Import ListNotations.
From Gen Require Import SelGen.
From Model Require Import Key Sel GFI.
Open Scope Z_scope.

(* observation of a trace: score, return value, and lookups of its choices *)
Record tobs := { o_score : Z; o_ret : val; o_look : list (list ckey * option Z) }.

Definition look (c : chm) (p : list ckey) : option Z :=
  match cget c p with Some (VZ z) => Some z | Some (VM true (VZ z)) => Some z | _ => None end.
Definition optZ_eqb (a b : option Z) : bool :=
  match a, b with Some x, Some y => Z.eqb x y | None, None => true | _, _ => false end.
Definition tobs_ok (t : trace) (o : tobs) : bool :=
  Z.eqb (t_score t) (o_score o) && val_eqb (t_retval t) (o_ret o)
  && forallb (fun pw => optZ_eqb (look (t_choices t) (fst pw)) (snd pw)) (o_look o).

(* build a constraint / sample choice map from entries (path, value) *)
Definition cbuild (es : list (list ckey * val)) : chm := es.

Inductive want (A : Type) := WOk (a : A) | WErr (e : err).
Arguments WOk {A}. Arguments WErr {A}.

Inductive step :=
| StSim (seed : N) (args : list val) (w : want tobs)
| StGen (seed : N) (c : list (list ckey * val)) (args : list val) (w : want (tobs * Z))
| StAssess (c : list (list ckey * val)) (args : list val) (w : want (Z * val))
| StAssessOwn (ti : nat) (w : want (Z * val))         (* assess(tr.get_choices(), tr.get_args()) *)
| StProject (ti : nat) (s : sterm) (w : want Z).

Definition res_ok {A B} (r : res A) (w : want B) (ok : A -> B -> bool) : bool :=
  match r, w with
  | Ok a, WOk b => ok a b
  | Err e, WErr e' => err_eqb e e'
  | _, _ => false
  end.

Definition run_step (g : gf) (traces : list trace) (s : step) : bool * list trace :=
  match s with
  | StSim seed args w =>
      let r := simulate g (key_of_seed seed) args in
      (res_ok r w tobs_ok, match r with Ok t => traces ++ [t] | _ => traces end)
  | StGen seed c args w =>
      let r := generate g (key_of_seed seed) (cbuild c) args in
      (res_ok r w (fun x o => tobs_ok (fst x) (fst o) && Z.eqb (snd x) (snd o)),
       match r with Ok x => traces ++ [fst x] | _ => traces end)
  | StAssess c args w =>
      (res_ok (assess g (cbuild c) args) w (fun x o => Z.eqb (fst x) (fst o) && val_eqb (snd x) (snd o)), traces)
  | StAssessOwn ti w =>
      match nth_error traces ti with
      | Some t => (res_ok (assess g (t_choices t) (t_args t)) w (fun x o => Z.eqb (fst x) (fst o) && val_eqb (snd x) (snd o)), traces)
      | None => (false, traces)
      end
  | StProject ti s w =>
      match nth_error traces ti with
      | Some t => (res_ok (project t (build s)) w Z.eqb, traces)
      | None => (false, traces)
      end
  end.

(* index of the first step on which model and implementation differ *)
Fixpoint first_bad (g : gf) (traces : list trace) (ss : list step) (i : nat) : option nat :=
  match ss with
  | [] => None
  | s :: r => let '(ok, traces') := run_step g traces s in
              if ok then first_bad g traces' r (S i) else Some i
  end.

Definition gcase := (gf * list step)%type.
(* flat list: case index, step index, case index, step index, ... *)
Fixpoint gmismatches_from (n : nat) (cs : list gcase) : list nat :=
  match cs with
  | [] => []
  | (g, ss) :: r => match first_bad g [] ss 0 with
                    | None => gmismatches_from (S n) r
                    | Some i => n :: i :: gmismatches_from (S n) r
                    end
  end.
Definition gmismatches := gmismatches_from 0.
