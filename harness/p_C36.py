"""C36 — the stateful interpreter is transparent for unhandled primitives.
Engine A-jaxpr (harness/jaxpr_engine.py).  Model: coq/model/Jaxpr.v, Stateful.v, JaxPrims.v."""
import json

from . import core
from . import jaxpr_engine as E


def gen_cases(ctx):
    rng = ctx.rng
    nfun = ctx.n(48, 480)
    cases = []
    for _ in range(nfun):
        r = rng.random()
        if len(cases) < ctx.n(5, 30):
            prog = E.gen_prog(rng, rng.randint(36, 60), wide=True)
        else:
            prog = E.gen_prog(rng, rng.randint(2, 8) if r < 0.85 else rng.randint(9, 14))
        points = [[E.gen_value(rng, k) for k in prog["ik"]] for _ in range(ctx.n(1, 2) if rng.random() < 0.7 else 2)]
        # "swap" handles `add`, `mul`, `max` (dispatched as `sub`, `add`, `min`): exercises the handler branch of the loop
        handlers = ["null"] + (["swap"] if E.has_swappable(prog) and rng.random() < 0.6 else [])
        cases.append({"prog": prog, "points": points, "handlers": handlers})
    return cases


def run(ctx):
    import time
    t0 = time.time()
    ctx.proofs()
    t1 = time.time()
    cases = gen_cases(ctx)
    results = E.run_pool("stateful", cases, procs=ctx.n(8, 14))
    t2 = time.time()
    terms, metas, skips, prims = [], [], {}, {}
    stats = {"functions": 0, "count_collisions": 0, "skipped_points": 0}
    noracle = 0
    for c, r in zip(cases, results):
        stats["skipped_points"] += r.get("skipped_points", 0)
        if r["skip"]:
            kind = r["skip"].split(":")[0]
            skips[kind] = skips.get(kind, 0) + 1
            for o in r["oracle"]:
                noracle += 1
                if noracle <= 3:
                    ctx.fail("oracle", "stateful(f): " + o["what"], case=o["case"])
            if kind not in ("inexact", "staging"):
                ctx.fail("tie", f"engine A-jaxpr could not run a generated function ({r['skip'][:600]})")
            continue
        stats["functions"] += 1
        stats["count_collisions"] += r["stats"].get("collisions", 0)
        for k, v in r["stats"].get("prims", {}).items():
            prims[k] = prims.get(k, 0) + v
        for o in r["oracle"]:
            noracle += 1
            if noracle <= 3:
                ctx.fail("oracle", "stateful(f): " + o["what"], case=o["case"])
        terms += r["terms"]
        metas += r["metas"]
    mism, errs = E.coq_check("C36", results, "scase", "smismatches")
    ctx.log(f"phases: build+proofs {t1 - t0:.0f}s, implementation runs {t2 - t1:.0f}s, Coq evaluation of {len(terms)} cases {time.time() - t2:.0f}s")
    for e in errs[:2]:
        ctx.fail("correspondence", "A-jaxpr/stateful case file did not evaluate: " + e)
    for i in mism[:3]:
        m = metas[i]
        case = {"prog": m["prog"], "vals": m["vals"], "h": m["h"]}
        ctx.fail("correspondence",
                 f"model coq/model/Stateful.v and stateful.py disagree: handler {m['h']} inputs {m['vals']}: "
                 f"implementation returned {m['impl']}", case=case)
        if noracle == 0:
            # look for a concrete failing input: the same function at other input points, null handler
            E.worker_init()
            for _ in range(6):
                vals = [E.gen_value(ctx.rng, k) for k in m["prog"]["ik"]]
                wcase = {"prog": m["prog"], "vals": vals, "h": "null"}
                try:
                    why = oracle_case(wcase)
                except Exception:
                    continue
                if why:
                    ctx.fail("oracle", "stateful(f): " + why, case=wcase)
                    noracle += 1
                    break
    E.worker_init()
    nprobe = len(dtype_probes())
    for i in range(nprobe):
        try:
            why = dtype_probe(i)
        except Exception as e:      # noqa: BLE001
            why = f"{dtype_probes()[i][0]}: raised {type(e).__name__}: {str(e)[:160]}"
        if why:
            ctx.fail("oracle", "stateful(f) with a weakly typed scalar and a narrow array: " + why, case={"dtype_probe": i})
    ctx.cov["dtype_probes"] = nprobe
    null = [m for m in metas if m["h"] == "null" and m["ok"]]
    ctx.cov["evaluations"] = len(terms)
    ctx.cov["traces_validated_against_impl"] = len(terms) - len(mism)
    ctx.cov["distinct_nontrivial"] = len({json.dumps([m["prog"], m["vals"]]) for m in null if m["neqn"] >= 2})
    ctx.cov["rule"] = ("random functions from the jnp/lax grammar of harness/jaxpr_engine.py (2-8 statements, 15% with 9-14, the first few straight-line with 36-60, nesting <= 2; arithmetic, "
                      "comparison, where/select, indexing, reductions, cond/switch, scan/map/fori_loop, while_loop, jit/checkpoint/"
                      "custom_jvp/custom_vjp calls, a genjax InitialStylePrimitive bound with initial_style_bind (with and without "
                      "closed-over values), closed-over constants, Python and numpy literals, literal / pass-through outputs, flat, nested "
                      "and dict pytrees), 1-2 input points in [-3,3]; handler that handles nothing, and for 60% of the functions with a top-level add/mul/max a "
                      "handler that takes over `add`, `mul` and `max`; non-trivial = null-handler run of a jaxpr with at least 2 equations")
    ctx.cov["by_kind"] = {"functions": stats["functions"], "runs_null_handler": sum(1 for m in metas if m["h"] == "null"),
                          "runs_swap_handler": sum(1 for m in metas if m["h"] == "swap"),
                          "swap_runs_that_differ_from_ordinary_evaluation": sum(1 for m in metas if m["h"] == "swap" and not m["same"]),
                          "runs_with_control_flow": sum(1 for m in metas if m["control"]),
                          "runs_with_initial_style_primitive": sum(1 for m in metas if m["initial"]),
                          "errors_compared": sum(1 for m in metas if not m["ok"]),
                          "var_count_collisions": stats["count_collisions"], "skipped_functions": skips,
                          "skipped_points": stats["skipped_points"],
                          "primitives": dict(sorted(prims.items(), key=lambda kv: -kv[1]))}
    ctx.cov["inexact_skipped"] = skips.get("inexact", 0) + stats["skipped_points"]
    ctx.cov["genjax_file"] = sorted({r.get("genjax_file") for r in results if r.get("genjax_file")})
    ctx.cov["exhaustive"] = False
    ctx.add_samples([{"handler": m["h"], "inputs": m["vals"], "impl": m["impl"], "program": m["prog"]}
                     for m in metas[:1] + metas[len(metas) // 2: len(metas) // 2 + 1] + metas[-1:]])


def oracle_case(case):
    prog, vals = case["prog"], case["vals"]
    leaves = [E.to_array(k, v) for k, v in zip(prog["ik"], vals)]
    res = E.run_stateful(prog, leaves, "null")
    return E.stateful_oracle(prog, vals, res)


# ---- weakly typed scalars with narrow arrays: ordinary evaluation keeps the array's dtype (int8 wraps, float16 rounds);
#      the interpreter must stage the function with the same weak types.  Direct oracle, no model (the model's values
#      are unbounded integers); fixed programs, the replay is the probe's index.
def dtype_probes():
    import jax
    import jax.numpy as jnp
    i8 = jnp.array([100, 3, -70], dtype=jnp.int8)
    u8 = jnp.array([200, 3, 7], dtype=jnp.uint8)
    h = jnp.array([0.1, 1000.0, -3.3], dtype=jnp.float16)
    c8 = jnp.array([90, -90, 5], dtype=jnp.int8)
    return [
        ("a * x, a a Python int, x int8", lambda a, x: a * x, (2, i8)),
        ("x + a, a a Python int, x uint8", lambda a, x: x + a, (100, u8)),
        ("x * a + a, a a Python float, x float16", lambda a, x: x * a + a, (1.1, h)),
        ("where(x > 0, x * a, x - a), Python int, int8", lambda a, x: jnp.where(x > 0, x * a, x - a), (3, i8)),
        ("cond on the scalar, branches multiply by it", lambda a, x: jax.lax.cond(a > 1, lambda: x * a, lambda: x + a), (2, i8)),
        ("closed-over int8 constant times a Python int", lambda a: c8 * a, (3,)),
        ("scan carrying the scalar product", lambda a, x: jax.lax.scan(lambda c, y: (c, y * a), 0, x)[1], (2, i8)),
        ("sum of a * x (reduction dtype)", lambda a, x: jnp.sum(a * x), (2, i8)),
    ]


def dtype_probe(i):
    """None if probe i gives the same outputs (dtype and values) through the interpreter as ordinary evaluation"""
    import numpy as np
    import jax.tree_util as jtu
    from genjax._src.core.compiler.interpreters.stateful import stateful
    Null, _, _ = E._handlers()
    name, f, args = dtype_probes()[i]
    want = jtu.tree_leaves(f(*args))
    got = jtu.tree_leaves(stateful(f)(Null(), *args))
    if len(want) != len(got):
        return f"{name}: {len(got)} outputs, ordinary evaluation gives {len(want)}"
    for w, g in zip(want, got):
        w, g = np.asarray(w), np.asarray(g)
        if w.dtype != g.dtype or w.shape != g.shape or not np.array_equal(w, g, equal_nan=True):
            return f"{name}: interpreter returns {g.dtype} {g.tolist()}, ordinary evaluation {w.dtype} {w.tolist()}"
    return None


def replay(case):
    E.worker_init()
    if "dtype_probe" in case:
        why = dtype_probe(case["dtype_probe"])
        print(f"stateful(f)(null handler): {why or 'outputs equal ordinary evaluation'}")
        return why is None
    why = oracle_case(case)
    print(f"stateful(f)(null handler, {case['vals']}): {why or 'outputs equal ordinary evaluation'}")
    return why is None
