(* C28: HMC.edit (coq/model/Hmc.v) versus the leapfrog integrator.
   Part A: vectors over Q up to Qeq.  Part B: the abstract integrators (leapfrog, the stale
   variant the code runs, the three-component machine of the scan carry).  Part C: HMC.edit on a
   flat static model is that machine.  Part D: the property theorems. *)
From Coq Require Import List Bool ZArith NArith QArith Lia Arith Morphisms Setoid.
Import ListNotations.
From Model Require Import Key FlatQ Hmc.
From Proofs Require Import FlatQProofs.
Open Scope Q_scope.

(* ------------------------------------------------------------------ *)
(* Part A: vectors                                                      *)
(* ------------------------------------------------------------------ *)
Definition veq : list Q -> list Q -> Prop := Forall2 Qeq.

Lemma veq_refl a : veq a a.
Proof. induction a; constructor; auto. reflexivity. Qed.
Lemma veq_sym a b : veq a b -> veq b a.
Proof. induction 1; constructor; auto. now symmetry. Qed.
Lemma veq_trans a b c : veq a b -> veq b c -> veq a c.
Proof.
  intros H; revert c; induction H; intros c Hc; inversion Hc; subst; constructor.
  - etransitivity; eauto.
  - apply IHForall2; assumption.
Qed.
Lemma veq_length a b : veq a b -> length a = length b.
Proof. induction 1; simpl; auto. Qed.
Lemma veq_nth a b i : veq a b -> nth i a 0 == nth i b 0.
Proof. intros H; revert i; induction H; intros [|i]; simpl; auto; reflexivity. Qed.
Lemma veq_of_nth a : forall b, length a = length b ->
  (forall i, (i < length a)%nat -> nth i a 0 == nth i b 0) -> veq a b.
Proof.
  induction a as [|x a IH]; intros [|y b] L H; simpl in *; try discriminate; constructor.
  - apply (H O). lia.
  - apply IH; [lia|]. intros i Hi. apply (H (S i)). lia.
Qed.

Lemma zipw_length {A B C} (f : A -> B -> C) a : forall b, length (zipw f a b) = Nat.min (length a) (length b).
Proof. induction a as [|x a IH]; intros [|y b]; simpl; auto. Qed.
Lemma zipw_nth (f : Q -> Q -> Q) a : forall b i, (i < length a)%nat -> (i < length b)%nat ->
  nth i (zipw f a b) 0 = f (nth i a 0) (nth i b 0).
Proof.
  induction a as [|x a IH]; intros [|y b] [|i] Ha Hb; simpl in *; try lia; auto.
  apply IH; lia.
Qed.
Lemma kick_length eps m g : length (kick eps m g) = Nat.min (length m) (length g).
Proof. apply zipw_length. Qed.
Lemma drift_length eps x m : length (drift eps x m) = Nat.min (length x) (length m).
Proof. apply zipw_length. Qed.

Lemma kick_proper eps m m' g g' : veq m m' -> veq g g' -> veq (kick eps m g) (kick eps m' g').
Proof.
  intros H; revert g g'; induction H; intros g g' Hg; inversion Hg; subst; simpl; try constructor.
  - now rewrite H, H1.
  - now apply IHForall2.
Qed.
Lemma drift_proper eps x x' m m' : veq x x' -> veq m m' -> veq (drift eps x m) (drift eps x' m').
Proof.
  intros H; revert m m'; induction H; intros m m' Hm; inversion Hm; subst; simpl; try constructor.
  - now rewrite H, H1.
  - now apply IHForall2.
Qed.

(* ------------------------------------------------------------------ *)
(* Part B: integrators                                                  *)
(* ------------------------------------------------------------------ *)
(* the scan carry of HMC.edit restricted to (values, gradient, momenta) *)
Definition istep (stale : bool) (G : list Q -> list Q) (eps : Q) (s : list Q * list Q * list Q)
  : list Q * list Q * list Q :=
  let '(q, g, p) := s in
  let ph := kick eps p g in
  let q' := drift eps q ph in
  let g' := G q' in
  (q', (if stale then g else g'), kick eps ph g').

Lemma iter_S {A} n (f : A -> A) a : iter (S n) f a = iter n f (f a).
Proof. reflexivity. Qed.
Lemma iter_S' {A} n (f : A -> A) a : iter (S n) f a = f (iter n f a).
Proof. revert a; induction n; intros; simpl in *; auto. Qed.

(* repaired carry: exactly the leapfrog integrator *)
Lemma istep_fixed_leap G eps n : forall q p,
  iter n (istep false G eps) (q, G q, p) =
  (fst (iter n (leap G eps) (q, p)), G (fst (iter n (leap G eps) (q, p))), snd (iter n (leap G eps) (q, p))).
Proof.
  induction n; intros q p; [reflexivity|]. rewrite !iter_S. simpl. apply IHn.
Qed.
(* stale carry: the first half-kick always uses the gradient at the start *)
Lemma istep_stale_form G eps g0 n : forall q p,
  iter n (istep true G eps) (q, g0, p) =
  (fst (iter n (stale_leap G g0 eps) (q, p)), g0, snd (iter n (stale_leap G g0 eps) (q, p))).
Proof.
  induction n; intros q p; [reflexivity|]. rewrite !iter_S. simpl. apply IHn.
Qed.

(* one step: the two integrators agree exactly when the two gradients give the same half-kick *)
Lemma stale_step_eq_iff (G : list Q -> list Q) (g0 : list Q) eps (q p : list Q) :
  length p = length q -> length g0 = length q -> length (G q) = length q ->
  (veq (kick eps p g0) (kick eps p (G q)) <->
   forall i, (i < length q)%nat -> eps * (1 # 2) * nth i g0 0 == eps * (1 # 2) * nth i (G q) 0).
Proof.
  intros Lp Lg LG. split.
  - intros H i Hi. pose proof (veq_nth _ _ i H) as E. unfold kick in E.
    rewrite !zipw_nth in E by lia.
    assert (forall a b c : Q, a + b == a + c -> b == c) as cancel.
    { intros a b c Hc. rewrite <- (Qplus_inj_l _ _ a). exact Hc. }
    apply cancel in E. exact E.
  - intros H. apply veq_of_nth.
    + rewrite !kick_length. lia.
    + intros i Hi. rewrite kick_length in Hi. unfold kick. rewrite !zipw_nth by lia.
      rewrite (H i) by lia. reflexivity.
Qed.

(* region R: along the leapfrog trajectory the gradient equals the start gradient before every
   step.  Under R the stale integrator IS the leapfrog integrator. *)
Definition stale_ok (G : list Q -> list Q) (g0 : list Q) (eps : Q) (n : nat) (q p : list Q) : Prop :=
  forall k, (k < n)%nat -> veq (G (fst (iter k (leap G eps) (q, p)))) g0.

Lemma stale_leap_agrees G g0 eps :
  Proper (veq ==> veq) G ->
  forall n q p q' p', veq q q' -> veq p p' -> stale_ok G g0 eps n q' p' ->
    veq (fst (iter n (stale_leap G g0 eps) (q, p))) (fst (iter n (leap G eps) (q', p'))) /\
    veq (snd (iter n (stale_leap G g0 eps) (q, p))) (snd (iter n (leap G eps) (q', p'))).
Proof.
  intros PG. induction n; intros q p q' p' Hq Hp R; [simpl; auto|].
  rewrite !iter_S. simpl stale_leap. simpl leap.
  assert (Hg : veq g0 (G q')) by (apply veq_sym, (R O); lia).
  assert (Hph : veq (kick eps p g0) (kick eps p' (G q'))) by (apply kick_proper; auto).
  assert (Hq1 : veq (drift eps q (kick eps p g0)) (drift eps q' (kick eps p' (G q')))) by (apply drift_proper; auto).
  apply IHn; auto.
  - apply kick_proper; auto.
  - intros k Hk. specialize (R (S k)). rewrite iter_S in R. apply R. lia.
Qed.

(* R holds for one step, and whenever the gradient does not depend on the position *)
Lemma stale_ok_one G eps q p : stale_ok G (G q) eps 1 q p.
Proof. intros k Hk. assert (k = O) by lia. subst. apply veq_refl. Qed.
Lemma stale_ok_const G eps n q p : (forall x, veq (G x) (G q)) -> stale_ok G (G q) eps n q p.
Proof. intros H k _. apply H. Qed.

(* reversibility of the leapfrog step: flip o leap o flip o leap = id *)
Lemma leapfrog_reversible_lemma (G : list Q -> list Q) eps (q p : list Q) :
  Proper (veq ==> veq) G -> (forall x, length (G x) = length x) -> length p = length q ->
  let s2 := flip (leap G eps (flip (leap G eps (q, p)))) in
  veq (fst s2) q /\ veq (snd s2) p.
Proof.
  intros PG LG Lp. simpl.
  set (ph := kick eps p (G q)).
  set (q1 := drift eps q ph).
  set (p1 := kick eps ph (G q1)).
  set (ph2 := kick eps (map Qopp p1) (G q1)).
  set (q2 := drift eps q1 ph2).
  assert (Lph : length ph = length q) by (unfold ph; rewrite kick_length, LG; lia).
  assert (Lq1 : length q1 = length q) by (unfold q1; rewrite drift_length; lia).
  assert (Lp1 : length p1 = length q) by (unfold p1; rewrite kick_length, LG; lia).
  assert (Lph2 : length ph2 = length q) by (unfold ph2; rewrite kick_length, map_length, LG; lia).
  assert (Lq2 : length q2 = length q) by (unfold q2; rewrite drift_length; lia).
  assert (Nopp : forall l i, nth i (map Qopp l) 0 == - nth i l 0).
  { intros l; induction l; intros [|i]; simpl; try reflexivity; auto. }
  assert (Hph2 : forall i, (i < length q)%nat -> nth i ph2 0 == - nth i ph 0).
  { intros i Hi. unfold ph2, kick. rewrite zipw_nth by (rewrite ?map_length, ?LG; lia).
    rewrite Nopp. unfold p1, kick. rewrite zipw_nth by (rewrite ?LG; lia). ring. }
  assert (Hq2 : veq q2 q).
  { apply veq_of_nth; [lia|]. intros i Hi. rewrite Lq2 in Hi.
    unfold q2, drift. rewrite zipw_nth by lia. rewrite Hph2 by lia.
    unfold q1, drift. rewrite zipw_nth by lia. ring. }
  split; [exact Hq2|].
  apply veq_of_nth.
  - rewrite map_length, kick_length, LG. lia.
  - intros i Hi. rewrite map_length, kick_length, LG in Hi.
    rewrite Nopp. unfold kick. rewrite zipw_nth by (rewrite ?LG; lia).
    rewrite Hph2 by lia.
    rewrite (veq_nth _ _ i (PG _ _ Hq2)).
    unfold ph, kick. rewrite zipw_nth by (rewrite ?LG; lia). ring.
Qed.

(* ------------------------------------------------------------------ *)
(* Part C: HMC.edit on a flat static model is the machine `istep`       *)
(* ------------------------------------------------------------------ *)
Definition selkeys (sel : list nat) (x : chm) : list nat := map fst (sel_entries sel x).
Definition selvals (sel : list nat) (x : chm) : list Q := map snd (sel_entries sel x).

Lemma selkeys_override sel x c : selkeys sel (override x c) = selkeys sel x.
Proof.
  unfold selkeys, sel_entries, override. induction x as [|[a v] x IH]; simpl; auto.
  destruct (memb a sel); simpl; now rewrite IH.
Qed.
Lemma selkeys_subset sel x a : In a (selkeys sel x) -> In a sel.
Proof.
  unfold selkeys, sel_entries. intros H. apply in_map_iff in H as ([b v] & Hb & Hin).
  apply filter_In in Hin as [_ Hm]. simpl in *. subst. now apply memb_In.
Qed.
Lemma selkeys_in_keys sel x a : In a (selkeys sel x) -> In a (keys x).
Proof.
  unfold selkeys, sel_entries, keys. intros H. apply in_map_iff in H as ([b v] & Hb & Hin).
  apply filter_In in Hin as [Hin _]. simpl in *. subst. apply in_map_iff. exists (a, v). auto.
Qed.
Lemma override_cons_notin x a u c : ~ In a (keys x) -> override x ((a, u) :: c) = override x c.
Proof.
  unfold override. induction x as [|[b v] x IH]; simpl; auto. intros H.
  rewrite IH by tauto. unfold get. simpl.
  destruct (Nat.eqb b a) eqn:E; [apply Nat.eqb_eq in E; subst; tauto|]. reflexivity.
Qed.
Lemma override_self sel x : NoDup (keys x) -> override x (sel_entries sel x) = x.
Proof.
  induction x as [|[a v] x IH]; simpl; auto. intros ND. inversion ND as [|? ? Hn ND']; subst.
  unfold sel_entries. simpl. destruct (memb a sel) eqn:E.
  - unfold override at 1. simpl. unfold get at 1. simpl. rewrite Nat.eqb_refl. f_equal.
    fold (override x ((a, v) :: filter (fun av => memb (fst av) sel) x)).
    rewrite override_cons_notin by exact Hn. now apply IH.
  - unfold override at 1. simpl. f_equal.
    + unfold get. rewrite lookup_notin; auto. intros Hin.
      apply Hn. apply (selkeys_in_keys sel x a). exact Hin.
    + now apply IH.
Qed.
Lemma combine_fst_snd {A B} (l : list (A * B)) : combine (map fst l) (map snd l) = l.
Proof. induction l as [|[a b] l IH]; simpl; congruence. Qed.

Lemma get_combine_notin ks : forall (v : list Q) a, ~ In a ks -> get (combine ks v) a = None.
Proof.
  unfold get. induction ks as [|k ks IH]; intros [|y v] a H; simpl in *; auto.
  destruct (Nat.eqb a k) eqn:E; [apply Nat.eqb_eq in E; subst; tauto|]. apply IH. tauto.
Qed.
Lemma get_combine_none ks : forall (v1 v2 : list Q) a, length v1 = length v2 ->
  get (combine ks v1) a = None -> get (combine ks v2) a = None.
Proof.
  unfold get. induction ks as [|k ks IH]; intros [|y1 v1] [|y2 v2] a L H; simpl in *; try discriminate; auto.
  destruct (Nat.eqb a k); [discriminate|]. apply (IH v1); auto.
Qed.
Lemma override_override x c1 c2 :
  (forall a, get c2 a = None -> get c1 a = None) -> override (override x c1) c2 = override x c2.
Proof.
  intros H. unfold override. rewrite map_map. apply map_ext. intros [a v]. simpl.
  destruct (get c2 a) eqn:E; auto. now rewrite (H a E).
Qed.

Lemma selvals_override sel x : forall qv, NoDup (keys x) -> length qv = length (selkeys sel x) ->
  selvals sel (override x (combine (selkeys sel x) qv)) = qv.
Proof.
  unfold selvals, selkeys, sel_entries.
  induction x as [|[a v] x IH]; intros qv ND L; simpl in *.
  - destruct qv; [reflexivity|discriminate].
  - inversion ND as [|? ? Hn ND']; subst. destruct (memb a sel) eqn:E; simpl in *.
    + destruct qv as [|u qv]; [discriminate|]. simpl. unfold get at 1. simpl. rewrite Nat.eqb_refl. simpl.
      f_equal. fold (override x ((a, u) :: combine (map fst (filter (fun av => memb (fst av) sel) x)) qv)).
      rewrite override_cons_notin by exact Hn. apply IH; auto.
    + fold (override x (combine (map fst (filter (fun av => memb (fst av) sel) x)) qv)). apply IH; auto.
Qed.

Section OnTrace.
  Variables (p : prog) (gradf : list Q -> chm -> nat -> Q) (sel : list nat) (eps : Q) (t : strace).
  Let ks := selkeys sel (choices t).
  (* gradient of the log-density with respect to the selected coordinates, the other choices of t fixed *)
  Definition G_of (qv : list Q) : list Q :=
    map (gradf (t_args t) (override (choices t) (combine ks qv))) ks.
  Lemma G_of_length qv : length (G_of qv) = length ks.
  Proof. unfold G_of. apply map_length. Qed.

  Definition Inv (c : carry_t) (s : list Q * list Q * list Q) : Prop :=
    let '(t', vals, g, m) := c in
    let '(q, g', m') := s in
    vals = q /\ g = g' /\ m = m' /\ wf_trace p t' /\ t_args t' = t_args t
    /\ choices t' = override (choices t) (combine ks q)
    /\ length q = length ks /\ length g = length ks /\ length m = length ks.

  Hypothesis WF : wf_trace p t.

  Lemma nodup_choices : NoDup (keys (choices t)).
  Proof.
    destruct WF as [ND W]. apply wf_keys in W. unfold choices. rewrite keys_choices_of, W.
    now apply nodupb_NoDup.
  Qed.

  Lemma kernel_step stale c c' s :
    Inv c s -> hmc_kernel stale p gradf sel eps c = Ok c' -> Inv c' (istep stale G_of eps s).
  Proof.
    destruct c as [[[t' vals] g] m]. destruct s as [[q g'] m'].
    intros (-> & -> & -> & WF' & Ha & Hc & Lq & Lg & Lm) K.
    unfold hmc_kernel in K.
    assert (Hks : map fst (sel_entries sel (choices t')) = ks).
    { rewrite Hc. apply selkeys_override. }
    rewrite Hks in K.
    set (ph := kick eps m' g') in *. set (q1 := drift eps q ph) in *.
    destruct (update p t' (combine ks q1)) as [[[nt w] b]|] eqn:EU; simpl in K; [|discriminate].
    destruct (update_spec p t' (combine ks q1) nt w b WF' EU) as (WFn & Han & _ & Hcn & _).
    assert (Lph : length ph = length ks) by (unfold ph; rewrite kick_length; lia).
    assert (Lq1 : length q1 = length ks) by (unfold q1; rewrite drift_length; lia).
    assert (Hcn' : choices nt = override (choices t) (combine ks q1)).
    { rewrite Hcn, Hc. apply override_override. intros a. apply get_combine_none. lia. }
    assert (Hkn : map fst (sel_entries sel (choices nt)) = ks).
    { rewrite Hcn'. apply selkeys_override. }
    assert (Hvn : map snd (sel_entries sel (choices nt)) = q1).
    { rewrite Hcn'. apply selvals_override; [apply nodup_choices|exact Lq1]. }
    unfold selection_gradient in K. rewrite Hkn, Hvn in K.
    assert (HG : map (gradf (t_args nt) (choices nt)) ks = G_of q1).
    { unfold G_of. rewrite Han, Ha, Hcn'. reflexivity. }
    rewrite HG in K. inversion K; subst; clear K. simpl.
    fold ph. fold q1.
    repeat (split; [reflexivity|]).
    split; [exact WFn|]. split; [congruence|]. split; [exact Hcn'|]. split; [exact Lq1|].
    split; [destruct stale; [exact Lg|apply G_of_length]|].
    rewrite kick_length, G_of_length. lia.
  Qed.

  Lemma loop_steps stale L : forall c c' s,
    Inv c s -> hmc_loop stale p gradf sel eps L c = Ok c' -> Inv c' (iter L (istep stale G_of eps) s).
  Proof.
    induction L; intros c c' s I H; simpl in *.
    - inversion H; subst. exact I.
    - destruct (hmc_kernel stale p gradf sel eps c) as [c1|] eqn:K; simpl in H; [|discriminate].
      apply (IHL c1); auto. apply (kernel_step stale c c1 s I K).
  Qed.

  Lemma G_of_start : map (gradf (t_args t) (choices t)) ks = G_of (selvals sel (choices t)).
  Proof.
    unfold G_of, ks, selkeys, selvals. rewrite combine_fst_snd, override_self; auto. apply nodup_choices.
  Qed.

  (* HMC.edit = L steps of the machine from (selected values, gradient there, drawn momenta) *)
  Lemma hmc_edit_form stale lnorm L mom0 ft alpha fm :
    length mom0 = length ks ->
    hmc_edit stale p gradf lnorm sel eps L mom0 t = Ok (ft, alpha, fm) ->
    let q0 := selvals sel (choices t) in
    let s := iter L (istep stale G_of eps) (q0, G_of q0, mom0) in
    (L > 0)%nat /\
    selvals sel (choices ft) = fst (fst s) /\ fm = snd s /\
    choices ft = override (choices t) (combine ks (fst (fst s))) /\
    wf_trace p ft /\ t_args ft = t_args t /\ length fm = length mom0 /\
    alpha = score ft - score t + assess_momenta lnorm (-1) fm - assess_momenta lnorm 1 mom0.
  Proof.
    intros Lm H q0 s. destruct L as [|L]; [discriminate|].
    unfold hmc_edit in H. unfold selection_gradient in H.
    fold (selkeys sel (choices t)) in H. fold ks in H. fold (selvals sel (choices t)) in H.
    rewrite G_of_start in H. fold q0 in H. subst s.
    destruct (hmc_loop stale p gradf sel eps (S L) (t, q0, G_of q0, mom0)) as [[[[t' v'] g'] m']|] eqn:E;
      simpl in H; [|discriminate].
    inversion H; subst; clear H.
    assert (I0 : Inv (t, q0, G_of q0, mom0) (q0, G_of q0, mom0)).
    { unfold Inv. repeat (split; [reflexivity|]). split; [exact WF|]. split; [reflexivity|].
      split.
      - unfold q0, ks, selkeys, selvals. rewrite combine_fst_snd, override_self; auto. apply nodup_choices.
      - split; [unfold q0, selvals, ks, selkeys; now rewrite !map_length|].
        split; [apply G_of_length|exact Lm]. }
    pose proof (loop_steps stale (S L) _ _ _ I0 E) as I.
    destruct (iter (S L) (istep stale G_of eps) (q0, G_of q0, mom0)) as [[qL gL] mL] eqn:EI.
    destruct I as (-> & -> & -> & WFf & Haf & Hcf & LqL & LgL & LmL).
    cbn [fst snd]. split; [lia|]. split.
    - rewrite Hcf. apply selvals_override; [apply nodup_choices|exact LqL].
    - repeat (split; auto). lia.
  Qed.
End OnTrace.

(* ------------------------------------------------------------------ *)
(* Part D: the property theorems                                        *)
(* ------------------------------------------------------------------ *)
Section Theorems.
  Variables (p : prog) (gradf : list Q -> chm -> nat -> Q) (lnorm : Q) (sel : list nat) (eps : Q).
  Variables (L : nat) (mom0 : list Q) (t ft : strace) (alpha : Q) (fm : list Q).
  Hypothesis WF : wf_trace p t.
  Hypothesis Lm : length mom0 = length (selkeys sel (choices t)).
  Let G := G_of gradf sel t.
  Let q0 := selvals sel (choices t).

  (* what the code as it stands computes: leapfrog with the first half-kick frozen at the start gradient *)
  Lemma hmc_stale_form :
    hmc_edit true p gradf lnorm sel eps L mom0 t = Ok (ft, alpha, fm) ->
    selvals sel (choices ft) = fst (iter L (stale_leap G (G q0) eps) (q0, mom0))
    /\ fm = snd (iter L (stale_leap G (G q0) eps) (q0, mom0)).
  Proof.
    intros H. destruct (hmc_edit_form p gradf sel eps t WF true lnorm L mom0 ft alpha fm Lm H)
      as (_ & Hv & Hm & _).
    fold G in Hv, Hm. fold q0 in Hv, Hm. rewrite istep_stale_form in Hv, Hm. simpl in Hv, Hm. auto.
  Qed.

  (* under R the code follows the leapfrog integrator *)
  Lemma hmc_is_leapfrog :
    Proper (veq ==> veq) G ->
    stale_ok G (G q0) eps L q0 mom0 ->
    hmc_edit true p gradf lnorm sel eps L mom0 t = Ok (ft, alpha, fm) ->
    veq (selvals sel (choices ft)) (fst (iter L (leap G eps) (q0, mom0)))
    /\ veq fm (snd (iter L (leap G eps) (q0, mom0))).
  Proof.
    intros PG R H. destruct (hmc_stale_form H) as [-> ->].
    apply stale_leap_agrees; auto using veq_refl.
  Qed.

  (* with the carry repaired it does so unconditionally, and exactly *)
  Lemma hmc_fixed_is_leapfrog :
    hmc_edit false p gradf lnorm sel eps L mom0 t = Ok (ft, alpha, fm) ->
    selvals sel (choices ft) = fst (iter L (leap G eps) (q0, mom0))
    /\ fm = snd (iter L (leap G eps) (q0, mom0)).
  Proof.
    intros H. destruct (hmc_edit_form p gradf sel eps t WF false lnorm L mom0 ft alpha fm Lm H)
      as (_ & Hv & Hm & _).
    fold G in Hv, Hm. fold q0 in Hv, Hm. rewrite istep_fixed_leap in Hv, Hm. simpl in Hv, Hm. auto.
  Qed.

  (* only the selected choices move (either carry) *)
  Lemma hmc_moves_only_selection stale :
    hmc_edit stale p gradf lnorm sel eps L mom0 t = Ok (ft, alpha, fm) ->
    forall a, ~ In a sel -> get (choices ft) a = get (choices t) a.
  Proof.
    intros H a Ha. destruct (hmc_edit_form p gradf sel eps t WF stale lnorm L mom0 ft alpha fm Lm H)
      as (_ & _ & _ & Hc & _).
    rewrite Hc, get_override. rewrite get_combine_notin.
    - destruct (get (choices t) a); reflexivity.
    - intros Hin. apply Ha. eapply selkeys_subset; eauto.
  Qed.
  (* ... and the selected ones hold the positions reached; addresses are unchanged *)
  Lemma hmc_keys stale :
    hmc_edit stale p gradf lnorm sel eps L mom0 t = Ok (ft, alpha, fm) ->
    keys (choices ft) = keys (choices t).
  Proof.
    intros H. destruct (hmc_edit_form p gradf sel eps t WF stale lnorm L mom0 ft alpha fm Lm H)
      as (_ & _ & _ & Hc & _).
    rewrite Hc. apply keys_override.
  Qed.

  Lemma assess_momenta_kinetic mul m : mul * mul == 1 ->
    assess_momenta lnorm mul m == - kinetic m - inject_Z (Z.of_nat (length m)) * lnorm.
  Proof.
    intros Hm. induction m as [|v m IH].
    - simpl. ring.
    - cbn [assess_momenta kinetic fold_right length]. fold (kinetic m). rewrite IH.
      unfold normal_score.
      setoid_replace (mul * v * (mul * v)) with ((mul * mul) * (v * v)) by ring. rewrite Hm.
      rewrite Nat2Z.inj_succ, <- Z.add_1_r, inject_Z_plus. simpl (inject_Z 1). ring.
  Qed.

  (* alpha = H(start) - H(end), H = -log p + |momenta|^2 / 2, at the positions and momenta
     actually reached (either carry; the constant of the normal density cancels) *)
  Lemma hmc_alpha stale :
    hmc_edit stale p gradf lnorm sel eps L mom0 t = Ok (ft, alpha, fm) ->
    exists lp0 lp1,
      assess p (choices t) (t_args t) = Ok lp0 /\
      assess p (choices ft) (t_args t) = Ok lp1 /\
      alpha == (- lp0 + kinetic mom0) - (- lp1 + kinetic fm).
  Proof.
    intros H. destruct (hmc_edit_form p gradf sel eps t WF stale lnorm L mom0 ft alpha fm Lm H)
      as (_ & _ & _ & _ & WFf & Haf & Lf & Hal).
    destruct (assess_wf p t WF) as (lp0 & E0 & S0).
    destruct (assess_wf p ft WFf) as (lp1 & E1 & S1). rewrite Haf in E1.
    exists lp0, lp1. split; [exact E0|]. split; [exact E1|].
    rewrite Hal, S0, S1.
    rewrite (assess_momenta_kinetic (-1) fm) by ring.
    rewrite (assess_momenta_kinetic 1 mom0) by ring.
    rewrite Lf. ring.
  Qed.
End Theorems.

(* traces built from values (what the correspondence starts from) are well-formed *)
Lemma subs_at_wf ss : forall vals env, length vals = length ss -> wf_sites ss (subs_at ss vals env) env.
Proof.
  induction ss as [|s r IH]; intros [|v vals] env Hl; simpl in *; try discriminate; auto.
  split; [reflexivity|]. split; [reflexivity|]. apply IH. lia.
Qed.
Lemma trace_at_wf p args vals :
  nodupb (addrs p) = true -> length vals = length p -> wf_trace p (trace_at p args vals).
Proof. intros ND Hl. split; [exact ND|]. simpl. now apply subs_at_wf. Qed.

(* ---- polynomial gradients respect Qeq: the Proper hypothesis holds for every polynomial model ---- *)
Lemma peval_r_proper e : forall env env', Forall2 Qeq env env' -> peval_r env e == peval_r env' e.
Proof.
  induction e; intros env env' H; cbn [peval_r].
  - apply (veq_nth env env' i H).
  - reflexivity.
  - rewrite !Qred_correct. now rewrite (IHe1 _ _ H), (IHe2 _ _ H).
  - rewrite !Qred_correct. now rewrite (IHe1 _ _ H), (IHe2 _ _ H).
Qed.
Lemma getd_override_combine X ks : forall qv qv' b, veq qv qv' ->
  getd (override X (combine ks qv)) b == getd (override X (combine ks qv')) b.
Proof.
  intros qv qv' b H. unfold getd. rewrite !get_override. destruct (get X b) as [v|]; [|reflexivity].
  revert qv qv' H. unfold get. induction ks as [|k ks IH]; intros qv qv' H; simpl; [reflexivity|].
  inversion H; subst; simpl; [reflexivity|]. destruct (Nat.eqb b k); auto.
Qed.
Lemma gradf_of_proper P sel t : Proper (veq ==> veq) (G_of (gradf_of P) sel t).
Proof.
  intros qv qv' H. unfold G_of.
  set (ks := selkeys sel (choices t)).
  set (x := override (choices t) (combine ks qv)). set (x' := override (choices t) (combine ks qv')).
  assert (Hx : forall b, getd x b == getd x' b) by (intros b; apply getd_override_combine; exact H).
  clearbody x x'. clear H. induction ks as [|a l IH]; simpl; constructor; auto.
  unfold gradf_of. destruct (index_of a (map ps_addr P)); [|reflexivity].
  apply peval_r_proper. apply Forall2_app; [apply veq_refl|].
  clear IH. induction P as [|s P IHP]; simpl; constructor; auto.
Qed.

(* ---- concrete instances ---- *)
Definition Vp (i : nat) := PVar i.
Definition Cp (n : Z) (d : positive) := PConst (Qmake n d).
(* x ~ exp(-x^2/2): the witness of K08 *)
Definition hx_quad : list psite :=
  [ {| ps_addr := 0; ps_args := []; ps_lp := PMul (Cp (-1) 2) (PMul (Vp 0) (Vp 0)); ps_shift := 0 |} ].
(* u ~ quadratic (not selected), x with log-density (1/2 + u) x: constant gradient in x *)
Definition hx_lin : list psite :=
  [ {| ps_addr := 1; ps_args := []; ps_lp := PMul (Cp (-1) 2) (PMul (Vp 0) (Vp 0)); ps_shift := 0 |};
    {| ps_addr := 0; ps_args := [Vp 0]; ps_lp := PAdd (PMul (Cp 1 2) (Vp 0)) (PMul (Vp 0) (Vp 1)); ps_shift := 0 |} ].

Lemma hmc_stale_gradient_refuted_lemma :
  exists P sel eps L mom0 t ft alpha fm,
    wf_trace (prog_of P) t /\ length mom0 = length (selkeys sel (choices t)) /\
    Proper (veq ==> veq) (G_of (gradf_of P) sel t) /\
    hmc_edit true (prog_of P) (gradf_of P) 0 sel eps L mom0 t = Ok (ft, alpha, fm) /\
    ~ veq (selvals sel (choices ft))
          (fst (iter L (leap (G_of (gradf_of P) sel t) eps) (selvals sel (choices t), mom0))).
Proof.
  exists hx_quad, [0%nat], (1 # 2), 3%nat, [1], (trace_at (prog_of hx_quad) [] [1]).
  do 3 eexists. split; [apply trace_at_wf; reflexivity|]. split; [reflexivity|].
  split; [apply gradf_of_proper|]. split; [vm_compute; reflexivity|].
  intros H. vm_compute in H. inversion H as [|? ? ? ? E _]; subst. vm_compute in E. discriminate E.
Qed.

Lemma hmc_is_leapfrog_nonvacuous_lemma :
  let P := hx_lin in let sel := [0%nat] in let t := trace_at (prog_of P) [] [1 # 2; 1] in
  let G := G_of (gradf_of P) sel t in let q0 := selvals sel (choices t) in
  wf_trace (prog_of P) t /\ length [3 # 4] = length (selkeys sel (choices t)) /\
  Proper (veq ==> veq) G /\ stale_ok G (G q0) (1 # 2) 3 q0 [3 # 4] /\
  exists ft alpha fm, hmc_edit true (prog_of P) (gradf_of P) 0 sel (1 # 2) 3 [3 # 4] t = Ok (ft, alpha, fm)
                      /\ chm_eqb (choices ft) (choices t) = false.
Proof.
  cbv zeta. split; [apply trace_at_wf; reflexivity|]. split; [reflexivity|].
  split; [apply gradf_of_proper|]. split.
  - intros k Hk. destruct k as [|[|[|k]]]; try lia; vm_compute; constructor; try constructor; reflexivity.
  - do 3 eexists. split; vm_compute; reflexivity.
Qed.

(* statements in the argument order of props/C28.v *)
Lemma hmc_alpha_thm : forall p gradf lnorm sel eps L mom0 t ft alpha fm stale,
  wf_trace p t -> length mom0 = length (selkeys sel (choices t)) ->
  hmc_edit stale p gradf lnorm sel eps L mom0 t = Ok (ft, alpha, fm) ->
  exists lp0 lp1,
    assess p (choices t) (t_args t) = Ok lp0 /\
    assess p (choices ft) (t_args t) = Ok lp1 /\
    alpha == (- lp0 + kinetic mom0) - (- lp1 + kinetic fm).
Proof.
  intros p gradf lnorm sel eps L mom0 t ft alpha fm stale W Lm.
  exact (hmc_alpha p gradf lnorm sel eps L mom0 t ft alpha fm W Lm stale).
Qed.
Lemma hmc_moves_only_selection_thm : forall p gradf lnorm sel eps L mom0 t ft alpha fm stale,
  wf_trace p t -> length mom0 = length (selkeys sel (choices t)) ->
  hmc_edit stale p gradf lnorm sel eps L mom0 t = Ok (ft, alpha, fm) ->
  keys (choices ft) = keys (choices t) /\
  forall a, ~ In a sel -> get (choices ft) a = get (choices t) a.
Proof.
  intros p gradf lnorm sel eps L mom0 t ft alpha fm stale W Lm H. split.
  - exact (hmc_keys p gradf lnorm sel eps L mom0 t ft alpha fm W Lm stale H).
  - exact (hmc_moves_only_selection p gradf lnorm sel eps L mom0 t ft alpha fm W Lm stale H).
Qed.

(* ---- further non-vacuity instances ---- *)
(* harmonic potential: G q = -q is Proper and length preserving; one step from (1, 1/2) moves *)
Lemma leapfrog_reversible_nonvacuous_lemma :
  let G := map Qopp in
  Proper (veq ==> veq) G /\ (forall x : list Q, length (G x) = length x) /\
  length [1 # 2] = length [1] /\ ~ veq (fst (leap G (1 # 2) ([1], [1 # 2]))) [1].
Proof.
  cbv zeta. split; [|split; [|split]].
  - intros a b H. induction H; simpl; constructor; auto. now rewrite H.
  - intros x. apply map_length.
  - reflexivity.
  - intros H. vm_compute in H. inversion H as [|? ? ? ? E _]; subst. vm_compute in E. discriminate E.
Qed.
(* on the K08 witness the repaired carry runs, and ends somewhere else than the stale one *)
Lemma hmc_fixed_nonvacuous_lemma :
  let P := hx_quad in let t := trace_at (prog_of P) [] [1] in
  wf_trace (prog_of P) t /\ length [1] = length (selkeys [0%nat] (choices t)) /\
  exists ft alpha fm ft' alpha' fm',
    hmc_edit false (prog_of P) (gradf_of P) 0 [0%nat] (1 # 2) 3 [1] t = Ok (ft, alpha, fm) /\
    hmc_edit true (prog_of P) (gradf_of P) 0 [0%nat] (1 # 2) 3 [1] t = Ok (ft', alpha', fm') /\
    chm_eqb (choices ft) (choices ft') = false.
Proof.
  cbv zeta. split; [apply trace_at_wf; reflexivity|]. split; [reflexivity|].
  do 6 eexists. split; [vm_compute; reflexivity|]. split; vm_compute; reflexivity.
Qed.
