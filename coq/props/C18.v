(* C18 — Selections form a Boolean algebra over static addresses.
   Only statements here; each is closed by `exact` of a lemma from
   proofs/SelProofs.v, which is about the definitions *generated* from
   choice_map.py (gen/SelGen.v). Addresses have any length. *)
From Coq Require Import List Bool Arith.
Import ListNotations.
From Gen Require Import SelGen.
From Model Require Import Sel.
From Proofs Require Import SelProofs.

(* membership of any static address equals the same Boolean combination of the
   operands' memberships, for every term built from all/none/leaf/at[...] (with
   the ... wildcard), |, &, ~, sub-selection and extend *)
Theorem C18_membership_is_boolean_combination :
  forall (t : sterm) (p : list nat), mem (build t) p = spec t p.
Proof. exact mem_build_spec. Qed.
Print Assumptions C18_membership_is_boolean_combination.

Theorem C18_or : forall a b p, mem (OrSel_build a b) p = mem a p || mem b p.
Proof. exact mem_or_build. Qed.
Print Assumptions C18_or.
Theorem C18_and : forall a b p, mem (AndSel_build a b) p = mem a p && mem b p.
Proof. exact mem_and_build. Qed.
Print Assumptions C18_and.
Theorem C18_not : forall a p, mem (ComplementSel_build a) p = negb (mem a p).
Proof. exact mem_compl_build. Qed.
Print Assumptions C18_not.

(* S(a)[b] == S[a, b] *)
Theorem C18_subselection_commutes : forall s a b, mem (call s a) b = mem s (a ++ b).
Proof. exact mem_call. Qed.
Print Assumptions C18_subselection_commutes.

(* the simplifying constructors never change which addresses are selected *)
Theorem C18_builds_preserve : forall a b c p,
  mem (ComplementSel_build a) p = mem (ComplementSel a) p /\
  mem (StaticSel_build a c) p = mem (StaticSel a c) p /\
  mem (AndSel_build a b) p = mem (AndSel a b) p /\
  mem (OrSel_build a b) p = mem (OrSel a b) p.
Proof. exact builds_preserve. Qed.
Print Assumptions C18_builds_preserve.

Theorem C18_de_morgan : forall a b p,
  mem (ComplementSel_build (OrSel_build a b)) p =
  mem (AndSel_build (ComplementSel_build a) (ComplementSel_build b)) p.
Proof. exact de_morgan. Qed.
Print Assumptions C18_de_morgan.

(* non-vacuity: a concrete term exercising every constructor, wildcard included *)
Example C18_nonvacuous :
  let t := TAnd (TOr (TAt [CName 1; CEllipsis; CName 2]) (TNot (TAt [CName 1])))
                (TNot (TSub (TExt TLeaf [CName 3]) [3])) in
  (mem (build t) [1; 7; 2], mem (build t) [1; 7], mem (build t) [4], mem (build t) [])
  = (true, false, true, false).
Proof. vm_compute. reflexivity. Qed.
