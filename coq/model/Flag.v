(* Model of genjax/_src/core/compiler/staging.py: FlagOp, tree_choose,
   multi_switch.  Flags carry a staging tag: a Python bool (Py) takes the
   `isinstance(f, bool)` / `f is True` shortcuts, anything else (concrete or
   traced array, Ar) goes through jnp / lax.  Errors (shape or dtype mismatch
   raised by jnp/lax) are None. *)
From Coq Require Import List Bool ZArith Lia.
Import ListNotations.
Open Scope Z_scope.

Inductive stage := Py | Ar.
Inductive flag := FS (s : stage) (b : bool) | FV (l : list bool).

(* ---- observation: what a flag means, staging erased ---- *)
Inductive oflag := OS (b : bool) | OV (l : list bool).
Definition obs (f : flag) : oflag := match f with FS _ b => OS b | FV l => OV l end.

(* numpy broadcasting of two 1-d arrays: equal lengths, or one has length 1 *)
Fixpoint zip2 {A B C} (f : A -> B -> C) (l1 : list A) (l2 : list B) : list C :=
  match l1, l2 with a :: r1, b :: r2 => f a b :: zip2 f r1 r2 | _, _ => [] end.
Definition bcast2 {A} (f : A -> A -> A) (l1 l2 : list A) : option (list A) :=
  if Nat.eqb (length l1) (length l2) then Some (zip2 f l1 l2)
  else match l1, l2 with
       | [a], _ => Some (map (f a) l2)
       | _, [b] => Some (map (fun x => f x b) l1)
       | _, _ => None
       end.

(* ---- the code ---- *)
(* FlagOp.and_/or_/xor_: `if isinstance(f, bool) and isinstance(g, bool): f OP g
   else: jnp.logical_OP(f, g)` *)
Definition flag_bin (op : bool -> bool -> bool) (f g : flag) : option flag :=
  match f, g with
  | FS Py a, FS Py b => Some (FS Py (op a b))
  | FS _ a, FS _ b => Some (FS Ar (op a b))
  | FS _ a, FV l => Some (FV (map (op a) l))
  | FV l, FS _ b => Some (FV (map (fun x => op x b) l))
  | FV l1, FV l2 => option_map FV (bcast2 op l1 l2)
  end.
Definition and_ := flag_bin andb.
Definition or_ := flag_bin orb.
Definition xor_ := flag_bin xorb.
(* FlagOp.not_: `match f: case True: False; case False: True; case _: logical_not` *)
Definition not_ (f : flag) : flag :=
  match f with
  | FS Py b => FS Py (negb b)
  | FS Ar b => FS Ar (negb b)
  | FV l => FV (map negb l)
  end.
Definition concrete_true (f : flag) : bool := match f with FS Py true => true | _ => false end.
Definition concrete_false (f : flag) : bool := match f with FS Py false => true | _ => false end.

(* array-like values: dtype, scalar or 1-d *)
Inductive dty := DBool | DInt | DFloat.
Definition dty_eqb (a b : dty) : bool :=
  match a, b with DBool, DBool | DInt, DInt | DFloat, DFloat => true | _, _ => false end.
Definition dty_join (a b : dty) : dty :=
  match a, b with
  | DFloat, _ | _, DFloat => DFloat
  | DInt, _ | _, DInt => DInt
  | _, _ => DBool
  end.
Inductive tv := TS (d : dty) (z : Z) | TVec (d : dty) (l : list Z).
Definition tv_dty (v : tv) := match v with TS d _ => d | TVec d _ => d end.
Definition tv_cast (d : dty) (v : tv) : tv := match v with TS _ z => TS d z | TVec _ l => TVec d l end.
Definition tv_zeros (v : tv) : tv := match v with TS d _ => TS d 0 | TVec d l => TVec d (map (fun _ => 0) l) end.
Definition tv_eqb (a b : tv) : bool :=
  match a, b with
  | TS d z, TS e w => dty_eqb d e && Z.eqb z w
  | TVec d l, TVec e m => dty_eqb d e && Nat.eqb (length l) (length m) && forallb (fun p => Z.eqb (fst p) (snd p)) (combine l m)
  | _, _ => false
  end.

(* FlagOp.where: `if f is True: tf; if f is False: ff; lax.select(f, tf, ff)`.
   lax.select wants equal dtypes and shapes and a scalar or same-shape predicate. *)
Definition where_ (f : flag) (t e : tv) : option tv :=
  match f with
  | FS Py true => Some t
  | FS Py false => Some e
  | FS Ar b =>
      match t, e with
      | TS d x, TS d' y => if dty_eqb d d' then Some (TS d (if b then x else y)) else None
      | TVec d l, TVec d' m =>
          if dty_eqb d d' && Nat.eqb (length l) (length m) then Some (TVec d (if b then l else m)) else None
      | _, _ => None
      end
  | FV bs =>
      match t, e with
      | TVec d l, TVec d' m =>
          if dty_eqb d d' && Nat.eqb (length l) (length m) && Nat.eqb (length bs) (length l)
          then Some (TVec d (zip2 (fun b p => if b : bool then fst p else snd p) bs (combine l m))) else None
      | _, _ => None
      end
  end.
(* FlagOp.cond on already-evaluated branch results; lax.cond needs a scalar predicate
   and branch outputs of identical type *)
Definition same_type (a b : tv) : bool :=
  match a, b with
  | TS d _, TS e _ => dty_eqb d e
  | TVec d l, TVec e m => dty_eqb d e && Nat.eqb (length l) (length m)
  | _, _ => false
  end.
Definition cond_ (f : flag) (t e : tv) : option tv :=
  match f with
  | FS Py b => Some (if b then t else e)
  | FS Ar b => if same_type t e then Some (if b then t else e) else None
  | FV _ => None
  end.

(* ---- indices ---- *)
Inductive index := IPy (z : Z) | IArr (z : Z) | IVec (l : list Z).

Definition nthZ {A} (l : list A) (z : Z) (d : A) : A := nth (Z.to_nat z) l d.
Definition wrap (z : Z) (n : nat) : Z := z mod (Z.of_nat n).
Definition clamp (z : Z) (n : nat) : Z := Z.max 0 (Z.min z (Z.of_nat n - 1)).

(* tree_choose on one leaf position: `jnp.choose(idx, vs, mode="wrap")`, and for a
   Python int index `jnp.asarray(vs[idx % len(vs)], dtype=result.dtype)`.
   All candidates have the same shape here (scalars, or vectors of one length). *)
Definition join_all (vs : list tv) : dty := fold_right (fun v d => dty_join (tv_dty v) d) DBool vs.
Definition all_scalar (vs : list tv) := forallb (fun v => match v with TS _ _ => true | _ => false end) vs.
Definition vec_len (v : tv) : option nat := match v with TVec _ l => Some (length l) | _ => None end.
Definition tv_at (v : tv) (i : nat) : Z := match v with TS _ z => z | TVec _ l => nth i l 0 end.

Definition tree_choose (idx : index) (vs : list tv) : option tv :=
  match vs with
  | [] => None
  | v0 :: _ =>
      let n := length vs in
      let d := join_all vs in
      if negb (forallb (fun v => same_type (tv_cast d v) (tv_cast d v0)) vs) then None else
      match idx with
      | IPy z => Some (tv_cast d (nthZ vs (wrap z n) v0))
      | IArr z => Some (tv_cast d (nthZ vs (wrap z n) v0))
      | IVec zs =>
          match v0 with
          | TS _ _ => Some (TVec d (map (fun z => tv_at (nthZ vs (wrap z n) v0) 0) zs))
          | TVec _ l0 =>
              if Nat.eqb (length zs) (length l0)
              then Some (TVec d (map (fun p => tv_at (nthZ vs (wrap (snd p) n) v0) (fst p)) (combine (seq 0 (length zs)) zs)))
              else None
          end
      end
  end.

(* multi_switch on already-evaluated branch outputs: `lax.switch(idx, setters, shapes)`:
   the branch at the clamped index runs, the others keep their zero placeholder *)
Definition multi_switch (idx : index) (outs : list tv) : option (list tv) :=
  match idx with
  | IVec _ => None
  | IPy z | IArr z =>
      match outs with
      | [] => None
      | _ => let k := Z.to_nat (clamp z (length outs)) in
             Some (map (fun p => if Nat.eqb (fst p) k then snd p else tv_zeros (snd p)) (combine (seq 0 (length outs)) outs))
      end
  end.

(* ---- correspondence cases ---- *)
Inductive fcase :=
| CBin (op : nat) (f g : flag) (want : option flag)     (* 0 and 1 or 2 xor *)
| CNot (f : flag) (want : flag)
| CWhere (f : flag) (t e : tv) (want : option tv)
| CCond (f : flag) (t e : tv) (want : option tv)
| CChoose (i : index) (vs : list tv) (want : option tv)
| CSwitch (i : index) (outs : list tv) (want : option (list tv)).

Definition flag_eqb (a b : flag) : bool :=
  match a, b with
  | FS Py x, FS Py y | FS Ar x, FS Ar y => Bool.eqb x y
  | FV l, FV m => Nat.eqb (length l) (length m) && forallb (fun p => Bool.eqb (fst p) (snd p)) (combine l m)
  | _, _ => false
  end.
Definition opt_eqb {A} (eq : A -> A -> bool) (a b : option A) : bool :=
  match a, b with Some x, Some y => eq x y | None, None => true | _, _ => false end.
Fixpoint list_eqb {A} (eq : A -> A -> bool) (a b : list A) : bool :=
  match a, b with [], [] => true | x :: r, y :: s => eq x y && list_eqb eq r s | _, _ => false end.

Definition fcase_ok (c : fcase) : bool :=
  match c with
  | CBin op f g w => opt_eqb flag_eqb (flag_bin (match op with 0%nat => andb | 1%nat => orb | _ => xorb end) f g) w
  | CNot f w => flag_eqb (not_ f) w
  | CWhere f t e w => opt_eqb tv_eqb (where_ f t e) w
  | CCond f t e w => opt_eqb tv_eqb (cond_ f t e) w
  | CChoose i vs w => opt_eqb tv_eqb (tree_choose i vs) w
  | CSwitch i outs w => opt_eqb (list_eqb tv_eqb) (multi_switch i outs) w
  end.
Fixpoint fmismatches_from (n : nat) (cs : list fcase) : list nat :=
  match cs with
  | [] => []
  | c :: r => if fcase_ok c then fmismatches_from (S n) r else n :: fmismatches_from (S n) r
  end.
Definition fmismatches := fmismatches_from 0.
