(* C03: the importance weight is the sum of the log-densities of exactly the random
   choices that the constraint fixes (with a valid value), and the trace agrees with
   the constraint there. *)
From Coq Require Import List Bool ZArith NArith Lia Arith.
Import ListNotations.
From Gen Require Import SelGen.
From Model Require Import Key Sel GFI.
From Proofs Require Import SelProofs GFIBase GFIRef GFIWf GFIConsistent GFIProject GFISim.
Open Scope Z_scope.

Definition con (c : chm) (tm : term) : bool := constrained c (tm_path tm).
(* the constraint's valid value at the address of a term is the term's value *)
Definition agrees_at (c : chm) (tm : term) : Prop :=
  con c tm = true -> exists v, cget c (tm_path tm) = Some v /\ leaf_Z v = Some (tm_val tm).
Definition GenOk (c : chm) (t : trace) (w : Z) : Prop :=
  w = tsum (filter (con c) (t_terms t)) /\ Forall (agrees_at c) (t_terms t).

Lemma con_prefix c p tm : con c (tm_prefix p tm) = con (csub_path c p) tm.
Proof. unfold con, constrained. simpl. rewrite cget_csub_path. reflexivity. Qed.
Lemma agrees_prefix c p tm : agrees_at (csub_path c p) tm -> agrees_at c (tm_prefix p tm).
Proof.
  unfold agrees_at. rewrite con_prefix. intros H Hc. destruct (H Hc) as [v [Hv Hl]].
  exists v. simpl. rewrite <- cget_csub_path. auto.
Qed.
Lemma Forall_agrees_prefix c p l : Forall (agrees_at (csub_path c p)) l -> Forall (agrees_at c) (map (tm_prefix p) l).
Proof. intros H. apply Forall_forall. intros x Hin. apply in_map_iff in Hin. destruct Hin as [y [<- Hy]].
  apply agrees_prefix. eapply Forall_forall; eauto. Qed.
Lemma tsum_filter_con_prefix c p l :
  tsum (filter (con c) (map (tm_prefix p) l)) = tsum (filter (con (csub_path c p)) l).
Proof. rewrite tsum_filter_prefix. apply filter_ext_tsum. intros tm. apply con_prefix. Qed.

Lemma GenOk_prefix c p (w : Z) l :
  w = tsum (filter (con (csub_path c p)) l) /\ Forall (agrees_at (csub_path c p)) l ->
  w = tsum (filter (con c) (map (tm_prefix p) l)) /\ Forall (agrees_at c) (map (tm_prefix p) l).
Proof. intros [H1 H2]. split; [rewrite tsum_filter_con_prefix; exact H1 | apply Forall_agrees_prefix; exact H2]. Qed.

Lemma gen_dist_ok d k c p x : generate (GDist d) k c [VZ p] = Ok x -> GenOk c (fst x) (snd x).
Proof.
  simpl. unfold cvalue. intros H.
  assert (Hyes : forall v z, cget c [] = Some v -> leaf_Z v = Some z -> constrained c [] = true ->
            GenOk c (TDist d [VZ p] z (d_logpdf d z p)) (d_logpdf d z p)).
  { intros v z E Hl Hc. unfold GenOk. simpl. unfold con. simpl. rewrite Hc. simpl. split.
    - unfold tsum, tm_logpdf. simpl. lia.
    - constructor; [|constructor]. intros _. exists v. simpl. auto. }
  assert (Hno : forall z, constrained c [] = false -> GenOk c (TDist d [VZ p] z (d_logpdf d z p)) 0).
  { intros z Hc. unfold GenOk. simpl. unfold con. simpl. rewrite Hc. simpl. split; [reflexivity|].
    constructor; [|constructor]. unfold agrees_at, con. simpl. rewrite Hc. discriminate. }
  destruct (cget c []) as [[z|b|l|l|[|] v|]|] eqn:E; try discriminate.
  - inversion H; subst. simpl. eapply Hyes; eauto. unfold constrained. rewrite E. reflexivity.
  - destruct v; try discriminate. inversion H; subst. simpl. eapply Hyes; eauto. unfold constrained. rewrite E. reflexivity.
  - inversion H; subst. simpl. apply Hno. unfold constrained. rewrite E. reflexivity.
  - inversion H; subst. simpl. apply Hno. unfold constrained. rewrite E. reflexivity.
Qed.

(* vector combinators: element i reads the constraint under index i *)
Lemma gen_inner_ok c (rs : list (trace * Z)) : forall s,
  (forall j x, nth_error rs j = Some x -> GenOk (csub c (KI (s + j))) (fst x) (snd x)) ->
  zsum (map snd rs) = tsum (filter (con c) (iterms s (map fst rs))) /\ Forall (agrees_at c) (iterms s (map fst rs)).
Proof.
  induction rs as [|x r IH]; intros s H; [simpl; split; [reflexivity | constructor]|].
  simpl map. rewrite iterms_cons.
  destruct (H 0%nat x eq_refl) as [Hw Ha]. rewrite Nat.add_0_r in Hw, Ha.
  destruct (IH (S s)) as [IH1 IH2].
  { intros j y Hj. replace (S s + j)%nat with (s + S j)%nat by lia. apply H. exact Hj. }
  split.
  - rewrite tsum_filter_app. simpl zsum. rewrite IH1, Hw. f_equal.
    symmetry. apply (tsum_filter_con_prefix c [KI s]).
  - apply Forall_app. split; [|exact IH2]. apply (Forall_agrees_prefix c [KI s]). exact Ha.
Qed.

Lemma scanM_nth {T} (step : nat -> val -> res (T * val * val)) (Q : nat -> T -> Prop) :
  (forall i c x c' y, step i c = Ok (x, c', y) -> Q i x) ->
  forall n s c ts cf ys, scanM step (seq s n) c = Ok (ts, cf, ys) ->
  forall j y, nth_error ts j = Some y -> Q (s + j)%nat y.
Proof.
  intros Hstep. induction n as [|n IHn]; intros s c ts cf ys Hx j y Hj.
  - simpl in Hx. inversion Hx; subst. destruct j; discriminate.
  - simpl seq in Hx. rewrite scanM_cons in Hx. bind_inv Hx as st Hst. destruct st as [[x0 c'] y0].
    bind_inv Hx as rr Hrr. destruct rr as [[ts' cf'] ys']. inversion Hx; subst.
    destruct j as [|j']; simpl in Hj.
    + inversion Hj; subst. rewrite Nat.add_0_r. eapply Hstep; eauto.
    + replace (s + S j')%nat with (S s + j')%nat by lia. eapply IHn; eauto.
Qed.

Theorem generate_weight_all :
  (forall g k c a x, generate g k c a = Ok x -> GenOk c (fst x) (snd x)) /\
  (forall b k cnt c env acc w r, gen_body b k cnt c env acc w = Ok r ->
      exists subs, snd (fst r) = acc ++ subs /\
        snd r = w + tsum (filter (con c) (terms_of subs)) /\ Forall (agrees_at c) (terms_of subs)) /\
  (forall bs j k c a x, gen_branch bs j k c a = Ok x -> GenOk c (fst x) (snd x)).
Proof.
  apply gf_sbody_gfs_ind.
  - (* GDist *) intros d k c a x H. simpl in H.
    destruct a as [|[p| | | | |] [|? ?]]; try discriminate. apply (gen_dist_ok d k c p x). exact H.
  - (* GStatic *) intros b IH k c a x H. simpl in H. inv_bind H. destruct x0 as [[v subs] w]. inversion H; subst.
    destruct (IH _ _ _ _ _ _ _ Hx) as [subs' [Hs [Hw Ha]]]. simpl in *. subst. unfold GenOk. simpl.
    fold (terms_of subs'). split; [lia | exact Ha].
  - (* GVmap *) intros axes g IH k c a x H. simpl in H. destruct (vmap_len axes a) as [n|]; [|discriminate].
    inv_bind H. inversion H; subst. unfold GenOk. simpl. fold (iterms 0 (map fst x0)).
    apply gen_inner_ok. intros j y Hj. pose proof (mapM_ok_Forall2 _ _ _ Hx) as HF.
    pose proof (Forall2_seq_nth _ _ _ _ _ _ HF Hj) as Hs. simpl in Hs. apply IH in Hs. exact Hs.
  - (* GScan *) intros n g IH k c a x H. simpl in H.
    destruct a as [|carry [|xs [|? ?]]]; try discriminate.
    destruct (scan_len n xs) as [len|]; [|discriminate].
    inv_bind H. destruct x0 as [[ts cf] ys]. inversion H; subst. unfold GenOk. simpl. fold (iterms 0 (map fst ts)).
    apply gen_inner_ok. intros j y Hj.
    eapply (scanM_nth _ (fun i (x : trace * Z) => GenOk (csub c (KI i)) (fst x) (snd x))); [|exact Hx|exact Hj].
    intros i c0 x0 c' y0 Hst. simpl in Hst. bind_inv Hst as x1 Hx1. bind_inv Hst as cy Hcy. inversion Hst; subst.
    apply IH in Hx1. exact Hx1.
  - (* GSwitch *) intros bs IH k c a x H. simpl in H.
    destruct a as [|[idx| | | | |] bargs]; try discriminate.
    destruct (nth_error bargs (clampZ idx (gfs_len bs))) as [[| |l| | |]|]; try discriminate.
    inv_bind H. inversion H; subst. apply IH in Hx. exact Hx.
  - (* GMask *) intros g IH k c a x H. simpl in H.
    destruct a as [|[|check| | | |] a']; try discriminate. inv_bind H. inversion H; subst.
    apply IH in Hx. unfold GenOk in *. simpl. destruct check; [exact Hx | split; [reflexivity | constructor]].
  - (* GDimap *) intros pre g IH post k c a x H. simpl in H. inv_bind H. inv_bind H. inv_bind H. inversion H; subst.
    apply IH in Hx0. exact Hx0.
  - (* SRet *) intros e k cnt c env acc w r H. simpl in H. inv_bind H. inversion H; subst. exists []. simpl.
    rewrite app_nil_r. repeat split; [unfold tsum; simpl; lia | constructor].
  - (* SSite *) intros a g IHg es rest IHr k cnt c env acc w r H. simpl in H. inv_bind H. inv_bind H.
    destruct (existsb _ acc); [discriminate|].
    destruct (IHr _ _ _ _ _ _ _ H) as [subs [Hs [Hw Ha]]]. apply IHg in Hx0. destruct Hx0 as [Hw0 Ha0].
    exists ((a, fst x0) :: subs). split; [rewrite Hs, <- app_assoc; reflexivity|].
    unfold terms_of in *. simpl. unfold csub_addr in *. split.
    + rewrite tsum_filter_app, tsum_filter_con_prefix, Hw, Hw0. lia.
    + apply Forall_app. split; [apply Forall_agrees_prefix; exact Ha0 | exact Ha].
  - (* GNil *) intros j k c a x H. discriminate.
  - (* GCons *) intros g IHg r IHr j k c a x H. destruct j; simpl in *; [apply IHg in H | apply IHr in H]; exact H.
Qed.

Theorem generate_weight g k c a t w :
  generate g k c a = Ok (t, w) ->
  w = tsum (filter (con c) (t_terms t)) /\ Forall (agrees_at c) (t_terms t).
Proof. intros H. apply (proj1 generate_weight_all g k c a (t, w) H). Qed.

(* an empty constraint gives weight 0 *)
Corollary generate_empty_weight g k a t w : generate g k [] a = Ok (t, w) -> w = 0.
Proof.
  intros H. destruct (generate_weight _ _ _ _ _ _ H) as [-> _]. rewrite filter_none; [reflexivity|].
  intros tm. reflexivity.
Qed.
(* a constraint fixing every choice gives weight = score *)
Corollary generate_full_weight g k c a t w :
  generate g k c a = Ok (t, w) -> (forall tm, In tm (t_terms t) -> con c tm = true) -> w = t_score t.
Proof.
  intros H Hall. destruct (generate_weight _ _ _ _ _ _ H) as [-> _].
  destruct (proj1 generate_wft_all _ _ _ _ _ H) as [Hw _]. simpl in Hw. rewrite (wft_score _ _ Hw).
  f_equal. clear - Hall. induction (t_terms t) as [|x r IH]; [reflexivity|]. simpl.
  rewrite (Hall x (or_introl eq_refl)). f_equal. apply IH. intros tm Hin. apply Hall. now right.
Qed.
