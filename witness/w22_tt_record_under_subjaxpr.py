"""candidate finding (C31): a record point inside a sub-jaxpr (a jax.jit-ted helper,
a lax.cond branch, a lax.scan body) is executed but silently NOT recorded by
time_machine: no frame, no jump point, no remix possible -- "one frame per
recorded call" fails outside straight-line code.  final_retval is still f(args).
exit 1 if the defect shows, 0 if every recorded call has its frame."""
import sys, jax, jax.numpy as jnp
from jax import lax
from genjax._src.core.compiler.interpreters.time_travel import time_machine, rec

g = lambda x: x * 2.0
fs = {
    "straight-line": (lambda x: rec(g, "g")(x) + 1.0, 1),
    "jax.jit": (lambda x: jax.jit(lambda y: rec(g, "g")(y))(x) + 1.0, 1),
    "lax.cond": (lambda x: lax.cond(x > 0, lambda: rec(g, "g")(x), lambda: x) + 1.0, 1),
    "lax.scan": (lambda x: lax.scan(lambda c, _: (rec(g, "g")(c), None), x, None, length=3)[0], 3),
}
bad = []
for name, (f, ncalls) in fs.items():
    d = time_machine(f)(jnp.float32(3.0))
    assert float(d.final_retval) == float(f(jnp.float32(3.0)))
    user_frames = len(d.sequence) - 2            # minus "_enter" and "exit"
    if user_frames != ncalls or ("g" in d.jump_points) != (ncalls > 0):
        bad.append(f"{name}: {ncalls} recorded call(s) executed, {user_frames} frame(s), jump_points {sorted(d.jump_points)}")
print("; ".join(bad) if bad else "every recorded call has a frame")
sys.exit(1 if bad else 0)
