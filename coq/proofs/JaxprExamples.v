(* A concrete jaxpr used by the non-vacuity examples of props/C09.v and props/C36.v:
   constvar c0 = [1,2,3]; inputs x1 x2 x3;
     x4 = x1 + 1            x5 = x2 * x3
     x6, _ = scan(body: carry + x*const, length 3) consts=[x3] init=[x4] xs=c0
     x7 = cond(1, [neg, id], x6)
     x8 = initial_style[wrapped: a - c](x5 ; x7)     (one closed-over value)
   outputs (x4, x5, x7, 2, x1, x8). *)
From Coq Require Import List Bool ZArith.
Import ListNotations.
From Model Require Import Jaxpr Stateful Incr JaxPrims.
Open Scope Z_scope.

Definition ex_j : cjaxpr :=
  mkJaxpr [AVar 0%nat] [AVar 1%nat; AVar 2%nat; AVar 3%nat]
    [ mkEqn PAdd [AVar 1%nat; ALit (VS 1)] [AVar 4%nat];
      mkEqn PMul [AVar 2%nat; AVar 3%nat] [AVar 5%nat];
      mkEqn (PScan (mkJaxpr [] [AVar 10%nat; AVar 11%nat; AVar 12%nat]
                      [mkEqn PMul [AVar 12%nat; AVar 10%nat] [AVar 13%nat];
                       mkEqn PAdd [AVar 11%nat; AVar 13%nat] [AVar 14%nat]]
                      [AVar 14%nat; AVar 11%nat]) [] 3%nat 1%nat 1%nat false)
            [AVar 3%nat; AVar 4%nat; AVar 0%nat] [AVar 6%nat; ADrop];
      mkEqn (PCond [(mkJaxpr [] [AVar 20%nat] [mkEqn PNeg [AVar 20%nat] [AVar 21%nat]] [AVar 21%nat], []);
                    (mkJaxpr [] [AVar 22%nat] [] [AVar 22%nat], [])])
            [ALit (VS 1); AVar 6%nat] [AVar 7%nat];
      mkEqn (PInitial (mkJaxpr [AVar 30%nat] [AVar 31%nat]
                         [mkEqn PSub [AVar 31%nat; AVar 30%nat] [AVar 32%nat]] [AVar 32%nat]) 1%nat)
            [AVar 5%nat; AVar 7%nat] [AVar 8%nat] ]
    [AVar 4%nat; AVar 5%nat; AVar 7%nat; ALit (VS 2); AVar 1%nat; AVar 8%nat].
Definition ex_consts : list cval := [VV [1; 2; 3]].
Definition ex_tags : list tag := [NoChange; UnknownChange; NoChange].
Definition ex_xs : list cval := [VS 1; VS 2; VS 3].
Definition ex_xs' : list cval := [VS 1; VS 5; VS 3].
Definition ex_outs : list (cell cval) :=
  [Diff (VS 2) NoChange; Diff (VS 6) UnknownChange; Diff (VS 20) NoChange; Raw (VS 2); Diff (VS 1) NoChange;
   Diff (VS 14) UnknownChange].
Definition ex_outs' : list (cell cval) :=
  [Diff (VS 2) NoChange; Diff (VS 15) UnknownChange; Diff (VS 20) NoChange; Raw (VS 2); Diff (VS 1) NoChange;
   Diff (VS 5) UnknownChange].
