"""fixed-defect witness: masked_iterate_final replaced the iterated value on a
masked-off step (C16).  exit 1 if present."""
import sys, jax, jax.numpy as jnp
import genjax
from genjax import gen, normal, ChoiceMap as C, Diff

@gen
def step(x):
    _ = normal(x, 1.0) @ "z"
    return x + 1.0

model = genjax.masked_iterate_final()(step)
key = jax.random.key(0)
bad = []
for masks in ([True, False, True, False], [False, False], [True, True, False], [False, True]):
    m = jnp.array(masks)
    tr = model.simulate(key, (jnp.array(0.0), m))
    want = float(sum(masks))
    if float(tr.get_retval()) != want:
        bad.append(("simulate", masks, float(tr.get_retval()), want))
    s, r = model.assess(tr.get_choices(), (jnp.array(0.0), m))
    if float(r) != want:
        bad.append(("assess", masks, float(r), want))
    tr2, w, rd, _ = tr.update(key, C.empty(), Diff.unknown_change((jnp.array(1.0), m)))
    if float(tr2.get_retval()) != want + 1.0:
        bad.append(("update", masks, float(tr2.get_retval()), want + 1.0))
print("FAIL" if bad else "OK", bad[:3])
sys.exit(1 if bad else 0)
