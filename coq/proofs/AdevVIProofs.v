(* AdevVIProofs.v — C30: the ELBO / PWake estimators built as vi.py builds them, with enumerating
   guides, equal (value and formal derivative) the closed-form objectives written as explicit sums
   over all latent assignments. *)
From Coq Require Import List ZArith QArith Qabs Bool Lia Setoid Morphisms.
Import ListNotations.
From Model Require Import Adev AdevVI.
From Proofs Require Import AdevProofs.
Open Scope Q_scope.

Lemma deq_refl a : deq a a. Proof. split; reflexivity. Qed.
Lemma deq_sym a b : deq a b -> deq b a. Proof. intros [A B]; split; symmetry; assumption. Qed.
Lemma deq_trans a b c : deq a b -> deq b c -> deq a c.
Proof. intros [A B] [C D]; split; etransitivity; eassumption. Qed.
Add Parametric Relation : dual deq reflexivity proved by deq_refl symmetry proved by deq_sym
  transitivity proved by deq_trans as deq_rel.
Add Parametric Morphism : dadd with signature deq ==> deq ==> deq as dadd_mor.
Proof. intros a a' [A B] b b' [C D]. unfold deq, dadd; simpl. rewrite A, B, C, D. split; reflexivity. Qed.
Add Parametric Morphism : dsub with signature deq ==> deq ==> deq as dsub_mor.
Proof. intros a a' [A B] b b' [C D]. unfold deq, dsub; simpl. rewrite A, B, C, D. split; reflexivity. Qed.
Add Parametric Morphism : dmul with signature deq ==> deq ==> deq as dmul_mor.
Proof. intros a a' [A B] b b' [C D]. unfold deq, dmul; simpl. rewrite A, B, C, D. split; reflexivity. Qed.
Add Parametric Morphism : dneg with signature deq ==> deq as dneg_mor.
Proof. intros a a' [A B]. unfold deq, dneg; simpl. rewrite A, B. split; reflexivity. Qed.

Ltac dring := unfold deq, dadd, dsub, dmul, dneg, dC; simpl; split; ring.

Lemma dsum_nil : dsum [] = (0, 0). Proof. reflexivity. Qed.
Lemma dsum_cons a l : dsum (a :: l) = dadd a (dsum l). Proof. reflexivity. Qed.
Lemma dadd_0_l a : deq (dadd (0, 0) a) a. Proof. dring. Qed.
Lemma dmul_assoc a b c : deq (dmul (dmul a b) c) (dmul a (dmul b c)). Proof. dring. Qed.
Lemma dadd_assoc a b c : deq (dadd (dadd a b) c) (dadd a (dadd b c)). Proof. dring. Qed.

Lemma dsum_app l1 l2 : deq (dsum (l1 ++ l2)) (dadd (dsum l1) (dsum l2)).
Proof.
  induction l1 as [|a l1 IH]; cbn [app]. { rewrite dsum_nil, dadd_0_l. reflexivity. }
  rewrite !dsum_cons, IH, dadd_assoc. reflexivity.
Qed.
Lemma dsum_map_ext {A} (f g : A -> dual) l : (forall x, deq (f x) (g x)) -> deq (dsum (map f l)) (dsum (map g l)).
Proof.
  intros H. induction l as [|a l IH]; cbn [map]. { reflexivity. }
  rewrite !dsum_cons, IH, (H a). reflexivity.
Qed.
Lemma dsum_scale {A} c (f : A -> dual) l : deq (dsum (map (fun x => dmul c (f x)) l)) (dmul c (dsum (map f l))).
Proof.
  induction l as [|a l IH]; cbn [map]. { rewrite dsum_nil. dring. }
  rewrite !dsum_cons, IH. dring.
Qed.
Lemma dsum_neg {A} (f : A -> dual) l : deq (dsum (map (fun x => dneg (f x)) l)) (dneg (dsum (map f l))).
Proof.
  induction l as [|a l IH]; cbn [map]. { rewrite dsum_nil. dring. }
  rewrite !dsum_cons, IH. dring.
Qed.

Section V.
Variables lg dlg : Q -> Q.
Notation deval := (deval lg dlg).
Notation interp := (interp lg dlg).

Lemma nth_shift {A} (pre l : list A) c d : nth (c + length pre) (pre ++ l) d = nth c l d.
Proof. rewrite app_nth2 by lia. f_equal. lia. Qed.

Lemma deval_shiftb e : forall env pre benv, deval (eshiftb (length pre) e) env (pre ++ benv) = deval e env benv.
Proof.
  induction e; intros env pre benv; simpl; try reflexivity;
    try (rewrite IHe1, IHe2; reflexivity); try (rewrite IHe; reflexivity).
  rewrite nth_shift, IHe1, IHe2. reflexivity.
Qed.
Lemma deval_shiftb1 e env b benv : deval (eshiftb 1 e) env (b :: benv) = deval e env benv.
Proof. apply (deval_shiftb e env [b] benv). Qed.

Lemma deval_lflipv pe env x benv :
  deval (lflipv pe) env (x :: benv) = dlog lg dlg (bern x (deval pe env benv)).
Proof. unfold lflipv. simpl. rewrite deval_shiftb1. destruct x; reflexivity. Qed.

Lemma deval_add_obs obs : forall P env benv,
  deq (deval (add_obs P obs) env benv) (dadd (deval P env benv) (obs_d lg dlg obs env benv)).
Proof.
  unfold add_obs. induction obs as [|[e o] obs IH]; intros P env benv; simpl. { dring. }
  rewrite IH. simpl. unfold lflipo. destruct o; simpl; dring.
Qed.

(* the generic statement: the estimator with an enumerating guide is the explicit sum *)
Lemma vi_build_sum fin (finD : dual -> dual -> dual) :
  (forall A Qs env benv, deq (deval (fin A Qs) env benv) (finD (deval A env benv) (deval Qs env benv))) ->
  (forall a a' b b', deq a a' -> deq b b' -> deq (finD a b) (finD a' b')) ->
  forall g lat obs P Qs env benv rs d,
  length lat = length g -> Forall (fun pq => fst pq = PFlipEnum) g ->
  exists r, interp (vi_build fin g lat obs P Qs) env benv rs d = Some r /\
    deq r (dsum (map (fun xs => dmul (prob_d lg dlg (map snd g) xs env benv)
                                  (finD (dadd (dadd (deval P env benv) (logdens_d lg dlg lat xs env benv))
                                              (obs_d lg dlg obs env (rev xs ++ benv)))
                                        (dadd (deval Qs env benv) (logdens_d lg dlg (map snd g) xs env benv))))
                     (all_assign (length g)))).
Proof.
  intros Hfin Hprop. induction g as [|[pr qe] g IH]; intros lat obs P Qs env benv rs d Hlen Hall.
  - destruct lat; [|discriminate]. simpl. eexists. split; [reflexivity|].
    rewrite Hfin. unfold dsum. simpl.
    assert (E : deq (finD (deval (add_obs P obs) env benv) (deval Qs env benv))
                    (finD (dadd (dadd (deval P env benv) (0, 0)) (obs_d lg dlg obs env benv)) (dadd (deval Qs env benv) (0, 0)))).
    { apply Hprop; [rewrite deval_add_obs|]; dring. }
    rewrite E. dring.
  - destruct lat as [|pe lat]; [discriminate|]. simpl in Hlen. injection Hlen as Hlen.
    inversion Hall as [|? ? Hpr Hall']; subst. simpl in Hpr. subst pr.
    cbn [vi_build interp site map].
    destruct (IH lat obs (EAdd (eshiftb 1 P) (lflipv pe)) (EAdd (eshiftb 1 Qs) (lflipv qe)) env (true :: benv) rs d Hlen Hall') as [rt [Et Dt]].
    destruct (IH lat obs (EAdd (eshiftb 1 P) (lflipv pe)) (EAdd (eshiftb 1 Qs) (lflipv qe)) env (false :: benv) rs d Hlen Hall') as [rf [Ef Df]].
    rewrite Et, Ef. cbn [obind]. eexists. split; [reflexivity|].
    cbn [length all_assign]. rewrite map_app, dsum_app, !map_map.
    rewrite Dt, Df.
    apply dadd_mor.
    + rewrite <- dsum_scale. apply dsum_map_ext. intros xs.
      cbn [map snd prob_d logdens_d rev bern deval]. rewrite <- app_assoc. cbn [app].
      rewrite !deval_shiftb1, !deval_lflipv. cbn [bern].
      rewrite <- dmul_assoc. apply dmul_mor; [reflexivity|]. apply Hprop; dring.
    + rewrite <- dsum_scale. apply dsum_map_ext. intros xs.
      cbn [map snd prob_d logdens_d rev bern deval]. rewrite <- app_assoc. cbn [app].
      rewrite !deval_shiftb1, !deval_lflipv. cbn [bern].
      rewrite <- dmul_assoc. apply dmul_mor; [reflexivity|]. apply Hprop; dring.
Qed.

Definition elbo_finD (a q : dual) : dual := dneg (dadd (dsub a a) (dsub a (dsub q (dC 0)))).
Definition pwake_finD (a q : dual) : dual := dneg a.

Theorem elbo_enum g lat obs env rs d :
  length lat = length g -> Forall (fun pq => fst pq = PFlipEnum) g ->
  exists r, interp (elbo_prog g lat obs) env [] rs d = Some r /\
            deq r (dneg (elbo_obj lg dlg (map snd g) lat obs env)).
Proof.
  intros Hlen Hall.
  destruct (vi_build_sum elbo_fin elbo_finD) with (g := g) (lat := lat) (obs := obs) (P := EC 0) (Qs := EC 0)
    (env := env) (benv := @nil bool) (rs := rs) (d := d) as [r [E D]]; try assumption.
  - intros; reflexivity.
  - intros a a' b b' Ha Hb. unfold elbo_finD. rewrite Ha, Hb. reflexivity.
  - exists r. split; [exact E|]. rewrite D. unfold elbo_obj. rewrite <- dsum_neg. rewrite map_length.
    apply dsum_map_ext. intros xs. rewrite app_nil_r. unfold elbo_finD. simpl. dring.
Qed.

Theorem pwake_enum g lat obs env rs d :
  length lat = length g -> Forall (fun pq => fst pq = PFlipEnum) g ->
  exists r, interp (pwake_prog g lat obs) env [] rs d = Some r /\
            deq r (dneg (pwake_obj lg dlg (map snd g) lat obs env)).
Proof.
  intros Hlen Hall.
  destruct (vi_build_sum pwake_fin pwake_finD) with (g := g) (lat := lat) (obs := obs) (P := EC 0) (Qs := EC 0)
    (env := env) (benv := @nil bool) (rs := rs) (d := d) as [r [E D]]; try assumption.
  - intros; reflexivity.
  - intros a a' b b' Ha Hb. unfold pwake_finD. rewrite Ha. reflexivity.
  - exists r. split; [exact E|]. rewrite D. unfold pwake_obj. rewrite <- dsum_neg. rewrite map_length.
    apply dsum_map_ext. intros xs. rewrite app_nil_r. unfold pwake_finD. simpl. dring.
Qed.

(* the weight algebra of ELBO collapses to log p - log q *)
Lemma elbo_weight_diff P Qs env benv :
  deq (deval (elbo_weight P Qs) env benv) (dsub (deval P env benv) (deval Qs env benv)).
Proof. unfold elbo_weight. simpl. dring. Qed.

Theorem elbo_normal_pathwise m0 s0 s1 v0 m s env rs d :
  let x := dadd (deval m env []) (dmul (deval s env []) (dC (de (rs d)))) in
  exists r, interp (elbo_normal_prog m0 s0 s1 v0 m s) env [] rs d = Some r /\
    deq r (dneg (dsub (dadd (deval (lnormal (EV 0) (eshiftr m0) (eshiftr s0)) (x :: env) [])
                            (deval (lnormal (eshiftr v0) (EV 0) (eshiftr s1)) (x :: env) []))
                      (deval (lnormal (EV 0) (eshiftr m) (eshiftr s)) (x :: env) []))).
Proof.
  intros x. eexists. split; [reflexivity|].
  cbn [deval]. fold x. unfold elbo_normal_integrand.
  rewrite elbo_weight_diff. cbn [deval]. dring.
Qed.
End V.
