"""C33 — invalid_subset reports exactly the constraint addresses a model cannot trace.
Engine A-chm (+ real `@genjax.gen` models for the trace shape).

Models are generated from a small grammar (static bodies whose sites are distributions,
nested static functions, vmap / repeat / scan / switch / mask of those); the set T of
addresses a model traces is known by construction.  Constraints mix addresses of T (with
index levels inserted anywhere) and addresses outside T (foreign names, a leaf at an inner
node, a leaf below a leaf).

 * tie: `chm.invalid_subset(model, args)` runs on the implementation; the choice map of the
   model's zero trace is read off structurally and shipped to Coq with the constraint and
   the observed answers; coq/model/Chm.v's `invalid_subset` is evaluated on them.
 * direct oracle (no model): None iff every constraint leaf has its static part in T;
   otherwise `addr in extras` exactly for the leaves outside T, with the constraint's value.
"""
import json
from . import core
from . import chm_engine as E
from .p_C17 import E_tuple

NAMES = E.NAMES


# ---- models -------------------------------------------------------------------------
def gen_spec(rng, depth):
    """("static", [(name, callee)])   callee := ("leaf",) | spec | ("vmap", spec, n) | ("repeat", spec, n)
    | ("scan", [names], n) | ("switch", [spec..]) | ("mask", spec)"""
    sites = []
    for n in rng.sample(NAMES[:3], rng.randint(1, 3)):
        r = rng.random()
        if depth == 0 or r < 0.45:
            sites.append((n, ("leaf",)))
        elif r < 0.6:
            sites.append((n, gen_spec(rng, depth - 1)))
        elif r < 0.7:
            sites.append((n, ("vmap", gen_spec(rng, depth - 1), rng.randint(2, 3))))
        elif r < 0.76:
            sites.append((n, ("repeat", gen_spec(rng, 0), 2)))
        elif r < 0.84:
            sites.append((n, ("scan", rng.sample(NAMES[:3], rng.randint(1, 2)), rng.randint(2, 3))))
        elif r < 0.93:
            sites.append((n, ("switch", [gen_spec(rng, depth - 1) for _ in range(2)])))
        else:
            sites.append((n, ("mask", gen_spec(rng, depth - 1))))
    return ("static", sites)


def traced(spec):
    """static addresses (tuples of names) the model traces"""
    k = spec[0]
    if k == "leaf": return {()}
    if k == "static":
        out = set()
        for n, cs in spec[1]:
            out |= {(n,) + a for a in traced(cs)}
        return out
    if k in ("vmap", "repeat", "mask"): return traced(spec[1])
    if k == "scan": return {(n,) for n in spec[1]}
    if k == "switch":
        out = set()
        for b in spec[1]:
            out |= traced(b)
        return out
    raise ValueError(spec)


_made = {}


def make(spec):
    """the generative function of a spec; all take (x, idx, flag)"""
    import genjax, jax.numpy as jnp
    key = json.dumps(spec)
    if key in _made:
        return _made[key]
    assert spec[0] == "static"
    sites = spec[1]
    callees = []
    for n, cs in sites:
        k = cs[0]
        if k == "leaf": callees.append(None)
        elif k == "static": callees.append(make(cs))
        elif k == "vmap": callees.append(make(cs[1]).vmap(in_axes=(0, None, None)))
        elif k == "repeat": callees.append(make(cs[1]).repeat(n=cs[2]))
        elif k == "mask": callees.append(make(cs[1]).mask())
        elif k == "switch": callees.append(genjax.switch(*[make(b) for b in cs[1]]))
        elif k == "scan":
            names = list(cs[1])

            @genjax.gen
            def step(c, _):
                for nm in names:
                    genjax.normal(c, 1.0) @ nm
                return c, c
            callees.append(step.scan(n=cs[2]))

    @genjax.gen
    def model(x, idx, flag):
        for (n, cs), g in zip(sites, callees):
            k = cs[0]
            if k == "leaf": genjax.normal(x, 1.0) @ n
            elif k in ("static", "repeat"): g(x, idx, flag) @ n
            elif k == "vmap": g(jnp.zeros(cs[2]) + x, idx, flag) @ n
            elif k == "mask": g(flag, x, idx, flag) @ n
            elif k == "switch": g(idx, *[(x, idx, flag)] * len(cs[1])) @ n
            elif k == "scan": g(x, None) @ n
        return x
    _made[key] = model
    return model


def model_args():
    import jax.numpy as jnp
    return (jnp.array(0.0), jnp.array(0), jnp.array(True))


def memo_zero_trace(model):
    """get_zero_trace is pure staging and costs seconds; run it once per model and let the
    implementation's invalid_subset see the memoised result (an attribute of *our* model object)"""
    real = type(model).get_zero_trace
    cache = {}

    def cached(*args, **kw):
        if "t" not in cache:
            cache["t"] = real(model, *args, **kw)
        return cache["t"]
    object.__setattr__(model, "get_zero_trace", cached)


def c_shape(chm):
    """Coq term of the structure of the trace's choice map (leaf values are irrelevant)"""
    from genjax._src.core.generative.choice_map import Static, Choice, Switch, Indexed, Or
    if isinstance(chm, dict):
        return "(Static " + core.clist([f"({E.ID[k]}%nat, {c_shape(v)})" for k, v in chm.items()]) + ")"
    if isinstance(chm, Static): return c_shape(chm.mapping)
    if isinstance(chm, Choice): return "(Choice (LRaw (A0 0)))"
    if isinstance(chm, Switch): return "(Switch (SArr 0) " + core.clist([c_shape(c) for c in chm.chms]) + ")"
    if isinstance(chm, Or): return f"(Or {c_shape(chm.c1)} {c_shape(chm.c2)})"
    if isinstance(chm, Indexed): return f"(Indexed {c_shape(chm.c)} (IAr 0))"
    raise ValueError(type(chm))


# ---- constraints -----------------------------------------------------------------------
def gen_constraint(rng, T):
    """-> (expr, leaves) with leaves = [(lookup address, static part, value)]"""
    T = sorted(T)
    cands = []
    for _ in range(rng.randint(1, 4)):
        r = rng.random()
        a = list(rng.choice(T))
        if r < 0.5: pass                                           # traceable
        elif r < 0.62: a[rng.randrange(len(a))] = "d"              # foreign name
        elif r < 0.72: a = a + [rng.choice(NAMES)]                 # below a leaf
        elif r < 0.82 and len(a) > 1: a = a[:rng.randint(1, len(a) - 1)]   # a leaf at an inner node
        elif r < 0.9: a = [rng.choice(NAMES) for _ in range(rng.randint(1, 2))]
        cands.append(a)
    chosen = []
    for a in cands:
        if all(not (a[:len(b)] == b[:len(a)]) or a == b for b, _ in chosen):
            # index levels: the same pattern for equal static parts
            same = [q for b, q in chosen if b == a]
            if same:
                q = [c if c[0] == "s" else (c[0], rng.randint(0, 2)) for c in same[0]]
                if q in [qq for _, qq in chosen]:
                    continue
            else:
                q = [("s", n) for n in a]
                for _ in range(rng.choice([0, 0, 1, 1, 2])):
                    q.insert(rng.randint(0, len(q)), (rng.choice(["py", "ar"]), rng.randint(0, 2)))
            chosen.append((a, q))
    g = E.Gen(rng)
    g.counter = rng.randint(0, 50)
    leaves, expr = [], None
    hashable = all(c[0] in ("s", "py") for _, q in chosen for c in q)
    style = rng.random()
    items = []
    for a, q in chosen:
        v = g.val()
        f = None if rng.random() < 0.8 else ("ar", rng.random() < 0.5)
        leaf = (("c", v, rng.choice(["py", "arr"])), f)
        items.append((q, leaf))
        leaves.append((q, a, v))
    if style < 0.3 and hashable:
        expr = g.nest(items)
    elif style < 0.45 and hashable:
        expr = ("d", [(q, ("choice", l)) for q, l in items], "d")
    else:
        for q, l in items:
            part = ("setc", q, ("choice", l))
            if expr is None: expr = part
            elif rng.random() < 0.5: expr = ("or", expr, part)
            else: expr = ("set", expr, q, ("choice", l))
    return expr, leaves


# fixed models: every combinator, branches / nested bodies with different addresses
CORE = [
    ("static", [("a", ("leaf",)), ("b", ("switch", [("static", [("a", ("leaf",))]), ("static", [("b", ("leaf",)), ("c", ("leaf",))])]))]),
    ("static", [("a", ("vmap", ("static", [("b", ("leaf",)), ("c", ("static", [("a", ("leaf",))]))]), 2)), ("c", ("scan", ["a", "b"], 2))]),
    ("static", [("b", ("mask", ("static", [("a", ("leaf",))]))), ("c", ("repeat", ("static", [("c", ("leaf",))]), 2))]),
]


def systematic(T):
    """one constraint per traceable address (must give None), one below it, one at each proper prefix"""
    out, v = [], 100
    for a in sorted(T):
        a = list(a)
        alts = [a, a + ["a"]] + [a[:k] for k in range(1, len(a))]
        for b in alts:
            for with_index in (False, True):
                q = [("s", n) for n in b]
                if with_index:
                    q.insert(len(q) // 2, ("py", 1))
                v += 1
                out.append((("setc", q, ("choice", (("c", v, "py"), None))), [(q, b, v)]))
    seen, uniq = set(), []
    for e, l in out:
        k = json.dumps(e)[: -1]
        key = json.dumps(l[0][0])
        if key not in seen:
            seen.add(key); uniq.append((e, l))
    return uniq


def to_lookup(q):
    return [c for c in q]


def observe_invalid(model, args, expr, queries):
    """-> (["raised", kind] | None | [answers on the result], [answers on the constraint itself])"""
    chm = E.realise(expr)
    orig = [E.observe(chm, q) for q in queries]
    try:
        extras = chm.invalid_subset(model, args)
    except E.Unknown:
        raise
    except Exception as ex:
        return ["raised", E.classify(ex)], orig
    if extras is None:
        return None, orig
    return [E.observe(extras, q) for q in queries], orig


def oracle(T, leaves, queries, got, orig):
    """None if fine, else a description"""
    invalid = [(q, a, v) for (q, a, v) in leaves if tuple(a) not in T]
    if got is not None and got and got[0] == "raised":
        return f"invalid_subset raised {got[1]}"
    if got is None:
        return None if not invalid else f"returned None although {[a for _, a, _ in invalid]} cannot be traced"
    if not invalid:
        return "returned a non-empty result although every address is traceable"
    for (q, a, v), ans, was in zip(leaves, got, orig):
        if tuple(a) not in T:
            # an untraceable leaf is in the result exactly as it is in the constraint (same value, same flag);
            # when looking it up raises on the constraint itself (index component above an index level) nothing is compared
            if was[0] == "err":
                continue
            if ans[:1] + ans[2:] != was[:1] + was[2:]:
                return f"untraceable address {q}: the constraint answers {was}, the result answers {ans}"
        else:
            if ans[0] == "look" and ans[2] is not None:
                return f"traceable address {q} is in the result: {ans}"
    return None


def run(ctx):
    ctx.proofs()
    rng = ctx.rng
    nmodels = ctx.n(5, 60)
    per = ctx.n(18, 30)
    args = None
    terms, kept, nbad, nnone, nsome = [], [], 0, 0, 0
    by_kind = {}
    shapes_seen = 0
    specs = list(CORE) + [gen_spec(rng, rng.choice([0, 1, 1, 2])) for _ in range(nmodels)]
    for mi, spec in enumerate(specs):
        T = traced(spec)
        for x in walk(spec):
            by_kind[x] = by_kind.get(x, 0) + 1
        model = make(spec)
        if args is None:
            args = model_args()
        memo_zero_trace(model)
        try:
            shape = model.get_zero_trace(*args).get_choices()
        except Exception as ex:
            ctx.fail("tie", f"zero trace of generated model {spec} raised {type(ex).__name__}: {str(ex)[:200]}")
            continue
        cshape = c_shape(shape)
        shapes_seen += 1
        # _shape_selection itself, through the one public observable it has: invalid_subset of single leaves
        cons = systematic(T) + [gen_constraint(rng, T) for _ in range(per)]
        for expr, leaves in cons:
            queries = [("look", to_lookup(q)) for q, _, _ in leaves] + [("look", [])]
            try:
                got, orig = observe_invalid(model, args, expr, queries)
            except E.Unknown as u:
                ctx.fail("tie", f"exception outside the enum: {u}", case={"spec": spec, "expr": expr})
                continue
            except Exception as ex:
                # the constraint itself could not be built (Or conflicts): not a case
                continue
            why = oracle(T, leaves, queries, got, orig)
            case = {"spec": spec, "expr": expr, "leaves": leaves}
            if why:
                nbad += 1
                if nbad <= 3:
                    ctx.fail("oracle", f"model {spec} tracing {sorted(T)}, constraint {expr}: {why}", case=case)
            if got is None:
                nnone += 1
                want = "(Some None)"
            elif got and got[0] == "raised":
                want = "None"
            else:
                nsome += 1
                want = f"(Some (Some {E.c_qas(queries, got)}))"
            terms.append(f"CInvalid {cshape} {E.c_expr(expr)} {want}")
            kept.append(case)
    mism, errs = core.coq_mismatches("C33", E.COQ_HEADER, terms, "ccase", fn="cmismatches", shard=100)
    for er in errs[:2]:
        ctx.fail("correspondence", "A-chm case file did not evaluate: " + er)
    for i in mism[:3]:
        ctx.fail("correspondence", f"model coq/model/Chm.v (invalid_subset) and implementation disagree on {kept[i]}", case=None)
    # outside `tidy`: a constraint holding a traced switch (informational)
    ctx.log("note: outside-region witness: " + switch_witness())
    cov = ctx.cov
    cov["evaluations"] = len(terms)
    cov["traces_validated_against_impl"] = len(terms) - len(mism)
    cov["distinct_nontrivial"] = len({json.dumps(c) for c in kept if len(c["leaves"]) >= 2})
    cov["rule"] = ("generated @genjax.gen models (static bodies with distribution sites, nested static functions, vmap, repeat, scan, switch, mask; depth <= 2) "
                   "x constraints of 1-4 leaves mixing traceable addresses (index levels inserted anywhere) with foreign names, leaves at inner nodes and below leaves; "
                   "non-trivial = constraint with >= 2 leaves; distinct by (model, constraint)")
    cov["by_kind"] = by_kind
    cov["models"] = shapes_seen
    cov["result_none"] = nnone
    cov["result_submap"] = nsome
    cov["exhaustive"] = False
    import genjax
    cov["genjax_file"] = genjax.__file__
    ctx.add_samples([{"model": c["spec"], "constraint": c["expr"]} for c in kept[:3]])


def walk(spec):
    yield spec[0]
    if spec[0] == "static":
        for _, cs in spec[1]:
            yield from walk(cs)
    elif spec[0] in ("vmap", "repeat", "mask"):
        yield from walk(spec[1])
    elif spec[0] == "switch":
        for b in spec[1]:
            yield from walk(b)


def switch_witness():
    import jax.numpy as jnp
    from genjax import ChoiceMap, ChoiceMapBuilder as C
    spec = ("static", [("a", ("leaf",))])
    m = make(spec)
    r = ChoiceMap.switch(jnp.array(0), [C["a"].set(1.0)]).invalid_subset(m, model_args())
    return f"switch constraint with only traceable addresses -> invalid_subset is {'None' if r is None else 'not None'}"


def replay(case):
    spec = to_spec(case["spec"])
    expr = E_tuple(case["expr"])
    leaves = [(E_tuple(q), list(a), v) for q, a, v in case["leaves"]]
    T = traced(spec)
    model = make(spec)
    queries = [("look", to_lookup(q)) for q, _, _ in leaves] + [("look", [])]
    got, orig = observe_invalid(model, model_args(), expr, queries)
    why = oracle(T, leaves, queries, got, orig)
    print(f"model traces {sorted(T)}; constraint {expr}; invalid_subset -> {got}: {why or 'ok'}")
    return why is None


def to_spec(x):
    if isinstance(x, list) and x and isinstance(x[0], str):
        k = x[0]
        if k == "leaf": return ("leaf",)
        if k == "static": return ("static", [(n, to_spec(cs)) for n, cs in x[1]])
        if k in ("vmap", "repeat"): return (k, to_spec(x[1]), x[2])
        if k == "mask": return ("mask", to_spec(x[1]))
        if k == "scan": return ("scan", list(x[1]), x[2])
        if k == "switch": return ("switch", [to_spec(b) for b in x[1]])
    return x
