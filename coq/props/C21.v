(* C21 — Diff and Pytree utilities are structure-preserving round trips.
   Model: coq/model/DiffTree.v (jax pytrees as node type + auxiliary data + children; every
   Pytree.dataclass - Diff, the tangents, Const, Closure, user classes - is such a node whose
   auxiliary data hold its static fields; Diff.* and Pytree.* written on top of tree_map /
   tree_leaves / tree_flatten / tree_unflatten as the source does).
   Regions (coq/proofs/DiffTreeProofs.v): `plain` = no Diff and no tangent object; `argdiff` =
   Diff's documented contract (Diffs wrap plain values, never nested); `wfd` = every Diff holds a
   tangent object (what the type-checked constructor guarantees).  All statements are for all
   trees of any width and depth. *)
From Coq Require Import List Bool ZArith.
Import ListNotations.
From Model Require Import DiffTree.
From Proofs Require Import DiffTreeProofs.
Open Scope Z_scope.

(* ---- tree_diff ---- *)
Theorem C21_tree_diff_roundtrip : forall t, plain t = true -> forall tn r, tree_diff t tn = Some r ->
  tree_primal r = t /\ tree_tangent r = tn /\ static_check_tree_diff r = true.
Proof. exact tree_diff_roundtrip. Qed.
Print Assumptions C21_tree_diff_roundtrip.
Example C21_tree_diff_roundtrip_nonvacuous :
  let t := Node (KDict [1; 4]) [Leaf (LS Py 3); Node (KRec 2 [None; Some 107]) [Node KTuple [Leaf (LS Ar (-2)); Node KNone []]]] in
  let tn := Node (KDict [1; 4]) [TanT NoChange; Node (KRec 2 [None; Some 107]) [Node KTuple [TanT UnknownChange; Node KNone []]]] in
  plain t = true /\ exists r, tree_diff t tn = Some r.
Proof. split; [reflexivity|eexists; reflexivity]. Qed.

Theorem C21_tree_diff_shape : forall t, plain t = true -> forall tn r, tree_diff t tn = Some r ->
  structure (tree_primal r) = structure t.
Proof. exact tree_diff_shape. Qed.
Print Assumptions C21_tree_diff_shape.

(* ---- no_change / unknown_change (change NoChange / change UnknownChange) ---- *)
Theorem C21_change_never_raises : forall tg t, exists r, change tg t = Some r.
Proof. exact change_total. Qed.
Print Assumptions C21_change_never_raises.

Theorem C21_primal_of_no_change : forall tg t r, argdiff t = true -> change tg t = Some r ->
  tree_primal r = tree_primal t /\ structure (tree_primal r) = structure (tree_primal t) /\ argdiff r = true.
Proof. exact change_preserves. Qed.
Print Assumptions C21_primal_of_no_change.
Example C21_primal_of_no_change_nonvacuous :
  let t := Node KList [DiffT (Leaf (LS Py 1)) UnknownChange; Leaf (LS Ar 2);
                       Node (KRec 0 [Some 100; None]) [DiffT (Node KTuple [Leaf (LS Py 5); Leaf (LS Py 6)]) NoChange]] in
  argdiff t = true /\ no_change t = Some (Node KList [DiffT (Leaf (LS Py 1)) NoChange; DiffT (Leaf (LS Ar 2)) NoChange;
                       Node (KRec 0 [Some 100; None]) [Node KTuple [DiffT (Leaf (LS Py 5)) NoChange; DiffT (Leaf (LS Py 6)) NoChange]]]).
Proof. split; reflexivity. Qed.

Theorem C21_no_change_idem : forall tg t r, argdiff t = true -> change tg t = Some r ->
  change tg r = Some r /\ forall tg', change tg' r = change tg' t.
Proof. exact change_idem_absorb. Qed.
Print Assumptions C21_no_change_idem.

(* ---- the static checks ---- *)
Theorem C21_static_check_iff_all : forall t, wfd t = true ->
  (static_check_no_change t = true <-> Forall (fun g => g = NoChange) (tangents t)).
Proof. exact static_check_no_change_iff. Qed.
Print Assumptions C21_static_check_iff_all.
Example C21_static_check_iff_all_nonvacuous :
  let t := Node KTuple [DiffT (Leaf (LS Py 1)) NoChange; Leaf (LS Py 2); DiffT (Leaf (LS Py 3)) UnknownChange] in
  wfd t = true /\ tangents t = [NoChange; UnknownChange] /\ static_check_no_change t = false.
Proof. repeat split; reflexivity. Qed.

Theorem C21_static_check_tree_diff_iff : forall t, static_check_tree_diff t = true <-> raw_leaves t = [].
Proof. exact static_check_tree_diff_iff. Qed.
Print Assumptions C21_static_check_tree_diff_iff.

Theorem C21_checks_of_change : forall tg t r, argdiff t = true -> change tg t = Some r ->
  static_check_tree_diff r = true /\
  static_check_no_change r = match tg with NoChange => true
                                       | UnknownChange => match leaves (tree_primal t) with [] => true | _ => false end end.
Proof. exact checks_of_change. Qed.
Print Assumptions C21_checks_of_change.

(* the helpers never look at a leaf: they commute with tracing / batching of the leaves *)
Theorem C21_diff_helpers_leaf_parametric : forall g t,
  tree_primal (map_leaves g t) = map_leaves g (tree_primal t) /\
  tree_tangent (map_leaves g t) = map_leaves g (tree_tangent t) /\
  (forall tg, change tg (map_leaves g t) = option_map (map_leaves g) (change tg t)) /\
  (wfd t = true -> static_check_no_change (map_leaves g t) = static_check_no_change t) /\
  static_check_tree_diff (map_leaves g t) = static_check_tree_diff t.
Proof. exact diff_helpers_leaf_parametric. Qed.
Print Assumptions C21_diff_helpers_leaf_parametric.

(* ---- flatten / unflatten ---- *)
Theorem C21_flatten_unflatten : forall t, unflatten (structure t) (leaves t) = Some t.
Proof. exact unflatten_flatten. Qed.
Print Assumptions C21_flatten_unflatten.
Theorem C21_unflatten_sound : forall d ls t, unflatten d ls = Some t -> structure t = d /\ leaves t = ls.
Proof. exact unflatten_sound. Qed.
Print Assumptions C21_unflatten_sound.
Example C21_unflatten_sound_nonvacuous :
  unflatten (DNode (KRec 1 [Some 104; None; None]) [DLeaf; DNode (KConst (LS Py 7)) []]) [LS Ar 9]
  = Some (Node (KRec 1 [Some 104; None; None]) [Leaf (LS Ar 9); ConstT (LS Py 7)]).
Proof. reflexivity. Qed.

Theorem C21_static_fields_not_leaves :
  (forall h t, leaves (map_kinds h t) = leaves t) /\
  (forall g t, structure (map_leaves g t) = structure t) /\
  (forall t ls, length ls = length (leaves t) ->
     exists t', unflatten (structure t) ls = Some t' /\ structure t' = structure t /\ leaves t' = ls).
Proof. exact static_fields_not_leaves. Qed.
Print Assumptions C21_static_fields_not_leaves.

(* ---- Const / Closure ---- *)
Theorem C21_const_roundtrip :
  (forall t, const_free t = true -> tree_const_unwrap (tree_const t) = t) /\
  (forall t, tree_const (tree_const t) = tree_const t) /\
  (forall t, wfc t = true -> leaves (tree_const t) = filter (fun l => negb (concrete_leaf l)) (leaves t)) /\
  (forall v c, const_ v = Some c -> const_ c = Some c) /\
  (forall l c, const_ (Leaf l) = Some c -> unwrap c = Leaf l /\ leaves c = []).
Proof. exact const_roundtrip. Qed.
Print Assumptions C21_const_roundtrip.
Example C21_const_roundtrip_nonvacuous :
  let t := Node KTuple [Leaf (LS Py 3); Leaf (LS Tr 4); Node (KRec 3 [None; Some 101]) [Leaf (LS Ar 5)]] in
  const_free t = true /\ wfc t = true /\
  tree_const t = Node KTuple [ConstT (LS Py 3); Leaf (LS Tr 4); Node (KRec 3 [None; Some 101]) [ConstT (LS Ar 5)]] /\
  const_ (Leaf (LS Py 3)) = Some (ConstT (LS Py 3)).
Proof. repeat split; reflexivity. Qed.

Theorem C21_closure_roundtrip : forall dyn k,
  (forall args, closure_call (partial dyn k) args = Some (apply_fn k (dyn ++ args))) /\
  leaves (partial dyn k) = flat_map leaves dyn /\
  unflatten (structure (partial dyn k)) (leaves (partial dyn k)) = Some (partial dyn k) /\
  (forall ls, length ls = length (flat_map leaves dyn) ->
     exists dyn', unflatten (structure (partial dyn k)) ls = Some (partial dyn' k) /\ flat_map leaves dyn' = ls
                  /\ map structure dyn' = map structure dyn).
Proof. exact closure_roundtrip. Qed.
Print Assumptions C21_closure_roundtrip.

(* ---- through jit and vmap ---- *)
Theorem C21_jit_roundtrip : forall t, existsb is_fn_leaf (leaves t) = false ->
  jit_apply (fun x => Some x) t = Some (map_leaves to_array t) /\
  jit_closed_apply (fun x => Some x) t = Some (map_leaves to_array t) /\
  structure (map_leaves to_array t) = structure t.
Proof. exact jit_roundtrip. Qed.
Print Assumptions C21_jit_roundtrip.
Theorem C21_jit_change : forall tg t r, argdiff t = true -> existsb is_fn_leaf (leaves t) = false ->
  change tg t = Some r -> jit_apply (change tg) t = Some (map_leaves to_array r).
Proof. exact jit_change. Qed.
Print Assumptions C21_jit_change.
Theorem C21_vmap_roundtrip : forall t n, batch_size (leaves t) = Some n ->
  vmap_apply (fun x => Some x) t = Some (map_leaves to_array t) /\
  structure (map_leaves to_array t) = structure t /\
  (forall tg r, argdiff t = true -> change tg t = Some r ->
     vmap_apply (change tg) t = Some (map_leaves to_array r)).
Proof. exact vmap_roundtrip. Qed.
Print Assumptions C21_vmap_roundtrip.
Example C21_jit_vmap_roundtrip_nonvacuous :
  let t := Node (KRec 4 [None; Some 105]) [Node KTuple [DiffT (Leaf (LV Ar [1; 2])) UnknownChange; Leaf (LV Ar [3; 4]); ConstT (LS Py 9)]] in
  existsb is_fn_leaf (leaves t) = false /\ batch_size (leaves t) = Some 2%nat /\ argdiff t = true /\
  vmap_apply no_change t = Some (Node (KRec 4 [None; Some 105]) [Node KTuple [DiffT (Leaf (LV Ar [1; 2])) NoChange; DiffT (Leaf (LV Ar [3; 4])) NoChange; ConstT (LS Py 9)]]).
Proof. repeat split; reflexivity. Qed.

(* ---- outside Diff's contract: nested Diffs are neither rejected nor flattened ---- *)
Theorem C21_no_change_nested_refuted :
  exists t r, wfd t = true /\ no_change t = Some r /\
              static_check_no_change r = false /\ tree_primal r <> tree_primal t.
Proof. exact no_change_nested_refuted. Qed.
Print Assumptions C21_no_change_nested_refuted.
