"""fixed-defect witness: GenerativeFunctionClosure.edit dropped the stored
arguments (C32).  exit 1 if present."""
import sys, jax, jax.numpy as jnp
import genjax
from genjax import gen, normal, ChoiceMap as C, Diff, Update

@gen
def f(a, b):
    x = normal(a, 1.0) @ "x"
    return x + b

bad = []
key = jax.random.key(0)
clo = f(jnp.array(1.0))            # stored: a
tr = clo.simulate(key, (jnp.array(2.0),))
ref_tr = f.simulate(key, (jnp.array(1.0), jnp.array(2.0)))
try:
    t1, w1, rd1, b1 = clo.edit(key, tr, Update(C.d({"x": jnp.array(0.5)})), Diff.unknown_change((jnp.array(3.0),)))
    t2, w2, rd2, b2 = f.edit(key, ref_tr, Update(C.d({"x": jnp.array(0.5)})), Diff.unknown_change((jnp.array(1.0), jnp.array(3.0))))
    if float(w1) != float(w2) or float(t1.get_retval()) != float(t2.get_retval()) or float(t1.get_retval()) != 3.5:
        bad.append(("edit", float(w1), float(w2), float(t1.get_retval())))
    t3, w3, rd3, b3 = clo.update(key, tr, C.d({"x": jnp.array(0.5)}), Diff.unknown_change((jnp.array(3.0),)))
    if float(w3) != float(w2):
        bad.append(("update", float(w3), float(w2)))
except Exception as e:
    bad.append(("raises", type(e).__name__, str(e)[:80]))
print("FAIL" if bad else "OK", bad[:3])
sys.exit(1 if bad else 0)
