"""candidate-defect witness (C17): mask(False) does not empty a map whose leaf is a Mask with an array flag.
Mask.build(Mask(v, g), False) computes FlagOp.and_(False, g) = jnp.logical_and(False, g): an array, so
Choice.build keeps the leaf; `addr in chm.mask(False)` stays True.  exit 1 if the defect is present."""
import sys, jax.numpy as jnp
from genjax import ChoiceMapBuilder as C, Mask
c = C["x"].set(Mask(1.0, jnp.array(True))).mask(False)
bad = ("x" in c) or not c.static_is_empty()
print("FAIL" if bad else "OK", {"'x' in chm.mask(False)": "x" in c, "static_is_empty": c.static_is_empty()})
sys.exit(1 if bad else 0)
