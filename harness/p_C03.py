"""C03 — engine B-gfi (harness/bgfi.py); theorems in coq/props/C03.v."""
from . import bgfi


def run(ctx):
    bgfi.run_property(ctx, "C03")


def replay(case):
    return bgfi.replay(case)
