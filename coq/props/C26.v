(* C26 -- Importance and SMC return properly weighted particles and unbiased evidence.
   Model: coq/model/Infer.v (imp_particle, run_smc, lml, resample, smc_rw, reweight mirror
   smc.py), for ALL flat discrete targets and every number of particles K >= 1; key threading:
   coq/model/InferKeys.v over the free key algebra.
   A proposal q is any sampler of (choice map, weight) pairs; `particle_ok tg q` says: no
   proposal, or q is an unbiased density sampler (GenSP Defn 3.2) of total mass 1 for the
   assignments to a set of sites the target does not constrain (C25 shows Marginal is one). *)
From Coq Require Import List ZArith NArith QArith Qcanon Bool.
Import ListNotations.
From Model Require Import Prob Infer Key InferKeys.
From Proofs Require Import ProbProofs InferProofs InferExamples InferKeysProofs.
Open Scope Qc_scope.

(* every particle satisfies the target's constraints and has one value per site *)
Theorem C26_particles_satisfy_constraints : forall tg q K ps p,
  In (ps, p) (run_smc (AImpK tg q K)) \/ In (ps, p) (run_smc (AImp tg q)) ->
  Forall (fun tw => agrees (tc tg) (fst tw) = true /\ length (fst tw) = length (tm tg)) ps.
Proof. exact particles_satisfy_constraints. Qed.
Print Assumptions C26_particles_satisfy_constraints.

(* the weight of a particle.  Without a proposal: the density of the constrained choices, so that
   weight * (probability of having sampled the rest) = p(particle, observations).  With a
   proposal that returned (ch, wq): the density of the choices constrained by the observations
   and ch, divided by wq -- p(particle, observations) / wq when ch covers all the latents. *)
Theorem C26_importance_particle_weight : forall tg q t w p, In ((t, w), p) (imp_particle tg q) ->
  match q with
  | None => In t (ctraces (tm tg) (tc tg))
            /\ w = projb true (tm tg) [] (dom (tc tg)) t /\ p = projb false (tm tg) [] (dom (tc tg)) t
            /\ w * p = dens (tm tg) [] t
  | Some q => exists ch wq pq, In ((ch, wq), pq) (q_rw q) /\
                In t (ctraces (tm tg) (merge (tc tg) ch))
                /\ w = projb true (tm tg) [] (dom (merge (tc tg) ch)) t / wq
                /\ (covers (tm tg) (merge (tc tg) ch) = true -> w = dens (tm tg) [] t / wq)
  end.
Proof. exact importance_particle_weight. Qed.
Print Assumptions C26_importance_particle_weight.

(* proper weighting: E[w * g(particle)] = sum over the traces consistent with the observations
   of p(trace) * g(trace), for every test function g *)
Theorem C26_importance_proper_weighting : forall tg q (g : list Z -> Qc),
  m_wf (tm tg) -> particle_ok tg q ->
  E (fun tw => snd tw * g (fst tw)) (imp_particle tg q)
  = tsum (tm tg) (tc tg) (fun t => dens (tm tg) [] t * g t).
Proof. exact importance_proper. Qed.
Print Assumptions C26_importance_proper_weighting.

(* exp(log marginal likelihood estimate) = mean of the K weights is an unbiased estimate of the
   normalising constant, for ANY K >= 1, with or without a proposal *)
Theorem C26_importance_evidence_unbiased : forall tg q K, (0 < K)%nat ->
  m_wf (tm tg) -> m_normed (tm tg) -> particle_ok tg q ->
  E lml (run_smc (AImpK tg q K)) = evidence (tm tg) (tc tg)
  /\ E lml (run_smc (AImp tg q)) = evidence (tm tg) (tc tg).
Proof. exact importance_evidence_unbiased. Qed.
Print Assumptions C26_importance_evidence_unbiased.

(* the hypothesis "the proposal proposes no observed address" is needed (it is the documented
   contract of `q`): otherwise the evidence estimate is biased *)
Theorem C26_proposal_overlapping_observation_refuted :
  exists tg qq qb, m_wf (tm tg) /\ m_normed (tm tg)
    /\ (forall ow p, In (ow, p) (q_rw qq) -> In (fst ow) (outs (tm tg) qb))
    /\ uds cmap_eqb (outs (tm tg) qb) (q_rw qq) /\ mass (q_rw qq) = 1
    /\ disj qb (tc tg) = false
    /\ E lml (run_smc (AImp tg (Some qq))) <> evidence (tm tg) (tc tg).
Proof. exact proposal_overlap_biased. Qed.
Print Assumptions C26_proposal_overlapping_observation_refuted.

Example C26_importance_nonvacuous :
  m_wf (tm ex_tg) /\ m_normed (tm ex_tg) /\ m_pos (tm ex_tg) /\ c_ok (tm ex_tg) (tc ex_tg)
  /\ particle_ok ex_tg (Some ex_q) /\ q_positive (Some ex_q) /\ particle_ok ex_tg None
  /\ evidence (tm ex_tg) (tc ex_tg) = q 1 2
  /\ E lml (run_smc (AImpK ex_tg (Some ex_q) 3)) = q 1 2
  /\ In [1; 1]%Z (ctraces (tm ex_tg) (tc ex_tg)).
Proof. exact importance_nonvacuous. Qed.

(* SMCAlgorithm.random_weighted (sampling-importance-resampling through ChangeTarget to the
   algorithm's own target) is an unbiased density sampler of the latent choices, for every K >= 1:
   for every latent assignment of positive posterior, sum over the runs returning it of
   P(run) / (returned density estimate) = 1 *)
Theorem C26_sir_density_sampler : forall tg q K t0, (0 < K)%nat ->
  m_wf (tm tg) -> m_normed (tm tg) -> m_pos (tm tg) -> c_ok (tm tg) (tc tg) ->
  particle_ok tg q -> q_positive q -> In t0 (ctraces (tm tg) (tc tg)) ->
  E (inv_on cmap_eqb (unconstrained (tc tg) t0)) (smc_rw (AImpK tg q K) tg) = 1.
Proof. exact sir_density_sampler. Qed.
Print Assumptions C26_sir_density_sampler.
Theorem C26_sir_density_sampler_importance : forall tg q t0,
  m_wf (tm tg) -> m_normed (tm tg) -> m_pos (tm tg) -> c_ok (tm tg) (tc tg) ->
  particle_ok tg q -> q_positive q -> In t0 (ctraces (tm tg) (tc tg)) ->
  E (inv_on cmap_eqb (unconstrained (tc tg) t0)) (smc_rw (AImp tg q) tg) = 1.
Proof. exact sir_density_sampler_imp. Qed.
Print Assumptions C26_sir_density_sampler_importance.

(* random_weighted returns exactly the unconstrained choices of a particle that satisfies the
   target's constraints: absent at every constrained address, the particle's value elsewhere;
   for every algorithm (Importance, ImportanceK, ChangeTarget chains) and every target *)
Theorem C26_random_weighted_unconstrained_only : forall a tg o w p, In ((o, w), p) (smc_rw a tg) ->
  exists t, length t = length (tm tg) /\ agrees (tc tg) t = true /\
    forall i, nth_error o i = match nth_error t i with
                              | None => None
                              | Some v => Some (if is_some (nth i (tc tg) None) then None else Some v)
                              end.
Proof. exact random_weighted_unconstrained_only. Qed.
Print Assumptions C26_random_weighted_unconstrained_only.

(* ChangeTarget._reweight: the new trace satisfies the new constraints; new weight = density of
   the choices the new target constrains (observations and carried-over latents) / old density
   * old weight = p_new(new trace) / p_old(old trace) * old weight when nothing is left to sample *)
Theorem C26_change_target_ratio : forall ptg tg t w t' w' p,
  In ((t', w'), p) (reweight ptg tg (t, w)) ->
  let c' := merge (tc tg) (unconstrained (tc ptg) t) in
  In t' (ctraces (tm tg) c') /\ agrees (tc tg) t' = true
  /\ w' = projb true (tm tg) [] (dom c') t' / dens (tm ptg) [] t * w
  /\ (covers (tm tg) c' = true -> w' = dens (tm tg) [] t' / dens (tm ptg) [] t * w).
Proof. exact change_target_ratio. Qed.
Print Assumptions C26_change_target_ratio.
Theorem C26_change_target_same_identity : forall tg t w,
  In t (ctraces (tm tg) (tc tg)) -> dens (tm tg) [] t <> 0 -> reweight tg tg (t, w) = ret (t, w).
Proof. exact reweight_same. Qed.
Print Assumptions C26_change_target_same_identity.

(* ChangeTarget to a target over the same latent addresses keeps the evidence estimate unbiased,
   now for the NEW normalising constant, for every K >= 1 *)
Theorem C26_change_target_evidence_unbiased : forall ptg tg q K,
  (0 < K)%nat -> m_wf (tm ptg) -> m_normed (tm ptg) -> m_pos (tm ptg) -> c_ok (tm ptg) (tc ptg) ->
  particle_ok ptg q -> q_positive q -> m_normed (tm tg) ->
  same_shape (tm ptg) (tc ptg) (tm tg) (tc tg) ->
  E lml (run_smc (AChange (AImpK ptg q K) tg)) = evidence (tm tg) (tc tg).
Proof. exact change_target_evidence. Qed.
Print Assumptions C26_change_target_evidence_unbiased.
Example C26_change_target_nonvacuous :
  same_shape (tm ex_tg) (tc ex_tg) (tm ex_tg2) (tc ex_tg2)
  /\ E lml (run_smc (AChange (AImpK ex_tg None 2) ex_tg2)) = q 1 2
  /\ evidence (tm ex_tg2) (tc ex_tg2) = q 1 2.
Proof. exact change_target_nonvacuous. Qed.
(* outside that region (the new target constrains an address that was latent) it does not *)
Theorem C26_change_target_new_constraint_refuted :
  exists ptg tg, m_wf (tm ptg) /\ m_normed (tm ptg) /\ m_pos (tm ptg) /\ c_ok (tm ptg) (tc ptg) /\ m_normed (tm tg)
    /\ E lml (run_smc (AChange (AImpK ptg None 1) tg)) <> evidence (tm tg) (tc tg).
Proof. exact change_target_needs_same_latents. Qed.
Print Assumptions C26_change_target_new_constraint_refuted.

(* ---- keys (free key algebra: a key is its derivation path from the run's key) ---- *)
(* Importance and ImportanceK, any call tree, any observations, any proposal sites, any K:
   no two primitive draws (proposal or model, same or different particles) use the same key *)
Theorem C26_importance_keys_distinct : forall t q k, NoDup (snd (krun (KImp t q) k)).
Proof. exact imp_keys_distinct. Qed.
Print Assumptions C26_importance_keys_distinct.
Theorem C26_importancek_keys_distinct : forall t q K k, NoDup (snd (krun (KImpK t q K) k)).
Proof. exact impk_keys_distinct. Qed.
Print Assumptions C26_importancek_keys_distinct.
(* ChangeTarget.run_smc re-splits the key it gave to prev.run_smc: a latent that is new in the
   changed target is drawn with the key an old latent was drawn with (and therefore, for equal
   distributions, has the same value).  Known finding; see notes/C26.md. *)
Theorem C26_changetarget_key_reuse_refuted :
  exists prev t amap,
    NoDup (snd (krun prev [])) /\ ~ NoDup (snd (krun (KChange prev t amap) []))
    /\ fst (krun (KChange prev t amap) []) = [[Some [0; 1]; Some [0; 1]; None]]%N.
Proof. exact changetarget_key_reuse. Qed.
Print Assumptions C26_changetarget_key_reuse_refuted.
Theorem C26_changetarget_key_reuse_K_refuted :
  exists prev t amap,
    NoDup (snd (krun prev [])) /\ ~ NoDup (snd (krun (KChange prev t amap) []))
    /\ nth 1 (fst (krun (KChange prev t amap) [])) [] = [Some [1; 1; 1]; Some [1; 1; 1]; None]%N.
Proof. exact changetarget_key_reuse_K. Qed.
Print Assumptions C26_changetarget_key_reuse_K_refuted.
(* the region where ChangeTarget is harmless: every leaf of the new target is observed or carried
   over (e.g. random_weighted / estimate_normalizing_constant with the algorithm's own target) *)
Theorem C26_changetarget_no_new_latent_distinct : forall prev t amap k,
  covered (kfinal prev) t amap = true -> snd (krun (KChange prev t amap) k) = snd (krun prev k).
Proof. exact change_no_draws. Qed.
Print Assumptions C26_changetarget_no_new_latent_distinct.
