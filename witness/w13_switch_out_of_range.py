"""fixed-defect witness: with an out-of-range index Switch ran the clamped
branch, but took score/retval from the index modulo n and masked every choice
(C13, C01).  exit 1 if present."""
import sys, jax, jax.numpy as jnp
import genjax
from genjax import gen, normal, ChoiceMap as C, Diff

@gen
def b0(x):
    return normal(x, 1.0) @ "a"
@gen
def b1(x):
    return normal(x, 2.0) @ "b"
@gen
def b2(x):
    return normal(x, 3.0) @ "c"

sw = genjax.switch(b0, b1, b2)
bad = []
key = jax.random.key(0)
names = ["a", "b", "c"]
for idx, clamped in [(3, 2), (5, 2), (-1, 0), (-4, 0), (1, 1)]:
    for mk in (lambda i: i, lambda i: jnp.array(i)):
        args = (mk(idx), (1.0,), (1.0,), (1.0,))
        try:
            tr = sw.simulate(key, args)
            chm = tr.get_choices()
        except Exception as e:
            bad.append(("raises", idx, type(e).__name__)); continue
        present = [n for n in names if n in chm and bool(jnp.all(getattr(chm.get_submap(n).get_value(), "flag", True)))]
        if present != [names[clamped]]:
            bad.append(("choices", idx, present)); continue
        ref = [b0, b1, b2][clamped].simulate(key, (1.0,))
        if abs(float(tr.get_score()) - float(ref.get_score())) > 1e-5 or abs(float(tr.get_retval()) - float(ref.get_retval())) > 1e-5:
            bad.append(("score/retval", idx, float(tr.get_score()), float(ref.get_score())))
        v = jnp.array(0.25)
        tr2, w = sw.importance(key, C.d({names[clamped]: v}), args)
        s, r = [b0, b1, b2][clamped].assess(C.d({names[clamped]: v}), (1.0,))
        if abs(float(w) - float(s)) > 1e-5 or abs(float(tr2.get_score()) - float(s)) > 1e-5:
            bad.append(("importance", idx, float(w), float(s)))
        s2, r2 = sw.assess(tr2.get_choices(), args)
        if abs(float(s2) - float(s)) > 1e-5 or float(r2) != float(v):
            bad.append(("assess", idx, float(s2), float(s)))
print("FAIL" if bad else "OK", bad[:4])
sys.exit(1 if bad else 0)
