(* AdevGrid.v — the finite expectation operator Eu over grid-uniform draws:
   extensionality, linearity, constants, and the Bernoulli lemma
     (1/N) sum_i [ i/N < j/N ? a : b ] = (j/N) a + (1 - j/N) b. *)
From Coq Require Import List ZArith QArith Qabs Bool Lia Setoid Morphisms.
Import ListNotations.
From Model Require Import Adev.
Open Scope Q_scope.

Lemma gsum_ext n : forall h h', (forall i, (i < n)%nat -> h i == h' i) -> gsum n h == gsum n h'.
Proof.
  induction n; intros h h' H; simpl. { reflexivity. }
  rewrite (IHn h h'), (H n) by (intros; try apply H; lia). reflexivity.
Qed.
Lemma gsum_add n h g : gsum n (fun i => h i + g i) == gsum n h + gsum n g.
Proof. induction n; simpl. { ring. } rewrite IHn. ring. Qed.
Lemma gsum_scale n c h : gsum n (fun i => c * h i) == c * gsum n h.
Proof. induction n; simpl. { ring. } rewrite IHn. ring. Qed.
Lemma gsum_const n c : gsum n (fun _ => c) == inject_Z (Z.of_nat n) * c.
Proof.
  induction n. { simpl. ring. }
  cbn [gsum]. rewrite IHn. rewrite Nat2Z.inj_succ. unfold Z.succ. rewrite inject_Z_plus. ring.
Qed.

Lemma injN_pos N : (0 < N)%nat -> 0 < inject_Z (Z.of_nat N).
Proof. intros H. change 0 with (inject_Z 0). rewrite <- Zlt_Qlt. lia. Qed.
Lemma injN_neq N : (0 < N)%nat -> ~ inject_Z (Z.of_nat N) == 0.
Proof. intros H E. pose proof (injN_pos N H) as P. rewrite E in P. apply (Qlt_irrefl 0 P). Qed.

Lemma qlt_proper a a' b b' : a == a' -> b == b' -> qlt a b = qlt a' b'.
Proof. intros Ha Hb. unfold qlt. rewrite Ha, Hb. reflexivity. Qed.

Lemma qlt_grid N i j : (0 < N)%nat -> qlt (grid N i) (grid N j) = (i <? j)%nat.
Proof.
  intros HN. unfold qlt, grid.
  assert (P : 0 < / inject_Z (Z.of_nat N)) by (apply Qinv_lt_0_compat, injN_pos; assumption).
  destruct (Nat.ltb_spec i j) as [H|H].
  - destruct (Qle_bool (inject_Z (Z.of_nat j) / inject_Z (Z.of_nat N)) (inject_Z (Z.of_nat i) / inject_Z (Z.of_nat N))) eqn:E; [|reflexivity].
    apply Qle_bool_iff in E. unfold Qdiv in E. apply Qmult_le_r in E; [|assumption].
    rewrite <- Zle_Qle in E. lia.
  - assert (E : Qle_bool (inject_Z (Z.of_nat j) / inject_Z (Z.of_nat N)) (inject_Z (Z.of_nat i) / inject_Z (Z.of_nat N)) = true).
    { apply Qle_bool_iff. unfold Qdiv. apply Qmult_le_r; [assumption|]. rewrite <- Zle_Qle. lia. }
    rewrite E. reflexivity.
Qed.

Lemma gsum_step n j (a b : Q) :
  gsum n (fun i => if (i <? j)%nat then a else b)
  == inject_Z (Z.of_nat (Nat.min n j)) * a + inject_Z (Z.of_nat (n - Nat.min n j)) * b.
Proof.
  induction n. { simpl. ring. }
  cbn [gsum]. rewrite IHn.
  destruct (Nat.ltb_spec n j) as [H|H].
  - replace (Nat.min (S n) j) with (S n) by lia. replace (Nat.min n j) with n by lia.
    replace (n - n)%nat with 0%nat by lia. replace (S n - S n)%nat with 0%nat by lia.
    rewrite Nat2Z.inj_succ. unfold Z.succ. rewrite inject_Z_plus. simpl. ring.
  - replace (Nat.min (S n) j) with j by lia. replace (Nat.min n j) with j by lia.
    replace (S n - j)%nat with (S (n - j)) by lia.
    rewrite (Nat2Z.inj_succ (n - j)). unfold Z.succ. rewrite inject_Z_plus. simpl. ring.
Qed.

(* the Bernoulli lemma on the grid *)
Lemma grid_bernoulli N j (p a b : Q) :
  (0 < N)%nat -> (j <= N)%nat -> p == grid N j ->
  gsum N (fun i => if qlt (grid N i) p then a else b) / inject_Z (Z.of_nat N) == p * a + (1 - p) * b.
Proof.
  intros HN Hj Hp.
  rewrite (gsum_ext N _ (fun i => if (i <? j)%nat then a else b)).
  2:{ intros i _. rewrite (qlt_proper _ (grid N i) _ (grid N j)) by (try reflexivity; assumption).
      rewrite qlt_grid by assumption. reflexivity. }
  rewrite gsum_step. replace (Nat.min N j) with j by lia.
  rewrite Hp. unfold grid. rewrite Nat2Z.inj_sub by assumption. unfold Zminus. rewrite inject_Z_plus, inject_Z_opp.
  field. apply injN_neq. assumption.
Qed.

(* ---------------------------------------------------------------------------- *)
(* Eu                                                                             *)
(* ---------------------------------------------------------------------------- *)
(* extensionality relative to an invariant of the randomness that updates of u at
   depths >= d preserve *)
Lemma Eu_ext_inv N (I : nat -> rnd -> Prop) :
  (forall d rs i u, I d rs -> (d <= i)%nat -> I (S i) (set_u rs i u)) ->
  (forall d d' rs, I d rs -> (d <= d')%nat -> I d' rs) ->
  forall n d F G rs, I d rs -> (forall rs', I (d + n)%nat rs' -> F rs' == G rs') ->
  Eu N n d F rs == Eu N n d G rs.
Proof.
  intros Hset Hmono. induction n; intros d F G rs HI HFG; simpl.
  - apply HFG. rewrite Nat.add_0_r. assumption.
  - apply Qmult_comp; [|reflexivity]. apply gsum_ext. intros i _.
    apply IHn.
    + apply (Hset d); [assumption|lia].
    + intros rs' H'. apply HFG. replace (d + S n)%nat with (S d + n)%nat by lia. assumption.
Qed.

Lemma Eu_ext N n : forall d F G rs, (forall rs', F rs' == G rs') -> Eu N n d F rs == Eu N n d G rs.
Proof.
  induction n; intros d F G rs H; simpl. { apply H. }
  apply Qmult_comp; [|reflexivity]. apply gsum_ext. intros i _. apply IHn. assumption.
Qed.

Lemma Eu_add N n : forall d F G rs, Eu N n d (fun r => F r + G r) rs == Eu N n d F rs + Eu N n d G rs.
Proof.
  induction n; intros d F G rs; simpl. { reflexivity. }
  rewrite (gsum_ext N _ (fun i => Eu N n (S d) F (set_u rs d (grid N i)) + Eu N n (S d) G (set_u rs d (grid N i)))).
  2:{ intros i _. apply IHn. }
  rewrite gsum_add. unfold Qdiv. ring.
Qed.
Lemma Eu_scale N n c : forall d F rs, Eu N n d (fun r => c * F r) rs == c * Eu N n d F rs.
Proof.
  induction n; intros d F rs; simpl. { reflexivity. }
  rewrite (gsum_ext N _ (fun i => c * Eu N n (S d) F (set_u rs d (grid N i)))).
  2:{ intros i _. apply IHn. }
  rewrite gsum_scale. unfold Qdiv. ring.
Qed.
Lemma Eu_const N n c : (0 < N)%nat -> forall d rs, Eu N n d (fun _ => c) rs == c.
Proof.
  intros HN. induction n; intros d rs; simpl. { reflexivity. }
  rewrite (gsum_ext N _ (fun _ => c)) by (intros; apply IHn).
  rewrite gsum_const. field. apply injN_neq. assumption.
Qed.
Lemma Eu_sub N n d F G rs : Eu N n d (fun r => F r - G r) rs == Eu N n d F rs - Eu N n d G rs.
Proof.
  unfold Qminus. rewrite Eu_add. apply Qplus_comp; [reflexivity|].
  rewrite (Eu_ext N n d (fun r => - G r) (fun r => (-1) * G r)) by (intros; ring).
  rewrite Eu_scale. ring.
Qed.

(* one step: the outermost u *)
Lemma Eu_S N n d F rs :
  Eu N (S n) d F rs = gsum N (fun i => Eu N n (S d) F (set_u rs d (grid N i))) / inject_Z (Z.of_nat N).
Proof. reflexivity. Qed.
