"""Domain table of the exported TFP wrappers (engine C-tfp, C24).

For each wrapper of genjax/_src/generative_functions/distributions/tensorflow_probability:
the names of the parameters it takes positionally, a generator of valid parameter points,
the TFP distribution it documents (built here with explicit TFP keywords, independently of the
wrapper), the support of its samples and their dtype.  PINNED is the list of exported names the
check expects to find; a missing / extra / renamed wrapper is a tie failure."""
import numpy as np

PINNED = [
    "bernoulli", "beta", "beta_binomial", "beta_quotient", "binomial", "categorical", "cauchy", "chi", "chi2",
    "dirichlet", "dirichlet_multinomial", "double_sided_maxwell", "exp_gamma", "exp_inverse_gamma", "exponential",
    "flip", "gamma", "geometric", "gumbel", "half_cauchy", "half_normal", "half_student_t", "inverse_gamma",
    "inverse_gaussian", "kumaraswamy", "lambert_w_normal", "laplace", "log_normal", "logit_normal", "moyal",
    "multinomial", "mv_normal", "mv_normal_diag", "negative_binomial", "non_central_chi2", "normal", "poisson",
    "power_spherical", "skellam", "student_t", "truncated_cauchy", "truncated_normal", "uniform", "von_mises",
    "von_mises_fisher", "weibull", "zipf",
]

f32 = np.float32


def U(rng, lo, hi):
    return f32(round(rng.uniform(lo, hi), 3))


def I(rng, lo, hi):
    return f32(rng.randint(lo, hi))


def vec(rng, n, lo, hi):
    return np.array([round(rng.uniform(lo, hi), 3) for _ in range(n)], dtype=f32)


def unit(rng, n):
    v = np.array([rng.uniform(-1, 1) for _ in range(n)], dtype=np.float64)
    v[0] += 1.5
    return (v / np.linalg.norm(v)).astype(f32)


def spd(rng, n):
    a = np.array([[round(rng.uniform(-1, 1), 2) for _ in range(n)] for _ in range(n)], dtype=np.float64)
    return (a @ a.T + np.eye(n)).astype(f32)


def isint(v):
    return np.all(v == np.round(v))


def fin(v):
    return np.all(np.isfinite(v))


def _trunc(rng):
    lo = U(rng, -3, 1)
    return [U(rng, -1, 1), U(rng, 0.5, 2), lo, f32(lo + U(rng, 0.5, 3))]


def _unif(rng):
    lo = U(rng, -3, 2)
    return [lo, f32(lo + U(rng, 0.5, 3))]


# name: (tfd class, [parameter names as TFP calls them], generator, support(v, *params), dtype,
#        wrapper keyword names if they differ from TFP's)
def table():
    E = 1e-5
    T = {
        "bernoulli": ("Bernoulli", ["logits"], lambda r: [U(r, -3, 3)], lambda v, l: np.all((v == 0) | (v == 1)), "int32"),
        "beta": ("Beta", ["concentration1", "concentration0"], lambda r: [U(r, 0.5, 5), U(r, 0.5, 5)],
                 lambda v, a, b: np.all((v >= 0) & (v <= 1)), "float32"),
        "beta_binomial": ("BetaBinomial", ["total_count", "concentration1", "concentration0"],
                          lambda r: [I(r, 1, 10), U(r, 0.5, 5), U(r, 0.5, 5)],
                          lambda v, n, a, b: isint(v) and np.all((v >= 0) & (v <= n)), "float32"),
        "beta_quotient": ("BetaQuotient", ["concentration1_numerator", "concentration0_numerator",
                                           "concentration1_denominator", "concentration0_denominator"],
                          lambda r: [U(r, 1, 5), U(r, 1, 5), U(r, 1, 5), U(r, 1, 5)],
                          lambda v, *p: np.all(v > 0) and fin(v), "float32"),
        "binomial": ("Binomial", ["total_count", "logits"], lambda r: [I(r, 1, 10), U(r, -2, 2)],
                     lambda v, n, l: isint(v) and np.all((v >= 0) & (v <= n)), "float32"),
        "categorical": ("Categorical", ["logits"], lambda r: [vec(r, 4, -2, 2)],
                        lambda v, l: isint(v) and np.all((v >= 0) & (v < l.shape[-1])), "int32"),
        "cauchy": ("Cauchy", ["loc", "scale"], lambda r: [U(r, -3, 3), U(r, 0.5, 3)], lambda v, *p: fin(v), "float32"),
        "chi": ("Chi", ["df"], lambda r: [U(r, 1, 6)], lambda v, d: np.all(v >= 0) and fin(v), "float32"),
        "chi2": ("Chi2", ["df"], lambda r: [U(r, 1, 6)], lambda v, d: np.all(v >= 0) and fin(v), "float32"),
        "dirichlet": ("Dirichlet", ["concentration"], lambda r: [vec(r, 3, 0.5, 4)],
                      lambda v, c: np.all(v >= 0) and np.allclose(v.sum(-1), 1, atol=1e-4), "float32"),
        "dirichlet_multinomial": ("DirichletMultinomial", ["total_count", "concentration"],
                                  lambda r: [I(r, 2, 8), vec(r, 3, 0.5, 4)],
                                  lambda v, n, c: isint(v) and np.all(v >= 0) and np.all(v.sum(-1) == n), "float32"),
        "double_sided_maxwell": ("DoublesidedMaxwell", ["loc", "scale"], lambda r: [U(r, -2, 2), U(r, 0.5, 2)],
                                 lambda v, *p: fin(v), "float32"),
        "exp_gamma": ("ExpGamma", ["concentration", "rate"], lambda r: [U(r, 0.5, 4), U(r, 0.5, 3)], lambda v, *p: fin(v), "float32"),
        "exp_inverse_gamma": ("ExpInverseGamma", ["concentration", "scale"], lambda r: [U(r, 0.5, 4), U(r, 0.5, 3)],
                              lambda v, *p: fin(v), "float32"),
        "exponential": ("Exponential", ["rate"], lambda r: [U(r, 0.3, 3)], lambda v, l: np.all(v >= 0) and fin(v), "float32"),
        "flip": ("Bernoulli", ["probs"], lambda r: [U(r, 0.05, 0.95)], lambda v, p: v.dtype == np.bool_, "bool", ["p"]),
        "gamma": ("Gamma", ["concentration", "rate"], lambda r: [U(r, 0.5, 4), U(r, 0.5, 3)],
                  lambda v, *p: np.all(v >= 0) and fin(v), "float32"),
        "geometric": ("Geometric", ["logits"], lambda r: [U(r, -2, 2)], lambda v, l: isint(v) and np.all(v >= 0), "float32"),
        "gumbel": ("Gumbel", ["loc", "scale"], lambda r: [U(r, -2, 2), U(r, 0.5, 2)], lambda v, *p: fin(v), "float32"),
        "half_cauchy": ("HalfCauchy", ["loc", "scale"], lambda r: [U(r, -2, 2), U(r, 0.5, 2)],
                        lambda v, loc, s: np.all(v >= loc) and fin(v), "float32"),
        "half_normal": ("HalfNormal", ["scale"], lambda r: [U(r, 0.5, 3)], lambda v, s: np.all(v >= 0) and fin(v), "float32"),
        "half_student_t": ("HalfStudentT", ["df", "loc", "scale"], lambda r: [U(r, 2, 6), U(r, -2, 2), U(r, 0.5, 2)],
                           lambda v, df, loc, s: np.all(v >= loc) and fin(v), "float32"),
        "inverse_gamma": ("InverseGamma", ["concentration", "scale"], lambda r: [U(r, 1, 4), U(r, 0.5, 3)],
                          lambda v, *p: np.all(v > 0) and fin(v), "float32"),
        "inverse_gaussian": ("InverseGaussian", ["loc", "concentration"], lambda r: [U(r, 0.5, 3), U(r, 0.5, 3)],
                             lambda v, *p: np.all(v > 0) and fin(v), "float32"),
        "kumaraswamy": ("Kumaraswamy", ["concentration1", "concentration0"], lambda r: [U(r, 0.5, 4), U(r, 0.5, 4)],
                        lambda v, *p: np.all((v >= 0) & (v <= 1)), "float32"),
        "lambert_w_normal": ("LambertWNormal", ["loc", "scale", "tailweight"],
                             lambda r: [U(r, -2, 2), U(r, 0.5, 2), U(r, 0.0, 0.5)], lambda v, *p: fin(v), "float32"),
        "laplace": ("Laplace", ["loc", "scale"], lambda r: [U(r, -2, 2), U(r, 0.5, 2)], lambda v, *p: fin(v), "float32"),
        "log_normal": ("LogNormal", ["loc", "scale"], lambda r: [U(r, -1, 1), U(r, 0.3, 1.5)],
                       lambda v, *p: np.all(v > 0) and fin(v), "float32"),
        "logit_normal": ("LogitNormal", ["loc", "scale"], lambda r: [U(r, -1, 1), U(r, 0.3, 1.5)],
                         lambda v, *p: np.all((v >= 0) & (v <= 1)), "float32"),
        "moyal": ("Moyal", ["loc", "scale"], lambda r: [U(r, -2, 2), U(r, 0.5, 2)], lambda v, *p: fin(v), "float32"),
        "multinomial": ("Multinomial", ["total_count", "logits"], lambda r: [I(r, 2, 8), vec(r, 3, -1, 1)],
                        lambda v, n, l: isint(v) and np.all(v >= 0) and np.all(v.sum(-1) == n), "float32"),
        "mv_normal": ("MultivariateNormalFullCovariance", ["loc", "covariance_matrix"], lambda r: [vec(r, 3, -2, 2), spd(r, 3)],
                      lambda v, loc, c: fin(v) and v.shape[-1] == 3, "float32"),
        "mv_normal_diag": ("MultivariateNormalDiag", ["loc", "scale_diag"], lambda r: [vec(r, 3, -2, 2), vec(r, 3, 0.5, 2)],
                           lambda v, loc, s: fin(v) and v.shape[-1] == 3, "float32"),
        "negative_binomial": ("NegativeBinomial", ["total_count", "logits"], lambda r: [I(r, 1, 6), U(r, -2, 1)],
                              lambda v, *p: isint(v) and np.all(v >= 0), "float32"),
        "non_central_chi2": ("NoncentralChi2", ["df", "noncentrality"], lambda r: [U(r, 1, 5), U(r, 0.2, 3)],
                             lambda v, *p: np.all(v >= 0) and fin(v), "float32"),
        "normal": ("Normal", ["loc", "scale"], lambda r: [U(r, -3, 3), U(r, 0.3, 3)], lambda v, *p: fin(v), "float32"),
        "poisson": ("Poisson", ["rate"], lambda r: [U(r, 0.5, 6)], lambda v, l: isint(v) and np.all(v >= 0), "float32"),
        "power_spherical": ("PowerSpherical", ["mean_direction", "concentration"], lambda r: [unit(r, 3), U(r, 0.5, 5)],
                            lambda v, m, c: np.allclose(np.linalg.norm(v, axis=-1), 1, atol=1e-4), "float32"),
        "skellam": ("Skellam", ["rate1", "rate2"], lambda r: [U(r, 0.5, 4), U(r, 0.5, 4)], lambda v, *p: isint(v), "float32"),
        "student_t": ("StudentT", ["df", "loc", "scale"], lambda r: [U(r, 2, 8), U(r, -2, 2), U(r, 0.5, 2)],
                      lambda v, *p: fin(v), "float32"),
        "truncated_cauchy": ("TruncatedCauchy", ["loc", "scale", "low", "high"], _trunc,
                             lambda v, loc, s, lo, hi: np.all((v >= lo - E) & (v <= hi + E)), "float32"),
        "truncated_normal": ("TruncatedNormal", ["loc", "scale", "low", "high"], _trunc,
                             lambda v, loc, s, lo, hi: np.all((v >= lo - E) & (v <= hi + E)), "float32"),
        "uniform": ("Uniform", ["low", "high"], _unif, lambda v, lo, hi: np.all((v >= lo) & (v <= hi)), "float32"),
        "von_mises": ("VonMises", ["loc", "concentration"], lambda r: [U(r, -2, 2), U(r, 0.5, 4)],
                      lambda v, loc, c: np.all(np.abs(v - loc) <= np.pi + 1e-4) or np.all(np.abs(v) <= np.pi + 1e-4), "float32"),
        "von_mises_fisher": ("VonMisesFisher", ["mean_direction", "concentration"], lambda r: [unit(r, 3), U(r, 0.5, 5)],
                             lambda v, m, c: np.allclose(np.linalg.norm(v, axis=-1), 1, atol=1e-4), "float32"),
        "weibull": ("Weibull", ["concentration", "scale"], lambda r: [U(r, 0.5, 4), U(r, 0.5, 3)],
                    lambda v, *p: np.all(v >= 0) and fin(v), "float32"),
        "zipf": ("Zipf", ["power"], lambda r: [U(r, 1.5, 4)], lambda v, p: isint(v) and np.all(v >= 1), "int32"),
    }
    return T


# keyword-only alternative parametrisations: (wrapper, wrapper keywords, TFP keywords, generator)
ALT = [
    ("bernoulli", ["probs"], lambda r: [U(r, 0.05, 0.95)]),
    ("categorical", ["probs"], lambda r: [np.array([0.1, 0.2, 0.3, 0.4], dtype=f32)]),
    ("binomial", ["total_count", "probs"], lambda r: [I(r, 1, 10), U(r, 0.1, 0.9)]),
    ("geometric", ["probs"], lambda r: [U(r, 0.1, 0.9)]),
    ("multinomial", ["total_count", "probs"], lambda r: [I(r, 2, 8), np.array([0.2, 0.3, 0.5], dtype=f32)]),
    ("negative_binomial", ["total_count", "probs"], lambda r: [I(r, 1, 6), U(r, 0.1, 0.7)]),
    ("poisson", ["log_rate"], lambda r: [U(r, -1, 1.5)]),
    ("gamma", ["concentration", "log_rate"], lambda r: [U(r, 0.5, 4), U(r, -1, 1)]),
]


def direct(name, tfpnames, vals):
    """the documented TFP distribution, built without the wrapper"""
    import jax.numpy as jnp
    from tensorflow_probability.substrates import jax as tfp
    tfd = tfp.distributions
    cls = table()[name][0]
    kw = dict(zip(tfpnames, vals))
    if name == "flip":
        return tfd.Bernoulli(probs=kw["probs"], dtype=jnp.bool_)
    return getattr(tfd, cls)(**kw)


def batched(gen, rng, b):
    """b independent points stacked along a new leading (batch) axis"""
    pts = [gen(rng) for _ in range(b)]
    return [np.stack([p[i] for p in pts]) for i in range(len(pts[0]))]
