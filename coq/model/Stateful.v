(* Model of genjax/_src/core/compiler/interpreters/stateful.py:
   StatefulInterpreter.eval_jaxpr_stateful.  Cells of the environment are plain
   values.  No proofs in this file. *)
From Coq Require Import List Bool ZArith.
Import ListNotations.
From Model Require Import Jaxpr.

Section Stateful.
  Variables prim val : Type.
  Variable psem : prim -> list val -> option (list val).
  (* class StatefulHandler: `handles(primitive)`, `dispatch(primitive, *args, **params)` *)
  Variable handles : prim -> bool.
  Variable dispatch : prim -> list val -> option (list val).

  Definition senv := env val.
  Definition sread := read (fun v : val => v).

  (* loop body of eval_jaxpr_stateful:
       invals = safe_map(env.read, eqn.invars)
       if stateful_handler.handles(eqn.primitive): outvals = stateful_handler.dispatch(...)
       else: outvals = eqn.primitive.bind( *args, **params)
       [wrap a single result in a list]; safe_map(env.write, eqn.outvars, outvals) *)
  Definition st_eqn (e : senv) (q : eqn prim val) : option senv :=
    obind (read_many (fun v : val => v) e (e_in q)) (fun invals =>
    obind (if handles (e_prim q) then dispatch (e_prim q) invals else psem (e_prim q) invals) (fun outvals =>
    write_many e (e_out q) outvals)).
  Fixpoint st_eqns (e : senv) (qs : list (eqn prim val)) : option senv :=
    match qs with
    | [] => Some e
    | q :: qs' => obind (st_eqn e q) (fun e' => st_eqns e' qs')
    end.
  (* env = Environment(); write constvars := consts; write invars := args; loop; read outvars *)
  Definition eval_stateful (j : jaxpr prim val) (consts args : list val) : option (list val) :=
    obind (write_many [] (j_const j) consts) (fun e1 =>
    obind (write_many e1 (j_in j) args) (fun e2 =>
    obind (st_eqns e2 (j_eqns j)) (fun e3 =>
    read_many (fun v : val => v) e3 (j_out j)))).
End Stateful.
Arguments st_eqn {prim val} psem handles dispatch e q.
Arguments st_eqns {prim val} psem handles dispatch e qs.
Arguments eval_stateful {prim val} psem handles dispatch j consts args.
