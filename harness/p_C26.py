"""C26 -- Importance and SMC return properly weighted particles and unbiased evidence.  Engine C-inf.

Tie (weights): Importance / ImportanceK (no proposal, Marginal proposals with and without auxiliary
choices, exact-density proposals), ChangeTarget, run_csmc, SMCAlgorithm.random_weighted and
log_marginal_likelihood_estimate of /repo run on enumerable discrete targets (real genjax.flip /
categorical sites, dyadic tables); particles, exp(log-weights), exp(lml), returned choices are shipped
to Coq where coq/model/Infer.v recomputes every weight as an exact rational (tolerance 1e-5).
Tie (keys): the same algorithms on programs whose sites are key-echo probes (the sample is the
low 20 bits of its own PRNG key); coq/model/InferKeys.v + threefry in Coq (Key.v) predict every
site of every particle bit for bit.
Direct oracles (no model): constraints satisfied; log-weights recomputed from `assess` calls on the
real distribution objects / generative functions; lml = logsumexp - log K in numpy float64;
ChangeTarget ratio from assess on both targets; random_weighted returns only unconstrained
addresses and its estimate is score - lml of a recomputed collection; key-echo values pairwise
distinct; (thorough) fixed-key Monte-Carlo mean of exp(lml) against the enumerated evidence."""
import itertools
import math

import numpy as np

from . import core, inf

N_TOL = inf.TOL


def logsumexp(xs):
    m = max(xs)
    return m + math.log(sum(math.exp(x - m) for x in xs))


# ---- expected log-weight of a particle, from assess on the real objects --------------------
def q_log_candidates(q, tspec, t):
    """possible values of the proposal's log-weight given the particle (one value unless the proposal
    has auxiliary choices the particle does not show); assess on the proposal's distributions"""
    n = len(tspec["sites"])
    qs = q["spec"]
    sel = q.get("sel") or [True] * len(qs["sites"])
    free = [j for j, i in enumerate(q["idx"]) if i >= n]          # auxiliary sites
    out = []
    for aux in itertools.product(*[range(qs["sites"][j]["n"]) for j in free]):
        qt = [None] * len(qs["sites"])
        for j, i in enumerate(q["idx"]):
            qt[j] = t[i] if i < n else aux[free.index(j)]
        out.append(sum(inf.site_dist_assess(qs, j, qt) for j in range(len(qt)) if sel[j]))
    return out


def expected_logw(a, t):
    """candidates for the log-weight of a particle with trace t under algorithm description a
    (None when it cannot be recomputed from the particle alone)"""
    if a[0] == "change":
        prev, tg = a[1], a[2]
        ptg = inf.final_target(prev)
        no, nn = len(ptg["spec"]["sites"]), len(tg["spec"]["sites"])
        # the previous particle: its latents are carried over, its observations are the old constraint
        told = []
        for i in range(no):
            if ptg["c"][i] is not None:
                told.append(ptg["c"][i])
            elif i < nn and tg["c"][i] is None:
                told.append(t[i])
            else:
                return None                  # the new target overwrote (or dropped) an old latent
        prev_w = expected_logw(prev, told)
        if prev_w is None:
            return None
        carried = [i for i in range(nn) if tg["c"][i] is not None or (i < no and ptg["c"][i] is None)]
        new_w = sum(inf.site_dist_assess(tg["spec"], i, t) for i in carried)
        old_score = float(inf.model_of(ptg["spec"]).assess(inf.to_chm(told, ptg["spec"]), ())[0])
        return [new_w - old_score + w for w in prev_w]
    tg, q = a[1], a[2]
    spec, c = tg["spec"], tg["c"]
    n = len(spec["sites"])
    constrained = [c[i] is not None for i in range(n)]
    if q is None:
        return [sum(inf.site_dist_assess(spec, i, t) for i in range(n) if constrained[i])]
    sel = q.get("sel") or [True] * len(q["idx"])
    proposed = {i for j, i in enumerate(q["idx"]) if i < n and (q["kind"] == "gf" or sel[j])}
    tw = sum(inf.site_dist_assess(spec, i, t) for i in range(n) if constrained[i] or i in proposed)
    if any(constrained[i] for i in proposed):
        return None                          # proposal overlaps the observations: its own value is hidden
    return [tw - lq for lq in q_log_candidates(q, spec, t)]


def close_any(x, cands):
    return any(abs(x - c) <= N_TOL for c in cands)


# ---- implementation runs + direct oracles -----------------------------------------------------
def run_smc_case(c):
    a = c["alg"]
    alg = inf.build_alg(a)
    tg = inf.final_target(a)
    n = len(tg["spec"]["sites"])
    pc = alg.run_smc(inf.key_of(c["seed"]))
    ts, lws = inf.from_particles(pc, n)
    z = float(pc.get_log_marginal_likelihood_estimate())
    r = {"ts": ts, "lws": lws, "lml": z}
    why = None
    if len(ts) != inf.num_particles(a):
        why = f"{len(ts)} particles, get_num_particles says {inf.num_particles(a)}"
    for k, t in enumerate(ts):
        if why:
            break
        for i in range(n):
            if tg["c"][i] is not None and t[i] != tg["c"][i]:
                why = f"particle {k} = {t} violates the constraint {tg['c']}"
        cands = expected_logw(a, t)
        if not why and cands is not None and not close_any(lws[k], cands):
            why = (f"particle {k} = {t}: log-weight {lws[k]}, but log p(particle, observations) - log proposal "
                   f"density recomputed with assess is {cands}")
    if not why and abs(z - (logsumexp(lws) - math.log(len(lws)))) > N_TOL:
        why = f"log marginal likelihood estimate {z} != logsumexp(log_weights) - log K = {logsumexp(lws) - math.log(len(lws))}"
    term = f"CSmc {inf.c_alg(a)} {inf.c_particles(ts, lws)} {inf.cq_exp(z)}"
    return term, why, r


def run_csmc_case(c):
    a = c["alg"]
    alg = inf.build_alg(a)
    tg = inf.final_target(a)
    n = len(tg["spec"]["sites"])
    pc = alg.run_csmc(inf.key_of(c["seed"]), inf.to_chm(c["retained"], tg["spec"]))
    ts, lws = inf.from_particles(pc, n)
    r = {"ts": ts, "lws": lws}
    why = None
    last = ts[-1]
    for i in range(n):
        want = tg["c"][i] if tg["c"][i] is not None else c["retained"][i]
        if want is not None and last[i] != want:
            why = f"retained particle {last} does not carry the retained choices {c['retained']} / constraint {tg['c']}"
    for k, t in enumerate(ts[:-1]):
        cands = expected_logw(a, t)
        if not why and cands is not None and not close_any(lws[k], cands):
            why = f"csmc particle {k} = {t}: log-weight {lws[k]}, recomputed {cands}"
    term = f"CCsmc {inf.c_alg(a)} {inf.c_cmap(c['retained'])} {inf.c_particles(ts, lws)}"
    return term, why, r


def run_rw_case(c):
    import jax
    from genjax.inference.smc import ChangeTarget
    a, tg = c["alg"], c["tg"]
    alg = inf.build_alg(a)
    target = inf.build_target(tg)
    n = len(tg["spec"]["sites"])
    key = inf.key_of(c["seed"])
    w, chm = alg.random_weighted(key, target)
    o = inf.from_chm(chm, n)
    r = {"o": o, "logw": float(w)}
    why = None
    for i in range(n):
        if tg["c"][i] is not None and o[i] is not None:
            why = f"random_weighted returned the constrained address s{i}: {o}"
        if tg["c"][i] is None and o[i] is None:
            why = f"random_weighted did not return the unconstrained address s{i}: {o}"
    if not why:
        # recompute the collection it resampled from (public API, same key derivation); if the returned
        # choices are one of its particles the estimate must be score(particle) - lml
        pc = ChangeTarget(alg, target).run_smc(jax.random.split(key)[0])
        ts, lws = inf.from_particles(pc, n)
        full = [tg["c"][i] if tg["c"][i] is not None else o[i] for i in range(n)]
        r["recovered"] = full in ts
        if full in ts:
            score = float(inf.model_of(tg["spec"]).assess(inf.to_chm(full, tg["spec"]), ())[0])
            want = score - (logsumexp(lws) - math.log(len(lws)))
            if abs(float(w) - want) > N_TOL:
                why = f"density estimate {float(w)} != score(particle) - log marginal likelihood estimate = {want}"
    term = f"CSmcRW {inf.c_alg(a)} {inf.c_target(tg)} {inf.c_cmap(o)} {inf.cq_exp(w)}"
    return term, why, r


def run_lml_case(c):
    a = c["alg"]
    alg = inf.build_alg(a)
    key = inf.key_of(c["seed"])
    if c.get("tg") is not None:
        z = float(alg.log_marginal_likelihood_estimate(key, inf.build_target(c["tg"])))
        if c.get("enc"):
            z2 = float(alg.estimate_normalizing_constant(key, inf.build_target(c["tg"])))
        t = f"(Some {inf.c_target(c['tg'])})"
    else:
        z = float(alg.log_marginal_likelihood_estimate(key))
        z2 = z
        t = "None"
    r = {"lml": z}
    why = None
    if c.get("tg") is not None and c.get("enc") and abs(z - z2) > N_TOL:
        why = f"estimate_normalizing_constant {z2} != log_marginal_likelihood_estimate {z} for the same key and target"
    return f"CSmcLml {inf.c_alg(a)} {t} {inf.cq_exp(z)}", why, r


def mc_evidence(a, n_keys, seed0):
    """supporting evidence only: mean over keys of exp(lml) against the enumerated evidence, 6 sigma"""
    import jax
    alg = inf.build_alg(a)
    tg = inf.final_target(a)
    keys = jax.random.split(inf.key_of(seed0), n_keys)
    zs = np.exp(np.asarray(jax.jit(jax.vmap(lambda k: alg.run_smc(k).get_log_marginal_likelihood_estimate()))(keys),
                           dtype=np.float64))
    want = inf.ref_evidence(tg["spec"], tg["c"])
    mean, sd = float(zs.mean()), float(zs.std()) / math.sqrt(n_keys)
    ok = abs(mean - want) <= 6 * sd + 1e-4 * want
    return ok, {"mean": mean, "evidence": want, "sd_of_mean": sd, "n": n_keys}


def mc_resample(c, n_keys):
    """fixed-key frequencies of ParticleCollection.sample_particle against weights / sum(weights), 6 sigma"""
    import jax
    a = c["alg"]
    alg = inf.build_alg(a)
    tg = inf.final_target(a)
    n = len(tg["spec"]["sites"])
    pc = alg.run_smc(inf.key_of(c["seed"]))
    ts, lws = inf.from_particles(pc, n)
    keys = jax.random.split(inf.key_of(c["seed"] + 1), n_keys)
    chs = jax.jit(jax.vmap(lambda k: pc.sample_particle(k).get_choices()))(keys)
    cols = [np.asarray(chs[inf.site_name(i)]).reshape(-1).astype(int) for i in range(n)]
    got = {}
    for k in range(n_keys):
        t = tuple(int(cols[i][k]) for i in range(n))
        got[t] = got.get(t, 0) + 1
    tot = sum(math.exp(w) for w in lws)
    want = {}
    for t, w in zip(ts, lws):
        want[tuple(t)] = want.get(tuple(t), 0.0) + math.exp(w) / tot
    bad = []
    for t in set(got) | set(want):
        p, f = want.get(t, 0.0), got.get(t, 0) / n_keys
        if abs(f - p) > 6 * math.sqrt(max(p * (1 - p), 1e-12) / n_keys) + 1e-3:
            bad.append((list(t), round(f, 4), round(p, 4)))
    info = {"particles": ts, "probabilities": {str(list(k)): round(v, 4) for k, v in want.items()}, "n": n_keys}
    return (None if not bad else f"sample_particle frequencies {bad} (particle, observed, weight/sum) over {n_keys} keys"), info


# ---- key-echo runs ------------------------------------------------------------------------------
def run_key_case(c):
    a = c["kalg"]
    alg = inf.build_kalg(a)
    t = a[2] if a[0] == "change" else a[1]
    pc = alg.run_smc(inf.key_of(c["seed"]))
    obs = inf.k_particles(pc, t)
    r = {"echo": obs}
    why, sig = None, None
    flags = t["obs"]
    seen = {}
    for k, part in enumerate(obs):
        for j, v in enumerate(part):
            if flags[j]:
                if v != (0, 0):
                    why = f"particle {k} leaf {j} is observed (0, 0) but holds {v}"
                continue
            if v in seen:
                why = (f"particle {k} leaf {j} and particle {seen[v][0]} leaf {seen[v][1]} hold the same key-echo value {v}: "
                       f"two draws used one PRNG key")
                sig = "changetarget-key-reuse" if (a[0] == "change" and c.get("new_latent")) else None
            seen[v] = (k, j)
    body = inf.clist([inf.clist([f"({x}, {y})" for x, y in part]) for part in obs])
    term = f"KCase {int(c['seed'])} {inf.c_kalg(a)} {body}"
    return term, why, sig, r


# ---- generators -----------------------------------------------------------------------------------
def gen_target(rng, nsites=None, p_cat=0.25):
    nsites = nsites or rng.choice([2, 2, 3, 3])
    spec = inf.gen_spec(rng, nsites, p_cat=p_cat)
    c = [None] * nsites
    c[nsites - 1] = rng.randrange(spec["sites"][nsites - 1]["n"])
    if nsites == 3 and rng.random() < 0.3:
        c[rng.randrange(2)] = rng.randrange(2) if spec["sites"][0]["n"] == 2 else 0
        for i in range(2):
            if c[i] is not None:
                c[i] = rng.randrange(spec["sites"][i]["n"])
    return {"spec": spec, "c": c}


def gen_proposal(rng, tg, overlap=False):
    spec, c = tg["spec"], tg["c"]
    n = len(spec["sites"])
    latent = [i for i in range(n) if c[i] is None]
    if not latent:
        return None
    kind = rng.choice(["marg", "marg", "gf"])
    k = rng.randint(1, len(latent))
    idx = sorted(rng.sample(latent, k))
    if overlap:
        # also proposes an observed address: outside the documented contract of a proposal (and outside the
        # hypothesis `disj` of the evidence theorem); merge keeps the observation, the weight still divides by q
        idx = sorted(set(idx + [i for i in range(n) if c[i] is not None][:1]))
    aux = kind == "marg" and rng.random() < 0.3
    if aux:
        pos = rng.randrange(len(idx) + 1)
        idx = idx[:pos] + [n + 5] + idx[pos:]
    qsites, cards = [], []
    for j, i in enumerate(idx):
        card = spec["sites"][i]["n"] if i < n else 2
        dep = bool(cards) and rng.random() < 0.6
        tab = np.zeros(tuple(cards) + (card,))
        base = inf.dyadic_row(rng, card)
        for ix in np.ndindex(*cards):
            tab[ix] = inf.dyadic_row(rng, card) if dep else base
        qsites.append({"n": card, "tab": tab.tolist()})
        cards.append(card)
    sel = [i < n for i in idx]
    return {"kind": kind, "spec": {"sites": qsites}, "idx": idx, "sel": sel, "overlap": bool(overlap)}


def gen_gf_proposal_all(rng, tg):
    """exact-density proposal over ALL the latents (run_csmc asks it for the density of `retained`)"""
    lat = [i for i in range(len(tg["c"])) if tg["c"][i] is None]
    qsites, cards = [], []
    for i in lat:
        card = tg["spec"]["sites"][i]["n"]
        tab = np.zeros(tuple(cards) + (card,))
        for ix in np.ndindex(*cards):
            tab[ix] = inf.dyadic_row(rng, card)
        qsites.append({"n": card, "tab": tab.tolist()})
        cards.append(card)
    return {"kind": "gf", "spec": {"sites": qsites}, "idx": lat, "sel": None}


def support_size(a):
    """rough size of one particle's outcome list in the model (to keep vm_compute enumerations small)"""
    if a[0] == "change":
        return support_size(a[1])
    tg, q = a[1], a[2]
    s = 1
    for i, st in enumerate(tg["spec"]["sites"]):
        if tg["c"][i] is None:
            s *= st["n"]
    if q is not None:
        for st in q["spec"]["sites"]:
            s *= st["n"]
    return s


def gen_cases(ctx):
    rng = ctx.rng
    cases = []
    for ti in range(ctx.n(8, 90)):
        tg = gen_target(rng, p_cat=0.25 if ti % 2 else 0.0)
        variants = [None, gen_proposal(rng, tg)]
        if rng.random() < 0.5:
            variants.append(gen_proposal(rng, tg))
        for q in variants:
            K = rng.choice([1, 2, 3] if ctx.quick else [1, 2, 3, 4, 5])
            a = ["imp", tg, q] if K == 1 else ["impk", tg, q, K]
            seed = rng.randrange(10 ** 6)
            cases.append({"kind": "smc", "alg": a, "seed": seed})
            small = support_size(a) ** inf.num_particles(a) <= 4096
            if small and rng.random() < 0.7:
                cases.append({"kind": "rw", "alg": a, "tg": tg, "seed": rng.randrange(10 ** 6)})
            if small and rng.random() < 0.4:
                cases.append({"kind": "lml", "alg": a, "tg": None, "seed": rng.randrange(10 ** 6)})
            # ChangeTarget: same latent addresses, other observations / another program of the same shape
            if rng.random() < 0.6:
                # ... or a new target that no longer observes one of the old observations (that address becomes a latent
                # which importance on the new target samples afresh; the old observation must not stay pinned)
                drop = rng.random() < 0.4
                tg2 = {"spec": tg["spec"] if rng.random() < 0.5 else reshape_spec(rng, tg["spec"]),
                       "c": [None if (v is None or (drop and rng.random() < 0.5)) else rng.randrange(tg["spec"]["sites"][i]["n"])
                             for i, v in enumerate(tg["c"])]}
                cases.append({"kind": "smc", "alg": ["change", a, tg2], "seed": rng.randrange(10 ** 6)})
                if small and rng.random() < 0.5:
                    cases.append({"kind": "lml", "alg": a, "tg": tg2, "enc": True, "seed": rng.randrange(10 ** 6)})
                if small and rng.random() < 0.3:
                    cases.append({"kind": "rw", "alg": a, "tg": tg2, "seed": rng.randrange(10 ** 6)})
        # proposal that also proposes an observed address (the observation wins in merge)
        if ti % 3 == 0:
            qo = gen_proposal(rng, tg, overlap=True)
            for _ in range(2):
                cases.append({"kind": "smc", "alg": ["imp", tg, qo] if ti % 2 else ["impk", tg, qo, 2],
                              "seed": rng.randrange(10 ** 6)})
    # conditional SMC (flip-only programs: K64; no proposal or exact-density proposal: K63)
    for ti in range(ctx.n(4, 40)):
        tg = gen_target(rng, p_cat=0.0)
        q = gen_gf_proposal_all(rng, tg) if rng.random() < 0.5 else None
        K = rng.choice([1, 2, 3])
        a = ["imp", tg, q] if K == 1 else ["impk", tg, q, K]
        retained = [rng.randrange(2) if v is None else None for v in tg["c"]]
        cases.append({"kind": "csmc", "alg": a, "retained": retained, "seed": rng.randrange(10 ** 6)})
    # keys: corpus first (the two configurations of the recorded finding K61), then generated trees
    old = {"g": ["s", ["d", "d"]], "obs": [False, True], "names": ["x", "obs"]}
    cases.append({"kind": "key", "new_latent": True, "seed": rng.randrange(2 ** 31), "kalg":
                  ["change", ["imp", old, None], {"g": ["s", ["d", "d", "d"]], "obs": [False, False, True], "names": ["z", "x", "obs"]},
                   [None, 0, 1]]})
    cases.append({"kind": "key", "new_latent": True, "seed": rng.randrange(2 ** 31), "kalg":
                  ["change", ["impk", old, None, 2], {"g": ["s", [["s", ["d"]], "d", "d"]], "obs": [False, False, True],
                                                       "names": ["z", "x", "obs"]}, [None, 0, 1]]})
    for ki in range(ctx.n(10, 80)):
        cases.append(gen_key_case(rng, new_latent=False))
    for ki in range(ctx.n(2, 12)):
        cases.append(gen_key_case(rng, new_latent=True))
    return cases


def reshape_spec(rng, spec):
    """another program with the same sites' cardinalities"""
    sites, cards = [], []
    for s in spec["sites"]:
        tab = np.zeros(tuple(cards) + (s["n"],))
        for ix in np.ndindex(*cards):
            tab[ix] = inf.dyadic_row(rng, s["n"])
        sites.append({"n": s["n"], "tab": tab.tolist()})
        cards.append(s["n"])
    return {"sites": sites}


def gen_kgf(rng):
    sites = []
    for _ in range(rng.randint(2, 4)):
        r = rng.random()
        if r < 0.6:
            sites.append("d")
        elif r < 0.9:
            sites.append(["s", ["d"] * rng.randint(1, 2)])
        else:
            sites.append(["s", [["s", ["d"]], "d"]])
    return ["s", sites]


def gen_key_case(rng, new_latent):
    g = gen_kgf(rng)
    leaves = inf.kgf_leaves(g)
    obs = [False] * len(leaves)
    obs[-1] = True
    if len(leaves) > 2 and rng.random() < 0.3:
        obs[rng.randrange(len(leaves) - 1)] = True
    t = {"g": g, "obs": obs}
    top = [j for j, ad in enumerate(leaves) if len(ad) == 1 and not obs[j]]
    q = None
    if top and rng.random() < 0.6:
        q = rng.sample(top, rng.randint(1, len(top)))
    K = rng.choice([1, 2, 3])
    a = ["imp", t, q] if K == 1 else ["impk", t, q, K]
    r = rng.random()
    if new_latent:
        # the changed target has one more latent site, traced first
        extra = "d" if K == 1 else ["s", ["d"]]
        g2 = ["s", [extra] + g[1]]
        names2 = ["znew"] + [f"a{i}" for i in range(len(g[1]))]
        leaves2 = inf.kgf_leaves(g2, names=names2)
        obs2 = [False] * (len(leaves2) - len(leaves)) + obs
        amap = [leaves.index(ad) if ad in leaves else None for ad in leaves2]
        a = ["change", a, {"g": g2, "obs": obs2, "names": names2}, amap]
    elif r < 0.4:
        # ChangeTarget over the same addresses (what random_weighted / estimate_normalizing_constant do)
        a = ["change", a, {"g": g, "obs": obs}, list(range(len(leaves)))]
    return {"kind": "key", "kalg": a, "seed": rng.randrange(2 ** 31), "new_latent": new_latent}


def probe_known(ctx):
    """in-process replays of two recorded findings that only restrict the generators (K63, K64)"""
    import jax
    import jax.numpy as jnp
    import genjax
    from genjax import ChoiceMapBuilder as C
    from genjax.inference import Target
    from genjax.inference.smc import Importance, ImportanceK
    spec = {"sites": [{"n": 3, "tab": [0.5, 0.25, 0.25]}, {"n": 2, "tab": [[0.75, 0.25], [0.5, 0.5], [0.25, 0.75]]}]}
    tg = {"spec": spec, "c": [None, 1]}
    target = inf.build_target(tg)
    key = inf.key_of(0)
    try:
        Importance(target).estimate_logpdf(key, inf.to_chm([1, None], spec), target)
        ctx.log("note: SMCAlgorithm.estimate_logpdf(key, v, target) no longer raises (K63)")
    except TypeError as e:
        ctx.fail("oracle", "SMCAlgorithm.estimate_logpdf(key, v, target) raises TypeError (argument annotation)",
                 case={"witness": "witness/w63_estimate_logpdf_signature.py"}, signature="estimate-logpdf-signature")
    try:
        ImportanceK(target, None, 3).run_csmc(key, inf.to_chm([1, None], spec))
        ctx.log("note: ImportanceK.run_csmc accepts a trace with a vector-valued leaf (K64 no longer reproduces)")
    except TypeError as e:
        ctx.fail("oracle", "ImportanceK.run_csmc raises on a trace with a vector-valued leaf",
                 case={"witness": "witness/w64_importancek_csmc_vector_leaf.py"}, signature="importancek-csmc-vector-leaf")


RUNNERS = {"smc": run_smc_case, "csmc": run_csmc_case, "rw": run_rw_case, "lml": run_lml_case}


def run_one(c):
    """one case on the implementation -> {"term", "why", "sig", "obs"} (runs in a worker process)"""
    if c["kind"] == "key":
        term, why, sig, r = run_key_case(c)
    else:
        term, why, r = RUNNERS[c["kind"]](c)
        sig = None
    return {"term": term, "why": why, "sig": sig, "obs": r}


def run(ctx):
    import genjax
    import jax
    ctx.proofs()
    ctx.log(f"implementation under test: {genjax.__file__}")
    # the key model assumes split(k, n)[i] = fold_in(k, i) (partitionable threefry): checked, not assumed
    k0 = jax.random.key(7)
    part_ok = bool(jax.config.jax_threefry_partitionable) and all(
        bool((jax.random.key_data(jax.random.split(k0, 3)[i]) == jax.random.key_data(jax.random.fold_in(k0, i))).all())
        for i in range(3))
    if not part_ok:
        ctx.fail("tie", "jax.random.split(k, n)[i] != fold_in(k, i) on this installation: coq/model/Key.v no longer describes the PRNG")
    import time
    cases = gen_cases(ctx)
    t_impl = time.time()
    terms, kept, kterms, kkept, nbad = [], [], [], [], 0
    for c, out in zip(cases, inf.pmap("harness.p_C26", "run_one", cases, workers=ctx.n(1, 6))):
        term, why, sig, r = out["term"], out["why"], out["sig"], out["obs"]
        if why is not None:
            nbad += 1
            if nbad <= 4 or sig:
                ctx.fail("oracle", f"{c['kind']} seed={c['seed']}: {why}",
                         case=c if not sig else dict(c, witness="witness/w61_changetarget_key_reuse.py"), signature=sig)
        if term is not None:
            (kterms if c["kind"] == "key" else terms).append(term)
            (kkept if c["kind"] == "key" else kept).append((c, dict(r, reuse=bool(sig)) if c["kind"] == "key" else r))
    try:
        probe_known(ctx)
    except Exception as e:
        ctx.log(f"note: the in-process replay of the recorded findings K63/K64 raised {type(e).__name__}: {str(e)[:200]}")
    t_coq = time.time()
    mism, errs = core.coq_mismatches("C26", inf.HEADER, terms, "icase", fn="imismatches", shard=40)
    kmism, kerrs = core.coq_mismatches("C26k", inf.KHEADER, kterms, "kcase", fn="kmismatches", shard=200)
    ctx.cov["wall_impl_s"], ctx.cov["wall_coq_s"] = round(t_coq - t_impl, 1), round(time.time() - t_coq, 1)
    for e in (errs + kerrs)[:2]:
        ctx.fail("correspondence", "C-inf case file did not evaluate: " + e)
    for i in mism[:3]:
        c, r = kept[i]
        ctx.fail("correspondence", f"model coq/model/Infer.v and implementation disagree on {c['kind']} "
                 f"(algorithm {alg_name(c['alg'])}, seed={c['seed']}): implementation returned {r}", case=dict(c, tie=True))
    stale = [i for i in kmism if kkept[i][0].get("new_latent") and not kkept[i][1].get("reuse")]
    if stale:
        # outside the region of the key theorems (a ChangeTarget that samples a new latent): the recorded key reuse is
        # gone and the model of that path describes the old derivation -- informational, not an alarm
        ctx.log(f"note: {len(stale)} ChangeTarget new-latent key case(s) no longer reuse a key and no longer match "
                f"coq/model/InferKeys.v (K61 repaired? update krun's KChange case)")
        kmism = [i for i in kmism if i not in stale]
    for i in kmism[:3]:
        c, r = kkept[i]
        ctx.fail("correspondence", f"key model coq/model/InferKeys.v and implementation disagree (algorithm {alg_name(c['kalg'])}, "
                 f"seed={c['seed']}): key-echo values {r}", case=dict(c, tie=True))
    if (mism or kmism) and not any(f["kind"] == "oracle" and not f["signature"] for f in ctx.failures):
        # look for a failing input of the direct oracles around the mismatches
        found = False
        for c, _ in [kept[i] for i in mism[:4]] + [kkept[i] for i in kmism[:4]]:
            for d in range(1, 5):
                c2 = dict(c, seed=c["seed"] + d)
                try:
                    out = run_key_case(c2) if c2["kind"] == "key" else RUNNERS[c2["kind"]](c2)
                except Exception as e:
                    out = (None, f"raised {type(e).__name__}", None)
                if out[1] and not (c2["kind"] == "key" and out[2]):
                    ctx.fail("oracle", f"{c2['kind']} seed={c2['seed']}: {out[1]}", case=c2)
                    found = True
                    break
            if found:
                break
    if not any(f["signature"] == "changetarget-key-reuse" for f in ctx.failures):
        ctx.log("note: known finding K61 (ChangeTarget key reuse) did not reproduce on this run's new-latent key cases")
    # supporting evidence: Monte-Carlo mean of exp(lml)
    t_mc = time.time()
    mc = []
    def in_region(a):      # the proposal proposes no observed address (hypothesis of the evidence theorem)
        return a[2] is None or not a[2].get("overlap")
    for c, _ in [x for x in kept if x[0]["kind"] == "smc" and x[0]["alg"][0] != "change" and in_region(x[0]["alg"])][: ctx.n(1, 12)]:
        ok, info = mc_evidence(c["alg"], ctx.n(3000, 40000), c["seed"])
        mc.append(info)
        ctx.cov["evaluations"] += info["n"]
        if not ok:
            ctx.fail("oracle", f"Monte-Carlo mean of exp(log marginal likelihood estimate) {info} deviates from the enumerated "
                     f"evidence by more than 6 sigma ({alg_name(c['alg'])})", case=dict(c, kind="mc"))
    # sample_particle picks particle i with probability w_i / sum w (fixed keys, 6 sigma)
    def spread(r):
        return max(r["lws"]) - min(r["lws"]) if r and len(set(map(tuple, r["ts"]))) > 1 else 0.0
    cand = sorted([x for x in kept if x[0]["kind"] == "smc" and inf.num_particles(x[0]["alg"]) > 1],
                  key=lambda x: -spread(x[1]))[: ctx.n(1, 6)]
    rs = []
    for c, r in cand:
        if spread(r) < 0.4:
            continue
        why, info = mc_resample(c, ctx.n(4000, 20000))
        rs.append(info)
        ctx.cov["evaluations"] += info["n"]
        if why:
            ctx.fail("oracle", f"{alg_name(c['alg'])} seed={c['seed']}: {why}", case=dict(c, kind="resample"))
    ctx.cov["resample_frequency_checks"] = rs
    ctx.cov["wall_mc_s"] = round(time.time() - t_mc, 1)
    by_kind = {}
    for c, _ in kept + kkept:
        k = c["kind"] + ":" + alg_name(c.get("alg") or c.get("kalg"))
        by_kind[k] = by_kind.get(k, 0) + 1
    ctx.cov["evaluations"] += len(kept) + len(kkept)
    ctx.cov["traces_validated_against_impl"] = len(kept) + len(kkept) - len(mism) - len(kmism)
    ctx.cov["distinct_nontrivial"] = len({repr((c.get("alg") or c.get("kalg"), c["kind"])) for c, r in kept + kkept
                                          if c["kind"] == "key" or (c.get("alg") or [None])[0] == "change"
                                          or (c["alg"][2] is not None) or inf.num_particles(c["alg"]) > 1})
    ctx.cov["by_kind"] = by_kind
    ctx.cov["monte_carlo_supporting"] = mc
    ctx.cov["rw_recovered"] = sum(1 for c, r in kept if c["kind"] == "rw" and r and r.get("recovered"))
    ctx.cov["genjax_file"] = genjax.__file__
    ctx.cov["split_is_fold_in"] = part_ok
    ctx.cov["rule"] = ("targets of 2-3 sites (flip / 3-way categorical, dyadic tables, last site and sometimes another observed) x "
                       "{no proposal, Marginal proposal over a subset of the latents (30% with an auxiliary choice), exact-density "
                       "proposal, proposal overlapping an observation} x K in 1..3 (quick) / 1..5; ChangeTarget to other observations / "
                       "another program; run_csmc; random_weighted; lml; key-echo call trees of 2-4 sites, nesting <= 3, proposals over "
                       "top-level leaves, ChangeTarget with and without a new latent; non-trivial = a proposal, K > 1, a ChangeTarget or a key case")
    ctx.cov["tolerance"] = "model: |exp(w_impl) - w_model| <= 1e-5 * w_model; oracle: |log w - ref| <= 2e-5; key cases: exact (integers)"
    ctx.add_samples([{"kind": c["kind"], "alg": alg_name(c.get("alg") or c.get("kalg")), "seed": c["seed"], "impl": r}
                     for c, r in kept[:1] + kept[len(kept) // 2: len(kept) // 2 + 1] + kkept[:1]])


def alg_name(a):
    if a is None:
        return "-"
    if a[0] == "change":
        return "ChangeTarget(" + alg_name(a[1]) + ")"
    q = a[2]
    qn = "" if q is None else ("+q" if isinstance(q, list) else "+" + q["kind"] + ("/aux" if q.get("sel") and not all(q["sel"]) else ""))
    return ("Importance" if a[0] == "imp" else f"ImportanceK{a[3]}") + qn


def replay(case):
    if "witness" in case:
        rc, last = core.run_witness(case["witness"])
        print(last)
        return rc == 0
    k = case["kind"]
    if k == "key":
        term, why, sig, r = run_key_case(case)
    elif k == "mc":
        ok, info = mc_evidence(case["alg"], 40000, case["seed"])
        why, r = (None if ok else str(info)), info
    elif k == "resample":
        why, r = mc_resample(case, 4000)
    else:
        term, why, r = RUNNERS[k](case)
    print(f"{k} {alg_name(case.get('alg') or case.get('kalg'))} seed={case['seed']}: implementation {r}: {why or 'direct oracle ok'}")
    if why is None and case.get("tie") and k not in ("mc", "resample"):
        # reported by the correspondence: re-run this one case against the Coq model
        if k == "key":
            ok = inf.tie_one("C26replay", inf.KHEADER, term, "kcase", "kmismatches")
        else:
            ok = inf.tie_one("C26replay", inf.HEADER, term, "icase", "imismatches")
        print(f"Coq model vs implementation: {'agree' if ok else 'DISAGREE'}")
        return ok
    return why is None
