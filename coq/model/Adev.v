(* Adev.v — executable model of GenJAX's ADEV interpreter and primitives, and of the
   VI objectives built on it.  NO PROOFS in this file.

   Mirrors (unchanged /repo tree):
     src/genjax/_src/adev/core.py        ADInterpreter.eval_jaxpr_adev (CPS, sample_p / cond_p / default JVP),
                                         ADEVProgram, Expectation.jvp_estimate / estimate / grad_estimate
     src/genjax/_src/adev/primitives.py  REINFORCE, FlipEnum, FlipMVD, FlipEnumParallel, CategoricalEnumParallel,
                                         NormalREPARAM, MvNormalDiagREPARAM, Uniform, Baseline, AddCost
     src/genjax/_src/inference/vi.py     ELBO, IWELBO, PWake, QWake (+ sp.py Marginal, smc.py Importance/ChangeTarget
                                         weight algebra)

   Numbers are rationals; a dual number is (primal, tangent).  The randomness is explicit:
   the interpreter threads a depth counter that mirrors the key chain
   (key, sub_key = split(key): the site draws with sub_key and the continuation gets key),
   and `rs d` holds the base draws made with the sub_key at depth d:
     du = uniform[0,1) draw   (tfd.Bernoulli(p).sample(seed=k) = (uniform(k) < p))
     de = standard normal     (tfd.Normal(m,s).sample(seed=k) = m + s * normal(k))
     dv = standard normal vector (MultivariateNormalDiag)
   so the interpreter is a deterministic function. *)
From Coq Require Import List ZArith QArith Qabs Bool.
Import ListNotations.
Open Scope Q_scope.

(* ---------------------------------------------------------------------------- *)
(* dual numbers (core.py: Dual; default JVP rules of the jax primitives)          *)
(* ---------------------------------------------------------------------------- *)
Definition dual := (Q * Q)%type.
Definition dC (q : Q) : dual := (q, 0).
Definition dadd (a b : dual) : dual := (fst a + fst b, snd a + snd b).
Definition dsub (a b : dual) : dual := (fst a - fst b, snd a - snd b).
Definition dmul (a b : dual) : dual := (fst a * fst b, fst a * snd b + snd a * fst b).
Definition dneg (a : dual) : dual := (- fst a, - snd a).
Definition ddiv (a b : dual) : dual :=
  (fst a / fst b, snd a / fst b - (fst a * snd b) / (fst b * fst b)).
Definition dlog (lg dlg : Q -> Q) (a : dual) : dual := (lg (fst a), dlg (fst a) * snd a).

(* ---------------------------------------------------------------------------- *)
(* source language                                                                *)
(* ---------------------------------------------------------------------------- *)
(* two environments: real-valued variables (de Bruijn index into env) and Boolean
   variables bound by flips (index into benv) *)
Inductive expr :=
| EC (q : Q)
| EV (i : nat)
| EAdd (a b : expr) | ESub (a b : expr) | EMul (a b : expr) | ENeg (a : expr)
| EDiv (a b : expr) | ELog (a : expr)
| EIf (c : nat) (a b : expr).          (* jnp.where(bool var c, a, b) *)

Inductive prim :=
| PFlipEnum | PFlipReinforce | PNormalReparam | PNormalReinforce
| PFlipMVD | PFlipEnumPar | PCatEnumPar | PUniform
| PBaseline (p : prim).

Inductive prog :=
| Ret (e : expr)
| Sample (p : prim) (args : list expr) (k : prog)      (* x = prim(args...); k *)
| SampleMvDiag (locs scales : list expr) (k : prog)    (* x = mv_normal_diag_reparam(locs, scales); binds x[0..n-1] *)
| AddCost (e : expr) (k : prog)                        (* add_cost(e); k *)
| Cond (c : nat) (t f : prog) (k : prog).              (* x = lax.cond(bool var c, t, f); k *)

(* the value a sample site binds *)
Inductive bval := BB (b : bool) | BR (x : dual).

Record draw := { du : Q; de : Q; dv : list Q }.
Definition rnd := nat -> draw.
Definition draw0 : draw := {| du := 0; de := 0; dv := [] |}.
Definition rnd_of (l : list draw) : rnd := fun d => nth d l draw0.

Definition qlt (a b : Q) : bool := negb (Qle_bool b a).
Definition b2q (b : bool) : Q := if b then 1 else 0.

Section Eval.
Variables lg dlg : Q -> Q.     (* log and its derivative: function symbols *)

Fixpoint deval (e : expr) (env : list dual) (benv : list bool) : dual :=
  match e with
  | EC q => dC q
  | EV i => nth i env (0, 0)
  | EAdd a b => dadd (deval a env benv) (deval b env benv)
  | ESub a b => dsub (deval a env benv) (deval b env benv)
  | EMul a b => dmul (deval a env benv) (deval b env benv)
  | ENeg a => dneg (deval a env benv)
  | EDiv a b => ddiv (deval a env benv) (deval b env benv)
  | ELog a => dlog lg dlg (deval a env benv)
  | EIf c a b => if nth c benv false then deval a env benv else deval b env benv
  end.

(* ---------------------------------------------------------------------------- *)
(* primitives: jvp_estimate of each, continuation-passing (primitives.py)         *)
(* ---------------------------------------------------------------------------- *)
Definition obind {A B} (o : option A) (f : A -> option B) : option B :=
  match o with Some a => f a | None => None end.

(* d/dtheta log Bernoulli(v; p): jax.jvp of tfd.Bernoulli(probs=p).log_prob(v) *)
Definition flip_lp' (v : bool) (p : dual) : Q :=
  if v then snd p / fst p else - (snd p / (1 - fst p)).

(* d/dtheta log Normal(x; mu, sigma), x held fixed (zero(v) tangent) *)
Definition normal_lp' (x : Q) (mu sigma : dual) : Q :=
  snd mu * ((x - fst mu) / (fst sigma * fst sigma))
  + snd sigma * ((x - fst mu) * (x - fst mu) / (fst sigma * fst sigma * fst sigma) - 1 / fst sigma).

Fixpoint site (pr : prim) (args : list dual) (rs : rnd) (d : nat)
         (K : bval -> nat -> option dual) : option dual :=
  match pr, args with
  (* FlipEnum.jvp_estimate: both continuations with the SAME key; jax.jvp of p*tl + (1-p)*fl *)
  | PFlipEnum, [p] =>
      obind (K (BB true) d) (fun t =>
      obind (K (BB false) d) (fun f =>
      Some (dadd (dmul p t) (dmul (dsub (dC 1) p) f))))
  (* REINFORCE.jvp_estimate (flip_reinforce): key, sub_key = split(key); v = sample(sub_key);
     out = kdual(key, pure v); Dual(out.primal, out.tangent + out.primal * lp_tangent) *)
  | PFlipReinforce, [p] =>
      let v := qlt (du (rs d)) (fst p) in
      obind (K (BB v) (S d)) (fun o => Some (fst o, snd o + fst o * flip_lp' v p))
  (* NormalREPARAM.before_tail_call: eps with sub_key; jvp of mu + sigma*eps; tail call kdual(key, dual) --
     TailCallADEVPrimitive.jvp_estimate passes the ORIGINAL key to kdual *)
  | PNormalReparam, [mu; sigma] =>
      K (BR (dadd mu (dmul sigma (dC (de (rs d)))))) d
  (* REINFORCE.jvp_estimate (normal_reinforce) *)
  | PNormalReinforce, [mu; sigma] =>
      let x := fst mu + fst sigma * de (rs d) in
      obind (K (BR (dC x)) (S d)) (fun o => Some (fst o, snd o + fst o * normal_lp' x mu sigma))
  (* Baseline.jvp_estimate: inner primitive with continuation (kdual - b), then + b *)
  | PBaseline pr', b :: args' =>
      obind (site pr' args' rs d (fun v d' => obind (K v d') (fun r => Some (dsub r b))))
            (fun l => Some (dadd l b))
  (* FlipMVD / FlipEnumParallel / CategoricalEnumParallel call kdual(key, primals, tangents): the
     continuation takes (key, dual_tree) -> TypeError.  Uniform.before_tail_call is annotated
     dual_tree: tuple[...] and receives a list -> beartype TypeError. *)
  | PFlipMVD, _ | PFlipEnumPar, _ | PCatEnumPar, _ | PUniform, _ => None
  | _, _ => None          (* wrong number of arguments: tuple-unpack ValueError *)
  end.

(* ---------------------------------------------------------------------------- *)
(* ADInterpreter.eval_jaxpr_adev                                                  *)
(* ---------------------------------------------------------------------------- *)
Fixpoint zipmv (locs scales : list dual) (eps : list Q) : list dual :=
  match locs, scales with
  | l :: ls, s :: ss => dadd l (dmul s (dC (hd 0 eps))) :: zipmv ls ss (tl eps)
  | _, _ => []
  end.

Fixpoint interp (p : prog) (env : list dual) (benv : list bool) (rs : rnd) (d : nat) : option dual :=
  match p with
  | Ret e => Some (deval e env benv)
  | Sample pr args k =>
      site pr (map (fun e => deval e env benv) args) rs d
           (fun v d' => match v with
                        | BB b => interp k env (b :: benv) rs d'
                        | BR x => interp k (x :: env) benv rs d'
                        end)
  (* MvNormalDiagREPARAM.before_tail_call: loc + scale * eps (vector); tail call with the original key *)
  | SampleMvDiag locs scales k =>
      if negb (Nat.eqb (length locs) (length scales)) then None else
      let xs := zipmv (map (fun e => deval e env benv) locs) (map (fun e => deval e env benv) scales) (dv (rs d)) in
      interp k (rev xs ++ env) benv rs d
  (* AddCost.jvp_estimate: Dual(w + l.primal, w' + l.tangent) *)
  | AddCost e k =>
      obind (interp k env benv rs d) (fun l => Some (dadd (deval e env benv) l))
  (* cond_p: BOTH branches are traced (lax.cond), each is run by forward_mode with its own
     identity-continuation to completion and only then the rest of the program
     (_cond_dual_kont, closed over the key of the cond) is applied to the branch's Dual *)
  | Cond c t f k =>
      obind (interp t env benv rs d) (fun rt =>
      obind (interp f env benv rs d) (fun rf =>
      interp k ((if nth c benv false then rt else rf) :: env) benv rs d))
  end.

(* Expectation.jvp_estimate(key, duals): parameters in source order *)
Definition run_jvp (p : prog) (params : list dual) (rs : rnd) : option dual :=
  interp p (rev params) [] rs 0.

(* Expectation.estimate: zero tangents, primal of the result *)
Definition run_estimate (p : prog) (xs : list Q) (rs : rnd) : option Q :=
  option_map fst (run_jvp p (map dC xs) rs).

(* Expectation.grad_estimate: jax.grad through the custom_jvp = the tangent output for each
   unit input tangent (the rule is linear in the tangents) *)
Fixpoint unit_at (xs : list Q) (i : nat) : list dual :=
  match xs with
  | [] => []
  | x :: r => (x, match i with O => 1 | S _ => 0 end) :: unit_at r (pred i)
  end.
Fixpoint unit_from (xs : list Q) (i j : nat) : list dual :=   (* tangent 1 at position i, j = current position *)
  match xs with
  | [] => []
  | x :: r => (x, if Nat.eqb i j then 1 else 0) :: unit_from r i (S j)
  end.
Fixpoint sequence {A} (l : list (option A)) : option (list A) :=
  match l with
  | [] => Some []
  | None :: _ => None
  | Some a :: r => option_map (cons a) (sequence r)
  end.
(* parameters in source order with a tangent vector given by position *)
Fixpoint envOf (xs : list Q) (t : nat -> Q) (j : nat) : list dual :=
  match xs with
  | [] => []
  | x :: r => (x, t j) :: envOf r t (S j)
  end.
Definition run_grad (p : prog) (xs : list Q) (rs : rnd) : option (list Q) :=
  sequence (map (fun i => option_map snd (run_jvp p (unit_from xs i 0) rs)) (seq 0 (length xs))).

(* ---------------------------------------------------------------------------- *)
(* SPECIFICATION 1: the program's value, over Q, continuation passing.            *)
(*   avg = false: sampled sites take their draw, enumerated sites are averaged     *)
(*   avg = true : every flip is averaged (the expectation over all flips);         *)
(*                normal sites stay pointwise in eps                                *)
(* ---------------------------------------------------------------------------- *)
Fixpoint qeval (e : expr) (env : list Q) (benv : list bool) : Q :=
  match e with
  | EC q => q
  | EV i => nth i env 0
  | EAdd a b => qeval a env benv + qeval b env benv
  | ESub a b => qeval a env benv - qeval b env benv
  | EMul a b => qeval a env benv * qeval b env benv
  | ENeg a => - qeval a env benv
  | EDiv a b => qeval a env benv / qeval b env benv
  | ELog a => lg (qeval a env benv)
  | EIf c a b => if nth c benv false then qeval a env benv else qeval b env benv
  end.

Inductive qbval := QB (b : bool) | QR (x : Q).

Fixpoint cat_sum (ps : list Q) (i : nat) (K : qbval -> nat -> Q) (d : nat) : Q :=
  match ps with
  | [] => 0
  | p :: r => p * K (QR (inject_Z (Z.of_nat i))) d + cat_sum r (S i) K d
  end.

Fixpoint vsite (avg : bool) (pr : prim) (args : list Q) (rs : rnd) (d : nat) (K : qbval -> nat -> Q) : Q :=
  match pr, args with
  | PFlipEnum, [p] | PFlipEnumPar, [p] => p * K (QB true) d + (1 - p) * K (QB false) d
  | PFlipReinforce, [p] | PFlipMVD, [p] =>
      if avg then p * K (QB true) (S d) + (1 - p) * K (QB false) (S d)
      else K (QB (qlt (du (rs d)) p)) (S d)
  | PNormalReparam, [mu; sigma] => K (QR (mu + sigma * de (rs d))) (S d)   (* a fresh draw per site *)
  | PNormalReinforce, [mu; sigma] => K (QR (mu + sigma * de (rs d))) (S d)
  | PUniform, [] => K (QR (du (rs d))) (S d)
  | PCatEnumPar, ps => cat_sum ps 0 K d
  | PBaseline pr', _ :: args' => vsite avg pr' args' rs d K
  | _, _ => 0
  end.

Fixpoint qzipmv (locs scales eps : list Q) : list Q :=
  match locs, scales with
  | l :: ls, s :: ss => (l + s * hd 0 eps) :: qzipmv ls ss (tl eps)
  | _, _ => []
  end.

Fixpoint valueQ (avg : bool) (p : prog) (env : list Q) (benv : list bool) (rs : rnd) (d : nat)
         (K : Q -> nat -> Q) : Q :=
  match p with
  | Ret e => K (qeval e env benv) d
  | Sample pr args k =>
      vsite avg pr (map (fun e => qeval e env benv) args) rs d
            (fun v d' => match v with
                         | QB b => valueQ avg k env (b :: benv) rs d' K
                         | QR x => valueQ avg k (x :: env) benv rs d' K
                         end)
  | SampleMvDiag locs scales k =>
      valueQ avg k (rev (qzipmv (map (fun e => qeval e env benv) locs) (map (fun e => qeval e env benv) scales) (dv (rs d))) ++ env)
             benv rs (S d) K
  | AddCost e k => qeval e env benv + valueQ avg k env benv rs d K
  | Cond c t f k =>
      if nth c benv false
      then valueQ avg t env benv rs d (fun r d' => valueQ avg k (r :: env) benv rs d' K)
      else valueQ avg f env benv rs d (fun r d' => valueQ avg k (r :: env) benv rs d' K)
  end.
End Eval.

Definition Kid : Q -> nat -> Q := fun r _ => r.
Definition ofst (o : option dual) : Q := match o with Some r => fst r | None => 0 end.
Definition osnd (o : option dual) : Q := match o with Some r => snd r | None => 0 end.
(* selections of primitives *)
Fixpoint prim_enum (pr : prim) : bool :=
  match pr with PFlipEnum => true | PBaseline p' => prim_enum p' | _ => false end.
Definition prim_any (pr : prim) : bool := true.

(* ---------------------------------------------------------------------------- *)
(* SPECIFICATION 2: the same expectation as a POLYNOMIAL in the step theta along    *)
(* a line  x_i(theta) = x_i + theta * x_i'  through the parameters.               *)
(* ---------------------------------------------------------------------------- *)
Definition poly := list Q.          (* coefficients, constant first *)
Fixpoint padd (a b : poly) : poly :=
  match a, b with
  | [], _ => b
  | _, [] => a
  | x :: a', y :: b' => (x + y) :: padd a' b'
  end.
Definition pscale (c : Q) (a : poly) : poly := map (Qmult c) a.
Definition pneg (a : poly) : poly := pscale (-1) a.
Definition psub (a b : poly) : poly := padd a (pneg b).
Fixpoint pmul (a b : poly) : poly :=
  match a with
  | [] => []
  | x :: a' => padd (pscale x b) (0 :: pmul a' b)
  end.
Definition pconst (c : Q) : poly := [c].
Fixpoint peval (a : poly) (t : Q) : Q :=
  match a with
  | [] => 0
  | x :: a' => x + t * peval a' t
  end.
Definition c0 (a : poly) : Q := nth 0 a 0.
Definition c1 (a : poly) : Q := nth 1 a 0.
(* the formal derivative of a polynomial: sum i a_i t^(i-1) *)
Fixpoint pderiv_from (n : nat) (a : poly) : poly :=   (* a = coefficients of t^n, t^(n+1), ... *)
  match a with
  | [] => []
  | x :: a' => (inject_Z (Z.of_nat n) * x) :: pderiv_from (S n) a'
  end.
Definition pderiv (a : poly) : poly := match a with [] => [] | _ :: a' => pderiv_from 1 a' end.
Definition line (x : dual) : poly := [fst x; snd x].

(* log and division are not polynomial: the polynomial specification covers the
   arithmetic grammar of C29 (see `arith`) *)
Fixpoint ppeval (e : expr) (env : list poly) (benv : list bool) : poly :=
  match e with
  | EC q => pconst q
  | EV i => nth i env []
  | EAdd a b => padd (ppeval a env benv) (ppeval b env benv)
  | ESub a b => psub (ppeval a env benv) (ppeval b env benv)
  | EMul a b => pmul (ppeval a env benv) (ppeval b env benv)
  | ENeg a => pneg (ppeval a env benv)
  | EDiv _ _ | ELog _ => []
  | EIf c a b => if nth c benv false then ppeval a env benv else ppeval b env benv
  end.

Inductive pbval := PB (b : bool) | PR (x : poly).

Fixpoint psite (pr : prim) (args : list poly) (rs : rnd) (d : nat) (K : pbval -> nat -> poly) : poly :=
  match pr, args with
  | PFlipEnum, [p] | PFlipEnumPar, [p] =>
      padd (pmul p (K (PB true) d)) (pmul (psub (pconst 1) p) (K (PB false) d))
  | PFlipReinforce, [p] | PFlipMVD, [p] =>
      padd (pmul p (K (PB true) (S d))) (pmul (psub (pconst 1) p) (K (PB false) (S d)))
  | PNormalReparam, [mu; sigma] => K (PR (padd mu (pscale (de (rs d)) sigma))) (S d)
  | PBaseline pr', _ :: args' => psite pr' args' rs d K
  | _, _ => []
  end.

Fixpoint pzipmv (locs scales : list poly) (eps : list Q) : list poly :=
  match locs, scales with
  | l :: ls, s :: ss => padd l (pscale (hd 0 eps) s) :: pzipmv ls ss (tl eps)
  | _, _ => []
  end.

Fixpoint specP (p : prog) (env : list poly) (benv : list bool) (rs : rnd) (d : nat)
         (K : poly -> nat -> poly) : poly :=
  match p with
  | Ret e => K (ppeval e env benv) d
  | Sample pr args k =>
      psite pr (map (fun e => ppeval e env benv) args) rs d
            (fun v d' => match v with
                         | PB b => specP k env (b :: benv) rs d' K
                         | PR x => specP k (x :: env) benv rs d' K
                         end)
  | SampleMvDiag locs scales k =>
      specP k (rev (pzipmv (map (fun e => ppeval e env benv) locs) (map (fun e => ppeval e env benv) scales) (dv (rs d))) ++ env)
            benv rs (S d) K
  | AddCost e k => padd (ppeval e env benv) (specP k env benv rs d K)
  | Cond c t f k =>
      if nth c benv false
      then specP t env benv rs d (fun r d' => specP k (r :: env) benv rs d' K)
      else specP f env benv rs d (fun r d' => specP k (r :: env) benv rs d' K)
  end.
Definition PKid : poly -> nat -> poly := fun r _ => r.

(* ---------------------------------------------------------------------------- *)
(* the region R in which the estimators are claimed correct                       *)
(* ---------------------------------------------------------------------------- *)
Fixpoint arith (e : expr) : bool :=     (* the arithmetic grammar: no log, no division *)
  match e with
  | EC _ | EV _ => true
  | EAdd a b | ESub a b | EMul a b => arith a && arith b
  | ENeg a => arith a
  | EDiv _ _ | ELog _ => false
  | EIf _ a b => arith a && arith b
  end.

(* primitives that run on the unchanged tree, with their arity (after peeling baselines) *)
Fixpoint prim_ok (pr : prim) (nargs : nat) : bool :=
  match pr with
  | PFlipEnum | PFlipReinforce => Nat.eqb nargs 1
  | PNormalReparam | PNormalReinforce => Nat.eqb nargs 2
  | PBaseline p' => match nargs with S n => prim_ok p' n | O => false end
  | PFlipMVD | PFlipEnumPar | PCatEnumPar | PUniform => false
  end.
Fixpoint prim_exact (pr : prim) : bool :=     (* estimators whose expectation the polynomial spec describes *)
  match pr with
  | PFlipEnum | PFlipReinforce | PNormalReparam => true
  | PBaseline p' => prim_exact p'
  | _ => false
  end.
Fixpoint prim_det (pr : prim) : bool :=       (* no sampled value: enumeration / reparameterisation *)
  match pr with
  | PFlipEnum | PNormalReparam => true
  | PBaseline p' => prim_det p'
  | _ => false
  end.

(* sites that draw with a sub-key of the current key *)
Fixpoint prim_draws (pr : prim) : bool :=
  match pr with
  | PFlipEnum | PFlipEnumPar | PCatEnumPar => false
  | PBaseline p' => prim_draws p'
  | _ => true
  end.
(* tail-call primitives (TailCallADEVPrimitive.jvp_estimate) hand the UNSPLIT key to the continuation *)
Fixpoint prim_tail (pr : prim) : bool :=
  match pr with
  | PNormalReparam | PUniform => true
  | PBaseline p' => prim_tail p'
  | _ => false
  end.
Fixpoint draws (p : prog) : bool :=
  match p with
  | Ret _ => false
  | Sample pr _ k => prim_draws pr || draws k
  | SampleMvDiag _ _ _ => true
  | AddCost _ k => draws k
  | Cond _ t f k => draws t || draws f || draws k
  end.

Definition is_ret (p : prog) : bool := match p with Ret _ => true | _ => false end.
Definition is_tail (p : prog) : bool := match p with Ret (EV O) => true | _ => false end.

(* wf sel: programs of the region; `sel` says which primitives are admitted *)
Fixpoint wf (sel : prim -> bool) (p : prog) : bool :=
  match p with
  | Ret e => arith e
  | Sample pr args k => sel pr && prim_ok pr (length args) && forallb arith args && wf sel k
                        && negb (prim_tail pr && draws k)
  | SampleMvDiag locs scales k =>
      Nat.eqb (length locs) (length scales) && forallb arith locs && forallb arith scales && wf sel k
      && negb (draws k)
  | AddCost e k => arith e && wf sel k
  | Cond c t f k =>
      wf sel t && wf sel f && wf sel k && ((is_ret t && is_ret f) || is_tail k)
  end.

(* ---------------------------------------------------------------------------- *)
(* finite expectation over the uniform draws: u_d ranges over the grid i/N        *)
(* ---------------------------------------------------------------------------- *)
Fixpoint gsum (n : nat) (h : nat -> Q) : Q :=
  match n with O => 0 | S m => gsum m h + h m end.
Definition set_u (rs : rnd) (d : nat) (u : Q) : rnd :=
  fun i => if Nat.eqb i d then {| du := u; de := de (rs i); dv := dv (rs i) |} else rs i.
Definition grid (N i : nat) : Q := inject_Z (Z.of_nat i) / inject_Z (Z.of_nat N).
(* E over u_d, u_{d+1}, ..., u_{d+n-1}, each uniform on {0, 1/N, ..., (N-1)/N} *)
Fixpoint Eu (N n d : nat) (F : rnd -> Q) (rs : rnd) : Q :=
  match n with
  | O => F rs
  | S n' => gsum N (fun i => Eu N n' (S d) F (set_u rs d (grid N i))) / inject_Z (Z.of_nat N)
  end.
(* number of key splits along the deepest path *)
Fixpoint prim_depth (pr : prim) : nat :=
  match pr with
  | PFlipReinforce | PNormalReinforce => 1
  | PBaseline p' => prim_depth p'
  | _ => 0
  end.
Fixpoint udepth (p : prog) : nat :=
  match p with
  | Ret _ => 0
  | Sample pr _ k => prim_depth pr + udepth k
  | SampleMvDiag _ _ k => udepth k
  | AddCost _ k => udepth k
  | Cond _ t f k => Nat.max (Nat.max (udepth t) (udepth f)) (udepth k)
  end.
Definition on_grid (N : nat) (p : Q) : Prop :=
  exists j : nat, (0 < j < N)%nat /\ p == grid N j.
(* every flip_reinforce probability the interpreter evaluates (over both values of every flip)
   lies strictly inside (0,1), on the grid.  Region: nothing draws after a reparameterised site,
   so values bound there never reach a flip_reinforce. *)
Fixpoint pstrip (pr : prim) (args : list dual) : prim * list dual :=
  match pr, args with
  | PBaseline p', _ :: a' => pstrip p' a'
  | _, _ => (pr, args)
  end.
Section ProbsOk.
Variables lg dlg : Q -> Q.
Fixpoint probs_ok (N : nat) (p : prog) (env : list dual) (benv : list bool) : Prop :=
  match p with
  | Ret _ => True
  | Sample pr args k =>
      match pstrip pr (map (fun e => deval lg dlg e env benv) args) with
      | (PFlipReinforce, [q]) => on_grid N (fst q) /\ probs_ok N k env (true :: benv) /\ probs_ok N k env (false :: benv)
      | (PFlipEnum, [q]) => probs_ok N k env (true :: benv) /\ probs_ok N k env (false :: benv)
      | _ => True
      end
  | SampleMvDiag _ _ _ => True
  | AddCost _ k => probs_ok N k env benv
  | Cond c t f k =>
      probs_ok N t env benv /\ probs_ok N f env benv /\
      match (if nth c benv false then t else f) with
      | Ret e => probs_ok N k (deval lg dlg e env benv :: env) benv
      | _ => True
      end
  end.
End ProbsOk.

(* ---------------------------------------------------------------------------- *)
(* executable log for the correspondence (the theorems keep lg/dlg abstract)      *)
(*   fixed point, scale 2^64; |error| < 1e-15 on [2^-40, 2^40]                     *)
(* ---------------------------------------------------------------------------- *)
Definition S64 : Z := 18446744073709551616%Z.
Definition LN2 : Z := 12786308645202655660%Z.
Fixpoint atanh_series (n : nat) (j : Z) (zpow z2 acc : Z) : Z :=
  match n with
  | O => acc
  | S n' => atanh_series n' (j + 2)%Z (zpow * z2 / S64)%Z z2 (acc + zpow / j)%Z
  end.
Definition qlog (q : Q) : Q :=
  if Qle_bool q 0 then 0 else
  let n := Qnum q in let dd := Zpos (Qden q) in
  let k0 := (Z.log2 n - Z.log2 dd)%Z in
  (* m = q / 2^k0 in (1/2, 2) as fixed point *)
  let m0 := if (0 <=? k0)%Z then (n * S64 / (dd * 2 ^ k0))%Z else (n * 2 ^ (- k0) * S64 / dd)%Z in
  let '(m, k) := if (4 * S64 <? 3 * m0)%Z then ((m0 / 2)%Z, (k0 + 1)%Z) else (m0, k0) in
  let z := ((m - S64) * S64 / (m + S64))%Z in
  let z2 := (z * z / S64)%Z in
  let s := atanh_series 14 1%Z z z2 0%Z in
  Qmake (k * LN2 + 2 * s)%Z 1 / Qmake S64 1.

(* ---------------------------------------------------------------------------- *)
(* correspondence cases (engine C-adev)                                           *)
(* ---------------------------------------------------------------------------- *)
Definition close (tol a b scale : Q) : bool := Qle_bool (Qabs (a - b)) (tol * scale).
Definition tolQ : Q := 1 # 50000.       (* 2e-5, relative to 1 + |primal| + |tangent| of the model *)

Inductive acase :=
| CJvp (p : prog) (params : list dual) (rs : list draw) (want : option dual)
| CEst (p : prog) (xs : list Q) (rs : list draw) (want : option Q)
| CGrad (p : prog) (xs : list Q) (rs : list draw) (want : option (list Q)).

Definition mjvp := run_jvp qlog Qinv.
Definition scale_of (d : dual) : Q := 1 + Qabs (fst d) + Qabs (snd d).
Fixpoint all_close (tol sc : Q) (a b : list Q) : bool :=
  match a, b with
  | [], [] => true
  | x :: a', y :: b' => close tol x y sc && all_close tol sc a' b'
  | _, _ => false
  end.
Definition acase_ok (c : acase) : bool :=
  match c with
  | CJvp p params rs want =>
      match mjvp p params (rnd_of rs), want with
      | Some m, Some w => close tolQ (fst m) (fst w) (scale_of m) && close tolQ (snd m) (snd w) (scale_of m)
      | None, None => true
      | _, _ => false
      end
  | CEst p xs rs want =>
      match run_estimate qlog Qinv p xs (rnd_of rs), want with
      | Some m, Some w => close tolQ m w (1 + Qabs m)
      | None, None => true
      | _, _ => false
      end
  | CGrad p xs rs want =>
      match run_grad qlog Qinv p xs (rnd_of rs), run_estimate qlog Qinv p xs (rnd_of rs), want with
      | Some m, Some v, Some w =>
          all_close tolQ (1 + Qabs v + fold_right (fun x acc => Qabs x + acc) 0 m) m w
      | None, _, None => true
      | _, _, _ => false
      end
  end.
Fixpoint amismatches_from (n : nat) (cs : list acase) : list nat :=
  match cs with
  | [] => []
  | c :: r => if acase_ok c then amismatches_from (S n) r else n :: amismatches_from (S n) r
  end.
Definition amismatches := amismatches_from 0.
